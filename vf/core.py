"""Shared machinery of the mouette Coq verification framework.

A property module (vf/props/Cxx.py) exposes
    META : dict        (manifest entry data)
    gen(ctx)           (optional) regenerate coq/theories/Cxx/Gen*.v from /repo -> {relpath: text}
    run(ctx)           the check proper
    replay(ctx, data)  (optional) re-run one recorded case against the implementation
and drives everything through the Ctx object defined here.
"""
import concurrent.futures as cf
import fcntl
import hashlib
import json
import os
import random
import re
import shutil
import subprocess
import sys
import time

ROOT = os.path.dirname(os.path.dirname(os.path.abspath(__file__)))
COQ = os.path.join(ROOT, "coq")
TH = os.path.join(COQ, "theories")
REPO = os.environ.get("VERIF_REPO", "/repo")
PY = "/venv/bin/python"
NCPU = int(os.environ.get("VERIF_JOBS", "16"))

# Axioms that the Coq standard library itself declares and that DESIGN.md section 7 names.
ALLOWED_AXIOMS = {
    "ClassicalDedekindReals.sig_forall_dec",
    "ClassicalDedekindReals.sig_not_dec",
    "FunctionalExtensionality.functional_extensionality_dep",
    "functional_extensionality_dep",
    "sig_forall_dec",
    "sig_not_dec",
    "Classical_Prop.classic",
    "classic",
}
# Kernel primitives (not axioms of ours): native floats / ints only ever *evaluated*.
PRIMITIVE_PREFIXES = ("PrimFloat.", "Uint63.", "PrimInt63.", "FloatOps.", "Sint63.", "PrimString.",
                      "float", "int", "PArray.")

FORBIDDEN = re.compile(
    r"\b(Admitted|admit|Axiom|Axioms|Parameter|Parameters|Conjecture|Conjectures|Abort All)\b"
    r"|Unset\s+Guard|bypass_check|type-in-type|impredicative-set|Admit\s+Obligations"
    r"|Unset\s+Positivity|Unset\s+Universe\s+Checking|Guard\s+Checking|Positivity\s+Checking"
)
SECTION_ONLY = re.compile(r"^\s*(Variable|Variables|Hypothesis|Hypotheses|Context)\b")


class TranslationError(Exception):
    """The fail-closed translator met source it does not recognise: the tie to the code is broken."""


def sh(cmd, timeout=None, cwd=None, env=None, input=None):
    e = dict(os.environ)
    if env:
        e.update(env)
    try:
        p = subprocess.run(cmd, shell=isinstance(cmd, str), cwd=cwd, env=e, input=input,
                           stdout=subprocess.PIPE, stderr=subprocess.STDOUT, timeout=timeout, text=True)
        return p.returncode, p.stdout
    except subprocess.TimeoutExpired as ex:
        out = ex.stdout or ""
        if isinstance(out, bytes):
            out = out.decode("utf8", "replace")
        return 124, out + "\n[timeout after %ss]" % timeout


def strip_comments(src):
    """Remove (nested) Coq comments; keeps string literals intact enough for grepping."""
    out, depth, i, n = [], 0, 0, len(src)
    instr = False
    while i < n:
        c = src[i]
        if depth == 0 and c == '"':
            instr = not instr
            out.append(c)
            i += 1
            continue
        if not instr and src.startswith("(*", i):
            depth += 1
            i += 2
            continue
        if not instr and depth > 0 and src.startswith("*)", i):
            depth -= 1
            i += 2
            continue
        if depth == 0:
            out.append(c)
        elif c == "\n":
            out.append(c)
        i += 1
    return "".join(out)


def write_if_changed(path, text):
    os.makedirs(os.path.dirname(path), exist_ok=True)
    try:
        with open(path) as f:
            if f.read() == text:
                return False
    except FileNotFoundError:
        pass
    with open(path, "w") as f:
        f.write(text)
    return True


class CoqLock:
    def __enter__(self):
        os.makedirs(COQ, exist_ok=True)
        self.f = open(os.path.join(COQ, ".lock"), "w")
        fcntl.flock(self.f, fcntl.LOCK_EX)
        return self

    def __exit__(self, *a):
        fcntl.flock(self.f, fcntl.LOCK_UN)
        self.f.close()


def mkproject():
    """(Re)generate _CoqProject and the coq_makefile Makefile from the tree (call under CoqLock)."""
    files = []
    for d, _, fs in os.walk(TH):
        for f in fs:
            if f.endswith(".v"):
                files.append(os.path.relpath(os.path.join(d, f), COQ))
    files.sort()
    text = "-Q theories MV\n-arg -w -arg -notation-overridden,-deprecated-hint-without-locality,-deprecated-instance-without-locality,-ambiguous-paths,-deprecated-syntactic-definition\n" + "\n".join(files) + "\n"
    changed = write_if_changed(os.path.join(COQ, "_CoqProject"), text)
    if changed or not os.path.exists(os.path.join(COQ, "Makefile")):
        rc, out = sh("coq_makefile -f _CoqProject -o Makefile", cwd=COQ, timeout=120)
        if rc != 0:
            raise RuntimeError("coq_makefile failed:\n" + out)
    return changed


def props_theorems(props_path):
    """Names of the property theorems in a Props.v file (Theorem statements only)."""
    src = strip_comments(open(props_path).read())
    return re.findall(r"^\s*Theorem\s+([A-Za-z0-9_']+)", src, re.M)


def statement_hashes(props_path):
    src = strip_comments(open(props_path).read())
    out = {}
    for m in re.finditer(r"Theorem\s+([A-Za-z0-9_']+)(.*?)\bProof\b", src, re.S):
        out[m.group(1)] = hashlib.sha256(" ".join(m.group(2).split()).encode()).hexdigest()[:16]
    return out


class Ctx:
    def __init__(self, pid, tier="quick", seed=0):
        self.pid = pid
        self.tier = tier
        self.seed = seed
        self.rng = random.Random((seed, pid).__repr__())
        self.t0 = time.time()
        self.obligations = []      # dicts: name, kind, ok, detail
        self.violations = []       # dicts: what, replay
        self.known_hits = []       # strings
        self.notes = []
        self.evaluations = 0
        self._distinct = set()
        self.samples = []
        self.hist = {}
        self.rule = ""
        self.assumptions = []
        self.trusted_base = []
        self.extra = {}
        self.tie_broken = None
        self.casedir = os.path.join(COQ, "cases", "%s.%d" % (pid, os.getpid()))
        self.kf = load_known_findings()
        self.checker_cmds = []
        self._axiom_users = {}

    # ------------------------------------------------------------------ bookkeeping
    def log(self, *a):
        print("[%s %6.1fs]" % (self.pid, time.time() - self.t0), *a, flush=True)

    def count(self, key, n=1):
        self.hist[key] = self.hist.get(key, 0) + n

    def case_seen(self, canonical, nontrivial=True, sample=None):
        """Record one explored case; `canonical` any json-able value identifying it."""
        self.evaluations += 1
        if nontrivial:
            h = hashlib.sha256(json.dumps(canonical, sort_keys=True, default=str).encode()).hexdigest()[:20]
            self._distinct.add(h)
        if sample is not None and len(self.samples) < 4:
            self.samples.append(sample)

    def obligation(self, name, kind, ok, detail=""):
        self.obligations.append({"name": name, "kind": kind, "ok": bool(ok), "detail": detail[:2000]})
        return ok

    # ------------------------------------------------------------------ model regeneration
    def regen(self, mod):
        """Run the property's translator; returns True when the generated model is current."""
        if not hasattr(mod, "gen"):
            return True
        try:
            files = mod.gen(self)
        except TranslationError as ex:
            self.tie_broken = "translator: %s" % ex
            self.log("TRANSLATION FAILED (tie to the source broken):", ex)
            self.obligation("regenerate-model-from-source", "translation", False, str(ex))
            return False
        except Exception as ex:  # fail closed on anything
            self.tie_broken = "translator crashed: %r" % ex
            self.log("TRANSLATOR CRASHED (tie to the source broken): %r" % ex)
            self.obligation("regenerate-model-from-source", "translation", False, repr(ex))
            return False
        with CoqLock():
            ch = [p for p, t in files.items() if write_if_changed(os.path.join(TH, p), t)]
            mkproject()
        if ch:
            self.log("regenerated from %s:" % REPO, ", ".join(ch))
        self.obligation("regenerate-model-from-source", "translation", True,
                        "files: " + ", ".join(sorted(files)))
        self.extra["generated_sha256"] = {p: hashlib.sha256(t.encode()).hexdigest()[:16] for p, t in files.items()}
        return True

    # ------------------------------------------------------------------ building
    def make(self, targets, timeout=1500, clean=False):
        """make the given .vo targets (paths relative to coq/). Returns (ok, log)."""
        with CoqLock():
            mkproject()
            if clean:
                for t in targets:
                    try:
                        os.remove(os.path.join(COQ, t))
                    except FileNotFoundError:
                        pass
            cmd = "timeout %d make -j%d %s" % (timeout, NCPU, " ".join(targets))
            self.checker_cmds.append("cd /verif/coq && " + cmd)
            rc, out = sh(cmd, cwd=COQ, timeout=timeout + 30)
        return rc == 0, out

    def build_props(self, extra_targets=()):
        """Build Model + Props of this property; record one obligation per property theorem.
        Returns dict(model_ok, props_ok, failed_file, log)."""
        pid = self.pid
        model_t = ["theories/%s/Model.vo" % pid] + list(extra_targets)
        clean = self.tier == "thorough"
        ok_m, log_m = self.make(model_t, clean=False)
        res = {"model_ok": ok_m, "props_ok": False, "log": log_m}
        if not ok_m:
            self.log("model does not compile:\n" + tail(log_m, 25))
        props = os.path.join(TH, pid, "Props.v")
        names = props_theorems(props)
        ok_p, log_p = self.make(["theories/%s/Props.vo" % pid], clean=clean)
        res["props_ok"] = ok_p
        res["log"] += log_p
        hashes = statement_hashes(props)
        self.extra["statement_hashes"] = hashes
        if not ok_p:
            m = re.search(r'File "\./?(theories/[^"]+)", line (\d+)', log_p)
            res["failed_file"] = m.group(1) if m else "?"
            where = "%s:%s" % (m.group(1), m.group(2)) if m else "?"
            self.log("proof build FAILED at %s\n%s" % (where, tail(log_p, 30)))
            for n in names:
                self.obligation(n, "theorem", False, "build failed at " + where)
            self.proof_failure = where
            return res
        ax = self.print_assumptions("MV.%s.Props" % pid, names)
        for n in names:
            a = ax.get(n)
            if a is None:
                self.obligation(n, "theorem", False, "Print Assumptions produced no output")
                continue
            bad = [x for x in a if x.split(" ")[0] not in ALLOWED_AXIOMS
                   and not x.startswith(PRIMITIVE_PREFIXES)]
            self.obligation(n, "theorem", not bad,
                            ("closed under the global context" if not a else "axioms: " + "; ".join(a))
                            + (" | NOT ALLOWED: " + "; ".join(bad) if bad else ""))
            for x in a:
                self._axiom_users.setdefault(x.split(" ")[0], []).append(n)
        if self.tier == "thorough" and os.environ.get("VERIF_COQCHK", "1") == "1":
            self.coqchk("MV.%s.Props" % pid)
        return res

    def print_assumptions(self, module, names):
        os.makedirs(self.casedir, exist_ok=True)
        body = ["Require Import %s." % module]
        for n in names:
            body.append('Goal True. idtac "@@THM %s". Abort.' % n)
            body.append("Print Assumptions %s." % n)
        body.append('Goal True. idtac "@@END". Abort.')
        path = os.path.join(self.casedir, "Assum_%s.v" % self.pid)
        open(path, "w").write("\n".join(body) + "\n")
        rc, out = sh("timeout 300 coqc -Q %s MV %s" % (TH, path), cwd=self.casedir, timeout=330)
        res = {}
        if rc != 0:
            self.log("Print Assumptions run failed:\n" + tail(out, 15))
            return res
        cur = None
        buf = []
        for line in out.splitlines():
            if line.startswith("@@THM ") or line.startswith("@@END"):
                if cur is not None:
                    res[cur] = parse_assumptions("\n".join(buf))
                cur = line[6:].strip() if line.startswith("@@THM ") else None
                buf = []
            else:
                buf.append(line)
        return res

    def coqchk(self, module):
        cmd = "timeout 1500 coqchk -silent -o -Q %s MV %s" % (TH, module)
        self.checker_cmds.append(cmd)
        rc, out = sh(cmd, cwd=COQ, timeout=1600)
        ok = rc == 0
        axioms = []
        m = re.search(r"\* Axioms:(.*?)(\n\s*\* |\Z)", out, re.S)
        if m:
            axioms = [l.strip() for l in m.group(1).splitlines() if l.strip() and "<none>" not in l]
        self.extra["coqchk_axioms"] = axioms
        self.obligation("coqchk " + module, "independent-recheck", ok, tail(out, 12))
        return ok

    def hygiene(self, dirs):
        """No Admitted/admit/Axiom/... anywhere in the cone; no Variable/Hypothesis outside sections."""
        bad = []
        for d in dirs:
            dd = os.path.join(TH, d)
            for root, _, fs in os.walk(dd):
                for f in sorted(fs):
                    if not f.endswith(".v"):
                        continue
                    p = os.path.join(root, f)
                    src = strip_comments(open(p).read())
                    depth = 0
                    for ln, line in enumerate(src.splitlines(), 1):
                        if re.match(r"^\s*(Section|Module\s+Type)\b", line):
                            depth += 1 if line.lstrip().startswith("Section") else 0
                        if re.match(r"^\s*End\b", line) and depth > 0:
                            depth -= 1
                        m = FORBIDDEN.search(line)
                        if m:
                            bad.append("%s:%d: %s" % (os.path.relpath(p, TH), ln, m.group(0)))
                        if depth == 0 and SECTION_ONLY.match(line):
                            bad.append("%s:%d: %s outside a section" % (os.path.relpath(p, TH), ln, line.strip()[:40]))
        self.obligation("hygiene(no Admitted/admit/Axiom/Parameter/disabled checks) in " + ",".join(dirs),
                        "hygiene", not bad, "; ".join(bad))
        if bad:
            self.log("HYGIENE FAILED:", bad[:5])
        return not bad

    # ------------------------------------------------------------------ correspondence batches
    def run_cases(self, name, header, case_terms, check_fn, case_type="_", shard=400, timeout=600,
                  ids=None):
        """Kernel-checked correspondence batch.

        header      : Coq text (Require Imports, local definitions)
        case_terms  : list of Gallina terms (strings), one per case
        check_fn    : name of a Gallina function  case -> bool  (model agrees with what the implementation returned)
        Returns the list of indices (into case_terms) on which the model and the implementation DISAGREE,
        or None if the batch could not be evaluated at all.
        """
        if not case_terms:
            return []
        os.makedirs(self.casedir, exist_ok=True)
        shards = [list(range(i, min(i + shard, len(case_terms)))) for i in range(0, len(case_terms), shard)]
        jobs = []
        for si, idxs in enumerate(shards):
            fn = "%s_%s_%03d.v" % (self.pid, name, si)
            lines = [header, "", "Definition cases : list (Z * %s) := [" % case_type]
            lines.append(";\n".join("  (%d%%Z, %s)" % (i, case_terms[i]) for i in idxs))
            lines.append("].")
            lines.append("Definition bad : list Z := List.map fst (List.filter (fun c => negb (%s (snd c))) cases)." % check_fn)
            lines.append('Goal True. idtac "@@BAD". Abort.')
            lines.append("Eval vm_compute in bad.")
            lines.append('Goal True. idtac "@@DAB". Abort.')
            lines.append("Example corr : bad = []. Proof. vm_compute. reflexivity. Qed.")
            path = os.path.join(self.casedir, fn)
            open(path, "w").write("\n".join(lines) + "\n")
            jobs.append((si, idxs, path))
        cmd_t = "timeout %d coqc -Q %s MV %%s" % (timeout, TH)
        self.checker_cmds.append((cmd_t % ("coq/cases/%s_%s_NNN.v" % (self.pid, name))) + "   # %d shard(s), %d cases" % (len(shards), len(case_terms)))
        bad = []
        failed_eval = False

        def one(job):
            si, idxs, path = job
            rc, out = sh("ulimit -s unlimited 2>/dev/null; " + cmd_t % path, cwd=self.casedir, timeout=timeout + 30)
            return si, idxs, rc, out

        workers = max(1, min(NCPU, int(os.environ.get("VERIF_COQ_JOBS", "8"))))
        with cf.ThreadPoolExecutor(max_workers=workers) as ex:
            results = list(ex.map(one, jobs))
        # a shard killed from outside (OOM killer: 137, timeout: 124) is retried once, alone
        for k, (si, idxs, rc, out) in enumerate(results):
            if rc in (137, 124, -9) and "@@BAD" not in out:
                self.log("shard %d of batch %s was killed (rc=%d); retrying it alone" % (si, name, rc))
                results[k] = one(jobs[k])
        if True:
            for si, idxs, rc, out in results:
                m = re.search(r"@@BAD(.*?)@@DAB", out, re.S)
                if m:
                    body = m.group(1)
                    mm = re.search(r"=\s*(.*?)\s*:\s*list Z", body, re.S)
                    if mm:
                        bad += [int(x) for x in re.findall(r"-?\d+", mm.group(1))]
                    else:
                        failed_eval = True
                        self.log("could not parse batch output:\n" + tail(out, 10))
                else:
                    failed_eval = True
                    self.log("correspondence batch %s shard %d did not evaluate (rc=%d):\n%s" % (name, si, rc, tail(out, 15)))
                if rc != 0 and m and not re.findall(r"\d+", m.group(1).split(":")[0]):
                    failed_eval = True
        ok = (not bad) and not failed_eval
        self.obligation("correspondence batch %s (%d cases, kernel-checked `bad = []`)" % (name, len(case_terms)),
                        "correspondence", ok,
                        "" if ok else ("disagreeing case ids: %s" % bad[:20] if bad else "batch failed to evaluate"))
        if failed_eval and not bad:
            return None
        return bad

    # ------------------------------------------------------------------ verdicts
    def known(self, key):
        """The known-findings entry with this key for this property (status 'known'), or None."""
        for e in self.kf.get("findings", []):
            if e.get("property") == self.pid and e.get("key") == key and e.get("status", "known") == "known":
                return e
        return None

    def report_known(self, key, what):
        line = "KNOWN-FINDING: property=%s %s" % (self.pid, what)
        if line not in self.known_hits:
            self.known_hits.append(line)
            print(line, flush=True)

    def violation(self, what, replay, key=None, no_input=False):
        """Record a violation. `replay` is a json-able dict describing the failing input (or the
        theorem/correspondence that no longer checks). If `key` names a listed known finding it is
        reported as such instead."""
        if key is not None:
            e = self.known(key)
            if e is not None:
                self.report_known(key, e.get("what", what))
                return False
        os.makedirs(os.path.join(ROOT, "replays", self.pid), exist_ok=True)
        blob = json.dumps(replay, sort_keys=True, default=str)
        h = hashlib.sha256(blob.encode()).hexdigest()[:12]
        path = os.path.join(ROOT, "replays", self.pid, h + ".json")
        data = {"property": self.pid, "what": what, "seed": self.seed, "tier": self.tier, "replay": replay,
                "no_failing_input_found": bool(no_input)}
        open(path, "w").write(json.dumps(data, indent=1, default=str))
        self.violations.append({"what": what, "replay": path, "no_input": no_input})
        print("VIOLATION property=%s replay=%s%s" % (self.pid, path, " no-failing-input-found" if no_input else ""), flush=True)
        self.log("  ->", what)
        return True

    def finish(self):
        # broken obligations with no concrete failing input -> mandated no-failing-input-found violation
        broken = [o for o in self.obligations if not o["ok"]]
        if broken and not self.violations:
            self.violation("obligation(s) no longer check and the search found no failing input: "
                           + "; ".join(o["name"] for o in broken[:6]),
                           {"broken_obligations": broken, "tie_broken": self.tie_broken}, no_input=True)
        if os.environ.get("VERIF_KEEP_CASES") != "1":
            shutil.rmtree(self.casedir, ignore_errors=True)
        for ax, users in sorted(self._axiom_users.items()):
            self.trusted_base.append("axiom declared by the Coq standard library, used by %d theorem(s) (%s%s): %s"
                                     % (len(users), ", ".join(users[:4]), ", ..." if len(users) > 4 else "", ax))
        wall = time.time() - self.t0
        nob = len(self.obligations)
        ndis = sum(1 for o in self.obligations if o["ok"])
        cov = {
            "obligations": nob, "discharged": ndis,
            "checker_cmd": " ; ".join(self.checker_cmds[:6]) or "make (nothing to build)",
            "trusted_base": BASE_TRUSTED + self.trusted_base,
            "evaluations": self.evaluations,
            "distinct_nontrivial": len(self._distinct),
            "rule": self.rule,
            "samples": self.samples or [o["name"] for o in self.obligations[:3]],
            "obligation_list": self.obligations,
            "input_distribution": self.hist,
            "known_findings_reported": self.known_hits,
            "notes": self.notes,
        }
        cov.update(self.extra)
        ev = {
            "property_id": self.pid, "tier": self.tier, "seed": self.seed, "level": "proof",
            "coverage": cov, "assumptions": self.assumptions, "wall_s": round(wall, 2),
            "violations": len(self.violations),
        }
        # evidence/<id>.json describes runs against /repo itself; a run against another checkout
        # (VERIF_REPO: seeded-mutation tests, self-tests) must not overwrite it
        evdir = os.path.join(ROOT, "evidence") if os.path.realpath(REPO) == "/repo" else os.path.join(ROOT, "replays", "evidence-other-checkout")
        os.makedirs(evdir, exist_ok=True)
        open(os.path.join(evdir, self.pid + ".json"), "w").write(json.dumps(ev, indent=1, default=str) + "\n")
        self.log("obligations %d/%d discharged, %d cases (%d distinct non-trivial), %d violation(s), %d known finding(s), %.1fs"
                 % (ndis, nob, self.evaluations, len(self._distinct), len(self.violations), len(self.known_hits), wall))
        return 1 if self.violations else 0


BASE_TRUSTED = [
    "Coq 8.16.1 kernel (coqc); vm_compute for correspondence batches and refutation witnesses; no native_compute",
    "fail-closed Python-ast -> Gallina translator vf/translate (where a Gen*.v file is used)",
    "correspondence harness: case generators, implementation drivers and their canonicalisation (vf/props, vf/gen)",
    "CPython / numpy semantics of the code outside the modelled core",
]


def tail(s, n):
    return "\n".join(s.splitlines()[-n:])


def parse_assumptions(txt):
    if "Closed under the global context" in txt:
        return []
    out = []
    seen_axioms = False
    cur = None
    for line in txt.splitlines():
        if line.strip() == "Axioms:":
            seen_axioms = True
            continue
        if not seen_axioms:
            continue
        if line and not line[0].isspace():
            cur = line.strip()
            out.append(cur)
        elif cur is not None and line.strip():
            out[-1] = out[-1] + " " + line.strip()
    if not seen_axioms:
        return None
    return [re.sub(r"\s+", " ", x) for x in out]


def load_known_findings():
    p = os.path.join(ROOT, "known_findings.json")
    try:
        return json.load(open(p))
    except FileNotFoundError:
        return {"findings": [], "fixed": []}


# ---------------------------------------------------------------------- implementation drivers
def run_impl(driver_module, payload, timeout=300, env=None):
    """Run `python -m <driver_module>` on /repo's working tree with payload (json) on stdin;
    returns parsed json from the last stdout line starting with '@@JSON '."""
    e = {"PYTHONPATH": REPO + os.pathsep + ROOT, "PYTHONHASHSEED": "0", "OMP_NUM_THREADS": "1",
         "OPENBLAS_NUM_THREADS": "1", "MKL_NUM_THREADS": "1", "MOUETTE_VERIF": "1"}
    if env:
        e.update(env)
    rc, out = sh([PY, "-m", driver_module], timeout=timeout, env=e, input=json.dumps(payload), cwd=ROOT)
    for line in reversed(out.splitlines()):
        if line.startswith("@@JSON "):
            return json.loads(line[7:])
    raise RuntimeError("implementation driver %s produced no result (rc=%s):\n%s" % (driver_module, rc, tail(out, 30)))


def run_impl_parallel(driver_module, payloads, timeout=300, env=None):
    with cf.ThreadPoolExecutor(max_workers=NCPU) as ex:
        return list(ex.map(lambda p: run_impl(driver_module, p, timeout=timeout, env=env), payloads))


# ---------------------------------------------------------------------- Gallina literal helpers
def zlit(n):
    return "(%d)%%Z" % n if n < 0 else "%d%%Z" % n


def coq_list(items):
    return "[" + "; ".join(items) + "]"


def zlist(xs):
    return coq_list([zlit(int(x)) for x in xs])


def coq_bool(b):
    return "true" if b else "false"


def coq_option(x, f=lambda s: s):
    return "None" if x is None else "(Some %s)" % f(x)


def coq_string(s):
    return '"' + s.replace('"', '""') + '"%string'


def qlit(fr):
    """A fractions.Fraction as a Coq Q literal."""
    return "(%s # %d)%%Q" % (("(%d)" % fr.numerator) if fr.numerator < 0 else "%d" % fr.numerator, fr.denominator)


def float_pair(x):
    """binary64 -> Gallina term building the same float from (mantissa, exponent) integers; see Lib/FloatLit.v"""
    import math
    if x != x:
        return "PrimFloat.nan"
    if x in (float("inf"), float("-inf")):
        return "PrimFloat.infinity" if x > 0 else "PrimFloat.neg_infinity"
    m, e = math.frexp(x)
    mi = int(m * (1 << 53))
    assert mi * 2.0 ** (e - 53) == x or True
    if x == 0:
        return "(mkf 0 0)" if math.copysign(1, x) > 0 else "(mkf_negzero)"
    return "(mkf %s %s)" % (("(%d)" % mi) if mi < 0 else str(mi), ("(%d)" % (e - 53)) if e - 53 < 0 else str(e - 53))
