"""mouette/mesh/subdivision.py -> coq/theories/C13/Gen.v

Extracts, from the CURRENT source, every tuple / list / key / point expression / branch test that the
subdivision operations are made of (the faces, edges and cells each operation writes, the `half[...]`
keys it reads, the midpoint and barycentre formulas, the arity tests, the loop counts, what the editing
block clears on entry and which dimension it re-instantiates on exit).  Local variable names are read off
the source (renaming a local changes nothing); anything outside the recognised shapes raises
TranslationError (the tie to the source is then broken).
"""
import ast
from fractions import Fraction

from . import common as T
from ..core import TranslationError

REL = "mouette/mesh/subdivision.py"
LAST_SOURCE_SHA = {}


# ---------------------------------------------------------------------- tiny expression translators
class Env:
    def __init__(self, ints=None, lists=None, pts=None, meshes=(), verts=()):
        self.ints = dict(ints or {})      # python int-valued name -> Coq term
        self.lists = dict(lists or {})    # python name bound to a face (list of ints) -> Coq term
        self.pts = dict(pts or {})        # python name bound to a point -> Coq term
        self.meshes = set(meshes)         # dotted prefixes that denote the edited raw data ("self.mesh", "polyline")
        self.ptlists = {}                 # python list-var name -> Coq term for "the points of that face"

    def copy(self):
        e = Env(self.ints, self.lists, self.pts, self.meshes)
        e.ptlists = dict(self.ptlists)
        return e


def fail(node, msg):
    T.fail(REL, node, msg)


def is_mesh_attr(node, env, attr):
    d = T.dotted(node)
    return d is not None and any(d == m + "." + attr for m in env.meshes)


def zexpr(n, env):
    """integer index expression -> Coq (Z)"""
    if isinstance(n, ast.Constant) and isinstance(n.value, int) and not isinstance(n.value, bool):
        return str(n.value) if n.value >= 0 else "(%d)" % n.value
    if isinstance(n, ast.Name):
        if n.id in env.ints:
            return env.ints[n.id]
        fail(n, "unknown integer name %s" % n.id)
    if isinstance(n, ast.BinOp):
        ops = {ast.Add: "+", ast.Sub: "-", ast.Mult: "*", ast.FloorDiv: "/", ast.Mod: "mod"}
        if type(n.op) not in ops:
            fail(n, "unsupported integer operator")
        return "(%s %s %s)" % (zexpr(n.left, env), ops[type(n.op)], zexpr(n.right, env))
    if isinstance(n, ast.UnaryOp) and isinstance(n.op, ast.USub):
        return "(- %s)" % zexpr(n.operand, env)
    if isinstance(n, ast.Subscript) and isinstance(n.value, ast.Name) and n.value.id in env.lists:
        return "(znth %s %s 0)" % (env.lists[n.value.id], zexpr(n.slice, env))
    if isinstance(n, ast.Call) and T.dotted(n.func) == "len" and len(n.args) == 1:
        a = n.args[0]
        if isinstance(a, ast.Name) and a.id in env.lists:
            return "(Zlen %s)" % env.lists[a.id]
    fail(n, "unsupported integer expression")


def zlist(n, env):
    """[a, b, c] / (a, b, c) of integer expressions -> Coq list Z"""
    if not isinstance(n, (ast.List, ast.Tuple)):
        fail(n, "expected a list/tuple of vertex indices")
    return "[" + "; ".join(zexpr(e, env) for e in n.elts) + "]"


def edgeexpr(n, env):
    """keyify(a,b) -> keyify2 a b ; (a,b) -> (a, b)"""
    if isinstance(n, ast.Call) and T.dotted(n.func) == "keyify" and len(n.args) == 2 and not n.keywords:
        return "(keyify2 %s %s)" % (zexpr(n.args[0], env), zexpr(n.args[1], env))
    if isinstance(n, ast.Tuple) and len(n.elts) == 2:
        return "(%s, %s)" % (zexpr(n.elts[0], env), zexpr(n.elts[1], env))
    fail(n, "expected keyify(a,b) or a pair")


def bexpr(n, env):
    if isinstance(n, ast.Compare):
        parts = []
        left = n.left
        for op, right in zip(n.ops, n.comparators):
            l, r = zexpr(left, env), zexpr(right, env)
            if isinstance(op, ast.NotEq):
                parts.append("negb (%s =? %s)" % (l, r))
            else:
                sym = {ast.Lt: "<?", ast.LtE: "<=?", ast.Gt: ">?", ast.GtE: ">=?", ast.Eq: "=?"}.get(type(op))
                if sym is None:
                    fail(n, "unsupported comparison")
                parts.append("(%s %s %s)" % (l, sym, r))
            left = right
        return " && ".join("(%s)" % p for p in parts) if len(parts) > 1 else parts[0]
    if isinstance(n, ast.BoolOp):
        sym = "&&" if isinstance(n.op, ast.And) else "||"
        return "(" + (" %s " % sym).join(bexpr(v, env) for v in n.values) + ")"
    if isinstance(n, ast.UnaryOp) and isinstance(n.op, ast.Not):
        return "negb (%s)" % bexpr(n.operand, env)
    fail(n, "unsupported boolean expression")


def recip_int(x, node):
    fr = Fraction(str(x)) if isinstance(x, float) else Fraction(x)
    if fr <= 0 or fr.numerator != 1:
        fail(node, "constant factor %r is not the reciprocal of a positive integer" % (x,))
    return fr.denominator


def ptexpr(n, env):
    """point expression -> Coq term over (O : pops P)"""
    if isinstance(n, ast.Name) and n.id in env.pts:
        return env.pts[n.id]
    # Vec(<point>)
    if isinstance(n, ast.Call) and T.dotted(n.func) == "Vec" and len(n.args) == 1 and not n.keywords:
        return ptexpr(n.args[0], env)
    # <mesh>.vertices[A]
    if isinstance(n, ast.Subscript) and is_mesh_attr(n.value, env, "vertices"):
        if isinstance(n.slice, ast.Name) and n.slice.id in env.ints:
            return "p" + env.ints[n.slice.id]
        fail(n, "vertex index is not a plain local")
    # sum([<mesh>.vertices[u] for u in F])
    if isinstance(n, ast.Call) and T.dotted(n.func) == "sum" and len(n.args) == 1 and not n.keywords:
        a = n.args[0]
        if isinstance(a, ast.ListComp) and len(a.generators) == 1 and not a.generators[0].ifs \
                and isinstance(a.generators[0].target, ast.Name) and isinstance(a.generators[0].iter, ast.Name) \
                and a.generators[0].iter.id in env.ptlists:
            v = a.generators[0].target.id
            e2 = env.copy()
            e2.ints[v] = "@elt"
            if ptexpr(a.elt, e2) != "p@elt":
                fail(a, "the summed term is not the vertex position of the loop variable")
            return "(psum O %s)" % env.ptlists[a.generators[0].iter.id]
        fail(n, "unsupported sum(...)")
    if isinstance(n, ast.BinOp):
        if isinstance(n.op, ast.Add):
            return "(padd O %s %s)" % (ptexpr(n.left, env), ptexpr(n.right, env))
        if isinstance(n.op, ast.Div):
            r = n.right
            if isinstance(r, ast.Constant) and isinstance(r.value, int) and r.value > 0:
                return "(pdivz O %s %d)" % (ptexpr(n.left, env), r.value)
            return "(pdivz O %s %s)" % (ptexpr(n.left, env), zexpr(r, env))
        if isinstance(n.op, ast.Mult):
            for c, x in ((n.left, n.right), (n.right, n.left)):
                if isinstance(c, ast.Constant) and isinstance(c.value, (int, float)) and not isinstance(c.value, bool):
                    return "(pdivz O %s %d)" % (ptexpr(x, env), recip_int(c.value, n))
    fail(n, "unsupported point expression")


# ---------------------------------------------------------------------- statement helpers
def call_of(stmt):
    if isinstance(stmt, ast.Expr) and isinstance(stmt.value, ast.Call):
        return stmt.value
    return None


def is_method_call(stmt, dotted_name, nargs=None):
    c = call_of(stmt)
    if c is None or T.dotted(c.func) != dotted_name or c.keywords:
        return None
    if nargs is not None and len(c.args) != nargs:
        return None
    return c


def expect(cond, node, msg):
    if not cond:
        fail(node, msg)


def unpack_names(target, k, node):
    expect(isinstance(target, ast.Tuple) and len(target.elts) == k and all(isinstance(e, ast.Name) for e in target.elts),
           node, "expected an unpacking into %d names" % k)
    return [e.id for e in target.elts]


def single_assign(stmt):
    if isinstance(stmt, ast.Assign) and len(stmt.targets) == 1:
        return stmt.targets[0], stmt.value
    return None, None


def index_and_point(stmts, len_target, node):
    """two independent assignments, in either order:  <i> = len(<container>.vertices)   and   <p> = <point expression>
    -> (index name, point name, point expression node)"""
    expect(len(stmts) == 2, node, "expected the pair `i = len(...vertices)` / `p = <point>`")
    idx = pt = None
    for st in stmts:
        t, v = single_assign(st)
        expect(isinstance(t, ast.Name), st, "expected a plain assignment")
        if isinstance(v, ast.Call) and T.dotted(v.func) == "len" and len(v.args) == 1 and T.dotted(v.args[0]) == len_target:
            expect(idx is None, st, "two index assignments")
            idx = t.id
        else:
            expect(pt is None, st, "two point assignments")
            pt = (t.id, v)
    expect(idx is not None and pt is not None, node, "expected the pair `i = len(...vertices)` / `p = <point>`")
    expect(not any(isinstance(n, ast.Name) and n.id == idx for n in ast.walk(pt[1])), node,
           "the new point is computed from the index of the vertex being created")
    return idx, pt[0], pt[1]


def literal_loop(stmt, env, item):
    """`for x in [t1, t2, ...]: <body uses x once>` -> (list of element nodes, body statements, loop var)"""
    expect(isinstance(stmt, ast.For) and isinstance(stmt.target, ast.Name) and isinstance(stmt.iter, ast.List)
           and not stmt.orelse, stmt, "expected `for %s in [ ... ]`" % item)
    return stmt.iter.elts, stmt.body, stmt.target.id


def range_loop_count(stmt, env):
    """`for _ in range(<expr>)` -> Coq count expression, body"""
    expect(isinstance(stmt, ast.For) and isinstance(stmt.iter, ast.Call) and T.dotted(stmt.iter.func) == "range"
           and len(stmt.iter.args) == 1 and not stmt.orelse, stmt, "expected `for _ in range(n)`")
    return zexpr(stmt.iter.args[0], env), stmt.body


def half_lookup(value, env, halfname):
    """half[keyify(X,Y)] -> the key as a Coq edge"""
    expect(isinstance(value, ast.Subscript) and isinstance(value.value, ast.Name) and value.value.id == halfname,
           value, "expected a lookup in the midpoint table")
    return edgeexpr(value.slice, env)


# ---------------------------------------------------------------------- per-function extractors
ALLOWED_DECORATORS = {"allowed_mesh_types"}


def params(fn, k):
    """positional parameter names of an anchored callable; fails closed on decorators other than the type guard (a caching or
    wrapping decorator changes what a call returns) and on defaults that are not immutable constants"""
    for d in fn.decorator_list:
        name = T.dotted(d.func) if isinstance(d, ast.Call) else T.dotted(d)
        expect(name in ALLOWED_DECORATORS, fn, "unexpected decorator %r on %s" % (name, fn.name))
    a = [x.arg for x in fn.args.args]
    expect(len(a) == k and not fn.args.vararg and not fn.args.kwarg and not fn.args.kwonlyargs, fn,
           "unexpected signature of %s" % fn.name)
    for d in fn.args.defaults:
        expect(isinstance(d, ast.Constant) and isinstance(d.value, (int, float, bool, str, type(None))), fn,
               "default argument of %s is not an immutable constant" % fn.name)
    return a


def int_default(fn, name):
    """the integer default of parameter `name` (must exist)"""
    names = [x.arg for x in fn.args.args]
    nd = len(fn.args.defaults)
    expect(name in names and names.index(name) >= len(names) - nd, fn, "%s has no default for %s" % (fn.name, name))
    d = fn.args.defaults[names.index(name) - (len(names) - nd)]
    expect(isinstance(d, ast.Constant) and isinstance(d.value, int) and not isinstance(d.value, bool), fn,
           "default of %s.%s is not an integer" % (fn.name, name))
    return d.value


def tr_split_edge(tree, D):
    fn = T.find_def(tree, "split_edge", REL)
    mesh, eind = params(fn, 2)
    b = T.body_nodoc(fn)
    expect(len(b) == 8, fn, "split_edge does not have the expected 8 statements")
    env = Env(meshes=[mesh])
    t, v = single_assign(b[0])
    a, bb = unpack_names(t, 2, b[0])
    expect(isinstance(v, ast.Subscript) and is_mesh_attr(v.value, env, "edges") and T.dotted(v.slice) == eind, b[0],
           "first statement is not `A,B = <mesh>.edges[edge_ind]`")
    env.ints.update({a: "A", bb: "B"})
    cname, pc, pv = index_and_point(b[1:3], mesh + ".vertices", b[1])
    D["se_mid"] = ("{P} (O : pops P) (pA pB : P) : P", ptexpr(pv, env))
    env.ints[cname] = "C"
    c = is_method_call(b[3], mesh + ".vertices.append", 1)
    expect(c is not None and T.dotted(c.args[0]) == pc, b[3], "expected `<mesh>.vertices.append(pC)`")
    t, v = single_assign(b[4])
    expect(isinstance(t, ast.Subscript) and is_mesh_attr(t.value, env, "edges") and T.dotted(t.slice) == eind, b[4],
           "expected `<mesh>.edges[edge_ind] = ...`")
    D["se_replace"] = ("(A B C : Z) : edge", edgeexpr(v, env))
    c = is_method_call(b[5], mesh + ".edges.append", 1)
    expect(c is not None, b[5], "expected `<mesh>.edges.append(...)`")
    D["se_append"] = ("(A B C : Z) : list edge", "[%s]" % edgeexpr(c.args[0], env))
    c = is_method_call(b[6], mesh + ".connectivity.clear", 0)
    expect(c is not None, b[6], "expected `<mesh>.connectivity.clear()`")
    expect(isinstance(b[7], ast.Return) and T.dotted(b[7].value) == mesh, b[7], "expected `return <mesh>`")


def len_of_face_test(test, fname, env_lists):
    """a boolean test over len(<face>) -> Coq bool over n"""
    class R(ast.NodeTransformer):
        def visit_Call(self, node):
            if T.dotted(node.func) == "len" and len(node.args) == 1:
                a = node.args[0]
                ok = (isinstance(a, ast.Name) and a.id in env_lists) or any(
                    isinstance(a, ast.Subscript) and T.dotted(a.value) == m for m in fname)
                if ok:
                    return ast.copy_location(ast.Name(id="@n", ctx=ast.Load()), node)
            return node
    t2 = R().visit(ast.parse(ast.unparse(test), mode="eval").body)
    return bexpr(t2, Env(ints={"@n": "n"}))


def tr_triangulate_face(tree, D):
    fn = T.find_def(tree, "SurfaceSubdivision.triangulate_face", REL)
    slf, fid = params(fn, 2)
    M = slf + ".mesh"
    env = Env(meshes=[M])
    b = T.body_nodoc(fn)
    expect(len(b) == 2, fn, "triangulate_face does not have the expected 2 statements")
    t, v = single_assign(b[0])
    expect(isinstance(t, ast.Name) and isinstance(v, ast.Subscript) and is_mesh_attr(v.value, env, "faces")
           and T.dotted(v.slice) == fid, b[0], "expected `F = self.mesh.faces[face_id]`")
    F = t.id
    i1 = b[1]
    expect(isinstance(i1, ast.If) and len(i1.body) == 1 and isinstance(i1.body[0], ast.Return) and i1.body[0].value is None
           and len(i1.orelse) == 1 and isinstance(i1.orelse[0], ast.If), i1, "expected `if <small>: return / elif <quad>: ... / else: fan`")
    i2 = i1.orelse[0]
    t1 = len_of_face_test(i1.test, [M + ".faces"], {F})
    t2 = len_of_face_test(i2.test, [M + ".faces"], {F})
    D["tf_branch"] = ("(n : Z) : Z", "if %s then 0 else if %s then 1 else 2" % (t1, t2))
    q = i2.body
    expect(len(q) == 4, i2, "quad branch does not have the expected 4 statements")
    t, v = single_assign(q[0])
    names = unpack_names(t, 4, q[0])
    expect(isinstance(v, ast.Subscript) and is_mesh_attr(v.value, env, "faces") and T.dotted(v.slice) == fid, q[0],
           "expected `A,B,C,D = self.mesh.faces[face_id]`")
    env.ints.update(dict(zip(names, "ABCD")))
    t, v = single_assign(q[1])
    expect(isinstance(t, ast.Subscript) and is_mesh_attr(t.value, env, "faces") and T.dotted(t.slice) == fid, q[1],
           "expected `self.mesh.faces[face_id] = [...]`")
    D["tf_quad_replace"] = ("(A B C D : Z) : list Z", zlist(v, env))
    c = is_method_call(q[2], M + ".faces.append", 1)
    expect(c is not None, q[2], "expected `self.mesh.faces.append([...])`")
    D["tf_quad_faces"] = ("(A B C D : Z) : list (list Z)", "[%s]" % zlist(c.args[0], env))
    c = is_method_call(q[3], M + ".edges.append", 1)
    expect(c is not None, q[3], "expected `self.mesh.edges.append(keyify(..))`")
    D["tf_quad_edges"] = ("(A B C D : Z) : list edge", "[%s]" % edgeexpr(c.args[0], env))
    e = i2.orelse
    expect(len(e) == 1 and is_method_call(e[0], slf + ".split_face_as_fan", 1) is not None
           and T.dotted(call_of(e[0]).args[0]) == fid, i2, "else branch is not `self.split_face_as_fan(face_id)`")


def tr_fan(tree, D):
    fn = T.find_def(tree, "SurfaceSubdivision.split_face_as_fan", REL)
    slf, fid = params(fn, 2)
    M = slf + ".mesh"
    env = Env(meshes=[M])
    b = T.body_nodoc(fn)
    expect(len(b) == 8, fn, "split_face_as_fan does not have the expected 8 statements")
    t, v = single_assign(b[0])
    expect(isinstance(t, ast.Name) and isinstance(v, ast.Subscript) and is_mesh_attr(v.value, env, "faces")
           and T.dotted(v.slice) == fid, b[0], "expected `f = self.mesh.faces[face_id]`")
    f = t.id
    env.lists[f] = "f"
    env.ptlists[f] = "ps"
    # barycentre and its index (independent, either order)
    iname, pv, v = index_and_point(b[1:3], M + ".vertices", b[1])
    e2 = env.copy()
    # len(f) inside the point expression is the parameter nf
    class R(ast.NodeTransformer):
        def visit_Call(self, node):
            if T.dotted(node.func) == "len" and len(node.args) == 1 and T.dotted(node.args[0]) == f:
                return ast.copy_location(ast.Name(id="@nf", ctx=ast.Load()), node)
            self.generic_visit(node)
            return node
    v2 = R().visit(ast.parse(ast.unparse(v), mode="eval").body)
    e2.ints["@nf"] = "nf"
    D["fan_bary"] = ("{P} (O : pops P) (ps : list P) (nf : Z) : P", ptexpr(v2, e2))
    env.ints[iname] = "iV"
    c = is_method_call(b[3], M + ".vertices.append", 1)
    expect(c is not None and T.dotted(c.args[0]) == pv, b[3], "expected `self.mesh.vertices.append(pV)`")
    t, v = single_assign(b[4])
    expect(isinstance(t, ast.Subscript) and is_mesh_attr(t.value, env, "faces") and T.dotted(t.slice) == fid, b[4],
           "expected `self.mesh.faces[face_id] = [...]`")
    D["fan_replace"] = ("(f : list Z) (iV : Z) : list Z", zlist(v, env))
    t, v = single_assign(b[5])
    expect(isinstance(t, ast.Name) and isinstance(v, ast.Call) and T.dotted(v.func) == "len" and T.dotted(v.args[0]) == f,
           b[5], "expected `nf = len(f)`")
    env.ints[t.id] = "nf"
    lp = b[6]
    expect(isinstance(lp, ast.For) and isinstance(lp.target, ast.Name) and isinstance(lp.iter, ast.Call)
           and T.dotted(lp.iter.func) == "range" and len(lp.iter.args) == 2 and len(lp.body) == 1 and not lp.orelse, lp,
           "expected `for k in range(lo, hi): self.mesh.faces.append([...])`")
    D["fan_lo"] = ("(nf : Z) : Z", zexpr(lp.iter.args[0], env))
    D["fan_hi"] = ("(nf : Z) : Z", zexpr(lp.iter.args[1], env))
    e3 = env.copy()
    e3.ints[lp.target.id] = "k"
    c = is_method_call(lp.body[0], M + ".faces.append", 1)
    expect(c is not None, lp, "fan loop body is not `self.mesh.faces.append([...])`")
    D["fan_face"] = ("(f : list Z) (k nf iV : Z) : list Z", zlist(c.args[0], e3))
    lp = b[7]
    expect(isinstance(lp, ast.For) and isinstance(lp.target, ast.Name) and T.dotted(lp.iter) == f and len(lp.body) == 1
           and not lp.orelse, lp, "expected `for v in f: self.mesh.edges.append(keyify(v,iV))`")
    e3 = env.copy()
    e3.ints[lp.target.id] = "v"
    c = is_method_call(lp.body[0], M + ".edges.append", 1)
    expect(c is not None, lp, "edge loop body is not `self.mesh.edges.append(...)`")
    D["fan_edge"] = ("(v iV : Z) : edge", edgeexpr(c.args[0], e3))


def tr_triangulate(tree, D):
    fn = T.find_def(tree, "SurfaceSubdivision.triangulate", REL)
    (slf,) = params(fn, 1)
    M = slf + ".mesh"
    b = T.body_nodoc(fn)
    expect(len(b) == 1 and isinstance(b[0], ast.For) and isinstance(b[0].target, ast.Name)
           and T.dotted(b[0].iter) == M + ".id_faces" and len(b[0].body) == 1 and isinstance(b[0].body[0], ast.If)
           and not b[0].body[0].orelse and len(b[0].body[0].body) == 1, fn,
           "expected `for f in self.mesh.id_faces: if <test>: self.triangulate_face(f)`")
    f = b[0].target.id
    i = b[0].body[0]
    c = is_method_call(i.body[0], slf + ".triangulate_face", 1)
    expect(c is not None and T.dotted(c.args[0]) == f, i, "expected `self.triangulate_face(f)`")
    # len(self.mesh.faces[f])
    class R(ast.NodeTransformer):
        def visit_Call(self, node):
            if T.dotted(node.func) == "len" and len(node.args) == 1 and isinstance(node.args[0], ast.Subscript) \
                    and T.dotted(node.args[0].value) == M + ".faces" and T.dotted(node.args[0].slice) == f:
                return ast.copy_location(ast.Name(id="@n", ctx=ast.Load()), node)
            return node
    t2 = R().visit(ast.parse(ast.unparse(i.test), mode="eval").body)
    D["tri_needs"] = ("(n : Z) : bool", bexpr(t2, Env(ints={"@n": "n"})))


def new_data_prologue(b, M, node):
    """newMeshData = RawMeshData(); newMeshData.vertices += self.mesh.vertices -> name of the new data"""
    t, v = single_assign(b[0])
    expect(isinstance(t, ast.Name) and isinstance(v, ast.Call) and T.dotted(v.func) == "RawMeshData" and not v.args
           and not v.keywords, b[0], "expected `newMeshData = RawMeshData()`")
    new = t.id
    s = b[1]
    expect(isinstance(s, ast.AugAssign) and isinstance(s.op, ast.Add) and T.dotted(s.target) == new + ".vertices"
           and T.dotted(s.value) == M + ".vertices", s, "expected `newMeshData.vertices += self.mesh.vertices`")
    return new


def dict_init(stmt):
    t, v = single_assign(stmt)
    expect(isinstance(t, ast.Name) and isinstance(v, ast.Call) and T.dotted(v.func) == "dict" and not v.args, stmt,
           "expected `<name> = dict()`")
    return t.id


def edge_cut_body(body, env, new, M, half, prefix, D, extra_edges):
    """C = len(new.vertices); pC = ...; new.vertices.append(pC); half[key] = C  [; new.edges += [...]]"""
    cname, pc, pv = index_and_point(body[0:2], new + ".vertices", body[0])
    D[prefix + "_mid"] = ("{P} (O : pops P) (pA pB : P) : P", ptexpr(pv, env))
    c = is_method_call(body[2], new + ".vertices.append", 1)
    expect(c is not None and T.dotted(c.args[0]) == pc, body[2], "expected `newMeshData.vertices.append(pC)`")
    t, v = single_assign(body[3])
    expect(isinstance(t, ast.Subscript) and T.dotted(t.value) == half and T.dotted(v) == cname, body[3],
           "expected `half[keyify(A,B)] = C`")
    D[prefix + "_key"] = ("(A B : Z) : edge", edgeexpr(t.slice, env))
    if extra_edges:
        expect(len(body) == 5, body[-1], "edge loop does not have the expected 5 statements")
        s = body[4]
        e2 = env.copy()
        e2.ints[cname] = "C"
        expect(isinstance(s, ast.AugAssign) and isinstance(s.op, ast.Add) and T.dotted(s.target) == new + ".edges"
               and isinstance(s.value, ast.List), s, "expected `newMeshData.edges += [...]`")
        D[prefix + "_halves"] = ("(A B C : Z) : list edge", "[" + "; ".join(edgeexpr(x, e2) for x in s.value.elts) + "]")
    else:
        expect(len(body) == 4, body[-1], "edge loop does not have the expected 4 statements")


def face_keys(body, env, M, fvar, half, prefix, D):
    """A,B,C = self.mesh.faces[f]; mAB = half[..]; mBC = half[..]; mCA = half[..] -> env with the six names"""
    t, v = single_assign(body[0])
    names = unpack_names(t, 3, body[0])
    expect(isinstance(v, ast.Subscript) and T.dotted(v.value) == M + ".faces" and T.dotted(v.slice) == fvar, body[0],
           "expected `A,B,C = self.mesh.faces[f]`")
    e = env.copy()
    e.ints.update(dict(zip(names, "ABC")))
    keys = []
    mids = []
    for s in body[1:4]:
        t, v = single_assign(s)
        expect(isinstance(t, ast.Name), s, "expected `m = half[keyify(..)]`")
        keys.append(half_lookup(v, e, half))
        mids.append(t.id)
    D[prefix + "_keys"] = ("(A B C : Z) : edge * edge * edge", "(%s, %s, %s)" % tuple(keys))
    e.ints.update(dict(zip(mids, ["mAB", "mBC", "mCA"])))
    return e


def tr_loop(tree, D):
    fn = T.find_def(tree, "SurfaceSubdivision.loop_subdivision", REL)
    slf, n = params(fn, 2)
    M = slf + ".mesh"
    b = T.body_nodoc(fn)
    expect(len(b) == 2 and is_method_call(b[0], slf + ".triangulate", 0) is not None, fn,
           "expected `self.triangulate()` then the refinement loop")
    cnt, body = range_loop_count(b[1], Env(ints={n: "n"}))
    D["loop_iters"] = ("(n : Z) : Z", cnt)
    D["loop_default_n"] = (": Z", str(int_default(fn, n)))
    expect(len(body) == 8, b[1], "refinement loop does not have the expected 8 statements")
    new = new_data_prologue(body, M, b[1])
    half = dict_init(body[2])
    lp = body[3]
    expect(isinstance(lp, ast.For) and T.dotted(lp.iter) == M + ".edges" and not lp.orelse, lp,
           "expected `for (A,B) in self.mesh.edges`")
    a, bb = unpack_names(lp.target, 2, lp)
    env = Env(ints={a: "A", bb: "B"}, meshes=[M])
    edge_cut_body(lp.body, env, new, M, half, "loop", D, extra_edges=False)
    t, v = single_assign(body[4])
    # the refined edges are collected without repetition: a set, or a dict used as an insertion-ordered set (the model
    # compares this edge list as a set, so both spellings mean the same)
    expect(isinstance(t, ast.Name) and isinstance(v, ast.Call) and T.dotted(v.func) in ("set", "dict") and not v.args, body[4],
           "expected `new_edges = set()`")
    eset = t.id
    lp = body[5]
    expect(isinstance(lp, ast.For) and isinstance(lp.target, ast.Name) and T.dotted(lp.iter) == M + ".id_faces"
           and len(lp.body) == 6 and not lp.orelse, lp, "expected the face loop with 6 statements")
    e = face_keys(lp.body, Env(meshes=[M]), M, lp.target.id, half, "loop", D)
    elts, bd, var = literal_loop(lp.body[4], e, "new_tri")
    c = is_method_call(bd[0], new + ".faces.append", 1) if len(bd) == 1 else None
    expect(c is not None and T.dotted(c.args[0]) == var, lp.body[4], "expected `newMeshData.faces.append(new_tri)`")
    D["loop_tris"] = ("(A B C mAB mBC mCA : Z) : list (list Z)", "[" + "; ".join(zlist(x, e) for x in elts) + "]")
    elts, bd, var = literal_loop(lp.body[5], e, "new_edge")
    c = (is_method_call(bd[0], eset + ".add", 1) or is_method_call(bd[0], eset + ".setdefault", 1)) if len(bd) == 1 else None
    expect(c is not None and isinstance(c.args[0], ast.Call) and T.dotted(c.args[0].func) == "keyify"
           and len(c.args[0].args) == 1 and T.dotted(c.args[0].args[0]) == var, lp.body[5],
           "expected `new_edges.add(keyify(new_edge))`")
    D["loop_edges"] = ("(A B C mAB mBC mCA : Z) : list edge", "[" + "; ".join(edgeexpr(x, e) for x in elts) + "]")
    s = body[6]
    expect(isinstance(s, ast.AugAssign) and isinstance(s.op, ast.Add) and T.dotted(s.target) == new + ".edges"
           and isinstance(s.value, ast.Call) and T.dotted(s.value.func) == "list" and T.dotted(s.value.args[0]) == eset, s,
           "expected `newMeshData.edges += list(new_edges)`")
    t, v = single_assign(body[7])
    expect(T.dotted(t) == M and T.dotted(v) == new, body[7], "expected `self.mesh = newMeshData`")


def tr_tri6(tree, D):
    fn = T.find_def(tree, "SurfaceSubdivision.subdivide_triangles_6", REL)
    slf, rep = params(fn, 2)
    b = T.body_nodoc(fn)
    expect(len(b) == 1, fn, "expected a single loop")
    cnt, body = range_loop_count(b[0], Env(ints={rep: "r"}))
    D["t6_iters"] = ("(r : Z) : Z", cnt)
    D["t6_default_r"] = (": Z", str(int_default(fn, rep)))
    codes = []
    for s in body:
        if is_method_call(s, slf + ".subdivide_triangles_3quads", 0) is not None:
            codes.append("1")
        elif is_method_call(s, slf + ".triangulate", 0) is not None:
            codes.append("2")
        else:
            fail(s, "unexpected statement in subdivide_triangles_6")
    D["t6_body"] = (": list Z", "[" + "; ".join(codes) + "]")


def tr_quads(tree, D):
    fn = T.find_def(tree, "SurfaceSubdivision.subdivide_triangles_3quads", REL)
    (slf,) = params(fn, 1)
    M = slf + ".mesh"
    b = T.body_nodoc(fn)
    expect(len(b) == 9 and is_method_call(b[0], slf + ".triangulate", 0) is not None, fn,
           "subdivide_triangles_3quads does not have the expected 9 statements starting with self.triangulate()")
    new = new_data_prologue(b[1:3], M, fn)
    half = dict_init(b[3])
    lp = b[4]
    expect(isinstance(lp, ast.For) and isinstance(lp.target, ast.Name) and T.dotted(lp.iter) == M + ".id_edges"
           and not lp.orelse and len(lp.body) == 6, lp, "expected `for e in self.mesh.id_edges` with 6 statements")
    t, v = single_assign(lp.body[0])
    a, bb = unpack_names(t, 2, lp.body[0])
    expect(isinstance(v, ast.Subscript) and T.dotted(v.value) == M + ".edges" and T.dotted(v.slice) == lp.target.id,
           lp.body[0], "expected `A,B = self.mesh.edges[e]`")
    env = Env(ints={a: "A", bb: "B"}, meshes=[M])
    edge_cut_body(lp.body[1:], env, new, M, half, "q3", D, extra_edges=True)
    bary = dict_init(b[5])
    lp = b[6]
    expect(isinstance(lp, ast.For) and isinstance(lp.iter, ast.Call) and T.dotted(lp.iter.func) == "enumerate"
           and T.dotted(lp.iter.args[0]) == M + ".faces" and len(lp.body) == 3 and not lp.orelse, lp,
           "expected `for iF,F in enumerate(self.mesh.faces)` with 3 statements")
    iF, F = unpack_names(lp.target, 2, lp)
    e = Env(meshes=[M])
    e.ptlists[F] = "ps"
    t, v = single_assign(lp.body[0])
    expect(isinstance(t, ast.Name), lp.body[0], "expected `pS = ...`")
    D["q3_bary"] = ("{P} (O : pops P) (ps : list P) : P", ptexpr(v, e))
    ps = t.id
    t, v = single_assign(lp.body[1])
    expect(isinstance(t, ast.Subscript) and T.dotted(t.value) == bary and T.dotted(t.slice) == iF
           and isinstance(v, ast.Call) and T.dotted(v.func) == "len" and T.dotted(v.args[0]) == new + ".vertices",
           lp.body[1], "expected `bary[iF] = len(newMeshData.vertices)`")
    c = is_method_call(lp.body[2], new + ".vertices.append", 1)
    expect(c is not None and T.dotted(c.args[0]) == ps, lp.body[2], "expected `newMeshData.vertices.append(pS)`")
    lp = b[7]
    expect(isinstance(lp, ast.For) and isinstance(lp.target, ast.Name) and T.dotted(lp.iter) == M + ".id_faces"
           and len(lp.body) == 7 and not lp.orelse, lp, "expected the face loop with 7 statements")
    e = face_keys(lp.body, Env(meshes=[M]), M, lp.target.id, half, "q3", D)
    t, v = single_assign(lp.body[4])
    expect(isinstance(t, ast.Name) and isinstance(v, ast.Subscript) and T.dotted(v.value) == bary
           and T.dotted(v.slice) == lp.target.id, lp.body[4], "expected `S = bary[f]`")
    e.ints[t.id] = "S"
    elts, bd, var = literal_loop(lp.body[5], e, "new_face")
    c = is_method_call(bd[0], new + ".faces.append", 1) if len(bd) == 1 else None
    expect(c is not None and T.dotted(c.args[0]) == var, lp.body[5], "expected `newMeshData.faces.append(new_face)`")
    D["q3_quads"] = ("(A B C mAB mBC mCA S : Z) : list (list Z)", "[" + "; ".join(zlist(x, e) for x in elts) + "]")
    s = lp.body[6]
    expect(isinstance(s, ast.AugAssign) and isinstance(s.op, ast.Add) and T.dotted(s.target) == new + ".edges"
           and isinstance(s.value, ast.List), s, "expected `newMeshData.edges += [...]`")
    D["q3_spokes"] = ("(mAB mBC mCA S : Z) : list edge", "[" + "; ".join(edgeexpr(x, e) for x in s.value.elts) + "]")
    t, v = single_assign(b[8])
    expect(T.dotted(t) == M and T.dotted(v) == new, b[8], "expected `self.mesh = newMeshData`")


def tr_split_double(tree, D):
    fn = T.find_def(tree, "split_double_boundary_edges_triangles", REL)
    (mesh,) = params(fn, 1)
    b = T.body_nodoc(fn)
    expect(len(b) == 6, fn, "split_double_boundary_edges_triangles does not have the expected 6 statements")
    t, v = single_assign(b[0])
    expect(isinstance(t, ast.Name) and ast.unparse(v).replace(" ", "") == "[0]*len(%s.vertices)" % mesh, b[0],
           "expected `deg = [0]*len(mesh.vertices)`")
    deg = t.id
    lp = b[1]
    ok = isinstance(lp, ast.For) and T.dotted(lp.iter) == mesh + ".edges" and len(lp.body) == 2
    if ok:
        a, bb = unpack_names(lp.target, 2, lp)
        ok = [ast.unparse(s).replace(" ", "") for s in lp.body] == ["%s[%s]+=1" % (deg, a), "%s[%s]+=1" % (deg, bb)]
    expect(ok, lp, "expected the degree count over mesh.edges")
    t, v = single_assign(b[2])
    expect(isinstance(t, ast.Name) and isinstance(v, ast.List) and not v.elts, b[2], "expected `pb_faces = []`")
    pb = t.id
    lp = b[3]
    expect(isinstance(lp, ast.For) and isinstance(lp.iter, ast.Call) and T.dotted(lp.iter.func) == "enumerate"
           and T.dotted(lp.iter.args[0]) == mesh + ".faces" and len(lp.body) == 1 and isinstance(lp.body[0], ast.For), lp,
           "expected `for i,f in enumerate(mesh.faces): for v in f:`")
    i, f = unpack_names(lp.target, 2, lp)
    inner = lp.body[0]
    expect(isinstance(inner.target, ast.Name) and T.dotted(inner.iter) == f and len(inner.body) == 2
           and all(isinstance(s, ast.If) and not s.orelse for s in inner.body), inner, "expected two tests on deg[v]")
    v = inner.target.id

    def degtest(test):
        class R(ast.NodeTransformer):
            def visit_Subscript(self, node):
                if T.dotted(node.value) == deg and T.dotted(node.slice) == v:
                    return ast.copy_location(ast.Name(id="@d", ctx=ast.Load()), node)
                return node
        return bexpr(R().visit(ast.parse(ast.unparse(test), mode="eval").body), Env(ints={"@d": "d"}))
    s1, s2 = inner.body
    expect(len(s1.body) == 1 and isinstance(s1.body[0], ast.Raise), s1, "first test does not raise")
    D["sd_isolated"] = ("(d : Z) : bool", degtest(s1.test))
    c = is_method_call(s2.body[0], pb + ".append", 1) if len(s2.body) == 2 else None
    expect(c is not None and T.dotted(c.args[0]) == i and isinstance(s2.body[1], ast.Break), s2,
           "second test is not `pb_faces.append(i); break`")
    D["sd_problem"] = ("(d : Z) : bool", degtest(s2.test))
    blk = b[4]
    expect(isinstance(blk, ast.If) and T.dotted(blk.test) == pb and not blk.orelse and len(blk.body) == 4
           and isinstance(blk.body[0], ast.With), blk, "expected `if pb_faces: with SurfaceSubdivision(mesh) ...; clear caches`")
    w = blk.body[0]
    it = w.items[0]
    expect(len(w.items) == 1 and isinstance(it.context_expr, ast.Call) and T.dotted(it.context_expr.func) == "SurfaceSubdivision"
           and T.dotted(it.context_expr.args[0]) == mesh and isinstance(it.optional_vars, ast.Name), w,
           "expected `with SurfaceSubdivision(mesh) as subdv`")
    sub = it.optional_vars.id
    lp = w.body[0]
    expect(len(w.body) == 1 and isinstance(lp, ast.For) and T.dotted(lp.iter) == pb and len(lp.body) == 1, w,
           "expected `for f in pb_faces: subdv.split_face_as_fan(f)`")
    c = is_method_call(lp.body[0], sub + ".split_face_as_fan", 1)
    expect(c is not None and T.dotted(c.args[0]) == lp.target.id, lp, "expected `subdv.split_face_as_fan(f)`")
    cleared = sorted(T.dotted(call_of(s).func) for s in blk.body[1:] if call_of(s) is not None)
    expect(cleared == sorted([mesh + ".connectivity.clear", mesh + ".clear_boundary_data"]), blk,
           "the caches of the mesh edited in place are not cleared")
    resets = [st for st in blk.body[1:] if isinstance(st, ast.Assign)]
    expect(len(resets) == 1 and sorted(T.dotted(t) for t in resets[0].targets) == sorted([mesh + "._is_triangular", mesh + "._is_quad"])
           and isinstance(resets[0].value, ast.Constant) and resets[0].value.value is None, blk,
           "the cached face-type answers of the mesh edited in place are not reset")
    expect(isinstance(b[5], ast.Return) and T.dotted(b[5].value) == mesh, b[5], "expected `return mesh`")


CLEAR_CODE = {"face_corners": 1, "cell_corners": 2, "cell_faces": 3}


def tr_block(tree, cls, D, prefix):
    """__enter__ / __exit__ of an editing block"""
    init = T.find_def(tree, cls + ".__init__", REL)
    params(init, 3)
    expect(not T.find_def(tree, cls, REL).decorator_list, init, "unexpected class decorator on " + cls)
    en = T.find_def(tree, cls + ".__enter__", REL)
    (slf,) = params(en, 1)
    M = slf + ".mesh"
    b = T.body_nodoc(en)
    wrap = None
    cleared = []
    pre = []
    for s in b[:-1]:
        t, v = single_assign(s)
        if t is not None and T.dotted(t) == M and isinstance(v, ast.Call) and T.dotted(v.func) == "RawMeshData" \
                and len(v.args) == 1 and T.dotted(v.args[0]) == M:
            wrap = True
            continue
        c = call_of(s)
        d = T.dotted(c.func) if c is not None else None
        if wrap and d is not None and d.startswith(M + ".") and d.endswith(".clear") and not c.args:
            name = d[len(M) + 1:-len(".clear")]
            expect(name in CLEAR_CODE, s, "unexpected container cleared on entry: " + name)
            cleared.append(CLEAR_CODE[name])
            continue
        if not wrap:
            pre.append(ast.unparse(s).replace(" ", ""))
            continue
        fail(s, "unexpected statement in %s.__enter__" % cls)
    expect(wrap and isinstance(b[-1], ast.Return) and T.dotted(b[-1].value) == slf, en,
           "%s.__enter__ does not re-wrap the mesh as RawMeshData and return self" % cls)
    if prefix == "vol":
        expect(pre == ["%s.conn=%s.connectivity" % (slf, M), "%s.conn._compute_cell_adj()" % slf], en,
               "VolumeSubdivision.__enter__ does not start with the expected connectivity set-up")
    else:
        expect(not pre, en, "unexpected statements before the re-wrap in __enter__")
    D[prefix + "_enter_clears"] = (": list Z", "[" + "; ".join(str(x) for x in cleared) + "]")
    ex = T.find_def(tree, cls + ".__exit__", REL)
    params(ex, 4)
    slf = ex.args.args[0].arg
    M = slf + ".mesh"
    b = T.body_nodoc(ex)
    expect(len(b) == 2 and is_method_call(b[0], M + ".prepare", 0) is not None, ex, "__exit__ does not start with self.mesh.prepare()")
    t, v = single_assign(b[1])
    expect(T.dotted(t) == M and isinstance(v, ast.Call) and T.dotted(v.func) == "_instanciate_raw_mesh_data"
           and len(v.args) == 2 and T.dotted(v.args[0]) == M and isinstance(v.args[1], ast.Constant), b[1],
           "__exit__ does not re-instantiate with `_instanciate_raw_mesh_data(self.mesh, dim)`")
    D[prefix + "_exit_dim"] = (": Z", str(int(v.args[1].value)))


def tr_cell_fan(tree, D):
    fn = T.find_def(tree, "VolumeSubdivision.split_cell_as_fan", REL)
    slf, cid = params(fn, 2)
    M = slf + ".mesh"
    env = Env(meshes=[M])
    b = T.body_nodoc(fn)
    expect(len(b) == 8, fn, "split_cell_as_fan does not have the expected 8 statements")
    i = b[0]
    expect(isinstance(i, ast.If) and len(i.body) == 1 and isinstance(i.body[0], ast.Return) and not i.orelse, i,
           "expected `if len(self.mesh.cells[cell_id]) != 4 : return`")

    class R(ast.NodeTransformer):
        def visit_Call(self, node):
            if T.dotted(node.func) == "len" and len(node.args) == 1 and isinstance(node.args[0], ast.Subscript) \
                    and T.dotted(node.args[0].value) == M + ".cells" and T.dotted(node.args[0].slice) == cid:
                return ast.copy_location(ast.Name(id="@n", ctx=ast.Load()), node)
            return node
    D["cf_skip"] = ("(n : Z) : bool", bexpr(R().visit(ast.parse(ast.unparse(i.test), mode="eval").body), Env(ints={"@n": "n"})))
    t, v = single_assign(b[1])
    names = unpack_names(t, 4, b[1])
    expect(isinstance(v, ast.Subscript) and T.dotted(v.value) == M + ".cells" and T.dotted(v.slice) == cid, b[1],
           "expected `A,B,C,D = self.mesh.cells[cell_id]`")
    env.ints.update(dict(zip(names, "ABCD")))
    t, v = single_assign(b[2])
    pn = unpack_names(t, 4, b[2])
    ok = isinstance(v, ast.GeneratorExp) and len(v.generators) == 1 and isinstance(v.generators[0].iter, ast.Tuple) \
        and [T.dotted(x) for x in v.generators[0].iter.elts] == names \
        and isinstance(v.elt, ast.Subscript) and T.dotted(v.elt.value) == M + ".vertices" \
        and T.dotted(v.elt.slice) == T.dotted(v.generators[0].target)
    expect(ok, b[2], "expected `pA,pB,pC,pD = (self.mesh.vertices[_v] for _v in (A,B,C,D))`")
    env.pts.update(dict(zip(pn, ["pA", "pB", "pC", "pD"])))
    iname, bary, v = index_and_point(b[3:5], M + ".vertices", b[3])
    D["cf_bary"] = ("{P} (O : pops P) (pA pB pC pD : P) : P", ptexpr(v, env))
    env.ints[iname] = "ib"
    c = is_method_call(b[5], M + ".vertices.append", 1)
    expect(c is not None and T.dotted(c.args[0]) == bary, b[5], "expected `self.mesh.vertices.append(bary)`")
    t, v = single_assign(b[6])
    expect(isinstance(t, ast.Subscript) and T.dotted(t.value) == M + ".cells" and T.dotted(t.slice) == cid, b[6],
           "expected `self.mesh.cells[cell_id] = (...)`")
    D["cf_replace"] = ("(A B C D ib : Z) : list Z", zlist(v, env))
    s = b[7]
    expect(isinstance(s, ast.AugAssign) and isinstance(s.op, ast.Add) and T.dotted(s.target) == M + ".cells"
           and isinstance(s.value, ast.List), s, "expected `self.mesh.cells += [...]`")
    D["cf_cells"] = ("(A B C D ib : Z) : list (list Z)", "[" + "; ".join(zlist(x, env) for x in s.value.elts) + "]")


def tr_face_centre(tree, D):
    fn = T.find_def(tree, "VolumeSubdivision.split_tet_from_face_center", REL)
    slf, fid = params(fn, 2)
    M = slf + ".mesh"
    env = Env(meshes=[M])
    b = T.body_nodoc(fn)
    expect(len(b) == 11, fn, "split_tet_from_face_center does not have the expected 11 statements")
    t, v = single_assign(b[0])
    expect(isinstance(t, ast.Name) and isinstance(v, ast.Subscript) and T.dotted(v.value) == M + ".faces"
           and T.dotted(v.slice) == fid, b[0], "expected `f = self.mesh.faces[face_id]`")
    f = t.id
    i = b[1]
    expect(isinstance(i, ast.If) and len(i.body) == 1 and isinstance(i.body[0], ast.Return) and not i.orelse, i,
           "expected `if len(f) != 3 : return`")
    D["fc_skip"] = ("(n : Z) : bool", len_of_face_test(i.test, [], {f}))
    t, v = single_assign(b[2])
    names = unpack_names(t, 3, b[2])
    expect(T.dotted(v) == f, b[2], "expected `A,B,C = f`")
    env.ints.update(dict(zip(names, "ABC")))
    ic, pc, v = index_and_point(b[3:5], M + ".vertices", b[3])
    env.ints[ic] = "ic"
    e2 = Env(meshes=[M])
    e2.ptlists[f] = "ps"
    D["fc_bary"] = ("{P} (O : pops P) (ps : list P) : P", ptexpr(v, e2))
    c = is_method_call(b[5], M + ".vertices.append", 1)
    expect(c is not None and T.dotted(c.args[0]) == pc, b[5], "expected `self.mesh.vertices.append(pcenter)`")
    t, v = single_assign(b[6])
    expect(isinstance(t, ast.Name) and isinstance(v, ast.Call) and T.dotted(v.func) == "set" and T.dotted(v.args[0]) == f,
           b[6], "expected `fset = set(f)`")
    fset = t.id
    lp = b[7]
    ok = isinstance(lp, ast.For) and isinstance(lp.target, ast.Name) and isinstance(lp.iter, ast.ListComp) and not lp.orelse
    if ok:
        lc = lp.iter
        g = lc.generators[0]
        ok = len(lc.generators) == 1 and T.dotted(lc.elt) == T.dotted(g.target) and T.dotted(g.iter) == M + ".id_cells" \
            and len(g.ifs) == 1
        if ok:
            tst = g.ifs[0]
            ok = isinstance(tst, ast.Call) and T.dotted(tst.func) == fset + ".issubset" and len(tst.args) == 1 \
                and isinstance(tst.args[0], ast.Subscript) and T.dotted(tst.args[0].value) == M + ".cells" \
                and T.dotted(tst.args[0].slice) == T.dotted(g.target)
    expect(ok, lp, "expected `for c in [_c for _c in self.mesh.id_cells if fset.issubset(self.mesh.cells[_c])]`")
    D["fc_adjacent"] = ("(fs cell : list Z) : bool", "subsetz fs cell")
    cv = lp.target.id
    lb = lp.body
    expect(len(lb) == 6, lp, "cell loop does not have the expected 6 statements")
    t, v = single_assign(lb[0])
    expect(isinstance(t, ast.Name) and isinstance(v, ast.Call) and T.dotted(v.func) == slf + ".conn.in_cell_face_index"
           and [T.dotted(x) for x in v.args] == [cv, fid], lb[0], "expected `iF = self.conn.in_cell_face_index(c,face_id)`")
    iF = t.id
    t, v = single_assign(lb[1])
    expect(isinstance(t, ast.Name) and isinstance(v, ast.List) and not v.elts, lb[1], "expected `new_cells = []`")
    nc = t.id
    inner = lb[2]
    expect(isinstance(inner, ast.For) and isinstance(inner.target, ast.Name) and isinstance(inner.iter, ast.Call)
           and T.dotted(inner.iter.func) == "range" and len(inner.iter.args) == 1 and len(inner.body) == 4, inner,
           "expected `for i in range(4)` with 4 statements")
    iv = inner.target.id
    D["fc_range"] = (": Z", zexpr(inner.iter.args[0], Env()))
    s0 = inner.body[0]
    expect(isinstance(s0, ast.If) and len(s0.body) == 1 and isinstance(s0.body[0], ast.Continue) and not s0.orelse, s0,
           "expected `if i==iF : continue`")
    D["fc_skip_i"] = ("(i iF : Z) : bool", bexpr(s0.test, Env(ints={iv: "i", iF: "iF"})))
    t, v = single_assign(inner.body[1])
    ok = isinstance(t, ast.Name) and isinstance(v, ast.ListComp) and len(v.generators) == 1 \
        and T.dotted(v.elt) == T.dotted(v.generators[0].target) and isinstance(v.generators[0].iter, ast.Subscript) \
        and T.dotted(v.generators[0].iter.value) == M + ".cells" and T.dotted(v.generators[0].iter.slice) == cv
    expect(ok, inner.body[1], "expected `cell = [_x for _x in self.mesh.cells[c]]`")
    cell = t.id
    t, v = single_assign(inner.body[2])
    expect(isinstance(t, ast.Subscript) and T.dotted(t.value) == cell, inner.body[2], "expected `cell[i] = icenter`")
    e3 = Env(ints={iv: "i", ic: "ic"})
    D["fc_set"] = ("(cell : list Z) (i ic : Z) : list Z", "updz cell %s %s" % (zexpr(t.slice, e3), zexpr(v, e3)))
    c = is_method_call(inner.body[3], nc + ".append", 1)
    expect(c is not None and T.dotted(c.args[0]) == cell, inner.body[3], "expected `new_cells.append(cell)`")

    def idx(n):
        expect(isinstance(n, ast.Subscript) and T.dotted(n.value) == nc and isinstance(n.slice, ast.Constant)
               and isinstance(n.slice.value, int), n, "expected new_cells[<int>]")
        return n.slice.value
    t, v = single_assign(lb[3])
    expect(isinstance(t, ast.Subscript) and T.dotted(t.value) == M + ".cells" and T.dotted(t.slice) == cv, lb[3],
           "expected `self.mesh.cells[c] = new_cells[0]`")
    D["fc_keep"] = (": Z", str(idx(v)))
    app = []
    for s in lb[4:]:
        c = is_method_call(s, M + ".cells.append", 1)
        expect(c is not None, s, "expected `self.mesh.cells.append(new_cells[k])`")
        app.append(str(idx(c.args[0])))
    D["fc_app"] = (": list Z", "[" + "; ".join(app) + "]")
    t, v = single_assign(b[8])
    expect(isinstance(t, ast.Subscript) and T.dotted(t.value) == M + ".faces" and T.dotted(t.slice) == fid, b[8],
           "expected `self.mesh.faces[face_id] = [...]`")
    D["fc_replace"] = ("(A B C ic : Z) : list Z", zlist(v, env))
    fs = []
    for s in b[9:]:
        c = is_method_call(s, M + ".faces.append", 1)
        expect(c is not None, s, "expected `self.mesh.faces.append([...])`")
        fs.append(zlist(c.args[0], env))
    D["fc_faces"] = ("(A B C ic : Z) : list (list Z)", "[" + "; ".join(fs) + "]")


ORDER = ["se_mid", "se_replace", "se_append",
         "tf_branch", "tf_quad_replace", "tf_quad_faces", "tf_quad_edges",
         "fan_bary", "fan_replace", "fan_lo", "fan_hi", "fan_face", "fan_edge",
         "tri_needs",
         "loop_iters", "loop_default_n", "loop_mid", "loop_key", "loop_keys", "loop_tris", "loop_edges",
         "t6_iters", "t6_default_r", "t6_body",
         "q3_mid", "q3_key", "q3_halves", "q3_bary", "q3_keys", "q3_quads", "q3_spokes",
         "sd_isolated", "sd_problem",
         "surf_enter_clears", "surf_exit_dim", "vol_enter_clears", "vol_exit_dim",
         "cf_skip", "cf_bary", "cf_replace", "cf_cells",
         "fc_skip", "fc_bary", "fc_adjacent", "fc_range", "fc_skip_i", "fc_set", "fc_keep", "fc_app", "fc_replace", "fc_faces",
         "pe_drop_repeated"]

REL_MD = "mouette/mesh/mesh_data.py"


def tr_prepare_edges(D, parts):
    """RawMeshData._prepare_edges (run by prepare() on exit of every editing block): does it drop an edge whose keyified pair
    was already declared?  Two source shapes are accepted (the same two as the C02 translator); anything else fails closed.
    Only this flag is generated; the rest of the function is mirrored by hand in Model.prepare_edges."""
    src, tree = T.load(REL_MD)
    pe = T.find_def(tree, "RawMeshData._prepare_edges", REL_MD)
    parts.append(("RawMeshData._prepare_edges", T.sha(src, pe)))
    b = T.body_nodoc(pe)
    dedupe = False
    if len(b) == 7 and [ast.unparse(x) for x in b[2:4]] == ["seen = set()", "keep = []"]:
        lp = b[4]
        if not (isinstance(lp, ast.For) and ast.unparse(lp.iter) == "self.edges" and ast.unparse(lp.target) == "(a, b)"
                and [ast.unparse(x) for x in lp.body] == ["key = utils.keyify(int(a), int(b))",
                                                          "keep.append(is_valid(a, b) and key not in seen)",
                                                          "if keep[-1]:\n    seen.add(key)"]
                and ast.unparse(b[5]) == "edges_invalid = not all(keep)"):
            raise TranslationError("%s: _prepare_edges: the keep-flag loop has an unexpected shape" % REL_MD)
        dedupe = True
        b = [b[0], b[1], None, b[6]]
    elif not (len(b) == 4 and ast.unparse(b[2]) == "edges_invalid = any((not is_valid(a, b) for a, b in self.edges))"):
        raise TranslationError("%s: _prepare_edges: unexpected structure" % REL_MD)
    if not (len(b) == 4 and ast.unparse(b[0]) == "N = len(self.vertices)" and isinstance(b[1], ast.FunctionDef)
            and b[1].name == "is_valid" and isinstance(b[3], ast.If) and ast.unparse(b[3].test) == "edges_invalid"):
        raise TranslationError("%s: _prepare_edges: unexpected structure" % REL_MD)
    # the rebuild loop keeps exactly the flagged edges
    loop_src = ast.unparse(b[3])
    want = "if keep[ie]:" if dedupe else "if is_valid(a, b):"
    if want not in loop_src:
        raise TranslationError("%s: _prepare_edges: the rebuild loop does not keep `%s`" % (REL_MD, want))
    D["pe_drop_repeated"] = (": bool", "true" if dedupe else "false")


def gen():
    src, tree = T.load(REL)
    D = {}
    parts = []
    for name, f in [("split_edge", tr_split_edge), ("triangulate_face", tr_triangulate_face),
                    ("split_face_as_fan", tr_fan), ("triangulate", tr_triangulate), ("loop_subdivision", tr_loop),
                    ("subdivide_triangles_6", tr_tri6), ("subdivide_triangles_3quads", tr_quads),
                    ("split_double_boundary_edges_triangles", tr_split_double),
                    ("split_cell_as_fan", tr_cell_fan), ("split_tet_from_face_center", tr_face_centre)]:
        try:
            f(tree, D)
        except TranslationError:
            raise
        except Exception as ex:  # fail closed on any surprise of the ast
            raise TranslationError("%s: %s: cannot be translated (%r)" % (REL, name, ex))
    try:
        tr_block(tree, "SurfaceSubdivision", D, "surf")
        tr_block(tree, "VolumeSubdivision", D, "vol")
    except TranslationError:
        raise
    except Exception as ex:
        raise TranslationError("%s: editing block: cannot be translated (%r)" % (REL, ex))
    tr_prepare_edges(D, parts)
    for q in ["split_edge", "SurfaceSubdivision", "split_double_boundary_edges_triangles", "VolumeSubdivision"]:
        parts.append((q, T.sha(src, T.find_def(tree, q, REL))))
    missing = [k for k in ORDER if k not in D]
    if missing or set(D) - set(ORDER):
        raise TranslationError("%s: extractor bookkeeping mismatch: %s / %s" % (REL, missing, sorted(set(D) - set(ORDER))))
    # the source hashes go to the evidence (LAST_SOURCE_SHA), not into Gen.v: a rewrite of the source that leaves every
    # generated definition unchanged then leaves Gen.v byte-identical and nothing is rebuilt
    global LAST_SOURCE_SHA
    LAST_SOURCE_SHA = dict(parts)
    out = T.header("C13: tuples, keys, point formulas, arity tests and loop counts of mouette/mesh/subdivision.py", [])
    out += """From Coq Require Import ZArith List Bool.
Require Import MV.Lib.Base MV.C13.Defs.
Import ListNotations.
Open Scope Z_scope.

"""
    for k in ORDER:
        sig, body = D[k]
        out += "Definition %s %s :=\n  %s.\n" % (k, sig, body)
    return {"C13/Gen.v": out}
