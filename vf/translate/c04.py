"""mouette/mesh/io/*.py, mesh.py, mesh_data.py -> coq/theories/C04/Gen.v

Extracts the keywords, index offsets, arities, slices, count orders, dispatch tables and decision expressions the
file codecs hinge on.  Recognised shapes only; anything else raises TranslationError (tie to the source broken).
The loops / control flow of the codecs are modelled by hand in Model.v and tied by the correspondence batches.
"""
import ast
import re

from . import common as T
from ..core import TranslationError

IO = "mouette/mesh/io/"


# ---------------------------------------------------------------------------------------------- helpers
def coq_str(s):
    if not isinstance(s, str) or any(ord(c) < 32 or ord(c) > 126 for c in s):
        raise TranslationError("string constant not printable ascii: %r" % (s,))
    return '"' + s.replace('"', '""') + '"'


def zexpr(node, env, rel="?"):
    """integer expression over the atoms of env (source text -> Coq variable)"""
    txt = ast.unparse(node)
    if txt in env:
        return env[txt]
    if isinstance(node, ast.Constant) and isinstance(node.value, int) and not isinstance(node.value, bool):
        return "(%d)" % node.value if node.value < 0 else "%d" % node.value
    if isinstance(node, ast.UnaryOp) and isinstance(node.op, ast.USub):
        return "(- %s)" % zexpr(node.operand, env, rel)
    if isinstance(node, ast.BinOp):
        op = {ast.Add: "+", ast.Sub: "-", ast.Mult: "*"}.get(type(node.op))
        if op:
            return "(%s %s %s)" % (zexpr(node.left, env, rel), op, zexpr(node.right, env, rel))
        if isinstance(node.op, ast.FloorDiv):
            return "(Z.div %s %s)" % (zexpr(node.left, env, rel), zexpr(node.right, env, rel))
        if isinstance(node.op, ast.Mod):
            return "(Z.modulo %s %s)" % (zexpr(node.left, env, rel), zexpr(node.right, env, rel))
    T.fail(rel, node, "unsupported integer expression `%s`" % txt)


CMPZ = {ast.Eq: "(%s =? %s)", ast.NotEq: "negb (%s =? %s)", ast.Lt: "(%s <? %s)", ast.LtE: "(%s <=? %s)",
        ast.Gt: "(%s >? %s)", ast.GtE: "(%s >=? %s)"}


def bexpr(node, zenv, benv, rel="?"):
    """boolean expression: comparisons of integer expressions, and/or/not, boolean atoms of benv"""
    txt = ast.unparse(node)
    if txt in benv:
        return benv[txt]
    if isinstance(node, ast.BoolOp):
        op = " && " if isinstance(node.op, ast.And) else " || "
        return "(" + op.join(bexpr(v, zenv, benv, rel) for v in node.values) + ")"
    if isinstance(node, ast.UnaryOp) and isinstance(node.op, ast.Not):
        return "negb %s" % bexpr(node.operand, zenv, benv, rel)
    if isinstance(node, ast.Compare):
        parts = []
        left = node.left
        for op, right in zip(node.ops, node.comparators):
            if type(op) not in CMPZ:
                T.fail(rel, node, "unsupported comparison")
            parts.append(CMPZ[type(op)] % (zexpr(left, zenv, rel), zexpr(right, zenv, rel)))
            left = right
        return parts[0] if len(parts) == 1 else "(" + " && ".join(parts) + ")"
    T.fail(rel, node, "unsupported boolean expression `%s`" % txt)


def walk_type(node, typ):
    return [n for n in ast.walk(node) if isinstance(n, typ)]


def str_const(node):
    return node.value if isinstance(node, ast.Constant) and isinstance(node.value, str) else None


def format_call(node):
    """'<fmt>'.format(args...) -> (fmt, args) or None"""
    if isinstance(node, ast.Call) and isinstance(node.func, ast.Attribute) and node.func.attr == "format" \
            and str_const(node.func.value) is not None and not node.keywords:
        return node.func.value.value, node.args
    return None


def write_arg(stmt, fname=None):
    """stmt is `<f>.write(X)` -> X or None"""
    if isinstance(stmt, ast.Expr) and isinstance(stmt.value, ast.Call) and isinstance(stmt.value.func, ast.Attribute) \
            and stmt.value.func.attr == "write" and len(stmt.value.args) == 1:
        if fname is None or T.dotted(stmt.value.func.value) == fname:
            return stmt.value.args[0]
    return None


def placeholders(fmt, rel, node):
    """'{} {} {} 1\\n' -> (3, ['1'])  : n placeholders separated by single blanks, then literal tokens, then newline"""
    if not fmt.endswith("\n"):
        T.fail(rel, node, "format string does not end a line: %r" % fmt)
    toks = fmt[:-1].split(" ")
    if " ".join(toks) != fmt[:-1] or "" in toks:
        T.fail(rel, node, "format string is not blank-separated: %r" % fmt)
    n = 0
    while n < len(toks) and toks[n] == "{}":
        n += 1
    rest = toks[n:]
    if any("{" in t or "}" in t for t in rest):
        T.fail(rel, node, "placeholder after a literal in %r" % fmt)
    return n, rest


def subscript_const(node, base, rel):
    """base[k] -> k"""
    if isinstance(node, ast.Subscript) and T.dotted(node.value) == base and isinstance(node.slice, ast.Constant) \
            and isinstance(node.slice.value, int):
        return node.slice.value
    T.fail(rel, node, "expected %s[<int>]" % base)


def slice_bounds(node, base, env, rel):
    """base[a:b] -> (coq a, coq b or None)"""
    if not (isinstance(node, ast.Subscript) and ast.unparse(node.value) == base and isinstance(node.slice, ast.Slice)
            and node.slice.step is None):
        T.fail(rel, node, "expected a slice of %s" % base)
    lo = "0" if node.slice.lower is None else zexpr(node.slice.lower, env, rel)
    hi = None if node.slice.upper is None else zexpr(node.slice.upper, env, rel)
    return lo, hi


def if_chain(stmt):
    """if/elif/else -> [(test, body)], orelse"""
    out = []
    while True:
        out.append((stmt.test, stmt.body))
        if len(stmt.orelse) == 1 and isinstance(stmt.orelse[0], ast.If):
            stmt = stmt.orelse[0]
        else:
            return out, stmt.orelse


def find_one(nodes, pred, rel, what, where=None):
    hits = [n for n in nodes if pred(n)]
    if len(hits) != 1:
        raise TranslationError("%s: expected exactly one %s, found %d%s" % (rel, what, len(hits),
                               (" near line %s" % getattr(where, "lineno", "?")) if where is not None else ""))
    return hits[0]


def zlist(xs):
    return "[" + "; ".join(("(%d)" % x) if x < 0 else str(x) for x in xs) + "]"


class Out:
    def __init__(self):
        self.lines = []
        self.parts = []

    def d(self, text):
        self.lines.append(text)

    def src(self, name, src, node):
        self.parts.append((name, T.sha(src, node)))


# ---------------------------------------------------------------------------------------------- io.py / mesh.py
def gen_io(o):
    rel = IO + "io.py"
    src, tree = T.load(rel)
    for fn_name, var, coqname in (("read_by_extension", "import_fun", "io_import_table"),
                                  ("write_by_extension", "export_fun", "io_export_table")):
        fn = T.find_def(tree, fn_name, rel)
        o.src("io." + fn_name, src, fn)
        asg = find_one(fn.body, lambda s: isinstance(s, ast.Assign) and T.dotted(s.targets[0]) == var, rel,
                       "assignment to " + var, fn)
        call = asg.value
        if not (isinstance(call, ast.Call) and isinstance(call.func, ast.Attribute) and call.func.attr == "get"
                and isinstance(call.func.value, ast.Dict) and len(call.args) == 2
                and ast.unparse(call.args[0]) == "ext.lower()" and ast.unparse(call.args[1]) == "None"):
            T.fail(rel, asg, var + " is not `{...}.get(ext.lower(), None)`")
        d = call.func.value
        items = []
        for k, v in zip(d.keys, d.values):
            if str_const(k) is None or not isinstance(v, ast.Name):
                T.fail(rel, d, "dispatch table entry is not '<ext>' : <function>")
            items.append("(%s, %s)" % (coq_str(k.value), coq_str(v.id)))
        # the selected function is what gets called
        calls = [c for c in walk_type(fn, ast.Call) if T.dotted(c.func) == var]
        if len(calls) != 1:
            T.fail(rel, fn, "%s is not called exactly once" % var)
        o.d("Definition %s : list (string * string) := [%s]." % (coqname, "; ".join(items)))
    fn = T.find_def(tree, "read_by_extension", rel)
    ext = find_one(fn.body, lambda s: isinstance(s, ast.Assign) and T.dotted(s.targets[0]) == "ext", rel, "ext =", fn)
    if ast.unparse(ext.value) != "get_extension(filename)":
        T.fail(rel, ext, "ext is not get_extension(filename)")


def gen_mesh(o):
    rel = "mouette/mesh/mesh_data.py"
    src, tree = T.load(rel)
    fn = T.find_def(tree, "RawMeshData._compute_dimensionality", rel)
    o.src("RawMeshData._compute_dimensionality", src, fn)
    body = T.body_nodoc(fn)
    if len(body) != 1 or not isinstance(body[0], ast.If):
        T.fail(rel, fn, "_compute_dimensionality is not a single if-chain")
    chain, orelse = if_chain(body[0])

    def dimval(b):
        if len(b) == 1 and isinstance(b[0], ast.Assign) and T.dotted(b[0].targets[0]) == "self._dimensionality" \
                and isinstance(b[0].value, ast.Constant) and isinstance(b[0].value.value, int):
            return b[0].value.value
        T.fail(rel, fn, "branch is not `self._dimensionality = <int>`")

    expr = str(dimval(orelse))
    for test, b in reversed(chain):
        m = re.fullmatch(r"not self\.(cells|faces|edges)\.empty\(\)", ast.unparse(test))
        if not m:
            T.fail(rel, test, "test is not `not self.<container>.empty()`")
        expr = "if negb %s_empty then %d else %s" % (m.group(1), dimval(b), expr)
    o.d("Definition compute_dimensionality (cells_empty faces_empty edges_empty : bool) : Z := %s." % expr)

    # prepare() drops the edges that are not valid: the class of the loaded object depends on it
    pe = T.find_def(tree, "RawMeshData._prepare_edges", rel)
    o.src("RawMeshData._prepare_edges", src, pe)
    iv = T.find_def(tree, "RawMeshData._prepare_edges.is_valid", rel)
    b = T.body_nodoc(iv)
    if [a.arg for a in iv.args.args] != ["a", "b"] or len(b) != 1 or not isinstance(b[0], ast.Return):
        T.fail(rel, iv, "unexpected is_valid")
    o.d("Definition prepare_edge_is_valid (a b N : Z) : bool := %s." % bexpr(b[0].value, {"a": "a", "b": "b", "N": "N"}, {}, rel))
    pt = ast.unparse(pe)
    # an edge is kept iff it is valid and the first one declared with its key: some edge survives iff some edge is valid
    if "N = len(self.vertices)" not in pt or "keep.append(is_valid(a, b) and key not in seen)" not in pt \
            or not re.search(r"if keep\[-1\]:\n\s+seen\.add\(key\)", pt) or "edges_invalid = not all(keep)" not in pt \
            or not re.search(r"if keep\[ie\]:\n\s+new_edges\.append\(utils\.keyify\(", pt):
        T.fail(rel, pe, "unexpected _prepare_edges")

    rel = "mouette/mesh/mesh.py"
    src, tree = T.load(rel)
    fn = T.find_def(tree, "_instanciate_raw_mesh_data", rel)
    o.src("mesh._instanciate_raw_mesh_data", src, fn)
    body = T.body_nodoc(fn)
    txt = [ast.unparse(s) for s in body]
    md = re.fullmatch(r"if dim is None:\n    dim = (-?\d+)", txt[1]) if len(txt) > 2 else None
    if txt[0] != "mesh_data.prepare()" or not md or txt[2] != "dim = max(dim, mesh_data.dimensionality)":
        T.fail(rel, fn, "unexpected prologue of _instanciate_raw_mesh_data")
    o.d("(* the optional `dim` argument of load(): absent = %s, then the larger of it and the dimensionality of the data *)" % md.group(1))
    o.d("Definition instanciate_dim (dim : option Z) (dimensionality : Z) : Z := Z.max (match dim with None => (%s) | Some d => d end) dimensionality."
        % md.group(1))
    expr = "None"
    for s in reversed(body[3:]):
        if not (isinstance(s, ast.If) and not s.orelse and len(s.body) == 1 and isinstance(s.body[0], ast.Return)):
            T.fail(rel, s, "expected `if dim==k: return Cls(mesh_data)`")
        c = s.body[0].value
        if not (isinstance(c, ast.Call) and isinstance(c.func, ast.Name) and ast.unparse(c.args[0]) == "mesh_data" and len(c.args) == 1):
            T.fail(rel, s, "expected `return Cls(mesh_data)`")
        expr = "if %s then Some %s else %s" % (bexpr(s.test, {"dim": "dim"}, {}, rel), coq_str(c.func.id), expr)
    o.d("Definition instanciate_class (dim : Z) : option string := %s." % expr)

    fn = T.find_def(tree, "load", rel)
    o.src("mesh.load", src, fn)
    txt = [ast.unparse(s) for s in T.body_nodoc(fn)]
    if txt != ["data = read_by_extension(filename)", "if raw:\n    return data", "return _instanciate_raw_mesh_data(data, dim)"]:
        T.fail(rel, fn, "unexpected body of load")

    fn = T.find_def(tree, "save", rel)
    o.src("mesh.save", src, fn)
    body = T.body_nodoc(fn)
    txt = [ast.unparse(s) for s in body]
    if len(body) != 4 or txt[1] != "raw_mesh = RawMeshData(mesh)" or txt[3] != "write_by_extension(raw_mesh, filename)":
        T.fail(rel, fn, "unexpected shape of save")
    mg = re.fullmatch(r"if isinstance\(mesh, VolumeMesh\) and '\.geogram' in filename\.lower\(\) and all\(\(len\(c\) == (\d+) for c in mesh\.cells\)\):\n    mesh\.connectivity\._compute_adjacent_cell\(\)", txt[0])
    if not mg:
        T.fail(rel, body[0], "unexpected geogram prologue of save")
    o.d("(* save(): the cell adjacency is computed for a VolumeMesh saved to geogram whose cells all have this many vertices *)")
    o.d("Definition save_adjacency_arity : Z := %s." % mg.group(1))
    ign = body[2]
    if not (isinstance(ign, ast.If) and ast.unparse(ign.test) == "ignore_elements is not None" and not ign.orelse):
        T.fail(rel, ign, "expected `if ignore_elements is not None:`")
    items = []
    for s in ign.body:
        if not (isinstance(s, ast.If) and not s.orelse and isinstance(s.test, ast.Compare) and len(s.test.ops) == 1
                and isinstance(s.test.ops[0], ast.In) and str_const(s.test.left) is not None
                and ast.unparse(s.test.comparators[0]) == "ignore_elements"):
            T.fail(rel, s, "expected `if '<kind>' in ignore_elements:`")
        conts = []
        for c in s.body:
            m = re.fullmatch(r"raw_mesh\.(\w+) = (?:Corner)?DataContainer\(id='(\w+)'\)", ast.unparse(c))
            if not m or m.group(1) != m.group(2):
                T.fail(rel, c, "expected raw_mesh.<container> = DataContainer(id='<container>')")
            conts.append(coq_str(m.group(1)))
        items.append("(%s, [%s])" % (coq_str(s.test.left.value), "; ".join(conts)))
    o.d("Definition save_ignore_table : list (string * list string) := [%s]." % "; ".join(items))


# ---------------------------------------------------------------------------------------------- xyz
def gen_xyz(o):
    rel = IO + "xyz.py"
    src, tree = T.load(rel)
    ex = T.find_def(tree, "export_xyz", rel)
    o.src("export_xyz", src, ex)
    top = find_one(walk_type(ex, ast.If), lambda s: ast.unparse(s.test) == "mesh.vertices.has_attribute('normals')", rel,
                   "has_attribute('normals') test", ex)
    if not (len(top.orelse) == 1 and isinstance(top.orelse[0], ast.For) and ast.unparse(top.orelse[0].iter) == "mesh.vertices"
            and isinstance(top.orelse[0].target, ast.Name) and len(top.orelse[0].body) == 1):
        T.fail(rel, top, "else branch is not `for v in mesh.vertices: f.write(...)`")
    loop = top.orelse[0]
    fc = format_call(write_arg(loop.body[0]))
    if fc is None:
        T.fail(rel, loop, "vertex line is not written with '...'.format(...)")
    n, rest = placeholders(fc[0], rel, loop)
    if rest or n != len(fc[1]):
        T.fail(rel, loop, "unexpected vertex format %r" % fc[0])
    o.d("Definition xyz_exp_idx : list Z := %s." % zlist([subscript_const(a, loop.target.id, rel) for a in fc[1]]))

    names = sorted(set(re.findall(r"has_attribute\('(\w+)'\)", ast.unparse(ex))))
    o.d("(* vertex attributes export_xyz treats specially (written as extra columns): outside the model *)")
    o.d("Definition xyz_exp_special_attrs : list string := %s." % ("[" + "; ".join(coq_str(n) for n in names) + "]"))
    im = T.find_def(tree, "import_xyz", rel)
    o.src("import_xyz", src, im)
    loop = find_one(walk_type(im, ast.For), lambda s: ast.unparse(s.iter) == "f.readlines()", rel, "readlines loop", im)
    st = loop.body
    if ast.unparse(st[0]) != "data = [float(x) for x in %s.strip().split()]" % loop.target.id:
        T.fail(rel, st[0], "unexpected tokenisation of a .xyz line")
    if not (isinstance(st[1], ast.If) and len(st[1].body) == 1 and isinstance(st[1].body[0], ast.Continue) and not st[1].orelse):
        T.fail(rel, st[1], "expected `if len(data)==1: continue`")
    o.d("Definition xyz_imp_skip (n : Z) : bool := %s." % bexpr(st[1].test, {"len(data)": "n"}, {}, rel))
    app = st[2]
    if not (isinstance(app, ast.Expr) and isinstance(app.value, ast.Call) and ast.unparse(app.value.func) == "obj.vertices.append"):
        T.fail(rel, app, "expected obj.vertices.append(data[:k])")
    lo, hi = slice_bounds(app.value.args[0], "data", {}, rel)
    if hi is None:
        T.fail(rel, app, "open slice")
    o.d("Definition xyz_imp_lo : Z := %s." % lo)
    o.d("Definition xyz_imp_hi : Z := %s." % hi)


# ---------------------------------------------------------------------------------------------- obj
def keyword_of_concat(node, rel):
    """'v ' + <something> + '\\n'  ->  'v'"""
    if isinstance(node, ast.BinOp) and isinstance(node.op, ast.Add) and str_const(node.right) == "\n" \
            and isinstance(node.left, ast.BinOp) and isinstance(node.left.op, ast.Add) and str_const(node.left.left):
        kw = node.left.left.value
        if kw.endswith(" ") and " " not in kw[:-1] and kw[:-1]:
            return kw[:-1], node.left.right
    T.fail(rel, node, "expected '<kw> ' + ... + '\\n'")


def joinedstr_parts(node, rel):
    """f'l {a+1} {b+1}\\n' -> ('l', [expr, expr])"""
    if not isinstance(node, ast.JoinedStr):
        T.fail(rel, node, "expected an f-string")
    text = ""
    exprs = []
    for v in node.values:
        if isinstance(v, ast.Constant):
            text += v.value
        elif isinstance(v, ast.FormattedValue) and v.format_spec is None and v.conversion == -1:
            text += "{}"
            exprs.append(v.value)
        else:
            T.fail(rel, node, "unsupported f-string piece")
    return text, exprs


def gen_obj(o):
    rel = IO + "obj.py"
    src, tree = T.load(rel)
    ex = T.find_def(tree, "export_obj", rel)
    o.src("export_obj", src, ex)
    writes = [write_arg(s) for s in walk_type(ex, ast.Expr)]
    writes = [w for w in writes if w is not None]
    # vertices
    vloop = find_one(walk_type(ex, ast.For), lambda s: ast.unparse(s.iter) == "mesh.vertices", rel, "vertex loop", ex)
    kw, mid = keyword_of_concat(write_arg(vloop.body[0]), rel)
    if ast.unparse(mid) != "' '.join(['{}'.format(v) for v in %s])" % vloop.target.id:
        T.fail(rel, vloop, "unexpected vertex line")
    o.d("Definition obj_exp_kw_v := %s." % coq_str(kw))
    # edges
    eg = find_one(walk_type(ex, ast.If), lambda s: ast.unparse(s.test) == "config.export_edges_in_obj", rel, "export_edges_in_obj test", ex)
    if len(eg.body) != 1 or not isinstance(eg.body[0], ast.If) or eg.orelse:
        T.fail(rel, eg, "unexpected edge export block")
    inner = eg.body[0]
    o.d("Definition obj_exp_all_edges (complete_edges_from_faces : bool) (dimensionality : Z) : bool := %s."
        % bexpr(inner.test, {"mesh.dimensionality": "dimensionality"}, {"config.complete_edges_from_faces": "complete_edges_from_faces"}, rel))
    l1 = inner.body
    if not (len(l1) == 1 and isinstance(l1[0], ast.For) and ast.unparse(l1[0].iter) == "mesh.edges" and ast.unparse(l1[0].target) == "(a, b)"):
        T.fail(rel, inner, "expected `for a,b in mesh.edges`")
    text, exprs = joinedstr_parts(write_arg(l1[0].body[0]), rel)
    n, _ = placeholders(text.split(" ", 1)[1], rel, inner)
    kw = text.split(" ", 1)[0]
    if n != 2 or len(exprs) != 2:
        T.fail(rel, inner, "edge line does not have two indices")
    if not (len(inner.orelse) == 1 and isinstance(inner.orelse[0], ast.If)
            and ast.unparse(inner.orelse[0].test) == "mesh.edges.has_attribute('hard_edges')" and not inner.orelse[0].orelse):
        T.fail(rel, inner, "expected `elif mesh.edges.has_attribute('hard_edges')`")
    l2 = inner.orelse[0].body
    if not (len(l2) == 1 and isinstance(l2[0], ast.For) and ast.unparse(l2[0].iter) == "mesh.edges.get_attribute('hard_edges')"
            and len(l2[0].body) == 2 and ast.unparse(l2[0].body[0]) == "a, b = mesh.edges[%s]" % l2[0].target.id
            and ast.unparse(l2[0].body[1]) == ast.unparse(l1[0].body[0])):
        T.fail(rel, inner, "hard-edge branch does not write the same line for mesh.edges[e]")
    o.d("Definition obj_exp_kw_l := %s." % coq_str(kw))
    o.d("Definition obj_exp_edge (a b : Z) : list Z := [%s]." % "; ".join(zexpr(e, {"a": "a", "b": "b"}, rel) for e in exprs))
    # faces
    floop = find_one(walk_type(ex, ast.For), lambda s: ast.unparse(s.iter) == "mesh.faces", rel, "face loop", ex)
    inner_loop = find_one(floop.body, lambda s: isinstance(s, ast.For), rel, "corner loop", floop)
    if ast.unparse(inner_loop.iter) != floop.target.id:
        T.fail(rel, inner_loop, "corner loop does not iterate over the face")
    sid = inner_loop.body[0]
    if not (isinstance(sid, ast.Assign) and ast.unparse(sid.targets[0]) == "str_id" and isinstance(sid.value, ast.Call)
            and ast.unparse(sid.value.func) == "str" and len(sid.value.args) == 1):
        T.fail(rel, sid, "expected str_id = str(<index>)")
    o.d("Definition obj_exp_vid (vid : Z) : Z := %s." % zexpr(sid.value.args[0], {inner_loop.target.id: "vid"}, rel))
    if ast.unparse(inner_loop.body[-2]) != "str_face += str_id + ' '":
        T.fail(rel, inner_loop, "expected str_face += str_id + ' '")
    kw, mid = keyword_of_concat(write_arg(floop.body[-1]), rel)
    if ast.unparse(mid) != "str_face":
        T.fail(rel, floop, "unexpected face line")
    o.d("Definition obj_exp_kw_f := %s." % coq_str(kw))

    names = sorted(set(re.findall(r"has_attribute\('(\w+)'\)", ast.unparse(ex))) - {"hard_edges"})
    o.d("(* vertex / face-corner attributes export_obj treats specially (vt / vn lines, v/vt/vn index forms): outside the model *)")
    o.d("Definition obj_exp_special_attrs : list string := %s." % ("[" + "; ".join(coq_str(n) for n in names) + "]"))
    im = T.find_def(tree, "parse_obj_data", rel)
    o.src("parse_obj_data", src, im)
    loop = find_one(im.body, lambda s: isinstance(s, ast.For) and ast.unparse(s.iter) == "data", rel, "line loop", im)
    mt = re.fullmatch(r"(\w+) = %s\.split\(\)" % loop.target.id, ast.unparse(loop.body[0])) if isinstance(loop.target, ast.Name) else None
    if not mt or ast.unparse(loop.body[1]) != "if not %s:\n    continue" % mt.group(1):
        T.fail(rel, loop, "unexpected tokenisation of an .obj line")
    tk = mt.group(1)   # the name of the token list (local renames are harmless)
    chain, orelse = if_chain(loop.body[2])
    if orelse or len(loop.body) != 3:
        T.fail(rel, loop, "unexpected keyword dispatch")
    seen = {}
    for test, body in chain:
        if not (isinstance(test, ast.Compare) and ast.unparse(test.left) == tk + "[0]" and len(test.ops) == 1
                and isinstance(test.ops[0], ast.Eq) and str_const(test.comparators[0]) is not None):
            T.fail(rel, test, "expected toks[0] == '<kw>'")
        kw = test.comparators[0].value
        b = [re.sub(r"\b%s\b" % re.escape(tk), "toks", ast.unparse(s)) for s in body]
        if b == ["obj.vertices.append(Vec([float(v) for v in toks[1:4]]))"] or \
                (len(b) == 1 and re.fullmatch(r"obj\.vertices\.append\(Vec\(\[float\(v\) for v in toks\[\d+:\d+\]\]\)\)", b[0])):
            sl = find_one(walk_type(body[0], ast.Subscript), lambda s: isinstance(s.slice, ast.Slice), rel, "slice", body[0])
            lo, hi = slice_bounds(sl, tk, {}, rel)
            seen["v"] = kw
            o.d("Definition obj_imp_v_lo : Z := %s." % lo)
            o.d("Definition obj_imp_v_hi : Z := %s." % hi)
        elif b == ["normals.append(Vec([float(v) for v in toks[1:]]))"]:
            seen["vn"] = kw
        elif b == ["uv_coords.append(Vec([float(toks[1]), float(toks[2])]))"]:
            seen["vt"] = kw
        elif b == ["faces.append([parse_vertex(vstr, len(obj.vertices), len(uv_coords), len(normals)) for vstr in toks[1:]])"]:
            seen["f"] = kw
        elif len(b) == 1 and isinstance(body[0], ast.For) and b[0].endswith("e = keyify(v1, v2)\n    obj.edges.append(e)"):
            lp = body[0]
            if not (isinstance(lp.target, ast.Name) and ast.unparse(lp.iter) == "range(1, len(%s) - 1)" % tk and len(lp.body) == 3):
                T.fail(rel, lp, "polyline loop is not `for i in range(1, len(toks)-1)`")
            iv = lp.target.id
            asg = lp.body[0]
            if not (isinstance(asg, ast.Assign) and ast.unparse(asg.targets[0]) == "(v1, v2)" and isinstance(asg.value, ast.Tuple)
                    and len(asg.value.elts) == 2):
                T.fail(rel, asg, "expected v1,v2 = ..., ...")
            # both ends resolved like a face reference, against the vertices read so far
            want = ["resolve_index(int(%s[%s]), len(obj.vertices))" % (tk, iv), "resolve_index(int(%s[%s + 1]), len(obj.vertices))" % (tk, iv)]
            if [ast.unparse(e) for e in asg.value.elts] != want:
                T.fail(rel, asg, "polyline segment is not (resolve_index(int(toks[i]), len(obj.vertices)), resolve_index(int(toks[i+1]), ...))")
            seen["l"] = kw
        else:
            T.fail(rel, test, "unrecognised branch for keyword %r" % kw)
    for k in ("v", "vn", "vt", "f", "l"):
        if k not in seen:
            raise TranslationError(rel + ": no branch recognised for the %s lines" % k)
        o.d("Definition obj_imp_kw_%s := %s." % (k, coq_str(seen[k])))
    pv = T.find_def(tree, "parse_vertex", rel)
    o.src("parse_vertex", src, pv)
    b = T.body_nodoc(pv)
    if [a.arg for a in pv.args.args] != ["vstr", "nv", "nt", "nn"]:
        T.fail(rel, pv, "parse_vertex does not take (vstr, nv, nt, nn)")
    if ast.unparse(b[0]) != "vals = vstr.split('/')" or not (isinstance(b[1], ast.Assign) and ast.unparse(b[1].targets[0]) == "vid"):
        T.fail(rel, pv, "unexpected parse_vertex")
    if ast.unparse(b[1].value) != "resolve_index(int(vals[0]), nv)":
        T.fail(rel, pv, "the vertex reference is not resolve_index(int(vals[0]), nv)")
    ri = T.find_def(tree, "resolve_index", rel)
    o.src("resolve_index", src, ri)
    rb = T.body_nodoc(ri)
    if [a.arg for a in ri.args.args] != ["i", "n"] or len(rb) != 1 or not isinstance(rb[0], ast.Return) or not isinstance(rb[0].value, ast.IfExp):
        T.fail(rel, ri, "resolve_index(i, n) is not a single conditional expression")
    ife = rb[0].value
    env = {"i": "i", "n": "n"}
    o.d("(* an .obj reference: counted from 1, a negative one relative to the n elements read so far *)")
    o.d("Definition obj_imp_resolve (i n : Z) : Z := if %s then %s else %s." % (bexpr(ife.test, env, {}, rel), zexpr(ife.body, env, rel), zexpr(ife.orelse, env, rel)))
    if not (isinstance(b[-1], ast.Return) and ast.unparse(b[-1].value) == "(vid, tid, nid)"):
        T.fail(rel, pv, "parse_vertex does not return (vid,tid,nid)")
    # face vertex order is kept
    tail = [ast.unparse(s) for s in im.body]
    if not any("face.append(vid)" in t and "obj.faces.append(face)" in t for t in tail):
        T.fail(rel, im, "faces are not rebuilt in order")


# ---------------------------------------------------------------------------------------------- off / tet
def sized_line_check(loop, rel):
    """for X in C:  s = "{} ".format(len(X)); s += " ".join([str(v) for v in X]); ofile.write(s + "\\n")"""
    x = loop.target.id
    b = [ast.unparse(s) for s in loop.body]
    want = ["str_face = '{} '.format(len(%s))" % x, "str_face += ' '.join([str(v) for v in %s])" % x, "ofile.write(str_face + '\\n')"]
    if b != want:
        T.fail(rel, loop, "unexpected element line (expected count then the indices)")


def gen_off(o):
    rel = IO + "off.py"
    src, tree = T.load(rel)
    ex = T.find_def(tree, "export_off", rel)
    o.src("export_off", src, ex)
    w = T.body_nodoc(ex)[0]
    if not isinstance(w, ast.With):
        T.fail(rel, ex, "expected a with block")
    st = w.body
    hdr = str_const(write_arg(st[0]))
    if hdr is None or not hdr.endswith("\n") or " " in hdr:
        T.fail(rel, st[0], "expected the header line")
    o.d("Definition off_header := %s." % coq_str(hdr[:-1]))
    fc = format_call(st[1].value) if isinstance(st[1], ast.Assign) else None
    if fc is None or ast.unparse(st[2]) != "ofile.write(%s)" % ast.unparse(st[1].targets[0]):
        T.fail(rel, st[1], "expected the counts line")
    n, rest = placeholders(fc[0], rel, st[1])
    env = {"len(mesh.vertices)": "nv", "len(mesh.faces)": "nf", "len(mesh.edges)": "ne"}
    if rest or n != len(fc[1]):
        T.fail(rel, st[1], "unexpected counts format")
    o.d("Definition off_exp_counts (nv nf ne : Z) : list Z := [%s]." % "; ".join(zexpr(a, env, rel) for a in fc[1]))
    if not (isinstance(st[3], ast.For) and ast.unparse(st[3].iter) == "mesh.vertices"
            and ast.unparse(st[3].body[0]) == "ofile.write(' '.join(['{}'.format(v) for v in %s]) + '\\n')" % st[3].target.id):
        T.fail(rel, st[3], "unexpected vertex lines")
    if not (isinstance(st[4], ast.For) and ast.unparse(st[4].iter) == "mesh.faces") or len(st) != 5:
        T.fail(rel, ex, "unexpected face lines")
    sized_line_check(st[4], rel)

    im = T.find_def(tree, "parse_off_data", rel)
    o.src("parse_off_data", src, im)
    b = T.body_nodoc(im)
    t = [ast.unparse(s) for s in b]
    if t[1:3] != ["data = [x.split('#')[0].strip().split() for x in data]", "data = deque([x for x in data if x])"] or t[3] != "header = data.popleft()":
        T.fail(rel, im, "unexpected prologue of parse_off_data")
    if not (isinstance(b[4], ast.If) and isinstance(b[4].test, ast.Compare) and ast.unparse(b[4].test.left) == "header[0]"
            and isinstance(b[4].test.ops[0], ast.NotEq) and str_const(b[4].test.comparators[0]) == hdr[:-1]
            and isinstance(b[4].body[0], ast.Raise)):
        T.fail(rel, b[4], "header test does not compare with the header written by export_off")
    cl = b[5]
    if not (isinstance(cl, ast.Assign) and ast.unparse(cl.targets[0]) == "counts" and isinstance(cl.value, ast.IfExp)
            and ast.unparse(cl.value.orelse) == "data.popleft()"):
        T.fail(rel, cl, "expected counts = header[k:] if <test> else data.popleft()")
    lo, hi = slice_bounds(cl.value.body, "header", {}, rel)
    if hi is not None:
        T.fail(rel, cl, "expected an open slice header[k:]")
    o.d("Definition off_imp_counts_inline (n : Z) : bool := %s." % bexpr(cl.value.test, {"len(header)": "n"}, {}, rel))
    o.d("Definition off_imp_counts_inline_from : Z := %s." % lo)
    cnt = b[6]
    if not (isinstance(cnt, ast.Assign) and isinstance(cnt.targets[0], ast.Tuple)
            and ast.unparse(cnt.value) == "(int(u) for u in counts)"):
        T.fail(rel, cnt, "expected nv,nf,ne = (int(u) for u in counts)")
    names = [e.id for e in cnt.targets[0].elts]
    vloop, floop = b[7], b[9]
    if not (isinstance(vloop, ast.For) and re.fullmatch(r"range\((\w+)\)", ast.unparse(vloop.iter))
            and [ast.unparse(s) for s in vloop.body] == ["vertex = [float(u) for u in data.popleft()]", "output.vertices.append(Vec(vertex))"]):
        T.fail(rel, vloop, "unexpected vertex loop")
    if not (isinstance(floop, ast.For) and re.fullmatch(r"range\((\w+)\)", ast.unparse(floop.iter))):
        T.fail(rel, floop, "unexpected face loop")
    nvn = ast.unparse(vloop.iter)[6:-1]
    nfn = ast.unparse(floop.iter)[6:-1]
    o.d("Definition off_imp_ncounts : Z := %d." % len(names))
    o.d("Definition off_imp_counts_nv : Z := %d." % names.index(nvn))
    o.d("Definition off_imp_counts_nf : Z := %d." % names.index(nfn))
    fb = floop.body
    if [ast.unparse(s) for s in fb[:2]] != ["simplex = data.popleft()", "nvi = int(simplex[0])"] or len(fb) != 3:
        T.fail(rel, floop, "unexpected face loop body")
    chain, orelse = if_chain(fb[2])
    if orelse or len(chain) != 2:
        T.fail(rel, fb[2], "expected a face branch and an edge branch")
    (t_f, b_f), (t_e, b_e) = chain
    bf = [ast.unparse(s) for s in b_f]
    if not (bf[1:] == ["output.faces.append(face)", "output.face_corners += [(x, i_f) for x in face]", "i_f += 1"]
            and isinstance(b_f[0], ast.Assign) and ast.unparse(b_f[0].targets[0]) == "face"
            and isinstance(b_f[0].value, ast.ListComp) and ast.unparse(b_f[0].value.elt) == "int(u)"):
        T.fail(rel, fb[2], "unexpected face branch")
    lo, hi = slice_bounds(b_f[0].value.generators[0].iter, "simplex", {"nvi": "nvi"}, rel)
    if hi is None:
        T.fail(rel, b_f[0], "the face indices are not delimited by the declared vertex count (open slice)")
    o.d("Definition off_imp_is_face (nvi : Z) : bool := %s." % bexpr(t_f, {"nvi": "nvi"}, {}, rel))
    o.d("Definition off_imp_face_lo : Z := %s." % lo)
    o.d("Definition off_imp_face_hi (nvi : Z) : Z := %s." % hi)
    o.d("Definition off_imp_is_edge (nvi : Z) : bool := %s." % bexpr(t_e, {"nvi": "nvi"}, {}, rel))
    be = [ast.unparse(s) for s in b_e]
    m = re.fullmatch(r"a, b = \(int\(simplex\[(\d+)\]\), int\(simplex\[(\d+)\]\)\)", be[0])
    if not m or be[1:] != ["output.edges.append((min(a, b), max(a, b)))"]:
        T.fail(rel, fb[2], "unexpected edge branch")
    o.d("Definition off_imp_edge_pos : list Z := %s." % zlist([int(m.group(1)), int(m.group(2))]))


def gen_tet(o):
    rel = IO + "tet.py"
    src, tree = T.load(rel)
    ex = T.find_def(tree, "export_tet", rel)
    o.src("export_tet", src, ex)
    st = T.body_nodoc(ex)[0].body
    words = []
    for s, cont in ((st[0], "mesh.vertices"), (st[1], "mesh.cells")):
        fc = format_call(write_arg(s))
        if fc is None or len(fc[1]) != 1 or ast.unparse(fc[1][0]) != "len(%s)" % cont:
            T.fail(rel, s, "expected '{} <word>\\n'.format(len(%s))" % cont)
        n, rest = placeholders(fc[0], rel, s)
        if n != 1 or len(rest) != 1:
            T.fail(rel, s, "unexpected count line %r" % fc[0])
        words.append(rest[0])
    o.d("Definition tet_exp_word_v := %s." % coq_str(words[0]))
    o.d("Definition tet_exp_word_c := %s." % coq_str(words[1]))
    if not (isinstance(st[2], ast.For) and ast.unparse(st[2].iter) == "mesh.vertices"
            and ast.unparse(st[2].body[0]) == "ofile.write(' '.join(['{}'.format(v) for v in %s]) + '\\n')" % st[2].target.id):
        T.fail(rel, st[2], "unexpected vertex lines")
    if not (isinstance(st[3], ast.For) and ast.unparse(st[3].iter) == "mesh.cells") or len(st) != 4:
        T.fail(rel, ex, "unexpected cell lines")
    sized_line_check(st[3], rel)

    im = T.find_def(tree, "parse_tet_data", rel)
    o.src("parse_tet_data", src, im)
    b = T.body_nodoc(im)
    t = [ast.unparse(s) for s in b]
    if t[0] != "data = deque(data)" or t[1] != "get_line = lambda: data.popleft().strip().split()":
        T.fail(rel, im, "unexpected prologue of parse_tet_data")
    m1 = re.fullmatch(r"nvert = int\(get_line\(\)\[(\d+)\]\)", t[3])
    m2 = re.fullmatch(r"ntet = int\(get_line\(\)\[(\d+)\]\)", t[4])
    if not m1 or not m2 or m1.group(1) != m2.group(1):
        T.fail(rel, im, "unexpected count lines")
    o.d("Definition tet_imp_count_pos : Z := %s." % m1.group(1))
    if t[5] != "for _ in range(nvert):\n    v = [float(u) for u in get_line()]\n    output.vertices.append(v)":
        T.fail(rel, b[5], "unexpected vertex loop")
    m = re.fullmatch(r"for _ in range\(ntet\):\n    c = tuple\(\(int\(u\) for u in get_line\(\)\[(\d+):\]\)\)\n    output.cells.append\(c\)", t[6])
    if not m:
        T.fail(rel, b[6], "unexpected cell loop")
    o.d("Definition tet_imp_cell_lo : Z := %s." % m.group(1))


# ---------------------------------------------------------------------------------------------- medit
def gen_medit(o):
    rel = IO + "medit.py"
    src, tree = T.load(rel)
    ex = T.find_def(tree, "export_medit", rel)
    o.src("export_medit", src, ex)
    st = T.body_nodoc(ex)[0].body
    hdr = []
    k = 0
    while k < len(st) and write_arg(st[k]) is not None:
        s = str_const(write_arg(st[k]))
        m = re.fullmatch(r"(\w+) (\d+)\n", s or "")
        if not m:
            T.fail(rel, st[k], "unexpected header line")
        hdr.append("(%s, %s)" % (coq_str(m.group(1)), m.group(2)))
        k += 1
    o.d("Definition medit_exp_header : list (string * Z) := [%s]." % "; ".join(hdr))
    blocks = st[k:]
    if len(blocks) != 4:
        T.fail(rel, ex, "expected the vertices / edges / faces / cells blocks")
    vb, eb, fb, cb = blocks

    def kw_line(s, count_txt):
        a = write_arg(s)
        if str_const(a) is not None:
            return a.value
        fc = format_call(a)
        if fc and len(fc[1]) == 1 and ast.unparse(fc[1][0]) == count_txt:
            return fc[0]
        T.fail(rel, s, "unexpected keyword/count line")

    # vertices
    if ast.unparse(vb.test) != "not mesh.vertices.empty()":
        T.fail(rel, vb, "unexpected vertices guard")
    b = vb.body
    if kw_line(b[0], "") [-1:] != "\n" or kw_line(b[1], "len(mesh.vertices)") != "{}\n" or str_const(write_arg(b[3])) != "\n":
        T.fail(rel, vb, "unexpected vertices block")
    o.d("Definition medit_exp_vertices := %s." % coq_str(kw_line(b[0], "")[:-1]))
    loop = b[2]
    fc = format_call(write_arg(loop.body[0]))
    n, rest = placeholders(fc[0], rel, loop)
    if ast.unparse(loop.iter) != "mesh.vertices" or len(rest) != 1 or n != len(fc[1]):
        T.fail(rel, loop, "unexpected vertex line")
    ref = rest[0]
    o.d("Definition medit_exp_vertex_idx : list Z := %s." % zlist([subscript_const(a, loop.target.id, rel) for a in fc[1]]))
    o.d("Definition medit_exp_ref : Z := %d." % int(ref))
    # edges
    if ast.unparse(eb.test) != "hasattr(mesh, 'edges') and (not mesh.edges.empty())":
        T.fail(rel, eb, "unexpected edges guard")
    b = eb.body
    o.d("Definition medit_exp_edges := %s." % coq_str(kw_line(b[0], "")[:-1]))
    sel = b[1]
    if not (isinstance(sel, ast.If) and ast.unparse(sel.test) == "mesh.edges.has_attribute('hard_edges')" and str_const(write_arg(b[2])) == "\n"):
        T.fail(rel, eb, "unexpected edges block")
    hb, ab = sel.body, sel.orelse
    if kw_line(hb[0], "len(mesh.edges.get_attribute('hard_edges'))") != "{}\n" or kw_line(ab[0], "len(mesh.edges)") != "{}\n":
        T.fail(rel, sel, "unexpected edge counts")
    l1, l2 = hb[1], ab[1]
    if not (ast.unparse(l1.iter) == "mesh.edges.get_attribute('hard_edges')" and ast.unparse(l1.body[0]) == "a, b = mesh.edges[%s]" % l1.target.id
            and ast.unparse(l2.iter) == "mesh.edges" and ast.unparse(l2.target) == "(a, b)"
            and ast.unparse(l1.body[1]) == ast.unparse(l2.body[0])):
        T.fail(rel, sel, "the two edge loops do not write the same line")
    fc = format_call(write_arg(l2.body[0]))
    n, rest = placeholders(fc[0], rel, l2)
    forms = {zexpr(a, {"a": "i", "b": "i"}, rel) for a in fc[1]}
    if n != 2 or rest != [ref] or [ast.unparse(a)[0] for a in fc[1]] != ["a", "b"] or len(forms) != 1:
        T.fail(rel, l2, "unexpected edge line")
    idx_form = forms.pop()

    # count functions
    def counts(fname, cont):
        fn = T.find_def(tree, fname, rel)
        o.src(fname, src, fn)
        b = T.body_nodoc(fn)
        loop = find_one(b, lambda s: isinstance(s, ast.For), rel, "loop of " + fname, fn)
        if ast.unparse(loop.iter) != "mesh." + cont:
            T.fail(rel, loop, "count loop over the wrong container")
        stm = [s for s in loop.body if isinstance(s, ast.If)]
        chain, orelse = if_chain(stm[0])
        res = {}
        lenvar = None
        for s in loop.body:
            m = re.fullmatch(r"(\w+) = len\(%s\)" % loop.target.id, ast.unparse(s))
            if m:
                lenvar = m.group(1)
        for test, body in chain:
            m = re.fullmatch(r"(?:len\(%s\)|%s) == (\d+)" % (loop.target.id, lenvar or "@"), ast.unparse(test))
            m2 = re.fullmatch(r"\w+\[(\d+)\] \+= 1", ast.unparse(body[0]))
            if not m or not m2 or len(body) != 1:
                T.fail(rel, test, "unexpected counting branch")
            res[int(m2.group(1))] = int(m.group(1))
        return res

    cf = counts("count_faces", "faces")
    cc = counts("count_cells", "cells")
    out_blocks = []

    def elem_blocks(blk, cont, cfun, cmap, code):
        if ast.unparse(blk.test) != "hasattr(mesh, '%s') and (not mesh.%s.empty())" % (cont, cont):
            T.fail(rel, blk, "unexpected guard of the %s blocks" % cont)
        b = blk.body
        un = b[0]
        if not (isinstance(un, ast.Assign) and isinstance(un.targets[0], ast.Tuple) and ast.unparse(un.value) == "%s(mesh)" % cfun):
            T.fail(rel, un, "expected the unpacking of %s(mesh)" % cfun)
        names = [e.id for e in un.targets[0].elts]
        for s in b[1:]:
            if not isinstance(s, ast.If):
                T.fail(rel, s, "unexpected statement in the %s blocks" % cont)
            m = re.fullmatch(r"(\w+) > 0", ast.unparse(s.test))
            if not m or m.group(1) not in names:
                T.fail(rel, s, "unexpected block guard")
            cv = m.group(1)
            if isinstance(s.body[0], ast.Expr) and ast.unparse(s.body[0]).startswith("warnings.warn"):
                continue
            fc = format_call(write_arg(s.body[0]))
            m = re.fullmatch(r"(\w+)\n\{\}\n", fc[0]) if fc else None
            if not m or len(fc[1]) != 1 or ast.unparse(fc[1][0]) != cv or str_const(write_arg(s.body[2])) != "\n":
                T.fail(rel, s, "unexpected keyword/count lines")
            pos = names.index(cv)
            if pos not in cmap:
                T.fail(rel, s, "count variable %s is not an arity class" % cv)
            loop = s.body[1]
            if not (isinstance(loop, ast.For) and ast.unparse(loop.iter) == "mesh." + cont and len(loop.body) == 1 and isinstance(loop.body[0], ast.If)):
                T.fail(rel, loop, "unexpected element loop")
            x = loop.target.id
            g = loop.body[0]
            mg = re.fullmatch(r"len\(%s\) == (\d+)" % x, ast.unparse(g.test))
            fc2 = format_call(write_arg(g.body[0]))
            if not mg or fc2 is None or len(fc2[1]) != 1 or not isinstance(fc2[1][0], ast.Starred):
                T.fail(rel, loop, "unexpected element line")
            gen = fc2[1][0].value
            if not (isinstance(gen, ast.GeneratorExp) and ast.unparse(gen.generators[0].iter) == x and len(gen.generators) == 1):
                T.fail(rel, loop, "unexpected element line generator")
            form = zexpr(gen.elt, {gen.generators[0].target.id: "i"}, rel)
            n, rest = placeholders(fc2[0], rel, loop)
            if form != idx_form or rest != [ref] or n != int(mg.group(1)):
                T.fail(rel, loop, "element line does not write exactly the element's indices (+ref)")
            out_blocks.append("(%s, %d, %d, %d)" % (coq_str(m.group(1)), code, int(mg.group(1)), cmap[pos]))

    elem_blocks(fb, "faces", "count_faces", cf, 2)
    elem_blocks(cb, "cells", "count_cells", cc, 3)
    o.d("Definition medit_exp_idx (i : Z) : Z := %s." % idx_form)
    o.d("(* blocks in file order: keyword, container (2 faces / 3 cells), arity written, arity counted *)")
    o.d("Definition medit_exp_blocks : list (string * Z * Z * Z) := [%s]." % "; ".join(out_blocks))

    im = T.find_def(tree, "import_medit", rel)
    o.src("import_medit", src, im)
    pfd = T.find_def(tree, "parse_field", rel)
    o.src("parse_field", src, pfd)
    pb = [ast.unparse(s) for s in T.body_nodoc(pfd)]
    if [a.arg for a in pfd.args.args] != ["data", "container", "nlines", "nelem"] or len(pb) != 1 or not pb[0].startswith("for _ in range(nlines):\n    line = data.popleft().split()\n"):
        T.fail(rel, pfd, "unexpected parse_field")
    loop = T.body_nodoc(pfd)[0]
    d = loop.body[1]
    if not (isinstance(d, ast.Assign) and isinstance(d.value, ast.Subscript) and isinstance(d.value.slice, ast.Slice)
            and d.value.slice.lower is None and ast.unparse(d.value.slice.upper) == "nelem" and isinstance(d.value.value, ast.ListComp)
            and ast.unparse(d.value.value.generators[0].iter) == "line" and ast.unparse(loop.body[2]) == "container.append(d)"):
        T.fail(rel, d, "expected d = [<index> for u in line][:nelem]")
    o.d("Definition medit_imp_idx (u : Z) : Z := %s." % zexpr(d.value.value.elt, {"int(u.strip())": "u"}, rel))
    loop = find_one(im.body, lambda s: isinstance(s, ast.While), rel, "main loop", im)
    if ast.unparse(loop.test) != "data" or ast.unparse(loop.body[0]) != "line = data.popleft()":
        T.fail(rel, loop, "unexpected main loop")
    chain, orelse = if_chain(loop.body[1])
    fields = []
    codes = {"obj.edges": 1, "obj.faces": 2, "obj.cells": 3}
    got_end = got_v = False
    for test, body in chain:
        m = re.fullmatch(r"line == '(\w+)'", ast.unparse(test))
        if not m:
            T.fail(rel, test, "expected line == '<Keyword>'")
        kw = m.group(1)
        b = [ast.unparse(s) for s in body]
        if b == ["break"]:
            o.d("Definition medit_imp_end := %s." % coq_str(kw))
            got_end = True
        elif len(b) == 2 and re.fullmatch(r"\w+ = int\(data\.popleft\(\)\)", b[0]) and isinstance(body[1], ast.For):
            vl = body[1]
            cv = b[0].split(" = ")[0]
            bb = [ast.unparse(s) for s in vl.body]
            mm = re.fullmatch(r"vertex = \[float\(u\.strip\(\)\) for u in line\[:(\d+)\]\]", bb[1]) if len(bb) == 3 else None
            if ast.unparse(vl.iter) != "range(%s)" % cv or not mm or bb[0] != "line = data.popleft().split()" or bb[2] != "obj.vertices.append(vertex)":
                T.fail(rel, test, "unexpected vertices branch")
            o.d("Definition medit_imp_vertices := %s." % coq_str(kw))
            o.d("Definition medit_imp_vertex_hi : Z := %s." % mm.group(1))
            got_v = True
        elif len(b) == 2 and re.fullmatch(r"\w+ = int\(data\.popleft\(\)\)", b[0]):
            cv = b[0].split(" = ")[0]
            mm = re.fullmatch(r"parse_field\(data, (obj\.\w+), %s, (\d+)\)" % cv, b[1])
            if not mm or mm.group(1) not in codes:
                T.fail(rel, test, "unexpected field branch")
            fields.append("(%s, %d, %s)" % (coq_str(kw), codes[mm.group(1)], mm.group(2)))
        else:
            T.fail(rel, test, "unrecognised branch for %r" % kw)
    if not got_end or not got_v or orelse:
        T.fail(rel, loop, "End / Vertices branch missing")
    o.d("(* keyword, container (1 edges / 2 faces / 3 cells), arity kept *)")
    o.d("Definition medit_imp_fields : list (string * Z * Z) := [%s]." % "; ".join(fields))



# ---------------------------------------------------------------------------------------------- geogram_ascii
def write_text(node, rel):
    """text of a written constant / '...'.format(..) / f-string, placeholders as {}; None if not one of these"""
    if str_const(node) is not None:
        return node.value
    fc = format_call(node)
    if fc:
        return fc[0]
    if isinstance(node, ast.JoinedStr):
        return "".join(v.value if isinstance(v, ast.Constant) else "{}" for v in node.values)
    return None


def slist(xs):
    return "[" + "; ".join(coq_str(x) for x in xs) + "]"


def gen_geogram(o):
    rel = IO + "geogram_ascii.py"
    src, tree = T.load(rel)
    chunk = T.find_def(tree, "Chunk", rel)
    o.src("geogram Chunk", src, chunk)
    # chunk kinds
    ty = T.find_def(tree, "Chunk.Type", rel)
    vals = {s.targets[0].id: s.value.value for s in ty.body if isinstance(s, ast.Assign)}
    fs = T.find_def(tree, "Chunk.Type.from_string", rel)
    kinds = {}
    for st in T.body_nodoc(fs):
        m = re.fullmatch(r"if txt == '(\[\w+\])':\n    return cls\.(\w+)", ast.unparse(st))
        if not m:
            T.fail(rel, st, "unexpected Chunk.Type.from_string")
        kinds[m.group(2)] = m.group(1)
    if vals != {"HEAD": 0, "ATTR": 1, "ATTS": 2} or set(kinds) != set(vals):
        T.fail(rel, ty, "unexpected chunk kinds")
    for k in ("HEAD", "ATTR", "ATTS"):
        o.d("Definition geo_kw_%s := %s." % (k.lower(), coq_str(kinds[k])))
    ich = T.find_def(tree, "is_chunk_header", rel)
    b = T.body_nodoc(ich)
    marks = re.findall(r"'(\[\w+\])' in line", ast.unparse(b[0]))
    if not (len(b) == 1 and isinstance(b[0], ast.Return) and isinstance(b[0].value, ast.BoolOp) and isinstance(b[0].value.op, ast.Or)
            and len(marks) == len(b[0].value.values)):
        T.fail(rel, ich, "unexpected is_chunk_header")
    o.d("Definition geo_header_marks : list string := %s." % slist(marks))
    # containers
    ct = T.find_def(tree, "Chunk.Container", rel)
    cvals = {s.targets[0].id: s.value.value for s in ct.body if isinstance(s, ast.Assign)}
    want = {"VERTICES": 0, "EDGES": 1, "FACES": 2, "FACE_CORNERS": 3, "CELLS": 4, "CELL_CORNERS": 5, "CELL_FACETS": 6}
    if cvals != want:
        T.fail(rel, ct, "unexpected container enumeration")
    cfs = T.find_def(tree, "Chunk.Container.from_string", rel)
    tab = []
    for st in T.body_nodoc(cfs):
        m = re.fullmatch(r"if '(\w+)' in txt:\n    return cls\.(\w+)", ast.unparse(st))
        if not m or m.group(2) not in cvals:
            T.fail(rel, st, "unexpected Container.from_string")
        tab.append("(%s, %d)" % (coq_str(m.group(1)), cvals[m.group(2)]))
    o.d("(* Container.from_string: first substring found, in this order -> container code *)")
    o.d("Definition geo_container_from : list (string * Z) := [%s]." % "; ".join(tab))
    # Chunk.__init__ : positions
    ini = T.find_def(tree, "Chunk.__init__", rel)
    t = ast.unparse(ini)
    pos = {}
    for name, pat in (("type", r"self\.type: Chunk\.Type = Chunk\.Type\.from_string\(chunk_data\[(\d+)\]\)"),
                      ("cont", r"self\.container: Chunk\.Container = Chunk\.Container\.from_string\(chunk_data\[(\d+)\]\)"),
                      ("name", r"self\.name: str = chunk_data\[(\d+)\]"),
                      ("dty", r"self\.data_type: Attribute\.Type = Attribute\.Type\.from_string\(chunk_data\[(\d+)\]\)"),
                      ("bs", r"self\.data_size: int = int\(chunk_data\[(\d+)\]\)"),
                      ("ar", r"self\.n_data: int = int\(chunk_data\[(\d+)\]\)"),
                      ("n", r"self\.n: int = int\(chunk_data\[(\d+)\]\)")):
        m = re.findall(pat, t)
        if len(m) != 1:
            T.fail(rel, ini, "Chunk.__init__: field %s not found" % name)
        pos[name] = int(m[0])
        o.d("Definition geo_pos_%s : Z := %d." % (name, pos[name]))
    convs = re.findall(r"(?:if|elif) self\.data_type == Attribute\.Type\.(\w+):\n\s+self\.data = \[(.+?) for x in chunk_data\[(\d+):\]\]", t)
    if convs != [("Float", "np.float64(x)", "6"), ("Int", "int(x)", "6"), ("Bool", "bool(int(x))", "6"), ("Complex", "complex(x)", "6")] \
            or not re.search(r"else:\n\s+self\.data = \[unquote\(x\) for x in chunk_data\[6:\]\]", t):
        T.fail(rel, ini, "unexpected data conversions in Chunk.__init__ : %r" % (convs,))
    o.d("Definition geo_pos_data : Z := 6.")
    if pos["type"] != 0:
        T.fail(rel, ini, "chunk kind is not read from the first line")
    # attribute types (mesh_attributes.py)
    rel2 = "mouette/mesh/mesh_attributes.py"
    src2, tree2 = T.load(rel2)
    aty = T.find_def(tree2, "_BaseAttribute.Type", rel2)
    o.src("Attribute.Type", src2, aty)
    members = [s.targets[0].id for s in aty.body if isinstance(s, ast.Assign)]
    if members != ["Bool", "Int", "Float", "Complex", "String"]:
        T.fail(rel2, aty, "unexpected attribute types")
    ts = T.find_def(tree2, "_BaseAttribute.Type.to_string", rel2)
    if [ast.unparse(x) for x in T.body_nodoc(ts)] != ["if self.name.lower() == 'float':\n    return 'double'", "return self.name.lower()"]:
        T.fail(rel2, ts, "unexpected Type.to_string")
    tostr = {m: ("double" if m.lower() == "float" else m.lower()) for m in members}
    bsz = T.find_def(tree2, "_BaseAttribute.Type.byte_size", rel2)
    bb = T.body_nodoc(bsz)
    if not (len(bb) == 1 and isinstance(bb[0], ast.Return) and isinstance(bb[0].value, ast.Call) and isinstance(bb[0].value.func, ast.Attribute)
            and isinstance(bb[0].value.func.value, ast.Dict) and ast.unparse(bb[0].value.args[0]) == "self.name"):
        T.fail(rel2, bsz, "unexpected Type.byte_size")
    dd = bb[0].value.func.value
    sizes = {k.value: v.value for k, v in zip(dd.keys, dd.values)}
    if set(sizes) != set(members) or not all(isinstance(v, int) for v in sizes.values()):
        T.fail(rel2, bsz, "byte_size does not give an integer for every type (None would be written)")
    fsn = T.find_def(tree2, "_BaseAttribute.Type.from_string", rel2)
    acc = {}
    for st in T.body_nodoc(fsn)[:-1]:
        if not (isinstance(st, ast.If) and isinstance(st.test, ast.Compare) and isinstance(st.test.ops[0], ast.In)
                and isinstance(st.test.comparators[0], ast.Set) and ast.unparse(st.test.left) == "txt" and len(st.body) == 1):
            T.fail(rel2, st, "unexpected Type.from_string")
        m = re.fullmatch(r"return cls\.(\w+)", ast.unparse(st.body[0]))
        if not m or m.group(1) not in members:
            T.fail(rel2, st, "unexpected Type.from_string target")
        acc.setdefault(m.group(1), [])
        acc[m.group(1)] += [e.value for e in st.test.comparators[0].elts]
    if not isinstance(T.body_nodoc(fsn)[-1], ast.Raise) or set(acc) != set(members):
        T.fail(rel2, fsn, "Type.from_string does not cover the five types")
    o.d("(* attribute types: code (0 Bool 1 Int 2 Float 3 Complex 4 String), to_string, byte_size, texts accepted by from_string (in test order) *)")
    order = [m.group(1) for m in re.finditer(r"return cls\.(\w+)", ast.unparse(fsn))]
    rows = []
    for name in order:
        rows.append("(%d, %s, %d, %s)" % (members.index(name), coq_str(tostr[name]), sizes[name], slist(acc[name])))
    o.d("Definition geo_types : list (Z * string * Z * list string) := [%s]." % "; ".join(rows))
    # export
    ea = T.find_def(tree, "export_attribute", rel)
    o.src("export_attribute", src, ea)
    # the percent-encoding alphabets
    consts = {}
    for st in tree.body:
        if isinstance(st, ast.Assign) and isinstance(st.targets[0], ast.Name) and st.targets[0].id.endswith("_SAFE_CHARACTERS"):
            v = st.value
            if isinstance(v, ast.Constant) and isinstance(v.value, str):
                consts[st.targets[0].id] = v.value
            elif isinstance(v, ast.BinOp) and isinstance(v.op, ast.Add) and isinstance(v.left, ast.Name) and v.left.id in consts and str_const(v.right) is not None:
                consts[st.targets[0].id] = consts[v.left.id] + v.right.value
            else:
                T.fail(rel, st, "unexpected definition of a percent-encoding alphabet")
    if set(consts) != {"STRING_SAFE_CHARACTERS", "NAME_SAFE_CHARACTERS"}:
        T.fail(rel, tree, "percent-encoding alphabets not found")
    imp = [ast.unparse(st) for st in tree.body if isinstance(st, ast.ImportFrom) and st.module == "urllib.parse"]
    if imp != ["from urllib.parse import quote, unquote"]:
        T.fail(rel, tree, "quote / unquote are not urllib.parse's")
    o.d("(* characters kept as they are by the percent-encoding of string values / of user attribute names (besides letters, digits and _.-~) *)")
    o.d("Definition geo_string_safe := %s." % coq_str(consts["STRING_SAFE_CHARACTERS"]))
    o.d("Definition geo_name_safe := %s." % coq_str(consts["NAME_SAFE_CHARACTERS"]))
    want_ea = ("def export_attribute(f, size, container, attr, attr_name):\n"
               "    attr_name = quote(str(attr_name), safe=NAME_SAFE_CHARACTERS)\n"
               "    f.write(f'[ATTR]\\n\"{container}\"\\n\"{attr_name}\"\\n\"{attr.type.to_string()}\"\\n{attr.type.byte_size()}\\n{attr.elemsize}\\n')\n"
               "    for i in range(size):\n"
               "        if attr.elemsize == 1:\n"
               "            if attr.type == Attribute.Type.Bool:\n"
               "                f.write(f'{int(attr[i])}\\n')\n"
               "            elif attr.type == Attribute.Type.String:\n"
               "                f.write(quote(str(attr[i]), safe=STRING_SAFE_CHARACTERS) + '\\n')\n"
               "            else:\n"
               "                f.write('{}\\n'.format(attr[i]))\n"
               "        else:\n"
               "            for j in range(attr.elemsize):\n"
               "                if attr.type == Attribute.Type.Bool:\n"
               "                    f.write(f'{int(attr[i][j])}\\n')\n"
               "                elif attr.type == Attribute.Type.String:\n"
               "                    f.write(quote(str(attr[i][j]), safe=STRING_SAFE_CHARACTERS) + '\\n')\n"
               "                else:\n"
               "                    f.write(f'{attr[i][j]}\\n')")
    if ast.unparse(ea) != want_ea:
        T.fail(rel, ea, "export_attribute differs from the modelled text")
    o.d("Definition geo_exp_user_kw := %s." % coq_str("[ATTR]"))
    ex = T.find_def(tree, "export_geogram_ascii", rel)
    o.src("export_geogram_ascii", src, ex)
    heads = []
    for c in walk_type(ex, ast.Call):
        if isinstance(c.func, ast.Attribute) and c.func.attr == "write" and len(c.args) == 1:
            tx = write_text(c.args[0], rel)
            if tx and tx.startswith("["):
                heads.append((c.lineno, c.col_offset, tx))
    heads.sort()
    roles = ["head", "atts_V", "attr_point", "atts_E", "attr_edge_vertex", "atts_F", "attr_facet_ptr", "atts_FC", "attr_fc_vertex",
             "attr_fc_adj", "atts_C", "attr_cell_ptr", "atts_CC", "attr_cc_vertex", "atts_CF", "attr_cf_adj"]
    if len(heads) != len(roles):
        T.fail(rel, ex, "expected %d chunk headers in export_geogram_ascii, found %d" % (len(roles), len(heads)))
    for role, (_, _, tx) in zip(roles, heads):
        parts = tx.split("\n")
        if parts[-1] != "":
            T.fail(rel, ex, "chunk header %r does not end a line" % tx)
        parts = parts[:-1]
        if role == "head":
            o.d("Definition geo_exp_head : list string := %s." % slist(parts))
        elif role.startswith("atts"):
            if len(parts) != 3 or parts[2] != "{}":
                T.fail(rel, ex, "unexpected [ATTS] header %r" % tx)
            o.d("Definition geo_exp_%s : list string := %s." % (role, slist(parts[:2])))
        else:
            if len(parts) != 6 or not parts[4].isdigit() or not parts[5].isdigit():
                T.fail(rel, ex, "unexpected [ATTR] header %r" % tx)
            o.d("Definition geo_exp_%s : list string * Z * Z := (%s, %s, %s)." % (role, slist(parts[:4]), parts[4], parts[5]))
    uc = []
    for c in walk_type(ex, ast.Call):
        if T.dotted(c.func) == "export_attribute":
            if len(c.args) != 5 or str_const(c.args[2]) is None:
                T.fail(rel, c, "unexpected export_attribute call")
            uc.append((c.lineno, ast.unparse(c.args[1]), c.args[2].value, ast.unparse(c.args[3]), ast.unparse(c.args[4])))
    uc.sort()
    if [(a, d, e) for _, a, _, d, e in uc] != [("n_vert", "attr", "attr_key"), ("n_edges", "attr", "attr_key"), ("n_face", "attr", "attr_key"),
                                              ("n_corners", "attr", "attr_key"), ("n_cells", "attr", "attr_key"), ("n_corners", "attr", "attr_key"),
                                              ("n_cell_faces", "attr", "attr_key")]:
        T.fail(rel, ex, "unexpected export_attribute calls")
    m_adj = re.findall(r"if mesh\.face_corners\.has_attribute\('(\w+)'\):", ast.unparse(ex))
    m_skip = re.findall(r"if attr_key == '(\w+)':\n\s+continue", ast.unparse(ex))
    if len(m_adj) != 1 or m_skip != [m_adj[0], "adjacent_cell"]:
        T.fail(rel, ex, "unexpected handling of the adjacency attributes in export_geogram_ascii")
    o.d("(* attribute names export_geogram_ascii gives a special treatment to (face corners / cell facets) *)")
    o.d("Definition geo_exp_fc_adj_name := %s." % coq_str(m_adj[0]))
    o.d("Definition geo_exp_cf_adj_name := %s." % coq_str(m_skip[1]))
    o.d("(* container names handed to export_attribute, for vertices, edges, faces, face corners, cells, cell corners, cell faces *)")
    o.d("Definition geo_exp_user_cont : list string := %s." % slist([c for _, _, c, _, _ in uc]))
    ext = ast.unparse(ex)
    for needle in ("if any((len(face) != 3 for face in mesh.faces)):", "ptr += len(face)", "for c in mesh.face_corners:\n                f.write(f'{c}\\n')",
                   "f.write(f'{edge[0]}\\n{edge[1]}\\n')", "f.write('{}\\n{}\\n{}\\n'.format(*mesh.vertices[i]))",
                   "f.write(f'{cell_adj[iC, iF]}\\n')", "for iF in range(len(cell)):", "if any((len(cell) != 4 for cell in mesh.cells)):", "ptr += len(cell)",
                   "if mesh.cell_faces.has_attribute('adjacent_cell'):",
                   "n_corners = sum([len(cell) for cell in mesh.cells])", "for cell in mesh.cells:\n                for x in cell:\n                    f.write(f'{x}\\n')"):
        if needle not in ext:
            T.fail(rel, ex, "export_geogram_ascii: expected statement not found: %r" % needle)
    mcf = re.findall(r"n_cell_faces = sum\(\[(\d+) if len\(c\) == (\d+) else (\d+) for c in mesh\.cells\]\)", ext)
    if len(mcf) != 1:
        T.fail(rel, ex, "number of cell facets not found")
    o.d("(* facets of a cell with n vertices, as counted for the cell_facets attribute set *)")
    o.d("Definition geo_exp_cell_facets (n : Z) : Z := if n =? %s then %s else %s." % (mcf[0][1], mcf[0][0], mcf[0][2]))
    # import
    im = T.find_def(tree, "import_geogram_ascii", rel)
    o.src("import_geogram_ascii", src, im)
    o.src("import_attribute", src, T.find_def(tree, "import_attribute", rel))
    it = ast.unparse(im)
    if "data = [x.split('#')[0].strip() for x in f.readlines()]" not in it:
        T.fail(rel, im, "unexpected line clean-up")
    ptrs = re.findall(r"chk\.type == Chunk\.Type\.ATTR and chk\.name == '(\"[^']+\")'", it)
    if len(ptrs) != 2:
        T.fail(rel, im, "facet_ptr / cell_ptr tests not found")
    o.d("Definition geo_imp_facet_ptr := %s." % coq_str(ptrs[0]))
    o.d("Definition geo_imp_cell_ptr := %s." % coq_str(ptrs[1]))
    sk = re.findall(r"elif ((?:chk\.name == '\"[^']+\"'(?: or )?)+):\n\s+continue", it)
    if len(sk) != 1:
        T.fail(rel, im, "the branch skipping the *_ptr chunks was not found")
    o.d("(* [ATTR] chunks the main pass skips *)")
    o.d("Definition geo_imp_skip : list string := %s." % slist(re.findall(r"'(\"[^']+\")'", sk[0])))
    m3 = re.findall(r"n_corner_in_facet = \[(\d+)\] \* container_sizes\[Chunk\.Container\.FACES\]", it)
    m4 = re.findall(r"n_corner_in_cell = \[(\d+)\] \* container_sizes\[Chunk\.Container\.CELLS\]", it)
    if len(m3) != 1 or len(m4) != 1:
        T.fail(rel, im, "default facet / cell sizes not found")
    o.d("Definition geo_imp_default_facet : Z := %s." % m3[0])
    o.d("Definition geo_imp_default_cell : Z := %s." % m4[0])
    sp = re.findall(r"chk\.container == Chunk\.Container\.(\w+) and chk\.name == '(\"[^']+\")':\n\s+assert chk\.n_data == (\d+)", it)
    if [c for c, _, _ in sp] != ["VERTICES", "EDGES", "FACE_CORNERS", "FACE_CORNERS", "CELL_CORNERS", "CELL_FACETS"]:
        T.fail(rel, im, "unexpected special chunks %r" % (sp,))
    o.d("(* chunks read as geometry / connectivity: container code, name line, asserted arity; in the order point, edge_vertex, facet corner_vertex, corner_adjacent_facet, cell corner_vertex, adjacent_cell *)")
    o.d("Definition geo_imp_special : list (Z * string * Z) := [%s]." % "; ".join("(%d, %s, %s)" % (cvals[c], coq_str(n), k) for c, n, k in sp))
    opp = re.findall(r"create_attribute\('(\w+)', int, default_value=NOT_AN_ID\)", it)
    if len(opp) != 2:
        T.fail(rel, im, "opposite_face / opposite_cell attributes not found")
    o.d("Definition geo_imp_opp_face := %s." % coq_str(opp[0]))
    o.d("Definition geo_imp_opp_cell := %s." % coq_str(opp[1]))
    if "attr = container.create_attribute(unquote(chk.name.split('\"')[1]), chk.data_type, chk.n_data)" not in it:
        T.fail(rel, im, "user attribute creation not found")
    ia = ast.unparse(T.find_def(tree, "import_attribute", rel))
    want_ia = ("def import_attribute(chk: Chunk, attr: Attribute):\n    for i in range(len(chk.data) // chk.n_data):\n        val = []\n"
               "        for j in range(chk.n_data):\n            val.append(chk.data[chk.n_data * i + j])\n"
               "        if chk.n_data == 1 and val[0] != attr.default_value:\n            attr[i] = val[0]\n"
               "        elif chk.n_data > 1:\n            attr[i] = val")
    if ia != want_ia:
        T.fail(rel, im, "import_attribute differs from the modelled text")
    rel3 = "mouette/config.py"
    src3, tree3 = T.load(rel3)
    nid = [s for s in tree3.body if isinstance(s, ast.Assign) and T.dotted(s.targets[0]) == "NOT_AN_ID"]
    if len(nid) != 1 or not isinstance(nid[0].value, ast.Constant):
        T.fail(rel3, tree3, "NOT_AN_ID not found")
    o.d("Definition geo_not_an_id : Z := %d." % nid[0].value.value)


# ---------------------------------------------------------------------------------------------- stl
def gen_stl(o):
    rel = IO + "stl.py"
    src, tree = T.load(rel)
    cls = T.find_def(tree, "Binary_STL_Writer", rel)
    o.src("Binary_STL_Writer", src, cls)
    consts = {s.targets[0].id: s.value.value for s in cls.body if isinstance(s, ast.Assign) and isinstance(s.value, ast.Constant)}
    if consts.get("BINARY_HEADER") != "80sI" or consts.get("BINARY_FACET") != "12fH":
        T.fail(rel, cls, "unexpected struct formats %r" % (consts,))
    wh = T.find_def(tree, "Binary_STL_Writer._write_header", rel)
    t = [ast.unparse(x) for x in T.body_nodoc(wh)]
    m = re.fullmatch(r"self\.fp\.write\(struct\.pack\(Binary_STL_Writer\.BINARY_HEADER, b'([ -~]*)', self\.counter\)\)", t[1]) if len(t) == 2 else None
    if t[0] != "self.fp.seek(0)" or not m:
        T.fail(rel, wh, "unexpected _write_header")
    o.d("Definition stl_header_text := %s." % coq_str(m.group(1)))
    wt = T.find_def(tree, "Binary_STL_Writer._write_triangle", rel)
    b = T.body_nodoc(wt)
    params = [a.arg for a in wt.args.args]
    if len(params) != 4 or ast.unparse(b[0]) != "self.counter += 1" or ast.unparse(b[2]) != "self.fp.write(struct.pack(Binary_STL_Writer.BINARY_FACET, *data))":
        T.fail(rel, wt, "unexpected _write_triangle")
    lst = b[1].value
    if not (isinstance(b[1], ast.Assign) and ast.unparse(b[1].targets[0]) == "data" and isinstance(lst, ast.List) and len(lst.elts) == 13):
        T.fail(rel, b[1], "data is not a list of 12 floats and the attribute word")
    lay = []
    for e in lst.elts[:12]:
        if isinstance(e, ast.Constant) and isinstance(e.value, float) and e.value == 0.0:
            lay.append("(-1, 0)")
        elif isinstance(e, ast.Subscript) and isinstance(e.value, ast.Name) and e.value.id in params[1:] and isinstance(e.slice, ast.Constant):
            lay.append("(%d, %d)" % (params[1:].index(e.value.id), e.slice.value))
        else:
            T.fail(rel, e, "unexpected entry of data")
    last = lst.elts[12]
    if not (isinstance(last, ast.Constant) and isinstance(last.value, int)):
        T.fail(rel, last, "attribute word is not an int constant")
    o.d("(* the 12 floats of a facet: (-1, _) = the constant 0., (k, i) = coordinate i of the k-th point *)")
    o.d("Definition stl_tri_layout : list (Z * Z) := [%s]." % "; ".join(lay))
    o.d("Definition stl_tri_attr : Z := %d." % last.value)
    wr = T.find_def(tree, "Binary_STL_Writer.write", rel)
    b = T.body_nodoc(wr)
    if [ast.unparse(b[0]), ast.unparse(b[2])] != ["self._write_header()", "self._write_header()"] or not isinstance(b[1], ast.For) \
            or ast.unparse(b[1].iter) != "mesh.faces" or ast.unparse(b[1].body[0]) != "pts = [mesh.vertices[v] for v in %s]" % b[1].target.id:
        T.fail(rel, wr, "unexpected write")
    chain, orelse = if_chain(b[1].body[1])
    if not (len(orelse) == 1 and isinstance(orelse[0], ast.Raise)):
        T.fail(rel, wr, "other face sizes do not raise")
    split = []
    for test, body in chain:
        m = re.fullmatch(r"len\(%s\) == (\d+)" % b[1].target.id, ast.unparse(test))
        if not m:
            T.fail(rel, test, "unexpected face size test")
        tris = []
        for st in body:
            tx = ast.unparse(st)
            if tx == "self._write_triangle(*pts)":
                tris.append(list(range(int(m.group(1)))))
                continue
            mm = re.fullmatch(r"self\._write_triangle\(pts\[(\d+)\], pts\[(\d+)\], pts\[(\d+)\]\)", tx)
            if not mm:
                T.fail(rel, st, "unexpected triangle call")
            tris.append([int(g) for g in mm.groups()])
        if any(len(t) != 3 for t in tris):
            T.fail(rel, test, "a triangle call does not get 3 points")
        split.append("(%s, [%s])" % (m.group(1), "; ".join(zlist(t) for t in tris)))
    o.d("(* face size -> the point triples handed to _write_triangle *)")
    o.d("Definition stl_face_split : list (Z * list (list Z)) := [%s]." % "; ".join(split))
    ex = T.find_def(tree, "export_stl", rel)
    o.src("export_stl", src, ex)
    if "writer = Binary_STL_Writer(fp)" not in ast.unparse(ex) or "writer.write(mesh)" not in ast.unparse(ex) or "open(path, 'wb')" not in ast.unparse(ex):
        T.fail(rel, ex, "unexpected export_stl")

# ---------------------------------------------------------------------------------------------- signatures / module state
KNOWN_DECORATORS = {"classmethod", "staticmethod", "property", "abstractmethod"}


def _immutable_default(d):
    if isinstance(d, ast.Constant):     # None, bool, int, float, str, bytes
        return True
    if isinstance(d, ast.UnaryOp) and isinstance(d.op, (ast.USub, ast.UAdd)) and isinstance(d.operand, ast.Constant):
        return True
    if isinstance(d, ast.Tuple):
        return all(_immutable_default(e) for e in d.elts)
    return False


def gen_signatures(o):
    """every callable of the codec files: no decorator that could memoise / share a result, every default an immutable constant
    (a default such as `output=RawMeshData()` is one object shared by all calls), no `global` / `nonlocal`, and no module-level
    mutable state (a result object or a cache living in the module).  The theorems are about one call; these are the
    syntactic ways in which a second call in the same process could differ from the first."""
    files = [IO + f for f in ("io.py", "xyz.py", "obj.py", "off.py", "tet.py", "medit.py", "geogram_ascii.py", "stl.py")]
    n_fun = 0
    for rel in files + ["mouette/mesh/mesh.py"]:
        src, tree = T.load(rel)
        scope = tree
        if rel.endswith("mesh/mesh.py"):    # only the three functions of the property
            scope = ast.Module(body=[T.find_def(tree, n, rel) for n in ("_instanciate_raw_mesh_data", "load", "save")], type_ignores=[])
        else:
            for st in tree.body:
                if isinstance(st, (ast.Assign, ast.AnnAssign, ast.AugAssign)):
                    v = st.value
                    ok = v is None or _immutable_default(v) or (
                        isinstance(v, ast.BinOp) and isinstance(v.op, ast.Add)
                        and all(isinstance(x, ast.Name) or str_const(x) is not None for x in (v.left, v.right)))
                    if not ok:
                        T.fail(rel, st, "module-level state `%s` (not an immutable constant)" % ast.unparse(st)[:80])
                elif not isinstance(st, (ast.Import, ast.ImportFrom, ast.FunctionDef, ast.ClassDef, ast.Expr)):
                    T.fail(rel, st, "unexpected module-level statement `%s`" % ast.unparse(st)[:80])
                elif isinstance(st, ast.Expr) and str_const(st.value) is None:
                    T.fail(rel, st, "module-level expression statement `%s`" % ast.unparse(st)[:80])
        for n in ast.walk(scope):
            if isinstance(n, (ast.Global, ast.Nonlocal)):
                T.fail(rel, n, "`%s`: state shared between calls" % ast.unparse(n))
            if isinstance(n, (ast.FunctionDef, ast.AsyncFunctionDef, ast.Lambda)):
                n_fun += 1
                name = getattr(n, "name", "<lambda>")
                for d in getattr(n, "decorator_list", []):
                    if ast.unparse(d) not in KNOWN_DECORATORS:
                        T.fail(rel, n, "decorator @%s on %s is not known to the translator" % (ast.unparse(d), name))
                for d in list(n.args.defaults) + [k for k in n.args.kw_defaults if k is not None]:
                    if not _immutable_default(d):
                        T.fail(rel, n, "default value `%s` of a parameter of %s is not an immutable constant (one object shared by all calls)"
                               % (ast.unparse(d), name))
            if isinstance(n, ast.ClassDef):
                for d in n.decorator_list:
                    T.fail(rel, n, "decorator @%s on class %s is not known to the translator" % (ast.unparse(d), n.name))
    o.d("(* %d callables of the codec files checked: known decorators only, immutable defaults, no global / module-level state *)" % n_fun)
    # the optional parameters of load / save and their defaults (the call forms the driver exercises)
    src, tree = T.load("mouette/mesh/mesh.py")
    for fname, want in (("load", [("filename", None), ("dim", "None"), ("raw", "False")]),
                        ("save", [("mesh", None), ("filename", None), ("ignore_elements", "None")]),
                        ("_instanciate_raw_mesh_data", [("mesh_data", None), ("dim", "None")])):
        fn = T.find_def(tree, fname, "mouette/mesh/mesh.py")
        a = fn.args
        if a.vararg or a.kwarg or a.kwonlyargs or a.posonlyargs:
            T.fail("mouette/mesh/mesh.py", fn, "unexpected parameter kinds of " + fname)
        names = [x.arg for x in a.args]
        dfl = [None] * (len(names) - len(a.defaults)) + [ast.unparse(d) for d in a.defaults]
        if list(zip(names, dfl)) != want:
            T.fail("mouette/mesh/mesh.py", fn, "signature of %s is %s, expected %s" % (fname, list(zip(names, dfl)), want))


# ---------------------------------------------------------------------------------------------- loops and control flow
def fn_shape(fn):
    """The iteration skeleton of a codec function: every loop header, every continue / break / return-inside-a-loop, each with the
    chain of enclosing loop headers and if-tests, and the comprehensions' generators.  The hand-written model (and, for the readers
    that are not modelled, the independent readers of the check) assume exactly this skeleton: a writer that iterates over
    something else than the container (`range(len(attribute))`), a reader whose keyword branch leaves the line loop (`break`
    for `continue`) change it."""
    loops, ctl = [], []

    def walk(stmts, path, in_loop):
        for st in stmts:
            if isinstance(st, (ast.FunctionDef, ast.ClassDef)):
                continue
            if isinstance(st, (ast.For, ast.While)):
                h = ("for %s in %s" % (ast.unparse(st.target), ast.unparse(st.iter))) if isinstance(st, ast.For) else "while %s" % ast.unparse(st.test)
                loops.append(" / ".join(path + [h]))
                walk(st.body, path + [h], True)
                walk(st.orelse, path + [h + " else"], in_loop)
            elif isinstance(st, ast.If):
                t = "if %s" % ast.unparse(st.test)
                walk(st.body, path + [t], in_loop)
                walk(st.orelse, path + ["else of " + t], in_loop)
            elif isinstance(st, (ast.With, ast.Try)):
                walk(st.body, path, in_loop)
                for h in getattr(st, "handlers", []):
                    walk(h.body, path + ["except"], in_loop)
                walk(getattr(st, "orelse", []), path, in_loop)
                walk(getattr(st, "finalbody", []), path, in_loop)
            elif isinstance(st, (ast.Continue, ast.Break)):
                ctl.append(" / ".join(path + [type(st).__name__.lower()]))
            elif isinstance(st, ast.Return) and in_loop:
                ctl.append(" / ".join(path + ["return"]))
    walk(fn.body, [], False)
    comps = sorted({"%s in %s" % (ast.unparse(g.target), ast.unparse(g.iter)) for n in ast.walk(fn)
                    if isinstance(n, (ast.ListComp, ast.GeneratorExp, ast.SetComp, ast.DictComp)) for g in n.generators})
    return {"loops": loops, "control": ctl, "comprehensions": comps}


CONTROL_FILE = __file__.rsplit(".", 1)[0] + "_control.json"


def current_control():
    out = {}
    for f in ("xyz.py", "obj.py", "off.py", "tet.py", "medit.py", "geogram_ascii.py", "stl.py"):
        src, tree = T.load(IO + f)
        for n in ast.walk(tree):
            if isinstance(n, ast.FunctionDef):
                sh = fn_shape(n)
                if sh["loops"] or sh["control"] or sh["comprehensions"]:
                    out["%s:%s" % (f, n.name)] = sh
    return out


def consulted_attributes():
    """{file: sorted names} of the attributes the export functions look up by name (has_attribute / get_attribute with a literal)"""
    out = {}
    for f in ("xyz.py", "obj.py", "off.py", "tet.py", "medit.py", "geogram_ascii.py", "stl.py"):
        src, tree = T.load(IO + f)
        names = set()
        for n in ast.walk(tree):
            if isinstance(n, (ast.FunctionDef, ast.ClassDef)) and (n.name.startswith("export") or "Writer" in n.name):
                for c in walk_type(n, ast.Call):
                    if isinstance(c.func, ast.Attribute) and c.func.attr in ("has_attribute", "get_attribute") and c.args:
                        if str_const(c.args[0]) is None:
                            continue      # a name held in a variable: the generic attribute loop of the geogram exporter
                        names.add(c.args[0].value)
        out[f] = sorted(names)
    return out


def gen_control(o):
    import json
    cur = current_control()
    want = json.load(open(CONTROL_FILE))
    for k in sorted(set(cur) | set(want)):
        if cur.get(k) != want.get(k):
            a, b = cur.get(k) or {}, want.get(k) or {}
            diff = ["%s: now %s, modelled %s" % (part, [x for x in a.get(part, []) if x not in b.get(part, [])],
                                                 [x for x in b.get(part, []) if x not in a.get(part, [])])
                    for part in ("loops", "control", "comprehensions") if a.get(part) != b.get(part)]
            raise TranslationError("%s%s: the loops / control flow of %s are not the ones the model and the readers of the check were written "
                                   "against (%s)" % (IO, k.split(":")[0], k.split(":")[1], "; ".join(diff)[:600]))
    o.d("(* loops, continue / break / return and comprehension generators of %d codec functions agree with vf/translate/c04_control.json *)" % len(cur))


# ---------------------------------------------------------------------------------------------- main
GENS = [gen_io, gen_mesh, gen_xyz, gen_obj, gen_off, gen_tet, gen_medit, gen_geogram, gen_stl, gen_signatures, gen_control]


def gen():
    o = Out()
    for g in GENS:
        o.d("")
        o.d("(* ---- %s *)" % g.__name__[4:])
        try:
            g(o)
        except TranslationError:
            raise
        except Exception as ex:  # fail closed on any unexpected shape
            raise TranslationError("%s: unrecognised source shape (%s: %s)" % (g.__name__, type(ex).__name__, ex))
    text = T.header("C04: constants, tables and decision expressions of the mesh file codecs", o.parts)
    text += "From Coq Require Import ZArith List Bool String.\nImport ListNotations.\nOpen Scope string_scope. Open Scope Z_scope.\n"
    text += "\n".join(o.lines) + "\n"
    return {"C04/Gen.v": text}
