"""mouette/procedural/{flat,shapes,rings,polylines,dual}.py (+ utils/iterators.py)  ->  coq/theories/C14/Gen.v

A fail-closed translator for the tiny Python subset the procedural generators are written in.
For every generator `g` it emits (names are prefixed so that they cannot clash with Gallina):

  g_rejects  ints bools : bool                     the `if <int test>: raise` guards
  g_vsites   ints bools : list Z                   one entry (the syntactic site number) per vertex appended
  g_nverts   ints bools : Z                        := zlen (g_vsites ..)
  g_faces    ints bools : list (list Z)            the faces appended, in order
  g_edges / g_cells                                likewise (only when the generator touches them)
  g_coords   {T} (O : ops T) <all params> : list (vec T)    the vertex coordinates, same loop skeleton,
                                                   numbers through the bare operation record `ops`
and, for functions that only forward to another generator, the same names defined by the call plumbing
(which actual argument reaches which formal parameter of the callee).

Loops become `flat_map (fun i => ...) (zrange n)`, `if` becomes `if .. then .. else []`, a leading
`if c: break` becomes `ztake_while`, integer locals become `let`, `//` and `%` become Z.div / Z.modulo
(floor semantics on both sides).  Anything not recognised raises TranslationError.
"""
import ast
from fractions import Fraction

from . import common as T
from ..core import TranslationError

CONTAINERS = ("vertices", "faces", "edges", "cells")
INDEX_MODES = ("vsites", "faces", "edges", "cells")


def q(name):
    return "v_" + name


class Env:
    """name -> (kind, gallina term).  kinds: int bool float vec zlist mesh opaque"""

    def __init__(self, d=None):
        self.d = dict(d or {})

    def bind(self, name, kind, term=None):
        e = Env(self.d)
        e.d[name] = (kind, term if term is not None else q(name))
        return e

    def taint(self, names):
        e = Env(self.d)
        for n in names:
            e.d[n] = ("opaque", None)
        return e

    def get(self, name):
        return self.d.get(name, (None, None))


def app(a, b):
    if a == "[]":
        return b
    if b == "[]":
        return a
    return "(%s ++ %s)" % (a, b)


def uses(term, name):
    import re
    return re.search(r"(?<![A-Za-z0-9_'])%s(?![A-Za-z0-9_'])" % re.escape(name), term) is not None


def let(name, val, body):
    if body == "[]" or not uses(body, name):
        return body
    return "(let %s := %s in %s)" % (name, val, body)


def assigned_names(stmts):
    """names (re)bound anywhere inside the statements (plain names and tuple elements; loop targets)"""
    out = set()

    def targets(t):
        if isinstance(t, ast.Name):
            out.add(t.id)
        elif isinstance(t, (ast.Tuple, ast.List)):
            for x in t.elts:
                targets(x)

    for s in stmts:
        for n in ast.walk(s):
            if isinstance(n, ast.Assign):
                for t in n.targets:
                    targets(t)
            elif isinstance(n, (ast.AugAssign, ast.AnnAssign)):
                targets(n.target)
            elif isinstance(n, ast.For):
                targets(n.target)
    return out


def zconst(n):
    return "(%d)" % n if n < 0 else "%d" % n


class Fn:
    def __init__(self, rel, src, tree, name, out_name=None):
        self.rel, self.src, self.tree = rel, src, tree
        self.name = name
        self.node = T.find_def(tree, name, rel)
        if not isinstance(self.node, ast.FunctionDef):
            T.fail(rel, self.node, "%s is not a function" % name)
        # decorators can change what a call returns (caching, wrapping): only the mesh-type guards are understood
        for d in self.node.decorator_list:
            dn = T.dotted(d.func) if isinstance(d, ast.Call) else T.dotted(d)
            if dn not in ("allowed_mesh_types", "forbidden_mesh_types"):
                T.fail(rel, d, "decorator on generator %s is not understood" % name)
        self.g = out_name or name
        self.body = T.body_nodoc(self.node)
        self._check_defaults_and_param_mutation()
        self.params = self._params()
        self.mesh = None          # name of the RawMeshData local
        self.mesh_from_arrays = None
        self.aliases = {}         # local python list name -> pending elements handled as vertex list
        self.rejects = []
        self.ret_dim = None
        self.ret_ctor = None
        self.n_sites = 0
        self.uses_len_vertices = False
        self.extra_int_params = []   # e.g. number of input vertices of chain_of_vertices
        self.input_mesh = None
        self.geom_deps = set()    # helpers of mouette/geometry/rotations.py called by this function

    def _check_defaults_and_param_mutation(self):
        """Defaults are evaluated once: only immutable constants are fine as they are; a `Vec(<numbers>)` default (a
        mutable array shared by all calls) is accepted only if the function never modifies that parameter in place;
        likewise no parameter object handed in by the caller may be modified in place."""
        a = self.node.args
        defaults = [None] * (len(a.args) - len(a.defaults)) + list(a.defaults)
        names = [x.arg for x in a.args]
        for arg, d in zip(a.args, defaults):
            if d is None or isinstance(d, ast.Constant):
                continue
            if isinstance(d, ast.UnaryOp) and isinstance(d.operand, ast.Constant):
                continue
            ok = isinstance(d, ast.Call) and T.dotted(d.func) == "Vec" and not d.keywords and all(
                isinstance(x, ast.Constant) or (isinstance(x, ast.UnaryOp) and isinstance(x.operand, ast.Constant)) for x in d.args)
            if not ok:
                T.fail(self.rel, d, "default value of parameter %s of %s is not an immutable constant or Vec(<numbers>)" % (arg.arg, self.name))
        for n in ast.walk(self.node):
            tg = []
            if isinstance(n, ast.AugAssign):
                tg = [n.target]
            elif isinstance(n, ast.Assign):
                tg = [t for t in n.targets if isinstance(t, (ast.Subscript, ast.Attribute))]
            elif isinstance(n, ast.Call) and isinstance(n.func, ast.Attribute) and isinstance(n.func.value, ast.Name) \
                    and n.func.value.id in names and n.func.attr in ("fill", "sort", "resize", "put", "itemset", "append", "extend", "clear", "pop"):
                T.fail(self.rel, n, "%s: parameter %s is modified in place" % (self.name, n.func.value.id))
            for t in tg:
                base = t
                while isinstance(base, (ast.Subscript, ast.Attribute)):
                    base = base.value
                if isinstance(base, ast.Name) and base.id in names and (isinstance(n, ast.AugAssign) or base is not t):
                    # `p += ..`, `p[k] = ..`, `p.x = ..` write into the caller's (or the shared default) object
                    if isinstance(n, ast.AugAssign) and isinstance(t, ast.Name) and self._rebound_before(base.id, n):
                        continue
                    T.fail(self.rel, n, "%s: parameter %s is modified in place" % (self.name, base.id))

    def _rebound_before(self, name, node):
        """the name was re-assigned to a fresh value (`x = expr`) earlier at top level, so `x += ..` no longer touches the argument"""
        for s_ in self.node.body:
            if s_ is node or any(m is node for m in ast.walk(s_)):
                return False
            if isinstance(s_, ast.Assign) and any(isinstance(t, ast.Name) and t.id == name for t in s_.targets):
                return True
            if isinstance(s_, ast.Assign) and any(isinstance(t, ast.Tuple) and any(isinstance(e, ast.Name) and e.id == name for e in t.elts)
                                                  for t in s_.targets):
                return True
        return False

    # ------------------------------------------------------------------ parameters
    def _params(self):
        a = self.node.args
        if a.vararg or a.kwarg or a.kwonlyargs or a.posonlyargs:
            T.fail(self.rel, self.node, "unsupported parameter form")
        defaults = [None] * (len(a.args) - len(a.defaults)) + list(a.defaults)
        out = []
        for arg, d in zip(a.args, defaults):
            ann = T.dotted(arg.annotation) if arg.annotation is not None else None
            kind = None
            if ann in ("int",):
                kind = "int"
            elif ann in ("bool",):
                kind = "bool"
            elif ann in ("float",):
                kind = "float"
            elif ann in ("Vec",):
                kind = "vec"
            elif ann in ("str",):
                kind = "str"
            elif ann in ("SurfaceMesh",):
                kind = "mesh"
            elif ann in ("np.ndarray",):
                kind = "array"
            elif ann in ("list",):
                kind = "zlist"
            elif ann is None and isinstance(d, ast.Constant):
                if isinstance(d.value, bool):
                    kind = "bool"
                elif isinstance(d.value, int):
                    kind = "int"
                elif isinstance(d.value, float):
                    kind = "float"
            if kind is None:
                T.fail(self.rel, arg, "cannot classify parameter %s of %s" % (arg.arg, self.name))
            out.append((arg.arg, kind, d))
        return out

    def pnames(self, kinds):
        return [n for n, k, _ in self.params if k in kinds] + \
               ([n for n in self.extra_int_params] if "int" in kinds else [])

    def index_binders(self):
        bs = []
        for n in self.extra_int_params:
            bs.append("(%s : Z)" % q(n))
        for n, k, _ in self.params:
            if k == "int":
                bs.append("(%s : Z)" % q(n))
            elif k == "bool":
                bs.append("(%s : bool)" % q(n))
            elif k == "mesh":
                bs.append("(%s_v2f : Z -> list Z) (%s_nV %s_nF : Z)" % (q(n), q(n), q(n)))
        return " ".join(bs)

    def index_args(self):
        out = [q(n) for n in self.extra_int_params]
        for n, k, _ in self.params:
            if k in ("int", "bool"):
                out.append(q(n))
            elif k == "mesh":
                out += [q(n) + "_v2f", q(n) + "_nV", q(n) + "_nF"]
        return " ".join(out)

    def coord_binders(self):
        bs = ["{T : Type} (O : ops T)"]
        for n in self.extra_int_params:
            bs.append("(%s : Z)" % q(n))
        for n, k, _ in self.params:
            if k == "int":
                bs.append("(%s : Z)" % q(n))
            elif k == "bool":
                bs.append("(%s : bool)" % q(n))
            elif k == "float":
                bs.append("(%s : T)" % q(n))
            elif k == "vec":
                bs.append("(%s : vec T)" % q(n))
        return " ".join(bs)

    def base_env(self):
        e = Env()
        for n in self.extra_int_params:
            e = e.bind(n, "int")
        for n, k, _ in self.params:
            e = e.bind(n, k if k in ("int", "bool", "float", "vec", "mesh") else "opaque")
        return e

    # ------------------------------------------------------------------ expressions
    def fail(self, node, msg):
        T.fail(self.rel, node, "%s: %s" % (self.name, msg))

    def is_mesh_attr(self, node, which=None):
        """node is <mesh>.<container>"""
        return (isinstance(node, ast.Attribute) and isinstance(node.value, ast.Name) and node.value.id == self.mesh
                and node.attr in CONTAINERS and (which is None or node.attr == which))

    def tr_int(self, e, env):
        if isinstance(e, ast.Constant) and isinstance(e.value, int) and not isinstance(e.value, bool):
            return zconst(e.value)
        if isinstance(e, ast.Name):
            k, t = env.get(e.id)
            if k == "int":
                return t
            self.fail(e, "name %s is not a known integer (kind %s)" % (e.id, k))
        if isinstance(e, ast.BinOp):
            op = {ast.Add: "+", ast.Sub: "-", ast.Mult: "*", ast.FloorDiv: "/", ast.Mod: "mod"}.get(type(e.op))
            if op is None:
                self.fail(e, "unsupported integer operator")
            return "(%s %s %s)" % (self.tr_int(e.left, env), op, self.tr_int(e.right, env))
        if isinstance(e, ast.UnaryOp) and isinstance(e.op, ast.USub):
            return "(- %s)" % self.tr_int(e.operand, env)
        if isinstance(e, ast.IfExp):
            return "(if %s then %s else %s)" % (self.tr_bool(e.test, env), self.tr_int(e.body, env), self.tr_int(e.orelse, env))
        if isinstance(e, ast.Call) and T.dotted(e.func) in ("min", "max") and len(e.args) == 2 and not e.keywords:
            return "(Z.%s %s %s)" % (T.dotted(e.func), self.tr_int(e.args[0], env), self.tr_int(e.args[1], env))
        if isinstance(e, ast.Call) and T.dotted(e.func) == "len" and len(e.args) == 1:
            a = e.args[0]
            if self.mesh and self.is_mesh_attr(a, "vertices"):
                self.uses_len_vertices = True
                if getattr(self, "_vertex_appends_pending", True):
                    self.fail(e, "len(<mesh>.vertices) used before the last vertex is appended")
                return "(%s_nverts %s)" % (self.g, self.index_args())
            if isinstance(a, ast.Name) and env.get(a.id)[0] == "zlist":
                return "(zlen %s)" % env.get(a.id)[1]
        if isinstance(e, ast.Subscript) and isinstance(e.value, ast.Name) and env.get(e.value.id)[0] == "zlist":
            return "(znth %s %s 0)" % (env.get(e.value.id)[1], self.tr_int(e.slice, env))
        self.fail(e, "unsupported integer expression")

    def int_ok(self, e, env):
        try:
            self.tr_int(e, env)
            return True
        except TranslationError:
            return False

    def tr_bool(self, e, env):
        if isinstance(e, ast.Constant) and isinstance(e.value, bool):
            return "true" if e.value else "false"
        if isinstance(e, ast.Name):
            k, t = env.get(e.id)
            if k == "bool":
                return t
            self.fail(e, "name %s is not a known boolean (kind %s)" % (e.id, k))
        if isinstance(e, ast.UnaryOp) and isinstance(e.op, ast.Not):
            return "(negb %s)" % self.tr_bool(e.operand, env)
        if isinstance(e, ast.BoolOp):
            op = "&&" if isinstance(e.op, ast.And) else "||"
            return "(" + (" %s " % op).join(self.tr_bool(v, env) for v in e.values) + ")"
        if isinstance(e, ast.Compare):
            parts = []
            left = e.left
            for op, right in zip(e.ops, e.comparators):
                a, b = self.tr_int(left, env), self.tr_int(right, env)
                if isinstance(op, ast.Lt):
                    parts.append("(%s <? %s)" % (a, b))
                elif isinstance(op, ast.LtE):
                    parts.append("(%s <=? %s)" % (a, b))
                elif isinstance(op, ast.Gt):
                    parts.append("(%s <? %s)" % (b, a))
                elif isinstance(op, ast.GtE):
                    parts.append("(%s <=? %s)" % (b, a))
                elif isinstance(op, ast.Eq):
                    parts.append("(%s =? %s)" % (a, b))
                elif isinstance(op, ast.NotEq):
                    parts.append("(negb (%s =? %s))" % (a, b))
                else:
                    self.fail(e, "unsupported comparison")
                left = right
            return parts[0] if len(parts) == 1 else "(" + " && ".join(parts) + ")"
        self.fail(e, "unsupported boolean expression")

    def bool_ok(self, e, env):
        try:
            self.tr_bool(e, env)
            return True
        except TranslationError:
            return False

    # ---- numbers through `ops`
    def tr_num(self, e, env):
        if isinstance(e, ast.Constant) and isinstance(e.value, (int, float)) and not isinstance(e.value, bool):
            if isinstance(e.value, int):
                return "(oofZ O %s)" % zconst(e.value)
            fr = Fraction(repr(e.value))
            if fr.denominator == 1:
                return "(oofZ O %s)" % zconst(fr.numerator)
            return "(odiv O (oofZ O %s) (oofZ O %d))" % (zconst(fr.numerator), fr.denominator)
        if isinstance(e, ast.Name):
            k, t = env.get(e.id)
            if k == "int":
                return "(oofZ O %s)" % t
            if k == "float":
                return t
            if e.id == "pi":
                return "(opi O)"
            self.fail(e, "name %s is not a known number (kind %s)" % (e.id, k))
        if isinstance(e, ast.Attribute):
            d = T.dotted(e)
            if d in ("np.pi", "math.pi"):
                return "(opi O)"
            if e.attr in ("x", "y", "z") :
                return "(v%s %s)" % (e.attr, self.tr_vec(e.value, env))
            self.fail(e, "unsupported attribute in a numeric expression")
        if isinstance(e, ast.Subscript) and isinstance(e.slice, ast.Constant) and e.slice.value in (0, 1, 2) \
                and type(e.slice.value) is int and isinstance(e.value, ast.Name) and env.get(e.value.id)[0] == "vec":
            return "(v%s %s)" % ("xyz"[e.slice.value], env.get(e.value.id)[1])
        if isinstance(e, ast.BinOp):
            if isinstance(e.op, ast.Pow):
                if isinstance(e.right, ast.Constant) and e.right.value == 2:
                    a = self.tr_num(e.left, env)
                    return "(omul O %s %s)" % (a, a)
                self.fail(e, "unsupported power")
            if isinstance(e.op, (ast.FloorDiv, ast.Mod)):
                return "(oofZ O %s)" % self.tr_int(e, env)
            # keep integer sub-expressions exact when both sides are integers and the operator is not `/`
            if not isinstance(e.op, ast.Div) and self.int_ok(e, env):
                return "(oofZ O %s)" % self.tr_int(e, env)
            op = {ast.Add: "oadd", ast.Sub: "osub", ast.Mult: "omul", ast.Div: "odiv"}.get(type(e.op))
            if op is None:
                self.fail(e, "unsupported numeric operator")
            return "(%s O %s %s)" % (op, self.tr_num(e.left, env), self.tr_num(e.right, env))
        if isinstance(e, ast.UnaryOp) and isinstance(e.op, ast.USub):
            return "(oopp O %s)" % self.tr_num(e.operand, env)
        if isinstance(e, ast.Call):
            f = T.dotted(e.func)
            if f in ("min", "max") and len(e.args) == 2 and not e.keywords:
                return "(o%s O %s %s)" % (f, self.tr_num(e.args[0], env), self.tr_num(e.args[1], env))
            if f == "angle_3pts" and len(e.args) == 3 and not e.keywords and getattr(self, "ang3", None):
                return "(%s %s %s %s)" % (self.ang3, self.tr_vec(e.args[0], env), self.tr_vec(e.args[1], env), self.tr_vec(e.args[2], env))
            if f in ("np.cos", "math.cos", "cos") and len(e.args) == 1:
                return "(ocos O %s)" % self.tr_num(e.args[0], env)
            if f in ("np.sin", "math.sin", "sin") and len(e.args) == 1:
                return "(osin O %s)" % self.tr_num(e.args[0], env)
            if f in ("np.sqrt", "math.sqrt", "sqrt") and len(e.args) == 1:
                return "(osqrt O %s)" % self.tr_num(e.args[0], env)
            if isinstance(e.func, ast.Attribute) and e.func.attr == "norm" and not e.args and not e.keywords:
                return "(vnorm O %s)" % self.tr_vec(e.func.value, env)
        self.fail(e, "unsupported numeric expression")

    def tr_vec(self, e, env):
        if isinstance(e, ast.Name):
            k, t = env.get(e.id)
            if k == "vec":
                return t
            self.fail(e, "name %s is not a known vector (kind %s)" % (e.id, k))
        if isinstance(e, ast.Call) and isinstance(e.func, ast.Attribute) and e.func.attr == "copy" \
                and not e.args and not e.keywords:
            return self.tr_vec(e.func.value, env)      # a copy has the same value
        if isinstance(e, ast.Call):
            f = T.dotted(e.func)
            if f == "Vec" and len(e.args) == 3:
                return "(%s, %s, %s)" % tuple(self.tr_num(a, env) for a in e.args)
            if f == "Vec" and len(e.args) == 1:
                return self.tr_vec(e.args[0], env)
            if f == "Vec.normalized" and len(e.args) == 1:
                return "(vnormalized O %s)" % self.tr_vec(e.args[0], env)
            if f == "rotate_2d" and len(e.args) == 2:
                self.geom_deps.add("rotate_2d")
                return "(geom_rotate_2d O %s %s)" % (self.tr_vec(e.args[0], env), self.tr_num(e.args[1], env))
            if f == "rotate_around_axis" and len(e.args) == 3:
                self.geom_deps.add("rotate_around_axis")
                return "(geom_rotate_around_axis O %s %s %s)" % (self.tr_vec(e.args[0], env), self.tr_vec(e.args[1], env),
                                                            self.tr_num(e.args[2], env))
            self.fail(e, "unsupported call in a vector expression")
        if isinstance(e, ast.BinOp):
            if isinstance(e.op, (ast.Add, ast.Sub)):
                op = "vadd" if isinstance(e.op, ast.Add) else "vsub"
                return "(%s O %s %s)" % (op, self.tr_vec(e.left, env), self.tr_vec(e.right, env))
            if isinstance(e.op, ast.Mult):
                if self.vec_ok(e.right, env):
                    return "(vscale O %s %s)" % (self.tr_num(e.left, env), self.tr_vec(e.right, env))
                return "(vscale O %s %s)" % (self.tr_num(e.right, env), self.tr_vec(e.left, env))
            if isinstance(e.op, ast.Div):
                return "(vdivs O %s %s)" % (self.tr_vec(e.left, env), self.tr_num(e.right, env))
        if isinstance(e, ast.Subscript) and self.mesh and self.is_mesh_attr(e.value, "vertices") \
                and isinstance(e.slice, ast.Constant) and isinstance(e.slice.value, int):
            k = e.slice.value
            tv = getattr(self, "_top_vertices", [])
            if 0 <= k < len(tv) and tv[k] is not None:
                return tv[k]
            self.fail(e, "reference to a vertex that is not a top-level constant append")
        self.fail(e, "unsupported vector expression")

    def vec_ok(self, e, env):
        try:
            self.tr_vec(e, env)
            return True
        except TranslationError:
            return False

    # ------------------------------------------------------------------ statements
    def mentions_mesh(self, node):
        names = {self.mesh} | set(self.aliases)
        for n in ast.walk(node):
            if isinstance(n, ast.Name) and n.id in names:
                return True
        return False

    def container_append(self, s):
        """Recognise  M.c.append(e) | M.c += [e..] | M.c += <listcomp> | M.c += <alias list>.
        Returns (container, kind, payload) or None."""
        if isinstance(s, ast.Expr) and isinstance(s.value, ast.Call) and isinstance(s.value.func, ast.Attribute) \
                and s.value.func.attr == "append" and len(s.value.args) == 1 and not s.value.keywords:
            tgt = s.value.func.value
            if self.is_mesh_attr(tgt):
                return tgt.attr, "elems", [s.value.args[0]]
            if isinstance(tgt, ast.Name) and tgt.id in self.aliases:
                return "alias:" + tgt.id, "elems", [s.value.args[0]]
        if isinstance(s, ast.AugAssign) and isinstance(s.op, ast.Add) and self.is_mesh_attr(s.target):
            v = s.value
            if isinstance(v, ast.List):
                return s.target.attr, "elems", list(v.elts)
            if isinstance(v, ast.ListComp):
                return s.target.attr, "comp", v
            if isinstance(v, ast.Name) and v.id in self.aliases:
                return s.target.attr, "alias", v.id
        return None

    def elem(self, cont, e, env, mode):
        """Gallina term for one appended element."""
        if cont == "vertices":
            if mode == "vsites":
                self.n_sites += 1
                return zconst(self.n_sites - 1)
            return self.tr_vec(e, env)
        if isinstance(e, ast.Tuple):
            return "[" + "; ".join(self.tr_int(x, env) for x in e.elts) + "]"
        if isinstance(e, ast.Call) and self.input_mesh and T.dotted(e.func) == self.input_mesh + ".connectivity.vertex_to_faces" \
                and len(e.args) == 1:
            return "(%s_v2f %s)" % (q(self.input_mesh), self.tr_int(e.args[0], env))
        self.fail(e, "unsupported %s element" % cont)

    def want(self, cont, mode):
        return (mode in ("vsites", "coords") and cont == "vertices") or mode == cont

    def block(self, stmts, env, mode, top=False, loopdepth=0):
        """Gallina list expression for what this statement sequence appends to the container of `mode`."""
        if not stmts:
            return "[]"
        s, rest = stmts[0], stmts[1:]
        again = lambda env2: self.block(rest, env2, mode, top, loopdepth)

        # ---- return
        if isinstance(s, ast.Return):
            if not top or rest:
                self.fail(s, "return is not the last top-level statement")
            self.check_return(s)
            return "[]"
        # ---- pass
        if isinstance(s, ast.Pass):
            return again(env)
        # ---- mesh creation
        if isinstance(s, ast.Assign) and len(s.targets) == 1 and isinstance(s.targets[0], ast.Name) \
                and isinstance(s.value, ast.Call):
            f = T.dotted(s.value.func)
            if f == "RawMeshData" and not s.value.args and not s.value.keywords:
                if not top or (self.mesh not in (None, s.targets[0].id)):
                    self.fail(s, "unexpected RawMeshData()")
                self.mesh = s.targets[0].id
                return again(env)
            if f == "from_arrays":
                kw = {k.arg: k.value for k in s.value.keywords}
                if not (top and len(s.value.args) == 1 and isinstance(s.value.args[0], ast.Name)
                        and set(kw) == {"raw"} and isinstance(kw["raw"], ast.Constant) and kw["raw"].value is True):
                    self.fail(s, "from_arrays call is not from_arrays(<array>, raw=True)")
                self.mesh = s.targets[0].id
                self.mesh_from_arrays = s.value.args[0].id
                return again(env)
        # ---- n = len(M.vertices) on a from_arrays mesh / n = <array>.shape[0]: the number of input points
        if isinstance(s, ast.Assign) and len(s.targets) == 1 and isinstance(s.targets[0], ast.Name) and top:
            v = s.value
            nm = s.targets[0].id
            is_len = (isinstance(v, ast.Call) and T.dotted(v.func) == "len" and len(v.args) == 1 and self.mesh_from_arrays
                      and self.is_mesh_attr(v.args[0], "vertices"))
            is_shape = (isinstance(v, ast.Subscript) and isinstance(v.value, ast.Attribute) and v.value.attr == "shape"
                        and isinstance(v.value.value, ast.Name) and env.get(v.value.value.id)[0] in ("opaque",)
                        and any(p[0] == v.value.value.id and p[1] == "array" for p in self.params)
                        and isinstance(v.slice, ast.Constant) and v.slice.value == 0)
            if is_len or is_shape:
                if nm not in self.extra_int_params:
                    self.extra_int_params.append(nm)
                return again(env.bind(nm, "int"))
        # ---- local python list used as a vertex buffer:  points = []
        if isinstance(s, ast.Assign) and len(s.targets) == 1 and isinstance(s.targets[0], ast.Name) \
                and isinstance(s.value, ast.List) and not s.value.elts and top:
            nm = s.targets[0].id
            later = [x for x in rest if any(isinstance(n, ast.Name) and n.id == nm for n in ast.walk(x))]
            if later:
                self.aliases.setdefault(nm, None)
                return again(env.taint([nm]))
        # ---- container mutation
        ca = self.container_append(s) if self.mesh or self.aliases else None
        if ca is not None:
            cont, kind, payload = ca
            if cont.startswith("alias:"):
                # appended to a local list that is later added to the vertices wholesale
                al = cont[6:]
                if self.aliases.get(al) == "flushed":
                    self.fail(s, "append to local list %s after it was added to the mesh" % al)
                if not self.want("vertices", mode):
                    return again(env)
                if mode == "coords" and env.get("__skipcoords")[0]:
                    return again(env)
                items = "[" + "; ".join(self.elem("vertices", e, env, mode) for e in payload) + "]"
                return app(items, again(env))
            if kind == "alias":
                if cont != "vertices":
                    self.fail(s, "local list added to a container other than vertices")
                # all appends to the alias must precede (checked by position: nothing after may append to it)
                for x in rest:
                    c2 = self.container_append(x) if not isinstance(x, (ast.For, ast.If, ast.While)) else None
                    if c2 and c2[0] == "alias:" + payload:
                        self.fail(x, "append to local list after it was added to the mesh")
                for x in rest:
                    for n in ast.walk(x):
                        if isinstance(n, ast.Attribute) and n.attr == "append" and isinstance(n.value, ast.Name) and n.value.id == payload:
                            self.fail(x, "append to local list after it was added to the mesh")
                self.aliases[payload] = "flushed"
                return again(env)
            if self.aliases and cont == "vertices" and any(v != "flushed" for v in self.aliases.values()):
                self.fail(s, "direct vertex append while a local vertex list is pending")
            if not self.want(cont, mode):
                if cont == "vertices" and top and kind == "elems" and mode != "vsites":
                    pass
                return again(env)
            if kind == "elems":
                terms = [self.elem(cont, e, env, mode) for e in payload]
                if cont == "vertices" and mode == "coords" and top and loopdepth == 0:
                    self._top_vertices = getattr(self, "_top_vertices", [])
                    if self._top_static:
                        self._top_vertices += terms
                items = "[" + "; ".join(terms) + "]"
                return app(items, again(env))
            if kind == "comp":
                self._top_static = False
                return app(self.comprehension(cont, payload, env, mode), again(env))
        # ---- vertex override  M.vertices[k] = e
        if isinstance(s, ast.Assign) and len(s.targets) == 1 and isinstance(s.targets[0], ast.Subscript) \
                and self.mesh and self.is_mesh_attr(s.targets[0].value, "vertices"):
            k = s.targets[0].slice
            if not (top and isinstance(k, ast.Constant) and isinstance(k.value, int) and k.value >= 0):
                self.fail(s, "unsupported vertex overwrite")
            self.overrides.append(k.value)
            return again(env)
        # ---- for loops
        if isinstance(s, ast.For):
            if s.orelse:
                self.fail(s, "for/else")
            self._top_static = False
            return app(self.for_loop(s, env, mode, loopdepth), again(env.taint(assigned_names(s.body))))
        # ---- if
        if isinstance(s, ast.If):
            r = self.if_stmt(s, env, mode, top, loopdepth)
            if r is not None:
                expr, env2 = r
                return app(expr, again(env2))
        # ---- while: only as pure numeric code
        if isinstance(s, ast.While):
            if self.mentions_mesh_mutation(s):
                self.fail(s, "while loop touching the mesh")
            return again(env.taint(assigned_names([s])))
        # ---- integer local
        if isinstance(s, ast.Assign) and len(s.targets) == 1:
            tg = s.targets[0]
            if isinstance(tg, ast.Name):
                nm = tg.id
                if self.mesh and self.mentions_mesh(s.value) and not self.pure_mesh_read(s.value):
                    self.fail(s, "unsupported use of the mesh in an assignment")
                if self.int_ok(s.value, env):
                    return let(q(nm), self.tr_int(s.value, env), again(env.bind(nm, "int")))
                if mode == "coords":
                    return self.coord_assign(nm, s.value, env, again)
                return again(env.taint([nm]))
            if isinstance(tg, ast.Tuple) and all(isinstance(x, ast.Name) for x in tg.elts):
                if self.mesh and self.mentions_mesh(s.value):
                    self.fail(s, "unsupported use of the mesh in an assignment")
                names = [x.id for x in tg.elts]
                if isinstance(s.value, ast.Tuple) and len(s.value.elts) == len(names):
                    if all(self.int_ok(v, env) for v in s.value.elts):
                        # simultaneous assignment: evaluate the right-hand sides in the old environment
                        vals = [self.tr_int(v, env) for v in s.value.elts]
                        env2 = env
                        for nm in names:
                            env2 = env2.bind(nm, "int")
                        body = again(env2)
                        tmp = ["%s__t" % q(nm) for nm in names]
                        for nm, t in reversed(list(zip(names, tmp))):
                            body = let(q(nm), t, body)
                        for t, v in reversed(list(zip(tmp, vals))):
                            body = let(t, v, body)
                        return body
                    if mode == "coords":
                        # (vector/number tuple) evaluate all right-hand sides first
                        def chain(i, envc, acc):
                            if i == len(names):
                                envn = envc
                                body_env = env
                                for nm, (kd, tm) in zip(names, acc):
                                    body_env = body_env.bind(nm, kd, tm)
                                return again(body_env)
                            return None
                        binds = []
                        for nm, v in zip(names, s.value.elts):
                            kd, tm = self.coord_value(v, env)
                            binds.append((nm, kd, tm))
                        env2 = env
                        for nm, kd, tm in binds:
                            env2 = env2.bind(nm, kd, "%s" % q(nm)) if kd != "opaque" else env2.taint([nm])
                        body = again(env2)
                        for nm, kd, tm in reversed(binds):
                            if kd != "opaque":
                                body = let(q(nm), "%s__t" % q(nm), body)
                        for nm, kd, tm in reversed(binds):
                            if kd != "opaque":
                                body = let("%s__t" % q(nm), tm, body)
                        return body
                return again(env.taint(names))
            if isinstance(tg, ast.Subscript) and isinstance(tg.value, ast.Name) and not self.mentions_mesh(tg):
                # store into an attribute object / local array: no effect on the topology
                if self.mesh and self.mentions_mesh(s.value) and not self.pure_mesh_read(s.value):
                    self.fail(s, "unsupported use of the mesh")
                return again(env)
        if isinstance(s, ast.AugAssign) and isinstance(s.target, ast.Name) and not (self.mesh and self.mentions_mesh(s)):
            return again(env.taint([s.target.id]))
        if isinstance(s, ast.Expr) and isinstance(s.value, ast.Constant):
            return again(env)
        self.fail(s, "unsupported statement")

    # ---- helpers for statements
    def pure_mesh_read(self, e):
        """every mention of the mesh inside e is  M.c[<const>]  or  len(M.c)  or  M.c.create_attribute(..)"""
        ok_nodes = set()
        for n in ast.walk(e):
            if isinstance(n, ast.Subscript) and self.is_mesh_attr(n.value):
                ok_nodes.add(id(n.value.value))
            if isinstance(n, ast.Call) and T.dotted(n.func) == "len" and len(n.args) == 1 and self.is_mesh_attr(n.args[0]):
                ok_nodes.add(id(n.args[0].value))
            if isinstance(n, ast.Call) and isinstance(n.func, ast.Attribute) and n.func.attr == "create_attribute" \
                    and self.is_mesh_attr(n.func.value):
                ok_nodes.add(id(n.func.value.value))
        for n in ast.walk(e):
            if isinstance(n, ast.Name) and n.id == self.mesh and id(n) not in ok_nodes:
                return False
        return True

    def mentions_mesh_mutation(self, node):
        for n in ast.walk(node):
            if isinstance(n, ast.stmt) and n is not node or isinstance(n, ast.stmt):
                if isinstance(n, (ast.Assign, ast.AugAssign)):
                    tg = n.targets if isinstance(n, ast.Assign) else [n.target]
                    for t in tg:
                        if self.mesh and self.mentions_mesh(t):
                            return True
                    if self.mesh and self.mentions_mesh(n.value) and not self.pure_mesh_read(n.value):
                        return True
                elif isinstance(n, ast.Expr):
                    if self.mesh and self.mentions_mesh(n.value):
                        return True
                elif isinstance(n, (ast.If, ast.While)):
                    if self.mesh and self.mentions_mesh(n.test) and not self.pure_mesh_read(n.test):
                        return True
                elif isinstance(n, (ast.Pass, ast.Break, ast.Raise, ast.For, ast.Continue)):
                    if isinstance(n, ast.For) and self.mesh and self.mentions_mesh(n.iter):
                        return True
                elif isinstance(n, (ast.Return, ast.With, ast.Try, ast.Delete, ast.Global, ast.FunctionDef)):
                    return True
        return False

    def check_return(self, s):
        v = s.value
        if isinstance(v, ast.Call):
            f = T.dotted(v.func)
            if f == "_instanciate_raw_mesh_data" and 1 <= len(v.args) <= 2 and isinstance(v.args[0], ast.Name) \
                    and v.args[0].id == self.mesh and not v.keywords:
                self.ret_ctor = "auto"
                if len(v.args) == 2:
                    if not (isinstance(v.args[1], ast.Constant) and isinstance(v.args[1].value, int)):
                        self.fail(s, "dimension argument is not a constant")
                    self.ret_dim = v.args[1].value
                return
            if f in ("SurfaceMesh", "PolyLine") and len(v.args) == 1 and isinstance(v.args[0], ast.Name) \
                    and v.args[0].id == self.mesh and not v.keywords:
                self.ret_ctor = f
                self.ret_dim = 2 if f == "SurfaceMesh" else 1
                return
        self.fail(s, "return value is not the built mesh")

    def comprehension(self, cont, comp, env, mode):
        if len(comp.generators) != 1 or comp.generators[0].ifs or comp.generators[0].is_async:
            self.fail(comp, "unsupported comprehension")
        g = comp.generators[0]
        if not isinstance(g.target, ast.Name):
            self.fail(comp, "unsupported comprehension target")
        var = g.target.id
        it = g.iter
        # [f(a) for a in [Vec(..), ...]]  (vertex table)
        if cont == "vertices" and isinstance(it, ast.List):
            if mode == "vsites":
                self.n_sites += 1
                return "(map (fun _ => %s) (zrange %d))" % (zconst(self.n_sites - 1), len(it.elts))
            if mode != "coords":
                return "[]"
            tab = "[" + ";\n      ".join(self.tr_vec(x, env) for x in it.elts) + "]"
            body = self.tr_vec(comp.elt, env.bind(var, "vec"))
            return "(map (fun %s => %s)\n     %s)" % (q(var), body, tab)
        # [x for x in iterators.f(range(n))]  (edge list)
        if cont in ("edges", "faces") and isinstance(comp.elt, ast.Name) and comp.elt.id == var and isinstance(it, ast.Call):
            f = T.dotted(it.func)
            if f and f.startswith("iterators.") and len(it.args) == 1 and not it.keywords:
                if mode != cont:
                    return "[]"
                self.iter_deps.add(f.split(".", 1)[1])
                return "(%s %s)" % ("it_" + f.split(".", 1)[1], self.range_list(it.args[0], env))
        self.fail(comp, "unsupported comprehension")

    def range_list(self, e, env):
        if isinstance(e, ast.Call) and T.dotted(e.func) == "range" and not e.keywords:
            if len(e.args) == 1:
                return "(zrange %s)" % self.tr_int(e.args[0], env)
            if len(e.args) == 2:
                return "(zrange2 %s %s)" % (self.tr_int(e.args[0], env), self.tr_int(e.args[1], env))
        self.fail(e, "unsupported iterable")

    def for_loop(self, s, env, mode, loopdepth):
        it = s.iter
        body = list(s.body)
        pre = None     # binder prefix in coords mode (e.g. the linspace value)
        if isinstance(it, ast.Call) and T.dotted(it.func) == "range":
            if not isinstance(s.target, ast.Name):
                self.fail(s, "unsupported loop target")
            var = s.target.id
            dom = self.range_list(it, env)
            env2 = env.bind(var, "int")
            lets = []
        elif isinstance(it, ast.Call) and T.dotted(it.func) == "enumerate" and len(it.args) == 1 \
                and isinstance(it.args[0], ast.Name) and it.args[0].id in self.linspaces:
            if not (isinstance(s.target, ast.Tuple) and len(s.target.elts) == 2
                    and all(isinstance(x, ast.Name) for x in s.target.elts)):
                self.fail(s, "unsupported enumerate target")
            var, val = s.target.elts[0].id, s.target.elts[1].id
            a, b, n = self.linspaces[it.args[0].id]
            dom = "(zrange %s)" % self.tr_int(n, env)
            env2 = env.bind(var, "int")
            lets = []
            if mode == "coords":
                lets = [(q(val), "(linspace O %s %s %s %s)" % (self.tr_num(a, env), self.tr_num(b, env), self.tr_int(n, env), q(var)))]
                env2 = env2.bind(val, "float")
            else:
                env2 = env2.taint([val])
        elif isinstance(it, ast.Tuple) and all(isinstance(x, ast.Name) for x in it.elts) and isinstance(s.target, ast.Name):
            # for P in (P1, P2): the index runs over 0..k-1, P selects
            var = "_k%d" % loopdepth
            dom = "(zrange %d)" % len(it.elts)
            env2 = env.bind(var, "int")
            lets = []
            if mode == "coords":
                sel = "(vsel O %s [%s])" % (q(var), "; ".join(self.tr_vec(x, env) for x in it.elts))
                lets = [(q(s.target.id), sel)]
                env2 = env2.bind(s.target.id, "vec")
            else:
                env2 = env2.taint([s.target.id])
        elif self.input_mesh and T.dotted(it) in (self.input_mesh + ".id_faces", self.input_mesh + ".id_vertices") \
                and isinstance(s.target, ast.Name):
            var = s.target.id
            dom = "(zrange %s_%s)" % (q(self.input_mesh), "nF" if T.dotted(it).endswith("id_faces") else "nV")
            env2 = env.bind(var, "int")
            lets = []
            if mode == "coords":
                env2 = env2.bind("__skipcoords", "int", "0")
        else:
            if getattr(self, "points_only", False) and mode in ("vsites", "coords") and not self._is_vertex_mutation(s) \
                    and not any(isinstance(n, ast.Attribute) and n.attr in ("append", "extend", "insert", "pop", "clear")
                                and isinstance(n.value, ast.Name) and n.value.id in self.aliases for n in ast.walk(s)):
                return "[]"      # e.g. the loop over the convex hull's simplices: appends faces only
            self.fail(s, "unsupported loop iterable")
        # leading `if c: break`  -> take-while on the index list
        while body and isinstance(body[0], ast.If) and len(body[0].body) == 1 and isinstance(body[0].body[0], ast.Break) \
                and not body[0].orelse:
            c = self.tr_bool(body[0].test, env2)
            dom = "(ztake_while (fun %s => negb %s) %s)" % (q(var), c, dom)
            body = body[1:]
        def own_jumps(stmts):
            for x in stmts:
                if isinstance(x, (ast.Break, ast.Continue)):
                    self.fail(x, "break/continue not at the head of a loop body")
                if isinstance(x, ast.If):
                    own_jumps(x.body)
                    own_jumps(x.orelse)
                elif isinstance(x, (ast.For, ast.While)):
                    own_jumps(x.orelse)      # jumps inside an inner loop belong to that loop
        own_jumps(body)
        # coords mode: one loop-carried vector  (x = f(x); ...; M.vertices.append(x))  becomes a scan over the index list
        if mode == "coords":
            cv = [n for n in assigned_names(body) if env.get(n)[0] == "vec"]
            if cv:
                return self.scan_loop(s, body, cv, env2, var, dom)
        # loop-carried integers are not supported: a name assigned in the body must be assigned before any read
        carried = assigned_names(body) - {var}
        env2 = env2.taint([n for n in carried if env.get(n)[0] is not None and n not in (var,)])
        inner = self.block(body, env2, mode, False, loopdepth + 1)
        for nm, val in reversed(lets):
            inner = let(nm, val, inner)
        if inner == "[]":
            return "[]"
        return "(flat_map (fun %s => %s) %s)" % (q(var), inner, dom)

    def scan_loop(self, s, body, cv, env2, var, dom):
        if len(cv) != 1:
            self.fail(s, "more than one loop-carried vector")
        c = cv[0]
        envb = env2
        term = envb.get(c)[1]
        init = term
        cur = q(c)
        envb = envb.bind(c, "vec", cur)
        lets = []
        appended = False
        for st in body:
            ca = self.container_append(st)
            if ca is not None:
                cont, kind, payload = ca
                if cont != "vertices":
                    continue
                if appended or kind != "elems" or len(payload) != 1 or not (isinstance(payload[0], ast.Name) and payload[0].id == c):
                    self.fail(st, "unsupported vertex append in a loop with carried state")
                appended = True
                continue
            if appended:
                if self.mentions_mesh(st) or (isinstance(st, ast.Assign) and c in assigned_names([st])):
                    self.fail(st, "statement after the vertex append in a loop with carried state")
                continue
            if not (isinstance(st, ast.Assign) and len(st.targets) == 1 and isinstance(st.targets[0], ast.Name)
                    and st.targets[0].id == c):
                self.fail(st, "unsupported statement in a loop with carried state")
            val = self.tr_vec(st.value, envb)
            k = len(lets) + 1
            lets.append(("%s_%d" % (q(c), k), val))
            envb = envb.bind(c, "vec", "%s_%d" % (q(c), k))
        if not appended or not lets:
            self.fail(s, "loop with carried state appends no vertex")
        bodyt = lets[-1][0]
        for nm, val in reversed(lets):
            bodyt = "(let %s := %s in %s)" % (nm, val, bodyt)
        return "(vscan (fun %s %s => %s) %s %s)" % (cur, q(var), bodyt, init, dom)

    def if_stmt(self, s, env, mode, top, loopdepth):
        touches = self.mesh is not None and (self.mentions_mesh_mutation(s) or self.touches_alias(s))
        has_raise = any(isinstance(n, ast.Raise) for n in ast.walk(s))
        if has_raise:
            # `if <int test>: raise ...`  -> rejection guard ; other raising guards are outside the integer model
            if touches or not top:
                self.fail(s, "raise in an unsupported position")
            if self.mesh and self.mentions_mesh(s.test):
                self.fail(s, "guard mentions the mesh")
            simple = len(s.body) == 1 and isinstance(s.body[0], ast.Raise) and not s.orelse
            if simple and self.bool_ok(s.test, env):
                if mode == "vsites":
                    self.rejects.append(self.tr_bool(s.test, env))
            elif mode == "vsites":
                self.unmodelled_guards.append(T.seg(self.src, s.test))
            return "[]", env.taint(assigned_names([s]))
        if not touches:
            if mode == "coords":
                r = self.coord_if(s, env)
                if r is not None:
                    return r
            return "[]", env.taint(assigned_names([s]))
        t = self.tr_bool(s.test, env)
        self._top_static = False
        a = self.block(list(s.body), env, mode, False, loopdepth)
        b = self.block(list(s.orelse), env, mode, False, loopdepth) if s.orelse else "[]"
        env2 = env.taint(assigned_names([s]))
        if a == "[]" and b == "[]":
            return "[]", env2
        return "(if %s then %s else %s)" % (t, a, b), env2

    def touches_alias(self, s):
        for n in ast.walk(s):
            if isinstance(n, ast.Name) and n.id in self.aliases:
                return True
        return False

    # ---- coordinates: numeric / vector locals
    def coord_value(self, v, env):
        try:
            return "float", self.tr_num(v, env)
        except TranslationError:
            pass
        try:
            return "vec", self.tr_vec(v, env)
        except TranslationError:
            pass
        return "opaque", None

    def coord_assign(self, nm, value, env, again):
        if isinstance(value, ast.Call) and T.dotted(value.func) == "np.linspace":
            return again(env.taint([nm]))
        kd, tm = self.coord_value(value, env)
        if kd == "opaque":
            return again(env.taint([nm]))
        return let(q(nm), tm, again(env.bind(nm, kd)))

    def coord_if(self, s, env):
        """`if <float test>: x = e`  ->  x := if test then e else x   (single vector/number name, no else)"""
        if s.orelse or len(s.body) != 1 or not isinstance(s.body[0], ast.Assign):
            return None
        a = s.body[0]
        if len(a.targets) != 1 or not isinstance(a.targets[0], ast.Name):
            return None
        nm = a.targets[0].id
        kd0, t0 = env.get(nm)
        if kd0 not in ("float", "vec"):
            return None
        c = s.test
        if not (isinstance(c, ast.Compare) and len(c.ops) == 1 and isinstance(c.ops[0], ast.Lt)):
            return None
        try:
            test = "(oltb O %s %s)" % (self.tr_num(c.left, env), self.tr_num(c.comparators[0], env))
            kd, tm = self.coord_value(a.value, env)
        except TranslationError:
            return None
        if kd != kd0:
            return None
        self._pending_lets.append((q(nm) + "'", "(if %s then %s else %s)" % (test, tm, t0)))
        return "[]", env.bind(nm, kd, q(nm) + "'")

    # ------------------------------------------------------------------ whole function
    def scan_linspaces(self):
        self.linspaces = {}
        for s in self.body:
            if isinstance(s, ast.Assign) and len(s.targets) == 1 and isinstance(s.targets[0], ast.Name) \
                    and isinstance(s.value, ast.Call) and T.dotted(s.value.func) == "np.linspace":
                if len(s.value.args) != 3 or s.value.keywords:
                    self.fail(s, "np.linspace with unsupported arguments")
                self.linspaces[s.targets[0].id] = tuple(s.value.args)

    def run_mode(self, mode):
        self.mesh = None
        self.mesh_from_arrays = None
        self.aliases = {}
        self.overrides = []
        self.iter_deps = getattr(self, "iter_deps", set())
        self.unmodelled_guards = getattr(self, "unmodelled_guards", [])
        self._top_vertices = []
        self._top_static = True
        self._pending_lets = []
        self.n_sites = 0
        # len(M.vertices) may only be used after the last vertex append: find the last top-level statement that appends
        self._vertex_appends_pending = True
        env = self.base_env()
        for n, k, _ in self.params:
            if k == "mesh":
                self.input_mesh = n
        return self.block_top(self.body, env, mode)

    def block_top(self, stmts, env, mode):
        """Top-level sequencing with tracking of the point after which no vertex is appended any more."""
        # index of the last top-level statement that (syntactically) can append a vertex
        last = -1
        for i, s in enumerate(stmts):
            for n in ast.walk(s):
                if isinstance(n, ast.Attribute) and n.attr == "vertices":
                    par_append = False
                    last_i = i
                    # any mention of .vertices that is an append/+= counts
                    last = max(last, i) if self._is_vertex_mutation(s) else last
        self._last_vertex_stmt = last
        return self._seq(stmts, 0, env, mode)

    def _is_vertex_mutation(self, s):
        for n in ast.walk(s):
            if isinstance(n, ast.Call) and isinstance(n.func, ast.Attribute) and n.func.attr == "append" \
                    and isinstance(n.func.value, ast.Attribute) and n.func.value.attr == "vertices":
                return True
            if isinstance(n, ast.AugAssign) and isinstance(n.target, ast.Attribute) and n.target.attr == "vertices":
                return True
        return False

    def _seq(self, stmts, i, env, mode):
        # re-implemented on top of `block` by temporarily slicing: block() handles rest recursively, so we only need to
        # flip the `_vertex_appends_pending` flag at the right moment: do it through a sentinel statement.
        out = list(stmts)
        marker = ast.Pass()
        marker._c14_marker = True
        out.insert(self._last_vertex_stmt + 1, marker)
        return self.block(out, env, mode, True, 0)


# patch: the marker flips the flag when reached (block() treats Pass as a no-op)
_orig_block = Fn.block


def _block(self, stmts, env, mode, top=False, loopdepth=0):
    if stmts and isinstance(stmts[0], ast.Pass) and getattr(stmts[0], "_c14_marker", False):
        self._vertex_appends_pending = False
        r = _orig_block(self, stmts[1:], env, mode, top, loopdepth)
        if mode == "coords" and self._pending_lets:
            pass
        return r
    if mode == "coords" and top and self._pending_lets:
        lets, self._pending_lets = self._pending_lets, []
        r = _block(self, stmts, env, mode, top, loopdepth)
        for nm, val in reversed(lets):
            r = let(nm, val, r)
        return r
    return _orig_block(self, stmts, env, mode, top, loopdepth)


Fn.block = _block


# ---------------------------------------------------------------------- iterator helpers (utils/iterators.py)
def gen_iterator(rel, src, tree, name):
    fn = T.find_def(tree, name, rel)
    if [a.arg for a in fn.args.args] != ["L"]:
        T.fail(rel, fn, "iterator %s does not take exactly (L)" % name)
    f = Fn(rel, src, tree, name)
    env = Env().bind("L", "zlist")
    body = T.body_nodoc(fn)

    def blk(stmts, env):
        if not stmts:
            return "[]"
        s, rest = stmts[0], stmts[1:]
        if isinstance(s, ast.Assign) and len(s.targets) == 1 and isinstance(s.targets[0], ast.Name):
            nm = s.targets[0].id
            return let(q(nm), f.tr_int(s.value, env), blk(rest, env.bind(nm, "int")))
        if isinstance(s, ast.For) and isinstance(s.target, ast.Name) and not s.orelse:
            dom = f.range_list(s.iter, env)
            inner = blk(list(s.body), env.bind(s.target.id, "int"))
            return app("(flat_map (fun %s => %s) %s)" % (q(s.target.id), inner, dom), blk(rest, env))
        if isinstance(s, ast.Expr) and isinstance(s.value, ast.Yield) and isinstance(s.value.value, ast.Tuple):
            return app("[[" + "; ".join(f.tr_int(x, env) for x in s.value.value.elts) + "]]", blk(rest, env))
        T.fail(rel, s, "unsupported statement in iterator %s" % name)
    return "Definition it_%s (v_L : list Z) : list (list Z) :=\n  %s.\n" % (name, blk(body, env)), T.sha(src, fn)


# ---------------------------------------------------------------------- plumbing (functions that only forward)
def plumbing(fn, table):
    """fn: Fn whose body is [numeric/vector locals...] ; return callee(args).  Returns dict of definitions."""
    body = fn.body
    ret = body[-1]
    if not isinstance(ret, ast.Return) or not isinstance(ret.value, ast.Call):
        fn.fail(ret, "last statement is not `return <call>`")
    call = ret.value
    dual = False
    mode_kw = None
    if T.dotted(call.func) == "dual_mesh":
        if len(call.args) != 1 or not isinstance(call.args[0], ast.Call):
            fn.fail(call, "dual_mesh(<generator call>) expected")
        dual = True
        for k in call.keywords:
            fn.fail(call, "keyword argument to dual_mesh")
        call = call.args[0]
    callee_name = T.dotted(call.func)
    if callee_name not in table:
        fn.fail(call, "callee %s is not a translated generator" % callee_name)
    callee = table[callee_name]
    # bind actuals to formals
    formals = callee.params
    bound = {}
    if len(call.args) > len(formals):
        fn.fail(call, "too many positional arguments")
    for (pn, pk, pd), a in zip(formals, call.args):
        bound[pn] = a
    for kw in call.keywords:
        if kw.arg is None or kw.arg not in [p[0] for p in formals]:
            fn.fail(call, "unknown keyword argument %s" % kw.arg)
        if kw.arg in bound:
            fn.fail(call, "argument %s bound twice" % kw.arg)
        bound[kw.arg] = kw.value
    env = fn.base_env()
    idx_args = []
    for pn, pk, pd in formals:
        if pk not in ("int", "bool"):
            continue
        a = bound.get(pn, pd)
        if a is None:
            fn.fail(call, "parameter %s of %s is not bound and has no default" % (pn, callee_name))
        idx_args.append(fn.tr_int(a, env) if pk == "int" else fn.tr_bool(a, env))
    # every local before the return must be free of effects: names bound to numbers / vectors
    pre = body[:-1]
    for s in pre:
        if not isinstance(s, ast.Assign):
            fn.fail(s, "unsupported statement in a forwarding function")
    g, c = fn.g, callee.g
    ib, ia = fn.index_binders(), " ".join(idx_args)
    out = []
    suffix = "_primal" if dual else ""
    for what in ("rejects", "vsites", "nverts", "faces", "edges", "cells"):
        if what in callee.defs:
            out.append("Definition %s%s_%s %s := %s_%s %s." % (g, suffix, what, ib, c, what, ia))
    fn.defs = {w for w in callee.defs if w != "coords"}
    # coordinates
    coord_args = []
    ok = True
    envc = env
    lets = []
    try:
        for s in pre:
            tg = s.targets[0]
            if isinstance(tg, ast.Name):
                kd, tm = fn.coord_value(s.value, envc)
                if kd == "opaque":
                    raise TranslationError("opaque local")
                lets.append((q(tg.id), tm))
                envc = envc.bind(tg.id, kd)
            elif isinstance(tg, ast.Tuple) and isinstance(s.value, ast.Tuple) and len(tg.elts) == len(s.value.elts):
                tmp = []
                for x, v in zip(tg.elts, s.value.elts):
                    kd, tm = fn.coord_value(v, envc)
                    if kd == "opaque":
                        raise TranslationError("opaque local")
                    tmp.append((x.id, kd, tm))
                for nm, kd, tm in tmp:
                    lets.append((q(nm) + "__t", tm))
                for nm, kd, tm in tmp:
                    lets.append((q(nm), q(nm) + "__t"))
                    envc = envc.bind(nm, kd)
            else:
                raise TranslationError("unsupported local")
        for pn, pk, pd in formals:
            a = bound.get(pn, pd)
            if pk == "int":
                coord_args.append(fn.tr_int(a, envc))
            elif pk == "bool":
                coord_args.append(fn.tr_bool(a, envc))
            elif pk == "float":
                coord_args.append(fn.tr_num(a, envc))
            elif pk == "vec":
                coord_args.append(fn.tr_vec(a, envc))
    except TranslationError as ex:
        if not dual and "coords" in callee.defs:
            raise
        ok = False
    if ok and "coords" in callee.defs:
        bodyc = "%s_coords O %s" % (c, " ".join(coord_args))
        for nm, val in reversed(lets):
            bodyc = "(let %s := %s in %s)" % (nm, val, bodyc)
        out.append("Definition %s%s_coords %s : list (vec T) :=\n  %s." % (g, suffix, fn.coord_binders(), bodyc))
        fn.defs.add("coords")
    fn.is_dual = dual
    fn.callee = callee
    if dual:
        if "dual_mesh" not in table:
            fn.fail(call, "dual_mesh is not translated")
        if fn.index_binders():
            fn.fail(call, "a dual generator with parameters is not supported")
        pf, pv = "%s_primal_faces" % g, "%s_primal_nverts" % g
        dargs = "(v2f_ring %s) %s (zlen %s)" % (pf, pv, pf)
        for what in ("rejects", "vsites", "nverts", "faces"):
            out.append("Definition %s_%s := dual_mesh_%s %s." % (g, what, what, dargs))
        fn.defs = {"rejects", "vsites", "nverts", "faces"}
    fn.bound_text = {pn: T.seg(fn.src, a) if isinstance(a, ast.AST) else None for pn, a in bound.items()}
    return "\n".join(out) + "\n"


# ---------------------------------------------------------------------- builders
def builder(fn):
    fn.scan_linspaces()
    out = []
    fn.defs = set()
    v = fn.run_mode("vsites")
    if fn.mesh is None:
        fn.fail(fn.node, "no RawMeshData() / from_arrays(.., raw=True) found")
    if fn.ret_ctor is None:
        fn.fail(fn.node, "no return of the built mesh")
    ib, ia = fn.index_binders(), fn.index_args()
    rej = " || ".join(fn.rejects) if fn.rejects else "false"
    out.append("Definition %s_rejects %s : bool := %s." % (fn.g, ib, rej))
    if fn.mesh_from_arrays:
        # the vertices are the caller's array: its length is the extra integer parameter
        if len(fn.extra_int_params) != 1 or v != "[]":
            fn.fail(fn.node, "from_arrays generator with unexpected vertex handling")
        v = "(map (fun _ => 0) (zrange %s))" % q(fn.extra_int_params[0])
    out.append("Definition %s_vsites %s : list Z :=\n  %s." % (fn.g, ib, v))
    out.append("Definition %s_nverts %s : Z := zlen (%s_vsites %s)." % (fn.g, ib, fn.g, ia))
    fn.defs |= {"rejects", "vsites", "nverts"}
    overrides = list(fn.overrides)
    for mode in ("faces", "edges", "cells"):
        t = fn.run_mode(mode)
        if t != "[]" or mode == "faces":
            out.append("Definition %s_%s %s : list (list Z) :=\n  %s." % (fn.g, mode, ib, t))
            fn.defs.add(mode)
    # coordinates (optional: generators with loop-carried geometry are not translated)
    try:
        c = fn.run_mode("coords")
        if fn.mesh_from_arrays:
            raise TranslationError("coordinates are the caller's")
        if c == "[]":
            raise TranslationError("no coordinates")
        extra = ""
        if overrides:
            # vertices overwritten after the loops (ring: the apex found by bisection) become parameters
            if len(set(overrides)) != len(overrides):
                raise TranslationError("a vertex is overwritten twice")
            for k in overrides:
                c = "(vset %d v__ov%d %s)" % (k, k, c)
                extra += " (v__ov%d : vec T)" % k
        out.append("Definition %s_coords %s%s : list (vec T) :=\n  %s." % (fn.g, fn.coord_binders(), extra, c))
        fn.defs.add("coords")
        fn.coords_skipped = None
    except TranslationError as ex:
        fn.coords_skipped = str(ex)
        out.append("(* %s: coordinates not translated: %s *)" % (fn.g, str(ex).replace("*)", "* )")[:300]))
    fn.overrides = overrides
    return "\n".join(out) + "\n"


# ---------------------------------------------------------------------- ring: the bisection loop for the apex
def ring_bisection(fn):
    """rings.py:ring  -  P1 = ..; P2 = ..; A = M.vertices[a]; B = M.vertices[b]; stop = False
                         while not stop: <float/vector assignments, one if/elif chain, stop = |..| < eps>
                         M.vertices[0] = <apex(P1, P2)>
    -> ring_defect_clamp, ring_bisect_init, ring_bisect_step (one pass of the loop body), ring_bisect_apex.
    angle_3pts is abstracted as a function parameter."""
    body = fn.body
    wl = [x for x in body if isinstance(x, ast.While)]
    if len(wl) != 1:
        fn.fail(fn.node, "expected exactly one while loop")
    w = wl[0]
    k = body.index(w)
    if not (isinstance(w.test, ast.UnaryOp) and isinstance(w.test.op, ast.Not) and isinstance(w.test.operand, ast.Name)) or w.orelse:
        fn.fail(w, "loop is not `while not <flag>:`")
    flag = w.test.operand.id
    fn.mesh = None
    for x in body:
        if isinstance(x, ast.Assign) and isinstance(x.value, ast.Call) and T.dotted(x.value.func) == "RawMeshData":
            fn.mesh = x.targets[0].id
    if fn.mesh is None:
        fn.fail(fn.node, "no RawMeshData()")
    fn.ang3 = "v_ang3"
    fn._top_vertices = []
    env = fn.base_env()
    pre_defect = None
    init = {}
    AB = {}
    # statements before the loop that matter: the clamp of `defect`, P1, P2, A, B, flag = False
    for x in body[:k]:
        if not (isinstance(x, ast.Assign) and len(x.targets) == 1 and isinstance(x.targets[0], ast.Name)):
            continue
        nm = x.targets[0].id
        v = x.value
        if isinstance(v, ast.Subscript) and fn.is_mesh_attr(v.value, "vertices") and isinstance(v.slice, ast.Constant):
            AB[nm] = v.slice.value
            env = env.bind(nm, "vec")
            continue
        if isinstance(v, ast.Constant) and v.value is False and nm == flag:
            continue
        kd, tm = fn.coord_value(v, env)
        if kd == "opaque":
            continue
        init[nm] = (kd, tm, env)
        env = env.bind(nm, kd)
    # free names of the loop body = state (assigned in the loop and live) + inputs
    assigned = assigned_names(w.body)
    state = [n for n in ("P1", "P2") if n in assigned]
    if sorted(n for n in assigned if n in init) != sorted(state) or flag not in assigned:
        fn.fail(w, "loop state is not (P1, P2, %s): %s" % (flag, sorted(assigned)))
    if sorted(AB.values()) != [1, 2]:
        fn.fail(w, "A, B are not vertices 1 and 2")
    lets = []
    cnt = [0]

    def fresh(nm):
        cnt[0] += 1
        return "%s_%d" % (q(nm), cnt[0])

    def run(stmts, env):
        for st in stmts:
            if isinstance(st, ast.Assign) and len(st.targets) == 1 and isinstance(st.targets[0], ast.Name):
                nm = st.targets[0].id
                if nm == flag:
                    g = fresh(nm)
                    lets.append((g, fbool(st.value, env)))
                    env = env.bind(nm, "bool", g)
                    continue
                kd, tm = fn.coord_value(st.value, env)
                if kd == "opaque":
                    fn.fail(st, "untranslatable assignment in the bisection loop")
                g = fresh(nm)
                lets.append((g, tm))
                env = env.bind(nm, kd, g)
            elif isinstance(st, ast.If):
                c = fresh("c")
                lets.append((c, fbool(st.test, env)))
                et = run(st.body, env)
                ef = run(st.orelse, env)
                for nm in sorted(assigned_names([st])):
                    kt, tt = et.get(nm)
                    kf, tf = ef.get(nm)
                    if kt != kf or kt is None:
                        fn.fail(st, "branches disagree on %s" % nm)
                    g = fresh(nm)
                    lets.append((g, "(if %s then %s else %s)" % (c, tt, tf)))
                    env = env.bind(nm, kt, g)
            else:
                fn.fail(st, "unsupported statement in the bisection loop")
        return env

    def fbool(e, env):
        if isinstance(e, ast.Compare) and len(e.ops) == 1 and isinstance(e.ops[0], (ast.Lt, ast.Gt)):
            l, r = e.left, e.comparators[0]
            if isinstance(e.ops[0], ast.Gt):
                l, r = r, l
            if isinstance(l, ast.Call) and T.dotted(l.func) == "abs" and len(l.args) == 1:
                return "(oabs_lt O %s %s)" % (fn.tr_num(l.args[0], env), fn.tr_num(r, env))
            return "(oltb O %s %s)" % (fn.tr_num(l, env), fn.tr_num(r, env))
        fn.fail(e, "unsupported test in the bisection loop")

    env0 = env
    for n in state:
        env0 = env0.bind(n, "vec")
    envf = run(w.body, env0)
    res = "(%s, %s, %s)" % (envf.get("P1")[1], envf.get("P2")[1], envf.get(flag)[1])
    for g, tm in reversed(lets):
        res = "(let %s := %s in\n   %s)" % (g, tm, res)
    # after the loop: M.vertices[0] = apex(P1, P2)
    after = [x for x in body[k + 1:] if isinstance(x, ast.Assign) and isinstance(x.targets[0], ast.Subscript)
             and fn.is_mesh_attr(x.targets[0].value, "vertices")]
    if len(after) != 1 or not (isinstance(after[0].targets[0].slice, ast.Constant) and after[0].targets[0].slice.value == 0):
        fn.fail(w, "the apex is not written to vertex 0 after the loop")
    apex = fn.tr_vec(after[0].value, env0)
    if "defect" not in init or init["defect"][0] != "float":
        fn.fail(fn.node, "no clamp of `defect` before the loop")
    A = [n for n, i in AB.items() if i == 1][0]
    B = [n for n, i in AB.items() if i == 2][0]
    out = []
    # the clamp, in the environment where it was evaluated (max_defect is inlined through lets)
    clamp_env_lets = []
    for nm, (kd, tm, _) in init.items():
        if nm in ("defect",):
            break
        if kd == "float":
            clamp_env_lets.append((q(nm), tm))
    clamp = init["defect"][1]
    for g, tm in reversed(clamp_env_lets):
        clamp = let(g, tm, clamp)
    out.append("Definition ring_defect_clamp {T : Type} (O : ops T) (v_defect : T) : T :=\n  %s." % clamp)
    out.append("Definition ring_bisect_init {T : Type} (O : ops T) : vec T * vec T :=\n  (%s, %s)." % (init["P1"][1], init["P2"][1]))
    out.append("Definition ring_bisect_step {T : Type} (O : ops T) (v_ang3 : vec T -> vec T -> vec T -> T) (%s %s : vec T) "
               "(v_N : Z) (v_defect : T) (v_P1 v_P2 : vec T) : vec T * vec T * bool :=\n  %s." % (q(A), q(B), res))
    out.append("Definition ring_bisect_apex {T : Type} (O : ops T) (v_P1 v_P2 : vec T) : vec T :=\n  %s." % apex)
    return "\n".join(out) + "\n"


# ---------------------------------------------------------------------- dual_mesh: where the dual points come from
def dual_points(fn):
    """dual.py:dual_mesh  -  if mode.lower() == "<m1>": dual_pts = <f1>(mesh, persistent=False)
                             elif mode.lower() == "<m2>": dual_pts = <f2>(mesh, persistent=False)      (no other branch)
                             for F in mesh.id_faces: out.vertices.append(dual_pts[F])
    -> dual_mesh_modes : list (mode string, attribute function, persistent flag).  Any other shape (an extra test such as
    `if mesh.faces.has_attribute(..)`, an else branch, a cached value) raises TranslationError."""
    mesh = [n for n, k, _ in fn.params if k == "mesh"]
    strs = [n for n, k, _ in fn.params if k == "str"]
    if len(mesh) != 1 or len(strs) != 1:
        fn.fail(fn.node, "dual_mesh does not take (mesh, mode)")
    mesh, mode = mesh[0], strs[0]
    ifs = [x for x in fn.body if isinstance(x, ast.If)]
    if len(ifs) != 1:
        fn.fail(fn.node, "expected exactly one if/elif chain selecting the dual points")
    modes = []
    node = ifs[0]
    target = None
    while True:
        t = node.test
        if not (isinstance(t, ast.Compare) and len(t.ops) == 1 and isinstance(t.ops[0], ast.Eq)
                and isinstance(t.left, ast.Call) and T.dotted(t.left.func) == mode + ".lower" and not t.left.args
                and isinstance(t.comparators[0], ast.Constant) and isinstance(t.comparators[0].value, str)):
            fn.fail(node, "test is not `%s.lower() == \"<name>\"`" % mode)
        if len(node.body) != 1 or not isinstance(node.body[0], ast.Assign) or len(node.body[0].targets) != 1 \
                or not isinstance(node.body[0].targets[0], ast.Name) or not isinstance(node.body[0].value, ast.Call):
            fn.fail(node, "branch is not a single `dual_pts = <attribute function>(mesh, ..)`")
        a = node.body[0]
        if target not in (None, a.targets[0].id):
            fn.fail(a, "branches assign different names")
        target = a.targets[0].id
        c = a.value
        f = T.dotted(c.func)
        if f is None or "." in f or len(c.args) != 1 or T.dotted(c.args[0]) != mesh:
            fn.fail(c, "dual points are not computed by a plain function of the mesh")
        kws = {k.arg: k.value for k in c.keywords}
        if set(kws) != {"persistent"} or not isinstance(kws["persistent"], ast.Constant) or not isinstance(kws["persistent"].value, bool):
            fn.fail(c, "the attribute function is not called with exactly persistent=<bool>")
        modes.append((t.comparators[0].value, f, kws["persistent"].value))
        if not node.orelse:
            break
        if len(node.orelse) == 1 and isinstance(node.orelse[0], ast.If):
            node = node.orelse[0]
            continue
        fn.fail(node, "unexpected else branch")
    # the vertex loop appends dual_pts[F] for F over the faces, and nothing else reads or writes dual_pts
    uses = [n for n in ast.walk(fn.node) if isinstance(n, ast.Name) and n.id == target]
    loops = [x for x in fn.body if isinstance(x, ast.For) and T.dotted(x.iter) == mesh + ".id_faces"]
    ok = (len(loops) == 1 and isinstance(loops[0].target, ast.Name) and len(loops[0].body) == 1
          and isinstance(loops[0].body[0], ast.Expr) and isinstance(loops[0].body[0].value, ast.Call)
          and T.dotted(loops[0].body[0].value.func) is not None and T.dotted(loops[0].body[0].value.func).endswith(".vertices.append")
          and len(loops[0].body[0].value.args) == 1 and isinstance(loops[0].body[0].value.args[0], ast.Subscript)
          and T.dotted(loops[0].body[0].value.args[0].value) == target
          and T.dotted(loops[0].body[0].value.args[0].slice) == loops[0].target.id)
    if not ok or len(uses) != len(modes) + 1:
        fn.fail(fn.node, "the dual vertices are not exactly `for F in mesh.id_faces: out.vertices.append(%s[F])`" % target)
    # no other statement may look at the mesh's attributes
    for n in ast.walk(fn.node):
        if isinstance(n, ast.Attribute) and n.attr in ("has_attribute", "get_attribute", "attributes", "create_attribute", "delete_attribute"):
            fn.fail(n, "dual_mesh inspects the attributes of its input")
    items = "; ".join('("%s"%%string, "%s"%%string, %s)' % (m, f, "true" if p else "false") for m, f, p in modes)
    return "Definition dual_mesh_modes : list (string * string * bool) := [%s].\n" % items


# ---------------------------------------------------------------------- sphere_fibonacci: the point formula only
def points_only(fn):
    """vsites / nverts / coords of a generator whose faces come from code outside the model (scipy ConvexHull)."""
    fn.scan_linspaces()
    fn.points_only = True
    fn.defs = set()
    v = fn.run_mode("vsites")
    ib, ia = fn.index_binders(), fn.index_args()
    out = ["Definition %s_vsites %s : list Z :=\n  %s." % (fn.g, ib, v),
           "Definition %s_nverts %s : Z := zlen (%s_vsites %s)." % (fn.g, ib, fn.g, ia)]
    c = fn.run_mode("coords")
    if c == "[]":
        fn.fail(fn.node, "no point formula found")
    out.append("Definition %s_coords %s : list (vec T) :=\n  %s." % (fn.g, fn.coord_binders(), c))
    fn.defs = {"vsites", "nverts", "coords"}
    fn.coords_skipped = None
    fn.overrides = []
    return "\n".join(out) + "\n"


# ---------------------------------------------------------------------- icosphere: base mesh, rounds, projection
def icosphere_parts(fn, table):
    """shapes.py:icosphere  -  ico = icosahedron(center, radius)
                               with SurfaceSubdivision(ico, False) as S: for _ in range(n_refine): S.loop_subdivision(1);
                                   for iv in S.mesh.id_vertices: S.mesh.vertices[iv] = <projection of S.mesh.vertices[iv]>
    -> icosphere_base_* (plumbing to icosahedron), icosphere_rounds, icosphere_project."""
    b = fn.body
    if len(b) != 3 or not (isinstance(b[0], ast.Assign) and isinstance(b[0].value, ast.Call)
                           and T.dotted(b[0].value.func) == "icosahedron") or not isinstance(b[1], ast.With) \
            or not isinstance(b[2], ast.Return):
        fn.fail(fn.node, "unexpected structure of icosphere")
    base = b[0].targets[0].id
    call = b[0].value
    callee = table["icosahedron"]
    bound = {}
    for (pn, pk, pd), a in zip(callee.params, call.args):
        bound[pn] = a
    for kw in call.keywords:
        bound[kw.arg] = kw.value
    env = fn.base_env()
    cargs = []
    for pn, pk, pd in callee.params:
        a = bound.get(pn, pd)
        cargs.append(fn.tr_vec(a, env) if pk == "vec" else fn.tr_num(a, env) if pk == "float" else fn.tr_bool(a, env))
    iargs = [fn.tr_bool(bound.get(pn, pd), env) for pn, pk, pd in callee.params if pk == "bool"]
    w = b[1]
    it = w.items[0]
    if not (len(w.items) == 1 and isinstance(it.context_expr, ast.Call) and T.dotted(it.context_expr.func) == "SurfaceSubdivision"
            and isinstance(it.context_expr.args[0], ast.Name) and it.context_expr.args[0].id == base
            and isinstance(it.optional_vars, ast.Name)):
        fn.fail(w, "not `with SurfaceSubdivision(<base>, ..) as <name>`")
    sd = it.optional_vars.id
    if not (len(w.body) == 1 and isinstance(w.body[0], ast.For) and T.dotted(w.body[0].iter.func) == "range"
            and len(w.body[0].iter.args) == 1):
        fn.fail(w, "the with-block is not a single for loop over range(..)")
    loop = w.body[0]
    rounds = fn.tr_int(loop.iter.args[0], env)
    if len(loop.body) != 2:
        fn.fail(loop, "a round is not (loop_subdivision; projection loop)")
    ls, pl = loop.body
    if not (isinstance(ls, ast.Expr) and isinstance(ls.value, ast.Call) and T.dotted(ls.value.func) == sd + ".loop_subdivision"
            and len(ls.value.args) == 1 and isinstance(ls.value.args[0], ast.Constant)):
        fn.fail(ls, "first statement of a round is not <subdiv>.loop_subdivision(<const>)")
    nsub = ls.value.args[0].value
    if not (isinstance(pl, ast.For) and T.dotted(pl.iter) == sd + ".mesh.id_vertices" and len(pl.body) == 1
            and isinstance(pl.body[0], ast.Assign) and isinstance(pl.body[0].targets[0], ast.Subscript)
            and T.dotted(pl.body[0].targets[0].value) == sd + ".mesh.vertices"
            and T.dotted(pl.body[0].targets[0].slice) == pl.target.id):
        fn.fail(pl, "second statement of a round is not the projection of every vertex")
    if T.dotted(b[2].value) != sd + ".mesh":
        fn.fail(b[2], "the subdivided mesh is not what is returned")

    class Sub(ast.NodeTransformer):
        def visit_Subscript(self, n):
            if T.dotted(n.value) == sd + ".mesh.vertices" and T.dotted(n.slice) == pl.target.id:
                return ast.Name(id="__v", ctx=ast.Load())
            return self.generic_visit(n)
    expr = Sub().visit(pl.body[0].value)
    proj = fn.tr_vec(expr, env.bind("__v", "vec", "v_v"))
    out = ["Definition icosphere_base_faces := icosahedron_faces %s." % " ".join(iargs),
           "Definition icosphere_base_nverts := icosahedron_nverts %s." % " ".join(iargs),
           "Definition icosphere_base_coords %s : list (vec T) :=\n  icosahedron_coords O %s." % (fn.coord_binders(), " ".join(cargs)),
           "Definition icosphere_rounds %s : Z := %s." % (fn.index_binders(), rounds),
           "Definition icosphere_loop_passes : Z := %s." % zconst(nsub),
           "Definition icosphere_project %s (v_v : vec T) : vec T :=\n  %s." % (fn.coord_binders(), proj)]
    return "\n".join(out) + "\n"


BUILDERS = [
    ("mouette/procedural/flat.py", ["triangle", "quad", "unit_grid", "unit_triangle"]),
    ("mouette/procedural/shapes.py", ["tetrahedron", "hexahedron", "icosahedron", "cylinder", "torus", "sphere_uv"]),
    ("mouette/procedural/rings.py", ["ring", "flat_ring"]),
    ("mouette/procedural/polylines.py", ["chain_of_vertices", "vector_field"]),
    ("mouette/procedural/dual.py", ["dual_mesh"]),
]
FORWARDERS = [
    ("mouette/procedural/shapes.py", ["axis_aligned_cube", "hexahedron_4pts", "octahedron", "dodecahedron"]),
]
ITER_REL = "mouette/utils/iterators.py"


GEOM_REL = "mouette/geometry/rotations.py"
GEOM_INIT = "mouette/geometry/__init__.py"


def geometry_helper(fn):
    """mouette/geometry/rotations.py: a straight-line vector function
         a, b = <num>, <num> | x = Vec(x) | out = Vec(0., 0.[, 0.]) | out.x = <num> | u, v, w = <vec> | x = <num or vec>
         if <test>: return <vec>      (early return)        |  return <vec>
       -> Definition geom_<name> O <params> : vec T.  Anything else fails closed."""
    cnt = [0]

    def fresh(nm):
        cnt[0] += 1
        return "%s_%d" % (q(nm), cnt[0])

    def fbool(e, env):
        if isinstance(e, ast.BoolOp) and isinstance(e.op, (ast.Or, ast.And)):
            op = "orb" if isinstance(e.op, ast.Or) else "andb"
            t = fbool(e.values[0], env)
            for x in e.values[1:]:
                t = "(%s %s %s)" % (op, t, fbool(x, env))
            return t
        if isinstance(e, ast.Compare) and len(e.ops) == 1 and isinstance(e.ops[0], (ast.Lt, ast.Gt)):
            l, r = e.left, e.comparators[0]
            if isinstance(e.ops[0], ast.Gt):
                l, r = r, l
            if isinstance(l, ast.Call) and T.dotted(l.func) == "abs" and len(l.args) == 1 and not l.keywords:
                return "(oabs_lt O %s %s)" % (fn.tr_num(l.args[0], env), fn.tr_num(r, env))
            return "(oltb O %s %s)" % (fn.tr_num(l, env), fn.tr_num(r, env))
        fn.fail(e, "unsupported test in a geometry helper")

    def vec_term(name, env, comps, node):
        if name in comps:
            return "(%s, %s, %s)" % tuple(comps[name])
        k, t = env.get(name)
        if k == "vec":
            return t
        fn.fail(node, "%s is not a vector" % name)

    def go(stmts, env, comps):
        if not stmts:
            fn.fail(fn.node, "geometry helper falls off its end without a return")
        st, rest = stmts[0], stmts[1:]
        if isinstance(st, ast.Return):
            if rest or not isinstance(st.value, ast.Name):
                fn.fail(st, "unsupported return in a geometry helper")
            return vec_term(st.value.id, env, comps, st)
        if isinstance(st, ast.If):
            if st.orelse or len(st.body) != 1 or not isinstance(st.body[0], ast.Return) or not isinstance(st.body[0].value, ast.Name):
                fn.fail(st, "only `if <test>: return <vector>` is understood in a geometry helper")
            return "(if %s then %s else %s)" % (fbool(st.test, env), vec_term(st.body[0].value.id, env, comps, st), go(rest, env, comps))
        if not (isinstance(st, ast.Assign) and len(st.targets) == 1):
            fn.fail(st, "unsupported statement in a geometry helper")
        tg, v = st.targets[0], st.value
        if isinstance(tg, ast.Tuple) and all(isinstance(x, ast.Name) for x in tg.elts):
            names = [x.id for x in tg.elts]
            if isinstance(v, ast.Tuple) and len(v.elts) == len(names):
                terms = [fn.tr_num(x, env) for x in v.elts]      # all evaluated before any is bound
            elif isinstance(v, ast.Name) and len(names) == 3 and (v.id in comps or env.get(v.id)[0] == "vec"):
                t = vec_term(v.id, env, comps, st)
                terms = ["(vx %s)" % t, "(vy %s)" % t, "(vz %s)" % t]
            else:
                fn.fail(st, "unsupported tuple assignment in a geometry helper")
            gs = [fresh(n) for n in names]
            env2 = env
            for n, g in zip(names, gs):
                comps.pop(n, None)
                env2 = env2.bind(n, "float", g)
            body = go(rest, env2, comps)
            for g, t in reversed(list(zip(gs, terms))):
                body = "(let %s := %s in %s)" % (g, t, body)
            return body
        if isinstance(tg, ast.Attribute) and tg.attr in ("x", "y", "z") and isinstance(tg.value, ast.Name) and tg.value.id in comps:
            k = "xyz".index(tg.attr)
            if k >= comps[tg.value.id + "/dim"]:
                fn.fail(st, "component %s of a %d-dimensional vector" % (tg.attr, comps[tg.value.id + "/dim"]))
            g = fresh(tg.value.id + "_" + tg.attr)
            t = fn.tr_num(v, env)
            c2 = dict(comps)
            c2[tg.value.id] = list(comps[tg.value.id])
            c2[tg.value.id][k] = g
            return "(let %s := %s in %s)" % (g, t, go(rest, env, c2))
        if isinstance(tg, ast.Name):
            nm = tg.id
            if isinstance(v, ast.Call) and T.dotted(v.func) == "Vec" and not v.keywords and len(v.args) in (2, 3) \
                    and all(isinstance(x, ast.Constant) and type(x.value) in (int, float) and x.value == 0 for x in v.args):
                c2 = dict(comps)
                c2[nm] = ["(oofZ O 0)"] * 3
                c2[nm + "/dim"] = len(v.args)
                return go(rest, env.taint([nm]), c2)
            if nm in comps:
                fn.fail(st, "vector under construction is re-assigned")
            kd, tm = fn.coord_value(v, env)
            if kd == "opaque":
                fn.fail(st, "untranslatable assignment in a geometry helper")
            if kd == "vec" and isinstance(v, ast.Call) and T.dotted(v.func) == "Vec" and len(v.args) == 1 \
                    and isinstance(v.args[0], ast.Name) and v.args[0].id == nm:
                return go(rest, env, comps)          # x = Vec(x): the same value
            g = fresh(nm)
            return "(let %s := %s in %s)" % (g, tm, go(rest, env.bind(nm, kd, g), comps))
        fn.fail(st, "unsupported assignment target in a geometry helper")

    for n, k, d in fn.params:
        if k not in ("vec", "float") or d is not None:
            fn.fail(fn.node, "geometry helper parameter %s is not a plain vector or number" % n)
    body = go(list(fn.body), fn.base_env(), {})
    if fn.geom_deps:
        fn.fail(fn.node, "geometry helper calls another geometry helper")
    return "Definition geom_%s %s : vec T :=\n  %s.\n" % (fn.name, fn.coord_binders(), body)


def geometry_helpers(deps, callers):
    """the helpers of geometry/rotations.py that the generators call, translated from their current source; the generators
    must reach them through `from ..geometry import ...` and must not shadow them"""
    if not deps:
        return [], []
    src, tree = T.load(GEOM_REL)
    isrc, itree = T.load(GEOM_INIT)
    if not any(isinstance(n, ast.ImportFrom) and n.level == 1 and n.module == "rotations" and any(a.name == "*" for a in n.names)
               for n in itree.body):
        T.fail(GEOM_INIT, itree, "mouette.geometry does not re-export rotations.*")
    for rel, ctree in callers:
        for n in ctree.body:
            if isinstance(n, (ast.FunctionDef, ast.ClassDef)) and n.name in deps:
                T.fail(rel, n, "%s shadows the geometry helper of the same name" % n.name)
            if isinstance(n, ast.Assign) and any(isinstance(t, ast.Name) and t.id in deps for t in n.targets):
                T.fail(rel, n, "a geometry helper name is re-bound at module level")
            if isinstance(n, ast.ImportFrom) and any((a.asname or a.name) in deps for a in n.names) \
                    and not (n.level == 2 and n.module in ("geometry", "geometry.rotations")):
                T.fail(rel, n, "a geometry helper name is imported from somewhere else")
    texts, parts = [], []
    for nm in sorted(deps):
        fn = Fn(GEOM_REL, src, tree, nm)
        texts.append("(* ---- %s:%s *)\n%s" % (GEOM_REL, nm, geometry_helper(fn)))
        parts.append(("rotations.py:" + nm, T.sha(src, fn.node)))
    return texts, parts


def translate():
    """Returns (text of Gen.v, info) ; info[name] = signature data used by the harness."""
    parts, chunks, table, info = [], [], {}, {}
    loaded = {}
    iter_deps = set()
    geom_deps = set()
    for rel, names in BUILDERS:
        if rel not in loaded:
            loaded[rel] = T.load(rel)
        src, tree = loaded[rel]
        for nm in names:
            fn = Fn(rel, src, tree, nm)
            text = builder(fn)
            parts.append((rel.split("/")[-1] + ":" + nm, T.sha(src, fn.node)))
            chunks.append("(* ---- %s:%s *)\n%s" % (rel, nm, text))
            table[nm] = fn
            iter_deps |= fn.iter_deps
            geom_deps |= fn.geom_deps
    for rel, names in FORWARDERS:
        if rel not in loaded:
            loaded[rel] = T.load(rel)
        src, tree = loaded[rel]
        for nm in names:
            fn = Fn(rel, src, tree, nm)
            text = plumbing(fn, table)
            parts.append((rel.split("/")[-1] + ":" + nm, T.sha(src, fn.node)))
            chunks.append("(* ---- %s:%s (call plumbing) *)\n%s" % (rel, nm, text))
            table[nm] = fn
    src, tree = loaded["mouette/procedural/dual.py"]
    chunks.append("(* ---- mouette/procedural/dual.py:dual_mesh (source of the dual points per mode) *)\n"
                  + dual_points(Fn("mouette/procedural/dual.py", src, tree, "dual_mesh")))
    src, tree = loaded["mouette/procedural/rings.py"]
    fnr = Fn("mouette/procedural/rings.py", src, tree, "ring")
    chunks.append("(* ---- mouette/procedural/rings.py:ring (bisection loop for the apex) *)\n" + ring_bisection(fnr))
    src, tree = loaded["mouette/procedural/shapes.py"]
    fnf = Fn("mouette/procedural/shapes.py", src, tree, "sphere_fibonacci")
    chunks.append("(* ---- mouette/procedural/shapes.py:sphere_fibonacci (points only; the faces come from scipy ConvexHull) *)\n" + points_only(fnf))
    parts.append(("shapes.py:sphere_fibonacci", T.sha(src, fnf.node)))
    fni = Fn("mouette/procedural/shapes.py", src, tree, "icosphere")
    chunks.append("(* ---- mouette/procedural/shapes.py:icosphere (base mesh, rounds, projection) *)\n" + icosphere_parts(fni, table))
    parts.append(("shapes.py:icosphere", T.sha(src, fni.node)))
    its = []
    if iter_deps:
        src, tree = T.load(ITER_REL)
        for nm in sorted(iter_deps):
            text, h = gen_iterator(ITER_REL, src, tree, nm)
            parts.append(("iterators.py:" + nm, h))
            its.append(text)
    gtexts, gparts = geometry_helpers(geom_deps, [(rel, loaded[rel][1]) for rel in loaded])
    parts += gparts
    its = gtexts + its
    # ---- dispatchers (used by the correspondence): code -> model functions on (ints, bools)
    names = [n for _, ns in BUILDERS for n in ns] + [n for _, ns in FORWARDERS for n in ns] + ["sphere_fibonacci"]
    table["sphere_fibonacci"] = fnf
    disp = []
    for what, ty in (("rejects", "bool"), ("nverts", "Z"), ("faces", "list (list Z)"), ("edges", "list (list Z)"),
                     ("cells", "list (list Z)")):
        lines = ["Definition dispatch_%s (code : Z) (ip : list Z) (bp : list bool) : option (%s) :=" % (what, ty),
                 "  match code, ip, bp with"]
        for code, nm in enumerate(names):
            fn = table[nm]
            if any(k == "mesh" for _, k, _ in fn.params):
                continue
            suffix = ""
            ints = list(fn.extra_int_params) + [n for n, k, _ in fn.params if k == "int"]
            bools = [n for n, k, _ in fn.params if k == "bool"]
            ipat = "[" + "; ".join(q(n) for n in ints) + "]"
            bpat = "[" + "; ".join(q(n) for n in bools) + "]"
            if what in fn.defs:
                rhs = "%s%s_%s %s" % (fn.g, suffix, what, fn.index_args())
            elif what in ("edges", "cells"):
                rhs = "[]"
            else:
                continue
            lines.append("  | %d, %s, %s => Some (%s)" % (code, ipat, bpat, rhs))
        lines.append("  | _, _, _ => None\n  end.")
        disp.append("\n".join(lines))
    # coordinates dispatcher
    lines = ["Definition dispatch_coords {T : Type} (O : ops T) (code : Z) (ip : list Z) (bp : list bool) (fp : list T) (vp : list (vec T)) : option (list (vec T)) :=",
             "  match code, ip, bp, fp, vp with"]
    for code, nm in enumerate(names):
        fn = table[nm]
        if "coords" not in fn.defs or getattr(fn, "is_dual", False):
            continue
        ints = list(fn.extra_int_params) + [n for n, k, _ in fn.params if k == "int"]
        pat = lambda kinds: "[" + "; ".join(q(n) for n, k, _ in fn.params if k in kinds) + "]"
        ipat = "[" + "; ".join(q(n) for n in ints) + "]"
        args = [q(n) for n in fn.extra_int_params] + [q(n) for n, k, _ in fn.params if k in ("int", "bool", "float", "vec")]
        ovs = ["v__ov%d" % k for k in getattr(fn, "overrides", [])]
        vpat = "[" + "; ".join([q(n) for n, k, _ in fn.params if k == "vec"] + ovs) + "]"
        lines.append("  | %d, %s, %s, %s, %s => Some (%s_coords O %s)" % (code, ipat, pat(("bool",)), pat(("float",)), vpat,
                                                                  fn.g, " ".join(args + ovs)))
    lines.append("  | _, _, _, _, _ => None\n  end.")
    disp.append("\n".join(lines))
    for code, nm in enumerate(names):
        fn = table[nm]
        info[nm] = {
            "code": code,
            "ints": list(fn.extra_int_params) + [n for n, k, _ in fn.params if k == "int"],
            "bools": [n for n, k, _ in fn.params if k == "bool"],
            "floats": [n for n, k, _ in fn.params if k == "float"],
            "vecs": [n for n, k, _ in fn.params if k == "vec"],
            "defs": sorted(fn.defs),
            "dual": bool(getattr(fn, "is_dual", False)),
            "has_mesh_param": any(k == "mesh" for _, k, _ in fn.params),
            "ret_dim": fn.ret_dim, "ret_ctor": fn.ret_ctor,
            "overrides": list(getattr(fn, "overrides", [])),
            "coords_skipped": getattr(fn, "coords_skipped", None),
            "unmodelled_guards": list(getattr(fn, "unmodelled_guards", [])),
            "forwards": getattr(fn, "bound_text", None),
        }
    out = T.header("C14: procedural generators - index arithmetic, tables, coordinates, call plumbing", parts)
    out += """From Coq Require Import ZArith List Bool String.
Import ListNotations.
Require Import MV.Lib.Base MV.C14.Model.
Open Scope Z_scope.
Set Implicit Arguments.

"""
    out += "\n".join(its) + "\n" + "\n".join(chunks) + "\n" + "\n\n".join(disp) + "\n"
    return out, info


def gen():
    text, info = translate()
    return {"C14/Gen.v": text}
