"""sampling.py, splines/bezier.py, geometry/aabb.py -> coq/theories/C19/Gen.v

What is extracted (everything else of the anchored functions is shape-checked, fail-closed):
  * sample_sphere / sample_ball : the per-coordinate point expression obtained by symbolic evaluation of the
    straight-line numpy code (normalisation, radial law radius*cbrt(u), affine map), and the range handed to
    np.random.uniform;
  * sample_AABB : accepted modes, the emptiness test and `span` of AABB, the dim limit of the point-cloud
    variant, the affine map of both modes, the resolution expression round(n**(1/dim)), linspace end points;
  * sample_polyline / sample_surface : the `NE > 1` test, the normalisation handed to `choice` as `p`, the
    default edge, the convex-combination / barycentric expressions, the index of the normal that is returned;
  * de_casteljau : the [0,1] guard, order, both loop bounds, the update expression, the returned index;
  * BezierCurve.as_polyline / BezierPatch.as_surface : lengths of the parameter arrays, accepted point sizes,
    the loops that enumerate vertices, edges and faces as flat_map over zrange.
"""
import ast
from fractions import Fraction

from . import common as T
from ..core import TranslationError

SAMP = "mouette/sampling.py"
BEZ = "mouette/splines/bezier.py"
AABB = "mouette/geometry/aabb.py"


# ------------------------------------------------------------------ expression translators
def fconst(v, rel, node):
    if isinstance(v, bool) or not isinstance(v, (int, float)):
        T.fail(rel, node, "unsupported constant")
    fr = Fraction(str(v)) if isinstance(v, float) else Fraction(v)
    if fr == 0:
        return "(o0 o)"
    if fr == 1:
        return "(o1 o)"
    if fr.denominator == 1:
        return "(oZ o (%d)%%Z)" % fr.numerator
    return "(odiv o (oZ o (%d)%%Z) (oZ o %d%%Z))" % (fr.numerator, fr.denominator)


FBIN = {ast.Add: "oadd", ast.Sub: "osub", ast.Mult: "omul", ast.Div: "odiv"}
FCALL = {"np.sqrt": "osqrt", "np.cbrt": "ocbrt", "math.sqrt": "osqrt"}


def fexpr(e, env, rel):
    """numeric expression over the `ops` record; names are looked up in env (dotted names allowed)."""
    if isinstance(e, ast.Constant):
        return fconst(e.value, rel, e)
    d = T.dotted(e)
    if d is not None:
        if d in env:
            return env[d]
        T.fail(rel, e, "unknown name %s in numeric expression" % d)
    if isinstance(e, ast.BinOp) and type(e.op) in FBIN:
        return "(%s o %s %s)" % (FBIN[type(e.op)], fexpr(e.left, env, rel), fexpr(e.right, env, rel))
    if isinstance(e, ast.UnaryOp) and isinstance(e.op, ast.USub):
        return "(osub o (o0 o) %s)" % fexpr(e.operand, env, rel)
    if isinstance(e, ast.Call) and T.dotted(e.func) in FCALL and len(e.args) == 1 and not e.keywords:
        return "(%s o %s)" % (FCALL[T.dotted(e.func)], fexpr(e.args[0], env, rel))
    if isinstance(e, ast.Subscript) and "[]" in env:
        return env["[]"](e)
    T.fail(rel, e, "unsupported numeric expression")


ZBIN = {ast.Add: "+", ast.Sub: "-", ast.Mult: "*", ast.FloorDiv: "/", ast.Mod: "mod"}


def zexpr(e, env, rel):
    if isinstance(e, ast.Constant) and isinstance(e.value, int) and not isinstance(e.value, bool):
        return "(%d)" % e.value if e.value < 0 else "%d" % e.value
    if isinstance(e, ast.Name):
        if e.id in env:
            return env[e.id]
        T.fail(rel, e, "unknown name %s in index expression" % e.id)
    if isinstance(e, ast.BinOp) and type(e.op) in ZBIN:
        return "(%s %s %s)" % (zexpr(e.left, env, rel), ZBIN[type(e.op)], zexpr(e.right, env, rel))
    if isinstance(e, ast.UnaryOp) and isinstance(e.op, ast.USub):
        return "(- %s)" % zexpr(e.operand, env, rel)
    if isinstance(e, ast.Call) and T.dotted(e.func) == "len" and len(e.args) == 1 and ("len:" + str(T.dotted(e.args[0]))) in env:
        return env["len:" + T.dotted(e.args[0])]
    T.fail(rel, e, "unsupported index expression")


FCMP = {ast.LtE: lambda a, b: "(oleb o %s %s)" % (a, b), ast.Lt: lambda a, b: "(oltb o %s %s)" % (a, b),
        ast.GtE: lambda a, b: "(oleb o %s %s)" % (b, a), ast.Gt: lambda a, b: "(oltb o %s %s)" % (b, a)}


def fbexpr(e, env, rel):
    if isinstance(e, ast.UnaryOp) and isinstance(e.op, ast.Not):
        return "(negb %s)" % fbexpr(e.operand, env, rel)
    if isinstance(e, ast.BoolOp):
        op = "andb" if isinstance(e.op, ast.And) else "orb"
        parts = [fbexpr(v, env, rel) for v in e.values]
        out = parts[0]
        for p in parts[1:]:
            out = "(%s %s %s)" % (op, out, p)
        return out
    if isinstance(e, ast.Compare):
        terms = [e.left] + list(e.comparators)
        parts = []
        for l, op, r in zip(terms, e.ops, terms[1:]):
            if type(op) not in FCMP:
                T.fail(rel, e, "unsupported comparison")
            parts.append(FCMP[type(op)](fexpr(l, env, rel), fexpr(r, env, rel)))
        out = parts[0]
        for p in parts[1:]:
            out = "(andb %s %s)" % (out, p)
        return out
    T.fail(rel, e, "unsupported boolean expression")


ZCMP = {ast.Lt: "<?", ast.LtE: "<=?", ast.Gt: ">?", ast.GtE: ">=?", ast.Eq: "=?"}


def zbexpr(e, env, rel):
    if isinstance(e, ast.Compare) and len(e.ops) == 1 and type(e.ops[0]) in ZCMP:
        return "(%s %s %s)" % (zexpr(e.left, env, rel), ZCMP[type(e.ops[0])], zexpr(e.comparators[0], env, rel))
    T.fail(rel, e, "unsupported integer comparison")


# ------------------------------------------------------------------ small matchers
def is_call(e, name, nargs=None):
    return (isinstance(e, ast.Call) and T.dotted(e.func) == name
            and (nargs is None or len(e.args) == nargs))


def kw(e, name):
    for k in e.keywords:
        if k.arg == name:
            return k.value
    return None


def const_eq(e, v):
    return isinstance(e, ast.Constant) and not isinstance(e.value, bool) and isinstance(e.value, (int, float)) and e.value == v


def assign1(st):
    """`name = value` -> (name, value) or None"""
    if isinstance(st, ast.Assign) and len(st.targets) == 1 and isinstance(st.targets[0], ast.Name):
        return st.targets[0].id, st.value
    return None


def need(cond, rel, node, msg):
    if not cond:
        T.fail(rel, node, msg)


def range_arg(it, rel):
    need(is_call(it, "range", 1) and not it.keywords, rel, it, "loop is not `for .. in range(e)`")
    return it.args[0]


def is_normal3(e):
    """np.vstack([np.random.normal(0.,1., size=n_pts)] * 3 written out).T"""
    if not (isinstance(e, ast.Attribute) and e.attr == "T" and is_call(e.value, "np.vstack", 1)):
        return False
    l = e.value.args[0]
    if not (isinstance(l, ast.List) and len(l.elts) == 3):
        return False
    for c in l.elts:
        if not (is_call(c, "np.random.normal", 2) and const_eq(c.args[0], 0) and isinstance(c.args[1], ast.Constant)
                and isinstance(c.args[1].value, (int, float)) and c.args[1].value > 0
                and kw(c, "size") is not None and T.dotted(kw(c, "size")) == "n_pts" and len(c.keywords) == 1):
            return False
    return True


def pointcloud_tail(stmts, var, rel, fn):
    """if return_point_cloud: pc = PointCloud(); pc.vertices += list(var); return pc   else: return var"""
    need(len(stmts) == 1 and isinstance(stmts[0], ast.If) and T.dotted(stmts[0].test) == "return_point_cloud",
         rel, fn, "function does not end with `if return_point_cloud:`")
    st = stmts[0]
    b = st.body
    ok = (len(b) >= 3 and assign1(b[0]) and is_call(assign1(b[0])[1], "PointCloud", 0)
          and isinstance(b[1], ast.AugAssign) and isinstance(b[1].op, ast.Add)
          and T.dotted(b[1].target) == assign1(b[0])[0] + ".vertices"
          and is_call(b[1].value, "list", 1) and T.dotted(b[1].value.args[0]) == var
          and isinstance(b[-1], ast.Return) and T.dotted(b[-1].value) == assign1(b[0])[0])
    need(ok, rel, st, "point-cloud branch does not return a PointCloud of `%s`" % var)
    return st


def check_decorators(fn, rel, allowed=()):
    """fail closed on any decorator that is not listed (memoisation, wrappers that change call semantics ...)"""
    for d in fn.decorator_list:
        name = T.dotted(d.func) if isinstance(d, ast.Call) else T.dotted(d)
        ok = False
        for al in allowed:
            if isinstance(al, tuple):
                ok = ok or (isinstance(d, ast.Call) and name == al[0] and [T.dotted(x) for x in d.args] == list(al[1]) and not d.keywords)
            else:
                ok = ok or (not isinstance(d, ast.Call) and name == al)
        need(ok, rel, fn, "unexpected decorator %s on %s" % (name, fn.name))


def defaults_of(fn, rel):
    """{parameter: default constant}; a default that is not an immutable literal is not accepted"""
    args = fn.args
    need(not args.vararg and not args.kwarg and not args.kwonlyargs and not args.posonlyargs, rel, fn, "unexpected parameter kinds")
    out = {}
    names = [a.arg for a in args.args]
    for name, d in zip(names[len(names) - len(args.defaults):], args.defaults):
        need(isinstance(d, ast.Constant) and (d.value is None or isinstance(d.value, (bool, int, float, str))), rel, d,
             "default of %s is not an immutable literal" % name)
        out[name] = d.value
    return out


# ------------------------------------------------------------------ sampling.py
def tr_sphere_ball(src, tree, which, parts):
    fn = T.find_def(tree, which, SAMP)
    parts.append((which, T.sha(src, fn)))
    need([a.arg for a in fn.args.args] == ["center", "radius", "n_pts", "return_point_cloud"], SAMP, fn,
         "unexpected parameters")
    check_decorators(fn, SAMP)
    need(defaults_of(fn, SAMP) == {"return_point_cloud": False}, SAMP, fn, "unexpected defaults")
    b = T.body_nodoc(fn)
    env = {"radius": "radius", "center": "c"}
    urange = None
    i = 0
    # pts = vstack(3 normal rows).T
    a = assign1(b[i])
    need(a and is_normal3(a[1]), SAMP, b[i], "first statement is not three rows of np.random.normal(0, s, size=n_pts)")
    pts = a[0]
    env[pts] = "g"
    i += 1
    # pts /= np.linalg.norm(pts, axis=1, keepdims=True)
    st = b[i]
    ok = (isinstance(st, ast.AugAssign) and isinstance(st.op, ast.Div) and T.dotted(st.target) == pts
          and is_call(st.value, "np.linalg.norm", 1) and T.dotted(st.value.args[0]) == pts
          and const_eq(kw(st.value, "axis"), 1) and isinstance(kw(st.value, "keepdims"), ast.Constant)
          and kw(st.value, "keepdims").value is True and env[pts] == "g")
    need(ok, SAMP, st, "rows are not normalised by their Euclidean norm")
    env[pts] = "(odiv o g nrm)"
    i += 1
    while i < len(b) and assign1(b[i]):
        name, val = assign1(b[i])
        # R = np.random.uniform(lo, hi, n_pts).reshape((n_pts,1))
        if (isinstance(val, ast.Call) and isinstance(val.func, ast.Attribute) and val.func.attr == "reshape"
                and is_call(val.func.value, "np.random.uniform", 3)):
            u = val.func.value
            need(which == "sample_ball" and urange is None and T.dotted(u.args[2]) == "n_pts" and not u.keywords, SAMP, val,
                 "unexpected uniform draw")
            shp = val.args[0] if len(val.args) == 1 else None
            need(isinstance(shp, ast.Tuple) and len(shp.elts) == 2 and T.dotted(shp.elts[0]) == "n_pts"
                 and const_eq(shp.elts[1], 1), SAMP, val, "uniform draw is not reshaped to a column")
            urange = (fexpr(u.args[0], {"radius": "radius"}, SAMP), fexpr(u.args[1], {"radius": "radius"}, SAMP))
            env[name] = "u"
        else:
            env[name] = fexpr(val, env, SAMP)
        i += 1
    pointcloud_tail(b[i:], pts, SAMP, fn)
    st = b[i]
    need(len(st.body) == 3 and len(st.orelse) == 1 and isinstance(st.orelse[0], ast.Return)
         and T.dotted(st.orelse[0].value) == pts, SAMP, st, "array branch does not return the points")
    if which == "sample_ball":
        need(urange is not None, SAMP, fn, "no uniform radial draw found")
        return ("Definition ball_u_lo {T} (o : ops T) (radius : T) : T := %s.\n"
                "Definition ball_u_hi {T} (o : ops T) (radius : T) : T := %s.\n"
                "Definition ball_coord {T} (o : ops T) (radius c g nrm u : T) : T := %s.\n"
                % (urange[0], urange[1], env[pts]))
    need(urange is None, SAMP, fn, "unexpected uniform draw in sample_sphere")
    return "Definition sphere_coord {T} (o : ops T) (radius c g nrm : T) : T := %s.\n" % env[pts]


def tr_aabb(parts):
    src, tree = T.load(AABB)
    out = []
    cls = T.find_def(tree, "AABB", AABB)
    for prop, attr in (("mini", None), ("maxi", None)):
        fn = T.find_def(tree, "AABB." + prop, AABB)
        check_decorators(fn, AABB, ["property"])
        b = T.body_nodoc(fn)
        need(len(b) == 1 and isinstance(b[0], ast.Return) and T.dotted(b[0].value) in ("self._p1", "self._p2"), AABB, fn,
             "%s is not `return self._p1|_p2`" % prop)
        out.append("Definition aabb_%s {T} (o : ops T) (p1 p2 : T) : T := %s.\n" % (prop, T.dotted(b[0].value)[6:]))
    fn = T.find_def(tree, "AABB.span", AABB)
    check_decorators(fn, AABB, ["property"])
    parts.append(("AABB.span", T.sha(src, fn)))
    b = T.body_nodoc(fn)
    need(len(b) == 1 and isinstance(b[0], ast.Return), AABB, fn, "span is not a single return")
    envp = {"self._p1": "p1", "self._p2": "p2"}
    out.append("Definition aabb_span {T} (o : ops T) (p1 p2 : T) : T := %s.\n" % fexpr(b[0].value, envp, AABB))
    fn = T.find_def(tree, "AABB.is_empty", AABB)
    check_decorators(fn, AABB)
    parts.append(("AABB.is_empty", T.sha(src, fn)))
    b = T.body_nodoc(fn)
    need(len(b) == 1 and isinstance(b[0], ast.Return) and is_call(b[0].value, "np.any", 1), AABB, fn,
         "is_empty is not `return np.any(<comparison>)`")
    envm = {"self.mini": "(aabb_mini o p1 p2)", "self.maxi": "(aabb_maxi o p1 p2)"}
    out.append("Definition aabb_empty_coord {T} (o : ops T) (p1 p2 : T) : bool := %s.\n"
               % fbexpr(b[0].value.args[0], envm, AABB))
    fn = T.find_def(tree, "AABB.dim", AABB)
    check_decorators(fn, AABB, ["property"])
    b = T.body_nodoc(fn)
    need(len(b) == 1 and isinstance(b[0], ast.Return) and T.dotted(b[0].value) == "self._p1.size", AABB, fn,
         "dim is not `return self._p1.size`")
    return "".join(out)


def tr_box(src, tree, parts):
    fn = T.find_def(tree, "sample_AABB", SAMP)
    parts.append(("sample_AABB", T.sha(src, fn)))
    need([a.arg for a in fn.args.args] == ["box", "n_pts", "mode", "return_point_cloud"], SAMP, fn, "unexpected parameters")
    check_decorators(fn, SAMP)
    dfl = defaults_of(fn, SAMP)
    need(set(dfl) == {"mode", "return_point_cloud"} and dfl["return_point_cloud"] is False and dfl["mode"] in ("uniform", "grid"),
         SAMP, fn, "unexpected defaults")
    default_mode_uniform = "true" if dfl["mode"] == "uniform" else "false"
    b = T.body_nodoc(fn)
    need(len(b) == 5, SAMP, fn, "sample_AABB: expected 5 statements")
    # check_argument("mode", mode, str, [..])
    st = b[0]
    ok = (isinstance(st, ast.Expr) and is_call(st.value, "check_argument", 4) and const_is(st.value.args[0], "mode")
          and T.dotted(st.value.args[1]) == "mode" and T.dotted(st.value.args[2]) == "str"
          and isinstance(st.value.args[3], ast.List)
          and all(isinstance(x, ast.Constant) and isinstance(x.value, str) for x in st.value.args[3].elts))
    need(ok, SAMP, st, "mode is not checked by check_argument")
    modes = [x.value for x in st.value.args[3].elts]
    # if box.is_empty(): raise
    st = b[1]
    need(isinstance(st, ast.If) and is_call(st.test, "box.is_empty", 0) and len(st.body) == 1
         and isinstance(st.body[0], ast.Raise) and not st.orelse, SAMP, st, "empty boxes are not rejected")
    # if box.dim>K and return_point_cloud: raise ValueError
    st = b[2]
    ok = (isinstance(st, ast.If) and isinstance(st.test, ast.BoolOp) and isinstance(st.test.op, ast.And)
          and len(st.test.values) == 2 and T.dotted(st.test.values[1]) == "return_point_cloud"
          and isinstance(st.test.values[0], ast.Compare) and T.dotted(st.test.values[0].left) == "box.dim"
          and len(st.body) == 1 and isinstance(st.body[0], ast.Raise) and is_call(st.body[0].exc, "ValueError")
          and not st.orelse)
    need(ok, SAMP, st, "dimension guard of the point-cloud variant not recognised")
    dimguard = zbexpr(st.test.values[0], {}, SAMP) if False else None
    c = st.test.values[0]
    need(len(c.ops) == 1 and type(c.ops[0]) in ZCMP, SAMP, c, "unsupported comparison")
    dimguard = "(d %s %s)" % (ZCMP[type(c.ops[0])], zexpr(c.comparators[0], {}, SAMP))
    # if mode=="uniform": .. elif mode=="grid": ..
    st = b[3]

    def mode_test(t):
        if (isinstance(t, ast.Compare) and len(t.ops) == 1 and isinstance(t.ops[0], ast.Eq) and T.dotted(t.left) == "mode"
                and isinstance(t.comparators[0], ast.Constant) and isinstance(t.comparators[0].value, str)):
            return t.comparators[0].value
        T.fail(SAMP, t, "mode test not recognised")
    need(isinstance(st, ast.If) and len(st.orelse) == 1 and isinstance(st.orelse[0], ast.If) and not st.orelse[0].orelse,
         SAMP, st, "expected if mode==..: elif mode==..:")
    branches = {mode_test(st.test): st.body, mode_test(st.orelse[0].test): st.orelse[0].body}
    need(set(branches) == {"uniform", "grid"} and sorted(modes) == ["grid", "uniform"], SAMP, st, "modes are not uniform/grid")
    envb = {"box.mini": "mini", "box.span": "span", "box.maxi": "maxi"}
    # uniform
    ub = branches["uniform"]
    a = assign1(ub[0]) if len(ub) == 1 else None
    need(a is not None, SAMP, st, "uniform branch is not one assignment")
    pts = a[0]

    def sub_draw(e):
        if is_call(e, "random", 1) and isinstance(e.args[0], ast.Tuple) and [T.dotted(x) for x in e.args[0].elts] == ["n_pts", "box.dim"]:
            return True
        return False

    def with_symbol(e, pred, sym):
        """translate e where the unique sub-expression satisfying pred is the symbol sym"""
        hits = []

        class R(ast.NodeTransformer):
            def visit(self, n):
                if pred(n):
                    hits.append(n)
                    return ast.copy_location(ast.Name(id="__sym__", ctx=ast.Load()), n)
                return self.generic_visit(n)
        import copy
        e2 = R().visit(copy.deepcopy(e))
        need(len(hits) == 1, SAMP, e, "expected exactly one %s sub-expression" % sym)
        return fexpr(e2, dict(envb, __sym__=sym), SAMP)
    uni = with_symbol(a[1], sub_draw, "u")
    # grid
    gb = branches["grid"]
    need(len(gb) == 3, SAMP, st, "grid branch: expected 3 statements")
    a0 = assign1(gb[0])
    ok = (a0 and is_call(a0[1], "round", 1) and is_call(a0[1].args[0], "np.power", 2)
          and T.dotted(a0[1].args[0].args[0]) == "n_pts" and isinstance(a0[1].args[0].args[1], ast.BinOp)
          and isinstance(a0[1].args[0].args[1].op, ast.Div) and const_eq(a0[1].args[0].args[1].left, 1)
          and T.dotted(a0[1].args[0].args[1].right) == "box.dim")
    need(ok, SAMP, gb[0], "resolution is not round(np.power(n_pts, 1/box.dim))")
    res = a0[0]
    a1 = assign1(gb[1])
    ok = (a1 and isinstance(a1[1], ast.GeneratorExp) and is_call(a1[1].elt, "np.linspace", 3)
          and T.dotted(a1[1].elt.args[2]) == res and len(a1[1].generators) == 1
          and is_call(a1[1].generators[0].iter, "range", 1) and T.dotted(a1[1].generators[0].iter.args[0]) == "box.dim"
          and not a1[1].generators[0].ifs)
    need(ok, SAMP, gb[1], "axes are not box.dim copies of np.linspace(a, b, res)")
    lin = (fexpr(a1[1].elt.args[0], {}, SAMP), fexpr(a1[1].elt.args[1], {}, SAMP))
    xd = a1[0]
    a2 = assign1(gb[2])
    need(a2 and a2[0] == pts, SAMP, gb[2], "grid branch does not assign the points")

    def is_mesh(e):
        # np.vstack(list(map(np.ravel, np.meshgrid(*Xdims)))).T
        try:
            return (isinstance(e, ast.Attribute) and e.attr == "T" and is_call(e.value, "np.vstack", 1)
                    and is_call(e.value.args[0], "list", 1) and is_call(e.value.args[0].args[0], "map", 2)
                    and T.dotted(e.value.args[0].args[0].args[0]) == "np.ravel"
                    and is_call(e.value.args[0].args[0].args[1], "np.meshgrid", 1)
                    and isinstance(e.value.args[0].args[0].args[1].args[0], ast.Starred)
                    and T.dotted(e.value.args[0].args[0].args[1].args[0].value) == xd
                    and not e.value.args[0].args[0].args[1].keywords)
        except Exception:
            return False
    grid = with_symbol(a2[1], is_mesh, "x")
    # tail: if return_point_cloud: return from_arrays(points) else: return points
    st = b[4]
    ok = (isinstance(st, ast.If) and T.dotted(st.test) == "return_point_cloud" and len(st.body) == 1
          and isinstance(st.body[0], ast.Return) and is_call(st.body[0].value, "from_arrays", 1)
          and T.dotted(st.body[0].value.args[0]) == pts and len(st.orelse) == 1
          and isinstance(st.orelse[0], ast.Return) and T.dotted(st.orelse[0].value) == pts)
    need(ok, SAMP, st, "sample_AABB does not return the points")
    return ("Definition box_default_mode_uniform : bool := %s.\n" % default_mode_uniform +
            "Definition box_pc_dim_guard (d : Z) : bool := %s.\n"
            "Definition box_uniform_coord {T} (o : ops T) (mini maxi span u : T) : T := %s.\n"
            "Definition grid_res (n d : Z) : Z := iroot_round n d.\n"
            "Definition grid_lin_lo {T} (o : ops T) : T := %s.\n"
            "Definition grid_lin_hi {T} (o : ops T) : T := %s.\n"
            "Definition box_grid_coord {T} (o : ops T) (mini maxi span x : T) : T := %s.\n"
            % (dimguard, uni, lin[0], lin[1], grid))


def const_is(e, v):
    return isinstance(e, ast.Constant) and e.value == v


def tr_choice_block(stmts, fn, attr_fn, count_name):
    """ X = attr_fn(mesh, persistent=False).as_array();  X /= np.sum(X);  returns (X, prob expression) """
    a = assign1(stmts[0])
    if a and is_call(a[1], "np.atleast_1d", 1) and not a[1].keywords:
        a = (a[0], a[1].args[0])    # shape only: a single weight stays a 1-element vector
    ok = (a and isinstance(a[1], ast.Call) and isinstance(a[1].func, ast.Attribute) and a[1].func.attr == "as_array"
          and not a[1].args and is_call(a[1].func.value, attr_fn, 1) and T.dotted(a[1].func.value.args[0]) == "mesh"
          and const_is(kw(a[1].func.value, "persistent"), False) and len(a[1].func.value.keywords) == 1)
    need(ok, SAMP, stmts[0], "weights are not %s(mesh, persistent=False).as_array()" % attr_fn)
    x = a[0]
    st = stmts[1]
    need(isinstance(st, ast.AugAssign) and T.dotted(st.target) == x and isinstance(st.op, (ast.Div, ast.Mult, ast.Add, ast.Sub))
         , SAMP, st, "weights are not normalised in place")

    def is_total(e):
        return is_call(e, "np.sum", 1) and T.dotted(e.args[0]) == x and not e.keywords
    # x <op>= expr   ==   x = x <op> expr
    hits = []
    import copy

    class R(ast.NodeTransformer):
        def visit(self, n):
            if is_total(n):
                hits.append(n)
                return ast.Name(id="__total__", ctx=ast.Load())
            return self.generic_visit(n)
    rhs = R().visit(copy.deepcopy(st.value))
    need(len(hits) == 1, SAMP, st, "normalisation does not divide by np.sum of the weights")
    full = ast.BinOp(left=ast.Name(id=x, ctx=ast.Load()), op=st.op, right=rhs)
    prob = fexpr(full, {x: "w", "__total__": "total"}, SAMP)
    return x, prob


def check_choice(e, nname, pname, rel=SAMP):
    ok = (is_call(e, "choice", 1) and T.dotted(e.args[0]) == nname and kw(e, "size") is not None
          and T.dotted(kw(e, "size")) == "n_pts" and kw(e, "p") is not None and T.dotted(kw(e, "p")) == pname
          and len(e.keywords) == 2)
    need(ok, rel, e, "choice(%s, size=n_pts, p=%s) expected" % (nname, pname))


def tr_polyline(src, tree, parts):
    fn = T.find_def(tree, "sample_polyline", SAMP)
    parts.append(("sample_polyline", T.sha(src, fn)))
    need([a.arg for a in fn.args.args] == ["mesh", "n_pts", "return_point_cloud"], SAMP, fn, "unexpected parameters")
    check_decorators(fn, SAMP, [("allowed_mesh_types", ["PolyLine"])])
    need(defaults_of(fn, SAMP) == {"return_point_cloud": False}, SAMP, fn, "unexpected defaults")
    b = T.body_nodoc(fn)
    need(len(b) == 5, SAMP, fn, "sample_polyline: expected 5 statements")
    a = assign1(b[0])
    need(a and is_call(a[1], "len", 1) and T.dotted(a[1].args[0]) == "mesh.edges", SAMP, b[0], "NE = len(mesh.edges) expected")
    ne = a[0]
    a = assign1(b[1])
    ok = (a and is_call(a[1], "np.zeros", 1) and isinstance(a[1].args[0], ast.Tuple)
          and T.dotted(a[1].args[0].elts[0]) == "n_pts" and const_eq(a[1].args[0].elts[1], 3))
    need(ok, SAMP, b[1], "output array is not np.zeros((n_pts,3))")
    out = a[0]
    st = b[2]
    need(isinstance(st, ast.If) and len(st.body) == 3 and len(st.orelse) == 1, SAMP, st, "edge selection not recognised")
    use_choice = zbexpr(st.test, {ne: "NE"}, SAMP)
    x, prob = tr_choice_block(st.body[:2], fn, "edge_length", ne)
    a = assign1(st.body[2])
    need(a is not None, SAMP, st.body[2], "edges = choice(...) expected")
    edges = a[0]
    check_choice(a[1], ne, x)
    a = assign1(st.orelse[0])
    ok = (a and a[0] == edges and isinstance(a[1], ast.BinOp) and isinstance(a[1].op, ast.Mult)
          and isinstance(a[1].left, ast.List) and len(a[1].left.elts) == 1 and T.dotted(a[1].right) == "n_pts")
    need(ok, SAMP, st.orelse[0], "default edges are not [k]*n_pts")
    default_edge = zexpr(a[1].left.elts[0], {}, SAMP)
    # for i,e in enumerate(edges):
    st = b[3]
    ok = (isinstance(st, ast.For) and is_call(st.iter, "enumerate", 1) and T.dotted(st.iter.args[0]) == edges
          and isinstance(st.target, ast.Tuple) and len(st.target.elts) == 2 and len(st.body) == 3 and not st.orelse)
    need(ok, SAMP, st, "sampling loop not recognised")
    iv, ev = st.target.elts[0].id, st.target.elts[1].id
    s0 = st.body[0]
    ok = (isinstance(s0, ast.Assign) and isinstance(s0.targets[0], ast.Tuple) and len(s0.targets[0].elts) == 2
          and isinstance(s0.value, ast.GeneratorExp) and len(s0.value.generators) == 1)
    need(ok, SAMP, s0, "pA,pB = (mesh.vertices[_v] for _v in mesh.edges[e]) expected")
    g = s0.value.generators[0]
    ok = (isinstance(s0.value.elt, ast.Subscript) and T.dotted(s0.value.elt.value) == "mesh.vertices"
          and T.dotted(s0.value.elt.slice) == T.dotted(g.target) and isinstance(g.iter, ast.Subscript)
          and T.dotted(g.iter.value) == "mesh.edges" and T.dotted(g.iter.slice) == ev and not g.ifs)
    need(ok, SAMP, s0, "end points are not the vertices of edge e in order")
    pa, pb = s0.targets[0].elts[0].id, s0.targets[0].elts[1].id
    a = assign1(st.body[1])
    need(a and is_call(a[1], "np.random.random", 0), SAMP, st.body[1], "t = np.random.random() expected")
    tv = a[0]
    s2 = st.body[2]
    ok = (isinstance(s2, ast.Assign) and isinstance(s2.targets[0], ast.Subscript) and T.dotted(s2.targets[0].value) == out
          and isinstance(s2.targets[0].slice, ast.Tuple) and T.dotted(s2.targets[0].slice.elts[0]) == iv
          and isinstance(s2.targets[0].slice.elts[1], ast.Slice))
    need(ok, SAMP, s2, "sampled_pts[i,:] = ... expected")
    coord = fexpr(s2.value, {tv: "t", pa: "a", pb: "b"}, SAMP)
    pointcloud_tail(b[4:], out, SAMP, fn)
    return ("Definition poly_use_choice (NE : Z) : bool := %s.\n"
            "Definition poly_prob {T} (o : ops T) (w total : T) : T := %s.\n"
            "Definition poly_default_edge : Z := %s.\n"
            "Definition poly_coord {T} (o : ops T) (t a b : T) : T := %s.\n" % (use_choice, prob, default_edge, coord))


def tr_surface(src, tree, parts):
    fn = T.find_def(tree, "sample_surface", SAMP)
    parts.append(("sample_surface", T.sha(src, fn)))
    need([a.arg for a in fn.args.args] == ["mesh", "n_pts", "return_point_cloud", "return_normals"], SAMP, fn,
         "unexpected parameters")
    check_decorators(fn, SAMP, [("allowed_mesh_types", ["SurfaceMesh"])])
    need(defaults_of(fn, SAMP) == {"return_point_cloud": False, "return_normals": False}, SAMP, fn, "unexpected defaults")
    b = T.body_nodoc(fn)
    need(len(b) == 9, SAMP, fn, "sample_surface: expected 9 statements")
    need(isinstance(b[0], ast.Assert) and is_call(b[0].test, "mesh.is_triangular", 0), SAMP, b[0], "assert mesh.is_triangular() expected")
    a = assign1(b[1])
    need(a and is_call(a[1], "len", 1) and T.dotted(a[1].args[0]) == "mesh.faces", SAMP, b[1], "NF = len(mesh.faces) expected")
    nf = a[0]
    x, prob = tr_choice_block(b[2:4], fn, "face_area", nf)
    a = assign1(b[4])
    ok = (a and is_call(a[1], "np.zeros", 1) and isinstance(a[1].args[0], ast.Tuple)
          and T.dotted(a[1].args[0].elts[0]) == "n_pts" and const_eq(a[1].args[0].elts[1], 3))
    need(ok, SAMP, b[4], "output array is not np.zeros((n_pts,3))")
    out = a[0]
    a = assign1(b[5])
    need(a is not None, SAMP, b[5], "sampled_faces = choice(...) expected")
    sf = a[0]
    check_choice(a[1], nf, x)
    # normals
    st = b[6]
    need(isinstance(st, ast.If) and T.dotted(st.test) == "return_normals" and len(st.body) == 2 and not st.orelse, SAMP, st,
         "normal block not recognised")
    a = assign1(st.body[0])
    ok = (a and is_call(a[1], "face_normals", 1) and T.dotted(a[1].args[0]) == "mesh"
          and const_is(kw(a[1], "persistent"), False) and len(a[1].keywords) == 1)
    need(ok, SAMP, st.body[0], "normals = face_normals(mesh, persistent=False) expected")
    nv = a[0]
    a = assign1(st.body[1])
    ok = (a and is_call(a[1], "np.array", 1) and isinstance(a[1].args[0], ast.ListComp)
          and len(a[1].args[0].generators) == 1 and T.dotted(a[1].args[0].generators[0].iter) == sf
          and not a[1].args[0].generators[0].ifs and isinstance(a[1].args[0].elt, ast.Subscript)
          and T.dotted(a[1].args[0].elt.value) == nv)
    need(ok, SAMP, st.body[1], "sampled_normals = np.array([normals[..] for f in sampled_faces]) expected")
    sn = a[0]
    fvar = T.dotted(a[1].args[0].generators[0].target)
    nidx = zexpr(a[1].args[0].elt.slice, {fvar: "f"}, SAMP)
    # loop
    st = b[7]
    ok = (isinstance(st, ast.For) and is_call(st.iter, "enumerate", 1) and T.dotted(st.iter.args[0]) == sf
          and isinstance(st.target, ast.Tuple) and len(st.target.elts) == 2 and len(st.body) >= 3 and not st.orelse)
    need(ok, SAMP, st, "sampling loop not recognised")
    iv, fv = st.target.elts[0].id, st.target.elts[1].id
    s0 = st.body[0]
    ok = (isinstance(s0, ast.Assign) and isinstance(s0.targets[0], ast.Tuple) and len(s0.targets[0].elts) == 3
          and isinstance(s0.value, ast.GeneratorExp) and len(s0.value.generators) == 1)
    need(ok, SAMP, s0, "pA,pB,pC = (mesh.vertices[_v] for _v in mesh.faces[f]) expected")
    g = s0.value.generators[0]
    ok = (isinstance(s0.value.elt, ast.Subscript) and T.dotted(s0.value.elt.value) == "mesh.vertices"
          and T.dotted(s0.value.elt.slice) == T.dotted(g.target) and isinstance(g.iter, ast.Subscript)
          and T.dotted(g.iter.value) == "mesh.faces" and T.dotted(g.iter.slice) == fv and not g.ifs)
    need(ok, SAMP, s0, "corners are not the vertices of face f in order")
    pa, pb, pc = [e.id for e in s0.targets[0].elts]
    s1 = st.body[1]
    ok = (isinstance(s1, ast.Assign) and isinstance(s1.targets[0], ast.Tuple) and len(s1.targets[0].elts) == 2
          and is_call(s1.value, "random", 1) and const_eq(s1.value.args[0], 2))
    need(ok, SAMP, s1, "u1,u2 = random(2) expected")
    u1, u2 = [e.id for e in s1.targets[0].elts]
    env = {u1: "u1", u2: "u2", pa: "a", pb: "b", pc: "c"}
    defs = []
    for s in st.body[2:-1]:
        a = assign1(s)
        need(a is not None and a[0] not in (pa, pb, pc, u1, u2), SAMP, s, "unexpected statement in the sampling loop")
        env[a[0]] = fexpr(a[1], env, SAMP)
        defs.append((a[0], env[a[0]]))
    need([d[0] for d in defs] == ["r1", "r2"], SAMP, st, "barycentric parameters r1, r2 expected")
    s2 = st.body[-1]
    ok = (isinstance(s2, ast.Assign) and isinstance(s2.targets[0], ast.Subscript) and T.dotted(s2.targets[0].value) == out
          and isinstance(s2.targets[0].slice, ast.Tuple) and T.dotted(s2.targets[0].slice.elts[0]) == iv
          and isinstance(s2.targets[0].slice.elts[1], ast.Slice))
    need(ok, SAMP, s2, "sampled_pts[i,:] = ... expected")
    env2 = {"r1": "r1", "r2": "r2", pa: "a", pb: "b", pc: "c"}
    coord = fexpr(s2.value, env2, SAMP)
    # tail
    st = b[8]
    need(isinstance(st, ast.If) and T.dotted(st.test) == "return_point_cloud" and len(st.orelse) == 2, SAMP, st,
         "tail not recognised")
    e0, e1 = st.orelse
    ok = (isinstance(e0, ast.If) and T.dotted(e0.test) == "return_normals" and len(e0.body) == 1
          and isinstance(e0.body[0], ast.Return) and isinstance(e0.body[0].value, ast.Tuple)
          and [T.dotted(x) for x in e0.body[0].value.elts] == [out, sn]
          and isinstance(e1, ast.Return) and T.dotted(e1.value) == out)
    need(ok, SAMP, st, "array branch does not return (points, normals) / points")
    bb = st.body
    ok = (len(bb) == 4 and assign1(bb[0]) and is_call(assign1(bb[0])[1], "PointCloud", 0)
          and isinstance(bb[1], ast.AugAssign) and is_call(bb[1].value, "list", 1) and T.dotted(bb[1].value.args[0]) == out
          and isinstance(bb[2], ast.If) and T.dotted(bb[2].test) == "return_normals" and len(bb[2].body) == 2
          and isinstance(bb[2].body[1], ast.Assign) and T.dotted(bb[2].body[1].value) == sn
          and isinstance(bb[3], ast.Return) and T.dotted(bb[3].value) == assign1(bb[0])[0])
    need(ok, SAMP, st, "point-cloud branch not recognised")
    return ("Definition surf_prob {T} (o : ops T) (w total : T) : T := %s.\n"
            "Definition surf_r1 {T} (o : ops T) (u1 u2 : T) : T := %s.\n"
            "Definition surf_r2 {T} (o : ops T) (u1 u2 : T) : T := %s.\n"
            "Definition surf_coord {T} (o : ops T) (r1 r2 a b c : T) : T := %s.\n"
            "Definition surf_normal_index (f : Z) : Z := %s.\n" % (prob, defs[0][1], defs[1][1], coord, nidx))


# ------------------------------------------------------------------ bezier.py
def tr_decasteljau(src, tree, parts):
    fn = T.find_def(tree, "de_casteljau", BEZ)
    parts.append(("de_casteljau", T.sha(src, fn)))
    need([a.arg for a in fn.args.args] == ["P", "t"], BEZ, fn, "unexpected parameters")
    check_decorators(fn, BEZ)
    need(defaults_of(fn, BEZ) == {}, BEZ, fn, "unexpected defaults")
    b = T.body_nodoc(fn)
    need(len(b) == 5, BEZ, fn, "de_casteljau: expected 5 statements")
    st = b[0]
    need(isinstance(st, ast.If) and len(st.body) == 1 and isinstance(st.body[0], ast.Raise) and not st.orelse
         and is_call(st.body[0].exc, "InvalidRangeArgumentError"), BEZ, st, "parameter guard not recognised")
    reject = fbexpr(st.test, {"t": "t"}, BEZ)
    a = assign1(b[1])
    def same_value(elt, var):
        # x, or a value-preserving copy of it: np.array(x[, subok=..]) / np.copy(x) / x.copy() / Vec(x)
        if T.dotted(elt) == var:
            return True
        if isinstance(elt, ast.Call) and T.dotted(elt.func) in ("np.array", "np.copy", "Vec") and len(elt.args) == 1 \
                and T.dotted(elt.args[0]) == var and all(k.arg in ("subok", "copy") for k in elt.keywords):
            return True
        return (isinstance(elt, ast.Call) and isinstance(elt.func, ast.Attribute) and elt.func.attr == "copy"
                and T.dotted(elt.func.value) == var and not elt.args and not elt.keywords)
    ok = (a and isinstance(a[1], ast.ListComp) and len(a[1].generators) == 1 and T.dotted(a[1].generators[0].iter) == "P"
          and not a[1].generators[0].ifs and same_value(a[1].elt, T.dotted(a[1].generators[0].target)))
    need(ok, BEZ, b[1], "coeffs = [<x or a copy of x> for x in P] expected")
    cf = a[0]
    a = assign1(b[2])
    need(a is not None, BEZ, b[2], "order = ... expected")
    order = a[0]
    order_e = zexpr(a[1], {"len:P": "len"}, BEZ)
    st = b[3]
    need(isinstance(st, ast.For) and isinstance(st.target, ast.Name) and len(st.body) == 1 and not st.orelse
         and isinstance(st.body[0], ast.For) and isinstance(st.body[0].target, ast.Name) and len(st.body[0].body) == 1
         and not st.body[0].orelse, BEZ, st, "double loop not recognised")
    jv = st.target.id
    outer = zexpr(range_arg(st.iter, BEZ), {order: "order"}, BEZ)
    inn = st.body[0]
    iv = inn.target.id
    inner = zexpr(range_arg(inn.iter, BEZ), {order: "order", jv: "j"}, BEZ)
    up = inn.body[0]
    ok = (isinstance(up, ast.Assign) and len(up.targets) == 1 and isinstance(up.targets[0], ast.Subscript)
          and T.dotted(up.targets[0].value) == cf and T.dotted(up.targets[0].slice) == iv)
    need(ok, BEZ, up, "update is not coeffs[i] = ...")

    def sub(e):
        need(T.dotted(e.value) == cf, BEZ, e, "subscript of something else than coeffs")
        s = e.slice
        if T.dotted(s) == iv:
            return "a"
        if (isinstance(s, ast.BinOp) and isinstance(s.op, ast.Add) and
                ((T.dotted(s.left) == iv and const_eq(s.right, 1)) or (T.dotted(s.right) == iv and const_eq(s.left, 1)))):
            return "b"
        T.fail(BEZ, e, "update reads an entry other than coeffs[i], coeffs[i+1]")
    lerp = fexpr(up.value, {"t": "t", "[]": sub}, BEZ)
    st = b[4]
    need(isinstance(st, ast.Return) and isinstance(st.value, ast.Subscript) and T.dotted(st.value.value) == cf, BEZ, st,
         "return coeffs[k] expected")
    ridx = zexpr(st.value.slice, {}, BEZ)
    return ("Definition dc_reject {T} (o : ops T) (t : T) : bool := %s.\n"
            "Definition dc_order (len : Z) : Z := %s.\n"
            "Definition dc_outer (order : Z) : Z := %s.\n"
            "Definition dc_inner (order j : Z) : Z := %s.\n"
            "Definition dc_lerp {T} (o : ops T) (t a b : T) : T := %s.\n"
            "Definition dc_result_index : Z := %s.\n" % (reject, order_e, outer, inner, lerp, ridx))


def linspace_of(e, rel):
    need(is_call(e, "np.linspace", 3) and not e.keywords, rel, e, "np.linspace(a, b, n) expected")
    return e.args


def tr_curve(src, tree, parts):
    cls = T.find_def(tree, "BezierCurve", BEZ)
    parts.append(("BezierCurve", T.sha(src, cls)))
    check_decorators(cls, BEZ)
    fn = T.find_def(tree, "BezierCurve.__init__", BEZ)
    check_decorators(fn, BEZ)
    b = T.body_nodoc(fn)
    a0 = b[0] if len(b) == 1 and isinstance(b[0], ast.Assign) else None
    ok = (a0 is not None and [a.arg for a in fn.args.args] == ["self", "control_points"] and not fn.args.defaults
          and T.dotted(a0.targets[0]) == "self.pts" and is_call(a0.value, "DataContainer", 1)
          and isinstance(a0.value.args[0], ast.ListComp) and len(a0.value.args[0].generators) == 1
          and T.dotted(a0.value.args[0].generators[0].iter) == "control_points" and not a0.value.args[0].generators[0].ifs
          and is_call(a0.value.args[0].elt, "Vec", 1)
          and T.dotted(a0.value.args[0].elt.args[0]) == T.dotted(a0.value.args[0].generators[0].target))
    need(ok, BEZ, fn, "BezierCurve.__init__ is not self.pts = DataContainer([Vec(x) for x in control_points], ...)")
    fn = T.find_def(tree, "BezierCurve.evaluate", BEZ)
    check_decorators(fn, BEZ)
    b = T.body_nodoc(fn)
    ok = (len(b) == 1 and isinstance(b[0], ast.Return) and is_call(b[0].value, "de_casteljau", 2)
          and T.dotted(b[0].value.args[0]) == "self.pts" and T.dotted(b[0].value.args[1]) == fn.args.args[1].arg
          and not b[0].value.keywords)
    need(ok, BEZ, fn, "BezierCurve.evaluate is not de_casteljau(self.pts, t)")
    fn = T.find_def(tree, "BezierCurve.as_polyline", BEZ)
    need([a.arg for a in fn.args.args] == ["self", "n_pts", "custom_pos"], BEZ, fn, "unexpected parameters")
    check_decorators(fn, BEZ)
    dfl = defaults_of(fn, BEZ)
    need(set(dfl) == {"n_pts", "custom_pos"} and dfl["custom_pos"] is None and isinstance(dfl["n_pts"], int)
         and not isinstance(dfl["n_pts"], bool), BEZ, fn, "unexpected defaults")
    default_n_pts = dfl["n_pts"]
    b = T.body_nodoc(fn)
    need(len(b) == 6, BEZ, fn, "as_polyline: expected 6 statements")
    st = b[0]
    ok = (isinstance(st, ast.If) and isinstance(st.test, ast.Compare) and T.dotted(st.test.left) == "custom_pos"
          and isinstance(st.test.ops[0], ast.IsNot) and const_is(st.test.comparators[0], None)
          and len(st.body) == 1 and len(st.orelse) == 1 and assign1(st.body[0]) and assign1(st.orelse[0])
          and assign1(st.body[0])[0] == assign1(st.orelse[0])[0] and T.dotted(assign1(st.body[0])[1]) == "custom_pos")
    need(ok, BEZ, st, "parameter selection not recognised")
    pv = assign1(st.body[0])[0]
    la = linspace_of(assign1(st.orelse[0])[1], BEZ)
    lin_lo, lin_hi = fexpr(la[0], {}, BEZ), fexpr(la[1], {}, BEZ)
    dlen = zexpr(la[2], {"n_pts": "n_pts"}, BEZ)
    a = assign1(b[1])
    need(a and is_call(a[1], "RawMeshData", 0), BEZ, b[1], "out = RawMeshData() expected")
    outv = a[0]
    a = assign1(b[2])
    need(a and is_call(a[1], outv + ".vertices.create_attribute", 2) and const_is(a[1].args[0], "t"), BEZ, b[2],
         "t attribute expected")
    uv = a[0]
    st = b[3]
    ok = (isinstance(st, ast.For) and is_call(st.iter, "enumerate", 1) and T.dotted(st.iter.args[0]) == pv
          and isinstance(st.target, ast.Tuple) and len(st.body) == 3 and not st.orelse)
    need(ok, BEZ, st, "vertex loop not recognised")
    itv, tv = st.target.elts[0].id, st.target.elts[1].id
    a = assign1(st.body[0])
    need(a and is_call(a[1], "self.evaluate", 1) and T.dotted(a[1].args[0]) == tv, BEZ, st.body[0], "pt = self.evaluate(t) expected")
    ptv = a[0]
    br = st.body[1]
    dims = []
    cur = br
    while cur is not None:
        ok = (isinstance(cur, ast.If) and isinstance(cur.test, ast.Compare) and T.dotted(cur.test.left) == ptv + ".size"
              and isinstance(cur.test.ops[0], ast.Eq) and isinstance(cur.test.comparators[0], ast.Constant)
              and len(cur.body) == 1 and isinstance(cur.body[0], ast.Expr) and is_call(cur.body[0].value, outv + ".vertices.append", 1))
        need(ok, BEZ, cur, "vertex branch not recognised")
        k = cur.test.comparators[0].value
        arg = cur.body[0].value.args[0]
        if T.dotted(arg) == ptv:
            need(k == 3, BEZ, cur, "points appended as they are must have size 3")
        else:
            ok = (is_call(arg, "Vec", 3) and all(isinstance(x, ast.Subscript) and T.dotted(x.value) == ptv for x in arg.args[:2])
                  and const_eq(arg.args[0].slice, 0) and const_eq(arg.args[1].slice, 1) and const_eq(arg.args[2], 0) and k == 2)
            need(ok, BEZ, cur, "2D points are not padded with a zero third coordinate")
        dims.append(k)
        if not cur.orelse:
            cur = None
        else:
            need(len(cur.orelse) == 1, BEZ, cur, "vertex branch not recognised")
            cur = cur.orelse[0]
    s2 = st.body[2]
    ok = (isinstance(s2, ast.Assign) and isinstance(s2.targets[0], ast.Subscript) and T.dotted(s2.targets[0].value) == uv
          and T.dotted(s2.targets[0].slice) == itv and T.dotted(s2.value) == tv)
    need(ok, BEZ, s2, "uvs[it] = t expected")
    st = b[4]
    need(isinstance(st, ast.For) and isinstance(st.target, ast.Name) and len(st.body) == 1 and not st.orelse, BEZ, st,
         "edge loop not recognised")
    iv = st.target.id
    bound = zexpr(range_arg(st.iter, BEZ), {"n_pts": "n_pts", "len:" + pv: "npos", "len:" + outv + ".vertices": "nverts"}, BEZ)
    ap = st.body[0]
    ok = (isinstance(ap, ast.Expr) and is_call(ap.value, outv + ".edges.append", 1) and isinstance(ap.value.args[0], ast.Tuple)
          and len(ap.value.args[0].elts) == 2)
    need(ok, BEZ, ap, "out.edges.append((a,b)) expected")
    ea, eb = [zexpr(x, {iv: "i", "n_pts": "n_pts"}, BEZ) for x in ap.value.args[0].elts]
    st = b[5]
    need(isinstance(st, ast.Return) and is_call(st.value, "PolyLine", 1) and T.dotted(st.value.args[0]) == outv, BEZ, st,
         "return PolyLine(out) expected")
    return ("Definition polyline_default_n_pts : Z := %d.\n" % default_n_pts +
            "Definition polyline_default_len (n_pts : Z) : Z := %s.\n"
            "Definition polyline_lin_lo {T} (o : ops T) : T := %s.\n"
            "Definition polyline_lin_hi {T} (o : ops T) : T := %s.\n"
            "Definition polyline_vertex_dims : list Z := [%s].\n"
            "(* npos = number of sampled positions, nverts = number of vertices created for them *)\n"
            "Definition polyline_edges (n_pts npos nverts : Z) : list (Z * Z) :=\n  flat_map (fun i => [(%s, %s)]) (zrange %s).\n"
            % (dlen, lin_lo, lin_hi, "; ".join(str(d) for d in dims), ea, eb, bound))


def tr_patch(src, tree, parts):
    cls = T.find_def(tree, "BezierPatch", BEZ)
    parts.append(("BezierPatch", T.sha(src, cls)))
    check_decorators(cls, BEZ)
    fn = T.find_def(tree, "BezierPatch.__init__", BEZ)
    check_decorators(fn, BEZ)
    b = T.body_nodoc(fn)
    a0 = b[0] if len(b) == 1 and isinstance(b[0], ast.Assign) else None
    ok = (a0 is not None and [a.arg for a in fn.args.args] == ["self", "control_points"] and not fn.args.defaults
          and T.dotted(a0.targets[0]) == "self.pts" and isinstance(a0.value, ast.ListComp) and len(a0.value.generators) == 1
          and T.dotted(a0.value.generators[0].iter) == "control_points" and not a0.value.generators[0].ifs
          and isinstance(a0.value.elt, ast.ListComp) and len(a0.value.elt.generators) == 1
          and T.dotted(a0.value.elt.generators[0].iter) == T.dotted(a0.value.generators[0].target)
          and not a0.value.elt.generators[0].ifs and is_call(a0.value.elt.elt, "Vec", 1)
          and T.dotted(a0.value.elt.elt.args[0]) == T.dotted(a0.value.elt.generators[0].target))
    need(ok, BEZ, fn, "BezierPatch.__init__ is not self.pts = [[Vec(x) for x in l] for l in control_points]")
    fn = T.find_def(tree, "BezierPatch._evaluate_row", BEZ)
    check_decorators(fn, BEZ)
    b = T.body_nodoc(fn)
    uarg = fn.args.args[1].arg
    ok = (len(b) == 1 and isinstance(b[0], ast.Return) and isinstance(b[0].value, ast.ListComp)
          and len(b[0].value.generators) == 1 and not b[0].value.generators[0].ifs
          and is_call(b[0].value.generators[0].iter, "range", 1)
          and is_call(b[0].value.generators[0].iter.args[0], "len", 1)
          and T.dotted(b[0].value.generators[0].iter.args[0].args[0]) == "self.pts"
          and is_call(b[0].value.elt, "de_casteljau", 2) and isinstance(b[0].value.elt.args[0], ast.Subscript)
          and T.dotted(b[0].value.elt.args[0].value) == "self.pts"
          and T.dotted(b[0].value.elt.args[0].slice) == T.dotted(b[0].value.generators[0].target)
          and T.dotted(b[0].value.elt.args[1]) == uarg)
    need(ok, BEZ, fn, "_evaluate_row is not [de_casteljau(self.pts[i],u) for i in range(len(self.pts))]")
    fn = T.find_def(tree, "BezierPatch.evaluate", BEZ)
    check_decorators(fn, BEZ)
    b = T.body_nodoc(fn)
    ua, va = fn.args.args[1].arg, fn.args.args[2].arg
    ok = (len(b) == 1 and isinstance(b[0], ast.Return) and is_call(b[0].value, "de_casteljau", 2)
          and is_call(b[0].value.args[0], "self._evaluate_row", 1) and T.dotted(b[0].value.args[0].args[0]) == ua
          and T.dotted(b[0].value.args[1]) == va)
    need(ok, BEZ, fn, "evaluate is not de_casteljau(self._evaluate_row(u), v)")
    fn = T.find_def(tree, "BezierPatch.as_surface", BEZ)
    need([a.arg for a in fn.args.args] == ["self", "n1", "n2"], BEZ, fn, "unexpected parameters")
    check_decorators(fn, BEZ)
    dfl = defaults_of(fn, BEZ)
    need(set(dfl) == {"n1", "n2"} and all(isinstance(v, int) and not isinstance(v, bool) for v in dfl.values()), BEZ, fn,
         "unexpected defaults")
    b = T.body_nodoc(fn)
    need(len(b) == 8, BEZ, fn, "as_surface: expected 8 statements")
    a = assign1(b[0])
    need(a and is_call(a[1], "RawMeshData", 0), BEZ, b[0], "out = RawMeshData() expected")
    outv = a[0]
    zenv = {"n1": "n1", "n2": "n2"}
    lins = {}
    for st in b[1:3]:
        a = assign1(st)
        need(a is not None and a[0] not in lins, BEZ, st, "parameter array assignment expected")
        la = linspace_of(a[1], BEZ)
        lins[a[0]] = (fexpr(la[0], {}, BEZ), fexpr(la[1], {}, BEZ), zexpr(la[2], zenv, BEZ))
    # which array parametrises the rows (first argument of evaluate) is decided by its use in the vertex loop
    st5 = b[5]
    need(isinstance(st5, ast.For) and len(st5.body) == 2 and assign1(st5.body[0]) is not None
         and is_call(assign1(st5.body[0])[1], "self._evaluate_row", 1)
         and isinstance(assign1(st5.body[0])[1].args[0], ast.Subscript), BEZ, st5, "vertex loop not recognised")
    U = T.dotted(assign1(st5.body[0])[1].args[0].value)
    need(U in lins and len(lins) == 2, BEZ, st5, "row parameter array is not one of the two linspace arrays")
    V = [k for k in lins if k != U][0]
    ulo, uhi, ulen = lins[U]
    vlo, vhi, vlen = lins[V]
    need((ulo, uhi) == (vlo, vhi), BEZ, b[2], "U and V have different end points")
    a = assign1(b[3])
    need(a and is_call(a[1], outv + ".vertices.create_attribute", 3) and const_is(a[1].args[0], "uv_coords"), BEZ, b[3],
         "uv attribute expected")
    uvs = a[0]
    a = assign1(b[4])
    need(a and const_eq(a[1], 0), BEZ, b[4], "k = 0 expected")
    kv = a[0]
    st = b[5]
    need(isinstance(st, ast.For) and isinstance(st.target, ast.Name) and len(st.body) == 2 and not st.orelse, BEZ, st,
         "vertex loop not recognised")
    iv = st.target.id
    n_outer = zexpr(range_arg(st.iter, BEZ), zenv, BEZ)
    a = assign1(st.body[0])
    ok = (a and is_call(a[1], "self._evaluate_row", 1) and isinstance(a[1].args[0], ast.Subscript)
          and T.dotted(a[1].args[0].value) == U)
    need(ok, BEZ, st.body[0], "q = self._evaluate_row(U[..]) expected")
    qv = a[0]
    inn = st.body[1]
    need(isinstance(inn, ast.For) and isinstance(inn.target, ast.Name) and len(inn.body) == 3 and not inn.orelse, BEZ, inn,
         "inner vertex loop not recognised")
    jv = inn.target.id
    n_inner = zexpr(range_arg(inn.iter, BEZ), dict(zenv, **{iv: "i"}), BEZ)
    ienv = dict(zenv, **{iv: "i", jv: "j"})
    urow = zexpr(a[1].args[0].slice, dict(zenv, **{iv: "i"}), BEZ)
    s0 = inn.body[0]
    ok = (isinstance(s0, ast.Expr) and is_call(s0.value, outv + ".vertices.append", 1)
          and is_call(s0.value.args[0], "de_casteljau", 2) and T.dotted(s0.value.args[0].args[0]) == qv
          and isinstance(s0.value.args[0].args[1], ast.Subscript) and T.dotted(s0.value.args[0].args[1].value) == V)
    need(ok, BEZ, s0, "out.vertices.append(de_casteljau(q,V[..])) expected")
    vcol = zexpr(s0.value.args[0].args[1].slice, ienv, BEZ)
    s1 = inn.body[1]
    ok = (isinstance(s1, ast.Assign) and isinstance(s1.targets[0], ast.Subscript) and T.dotted(s1.targets[0].value) == uvs
          and T.dotted(s1.targets[0].slice) == kv and is_call(s1.value, "Vec", 2)
          and all(isinstance(x, ast.Subscript) for x in s1.value.args)
          and T.dotted(s1.value.args[0].value) == U and T.dotted(s1.value.args[1].value) == V)
    need(ok, BEZ, s1, "uvs[k] = Vec(U[..],V[..]) expected")
    uva, uvb = zexpr(s1.value.args[0].slice, ienv, BEZ), zexpr(s1.value.args[1].slice, ienv, BEZ)
    s2 = inn.body[2]
    need(isinstance(s2, ast.AugAssign) and isinstance(s2.op, ast.Add) and T.dotted(s2.target) == kv and const_eq(s2.value, 1),
         BEZ, s2, "k += 1 expected")
    st = b[6]
    need(isinstance(st, ast.For) and isinstance(st.target, ast.Name) and len(st.body) == 1 and not st.orelse
         and isinstance(st.body[0], ast.For) and isinstance(st.body[0].target, ast.Name) and len(st.body[0].body) == 1
         and not st.body[0].orelse, BEZ, st, "face loop not recognised")
    fi = st.target.id
    f_outer = zexpr(range_arg(st.iter, BEZ), zenv, BEZ)
    inn = st.body[0]
    fj = inn.target.id
    f_inner = zexpr(range_arg(inn.iter, BEZ), dict(zenv, **{fi: "i"}), BEZ)
    ap = inn.body[0]
    ok = (isinstance(ap, ast.Expr) and is_call(ap.value, outv + ".faces.append", 1) and isinstance(ap.value.args[0], ast.Tuple)
          and len(ap.value.args[0].elts) == 4)
    need(ok, BEZ, ap, "out.faces.append((a,b,c,d)) expected")
    fenv = dict(zenv, **{fi: "i", fj: "j"})
    corners = [zexpr(x, fenv, BEZ) for x in ap.value.args[0].elts]
    st = b[7]
    need(isinstance(st, ast.Return) and is_call(st.value, "SurfaceMesh", 1) and T.dotted(st.value.args[0]) == outv, BEZ, st,
         "return SurfaceMesh(out) expected")
    return ("Definition surface_default_n1 : Z := %d.\nDefinition surface_default_n2 : Z := %d.\n" % (dfl["n1"], dfl["n2"]) +
            "Definition surface_U_len (n1 n2 : Z) : Z := %s.\n"
            "Definition surface_V_len (n1 n2 : Z) : Z := %s.\n"
            "Definition surface_lin_lo {T} (o : ops T) : T := %s.\n"
            "Definition surface_lin_hi {T} (o : ops T) : T := %s.\n"
            "(* vertex k (in order of creation) is the patch evaluated at (U[fst], V[snd]) *)\n"
            "Definition surface_vertex_params (n1 n2 : Z) : list (Z * Z) :=\n"
            "  flat_map (fun i => flat_map (fun j => [(%s, %s)]) (zrange %s)) (zrange %s).\n"
            "Definition surface_uv_params (n1 n2 : Z) : list (Z * Z) :=\n"
            "  flat_map (fun i => flat_map (fun j => [(%s, %s)]) (zrange %s)) (zrange %s).\n"
            "Definition surface_faces (n1 n2 : Z) : list (list Z) :=\n"
            "  flat_map (fun i => flat_map (fun j => [[%s]]) (zrange %s)) (zrange %s).\n"
            % (ulen, vlen, ulo, uhi, urow, vcol, n_inner, n_outer, uva, uvb, n_inner, n_outer,
               "; ".join(corners), f_inner, f_outer))


# ------------------------------------------------------------------ geometry helpers the samplers' weights and normals go through
GEO = "mouette/geometry/geometry.py"
VECF = "mouette/geometry/vector.py"
AFACE = "mouette/attributes/attr_faces.py"
AEDGE = "mouette/attributes/attr_edges.py"


def l2_branch(fn, rel, selfname):
    """norm(x, which="l2"): the branch taken for which == "l2" must be np.sqrt(np.dot(v, v)) with v = x / x.flatten()"""
    need(defaults_of(fn, rel).get("which") == "l2", rel, fn, "default norm is not l2")
    for st in T.body_nodoc(fn):
        if isinstance(st, ast.If):
            t = st.test
            if (isinstance(t, ast.Compare) and T.dotted(t.left) == "which" and len(t.ops) == 1 and isinstance(t.ops[0], ast.Eq)
                    and const_is(t.comparators[0], "l2")):
                need(len(st.body) == 1 and isinstance(st.body[0], ast.Return), rel, st, "l2 branch is not a single return")
                hits = []

                def is_dot(e):
                    def v(x):
                        return T.dotted(x) == selfname or (is_call(x, selfname + ".flatten", 0))
                    return is_call(e, "np.dot", 2) and v(e.args[0]) and v(e.args[1])
                import copy

                class R(ast.NodeTransformer):
                    def visit(self, n):
                        if is_dot(n):
                            hits.append(n)
                            return ast.Name(id="__ss__", ctx=ast.Load())
                        return self.generic_visit(n)
                e2 = R().visit(copy.deepcopy(st.body[0].value))
                need(len(hits) == 1, rel, st, "l2 norm is not a function of np.dot(v, v)")
                return fexpr(e2, {"__ss__": "ss"}, rel)
            T.fail(rel, st, "first branch of norm is not which == 'l2'")
    T.fail(rel, fn, "no l2 branch found")


def diff_of(e, x, a):
    return isinstance(e, ast.BinOp) and isinstance(e.op, ast.Sub) and T.dotted(e.left) == x and T.dotted(e.right) == a


def tr_geometry(parts):
    out = []
    src, tree = T.load(GEO)
    # cross(A, B) -> Vec(e0, e1, e2)
    fn = T.find_def(tree, "cross", GEO)
    parts.append(("geometry.cross", T.sha(src, fn)))
    check_decorators(fn, GEO)
    need([a.arg for a in fn.args.args] == ["A", "B"] and not fn.args.defaults, GEO, fn, "unexpected parameters of cross")
    b = T.body_nodoc(fn)
    need(len(b) == 1 and isinstance(b[0], ast.Return) and is_call(b[0].value, "Vec", 3), GEO, fn, "cross is not return Vec(e0, e1, e2)")

    def sub(e):
        v = T.dotted(e.value)
        need(v in ("A", "B") and isinstance(e.slice, ast.Constant) and e.slice.value in (0, 1, 2), GEO, e, "unexpected subscript in cross")
        return ("a" if v == "A" else "b") + str(e.slice.value)
    for i2, e in enumerate(b[0].value.args):
        out.append("Definition cross_c%d {T} (o : ops T) (a0 a1 a2 b0 b1 b2 : T) : T := %s.\n" % (i2, fexpr(e, {"[]": sub}, GEO)))
    # norm(x, which) and distance(A, B, which)
    fn = T.find_def(tree, "norm", GEO)
    parts.append(("geometry.norm", T.sha(src, fn)))
    check_decorators(fn, GEO)
    need([a.arg for a in fn.args.args] == ["x", "which"], GEO, fn, "unexpected parameters of norm")
    out.append("Definition geom_norm_l2 {T} (o : ops T) (ss : T) : T := %s.\n" % l2_branch(fn, GEO, "x"))
    fn = T.find_def(tree, "distance", GEO)
    parts.append(("geometry.distance", T.sha(src, fn)))
    check_decorators(fn, GEO)
    need([a.arg for a in fn.args.args] == ["A", "B", "which"] and defaults_of(fn, GEO) == {"which": "l2"}, GEO, fn,
         "unexpected parameters of distance")
    b = T.body_nodoc(fn)
    ok = (len(b) == 1 and isinstance(b[0], ast.Return) and is_call(b[0].value, "norm", 2) and T.dotted(b[0].value.args[1]) == "which"
          and not b[0].value.keywords)
    need(ok, GEO, fn, "distance is not norm(<difference>, which)")
    out.append("Definition distance_diff {T} (o : ops T) (a b : T) : T := %s.\n" % fexpr(b[0].value.args[0], {"A": "a", "B": "b"}, GEO))
    # triangle_area(A, B, C) = f(cross(B-A, C-A).norm())
    fn = T.find_def(tree, "triangle_area", GEO)
    parts.append(("geometry.triangle_area", T.sha(src, fn)))
    check_decorators(fn, GEO)
    need([a.arg for a in fn.args.args] == ["A", "B", "C"] and not fn.args.defaults, GEO, fn, "unexpected parameters of triangle_area")
    b = T.body_nodoc(fn)
    need(len(b) == 1 and isinstance(b[0], ast.Return), GEO, fn, "triangle_area is not a single return")
    hits = []

    def is_nrm(e):
        return (isinstance(e, ast.Call) and isinstance(e.func, ast.Attribute) and e.func.attr == "norm" and not e.args and not e.keywords
                and is_call(e.func.value, "cross", 2) and diff_of(e.func.value.args[0], "B", "A") and diff_of(e.func.value.args[1], "C", "A"))
    import copy

    class R(ast.NodeTransformer):
        def visit(self, n):
            if is_nrm(n):
                hits.append(n)
                return ast.Name(id="__nrm__", ctx=ast.Load())
            return self.generic_visit(n)
    e2 = R().visit(copy.deepcopy(b[0].value))
    need(len(hits) == 1, GEO, fn, "triangle_area is not a function of cross(B-A, C-A).norm()")
    out.append("Definition tri_area_of_norm {T} (o : ops T) (nrm : T) : T := %s.\n" % fexpr(e2, {"__nrm__": "nrm"}, GEO))
    # Vec.norm / Vec.normalized
    vsrc, vtree = T.load(VECF)
    fn = T.find_def(vtree, "Vec.norm", VECF)
    parts.append(("Vec.norm", T.sha(vsrc, fn)))
    check_decorators(fn, VECF)
    need([a.arg for a in fn.args.args] == ["self", "which"], VECF, fn, "unexpected parameters of Vec.norm")
    out.append("Definition vec_norm_l2 {T} (o : ops T) (ss : T) : T := %s.\n" % l2_branch(fn, VECF, "self"))
    fn = T.find_def(vtree, "Vec.normalized", VECF)
    parts.append(("Vec.normalized", T.sha(vsrc, fn)))
    check_decorators(fn, VECF, ["staticmethod"])
    need([a.arg for a in fn.args.args] == ["vec", "which"] and defaults_of(fn, VECF) == {"which": "l2"}, VECF, fn,
         "unexpected parameters of Vec.normalized")
    b = T.body_nodoc(fn)
    a0 = assign1(b[0]) if b else None
    ok = (len(b) == 3 and a0 and is_call(a0[1], "Vec.norm", 2) and T.dotted(a0[1].args[0]) == "vec" and T.dotted(a0[1].args[1]) == "which"
          and isinstance(b[1], ast.With) and len(b[1].body) == 1 and assign1(b[1].body[0]) and is_call(assign1(b[1].body[0])[1], "Vec", 1)
          and isinstance(b[2], ast.Return) and T.dotted(b[2].value) == assign1(b[1].body[0])[0])
    need(ok, VECF, fn, "Vec.normalized is not nrm = Vec.norm(vec, which); out = Vec(<expr>); return out")
    out.append("Definition normalized_coord {T} (o : ops T) (x nrm : T) : T := %s.\n"
               % fexpr(assign1(b[1].body[0])[1].args[0], {"vec": "x", a0[0]: "nrm"}, VECF))
    # the attribute functions: which helper is applied to which vertices
    fsrc, ftree = T.load(AFACE)
    fn = T.find_def(ftree, "face_area", AFACE)
    parts.append(("attributes.face_area", T.sha(fsrc, fn)))
    loop = [st for st in T.body_nodoc(fn) if isinstance(st, ast.For)]
    need(len(loop) == 1 and T.dotted(loop[0].iter) == "mesh.id_faces" and len(loop[0].body) == 3, AFACE, fn, "face loop not recognised")
    tv = T.dotted(loop[0].target)
    a0 = assign1(loop[0].body[0])
    ok = (a0 and isinstance(a0[1], ast.ListComp) and len(a0[1].generators) == 1 and isinstance(a0[1].generators[0].iter, ast.Subscript)
          and T.dotted(a0[1].generators[0].iter.value) == "mesh.faces" and T.dotted(a0[1].generators[0].iter.slice) == tv
          and isinstance(a0[1].elt, ast.Subscript) and T.dotted(a0[1].elt.value) == "mesh.vertices"
          and T.dotted(a0[1].elt.slice) == T.dotted(a0[1].generators[0].target) and not a0[1].generators[0].ifs)
    need(ok, AFACE, loop[0], "pts = [mesh.vertices[u] for u in mesh.faces[T]] expected")
    br = loop[0].body[2]
    ok = (isinstance(br, ast.If) and isinstance(br.test, ast.Compare) and isinstance(br.test.ops[0], ast.Eq) and const_eq(br.test.comparators[0], 3)
          and len(br.body) == 1 and isinstance(br.body[0], ast.Assign) and isinstance(br.body[0].targets[0], ast.Subscript)
          and T.dotted(br.body[0].targets[0].slice) == tv and is_call(br.body[0].value, "geom.triangle_area", 1)
          and isinstance(br.body[0].value.args[0], ast.Starred) and T.dotted(br.body[0].value.args[0].value) == a0[0])
    need(ok, AFACE, br, "triangles are not measured by area[T] = geom.triangle_area(*pts)")
    fn = T.find_def(ftree, "face_normals", AFACE)
    parts.append(("attributes.face_normals", T.sha(fsrc, fn)))
    loop = [st for st in T.body_nodoc(fn) if isinstance(st, ast.For)]
    need(len(loop) == 1 and is_call(loop[0].iter, "enumerate", 1) and T.dotted(loop[0].iter.args[0]) == "mesh.faces"
         and len(loop[0].body) == 2, AFACE, fn, "normal loop not recognised")
    iv, fv = [e.id for e in loop[0].target.elts]
    s0 = loop[0].body[0]
    ok = (isinstance(s0, ast.Assign) and isinstance(s0.targets[0], ast.Tuple) and len(s0.targets[0].elts) == 3
          and isinstance(s0.value, ast.GeneratorExp) and len(s0.value.generators) == 1 and isinstance(s0.value.generators[0].iter, ast.Subscript)
          and T.dotted(s0.value.generators[0].iter.value) == fv and isinstance(s0.value.generators[0].iter.slice, ast.Slice)
          and s0.value.generators[0].iter.slice.lower is None and const_eq(s0.value.generators[0].iter.slice.upper, 3)
          and isinstance(s0.value.elt, ast.Subscript) and T.dotted(s0.value.elt.value) == "mesh.vertices"
          and T.dotted(s0.value.elt.slice) == T.dotted(s0.value.generators[0].target))
    need(ok, AFACE, s0, "pA,pB,pC = (mesh.vertices[u] for u in T[:3]) expected")
    pa, pb, pc = [e.id for e in s0.targets[0].elts]
    s1 = loop[0].body[1]
    ok = (isinstance(s1, ast.Assign) and isinstance(s1.targets[0], ast.Subscript) and T.dotted(s1.targets[0].slice) == iv
          and is_call(s1.value, "Vec.normalized", 1) and not s1.value.keywords and is_call(s1.value.args[0], "geom.cross", 2)
          and diff_of(s1.value.args[0].args[0], pb, pa) and diff_of(s1.value.args[0].args[1], pc, pa))
    need(ok, AFACE, s1, "normals[iT] = Vec.normalized(geom.cross(pB-pA, pC-pA)) expected")
    esrc, etree = T.load(AEDGE)
    fn = T.find_def(etree, "edge_length", AEDGE)
    parts.append(("attributes.edge_length", T.sha(esrc, fn)))
    loop = [st for st in T.body_nodoc(fn) if isinstance(st, ast.For)]
    need(len(loop) == 1 and is_call(loop[0].iter, "enumerate", 1) and T.dotted(loop[0].iter.args[0]) == "mesh.edges"
         and len(loop[0].body) == 2 and isinstance(loop[0].target, ast.Tuple) and isinstance(loop[0].target.elts[1], ast.Tuple), AEDGE, fn,
         "edge loop not recognised")
    ev = loop[0].target.elts[0].id
    ea, eb = [e.id for e in loop[0].target.elts[1].elts]
    s0 = loop[0].body[0]
    ok = (isinstance(s0, ast.Assign) and isinstance(s0.targets[0], ast.Tuple) and isinstance(s0.value, ast.Tuple)
          and [T.dotted(x.value) for x in s0.value.elts] == ["mesh.vertices", "mesh.vertices"]
          and [T.dotted(x.slice) for x in s0.value.elts] == [ea, eb])
    need(ok, AEDGE, s0, "pA,pB = mesh.vertices[a], mesh.vertices[b] expected")
    pa, pb = [e.id for e in s0.targets[0].elts]
    s1 = loop[0].body[1]
    ok = (isinstance(s1, ast.Assign) and isinstance(s1.targets[0], ast.Subscript) and T.dotted(s1.targets[0].slice) == ev
          and is_call(s1.value, "geom.distance", 2) and [T.dotted(x) for x in s1.value.args] == [pa, pb] and not s1.value.keywords)
    need(ok, AEDGE, s1, "length[e] = geom.distance(pA,pB) expected")
    return "".join(out)


def check_imports(tree):
    """the names the recognisers rely on must be the numpy ones"""
    got = set()
    for n in tree.body:
        if isinstance(n, ast.ImportFrom) and n.module == "numpy.random":
            got |= {(a.asname or a.name, a.name) for a in n.names}
        if isinstance(n, ast.Import):
            for a in n.names:
                if a.name == "numpy":
                    got.add((a.asname, "numpy"))
    if not {("random", "random"), ("choice", "choice"), ("np", "numpy")} <= got:
        raise TranslationError(SAMP + ": `import numpy as np` / `from numpy.random import random, choice` not found")
    for n in ast.walk(tree):
        if isinstance(n, (ast.FunctionDef, ast.ClassDef)) and n.name in ("random", "choice", "np"):
            raise TranslationError(SAMP + ": numpy name shadowed by a local definition")


def gen():
    parts = []
    src, tree = T.load(SAMP)
    check_imports(tree)
    body = []
    body.append("(* ---- sampling.py *)\n")
    body.append(tr_sphere_ball(src, tree, "sample_sphere", parts))
    body.append(tr_sphere_ball(src, tree, "sample_ball", parts))
    body.append(tr_aabb(parts))
    body.append(tr_box(src, tree, parts))
    body.append(tr_polyline(src, tree, parts))
    body.append(tr_surface(src, tree, parts))
    body.append("(* ---- geometry/geometry.py, geometry/vector.py, attributes (edge_length, face_area, face_normals) *)\n")
    body.append(tr_geometry(parts))
    bsrc, btree = T.load(BEZ)
    body.append("(* ---- splines/bezier.py *)\n")
    body.append(tr_decasteljau(bsrc, btree, parts))
    body.append(tr_curve(bsrc, btree, parts))
    body.append(tr_patch(bsrc, btree, parts))
    out = T.header("C19: sampler expressions, de Casteljau step, export index formulas", parts)
    out += """From Coq Require Import ZArith List Bool.
Import ListNotations.
Require Import MV.Lib.Base MV.C19.Ops.
Open Scope Z_scope.

"""
    return {"C19/Gen.v": out + "".join(body)}
