"""surface.py / linear.py -> coq/theories/C01/Gen.v

Extracted (fail-closed: anything unrecognised raises TranslationError, the tie to the source is then broken):
  * per public accessor: the lazy guard `if self._X is None: self._compute_Y()` at the top (or its absence);
  * per compute / clear method: the attributes it assigns / resets;
  * _compute_connectivity: index formulas of previous/next vertex, the half-edge key, the layout of the half-edge
    record, the corner->half-edge entry, the slots read/written by the opposite pass;
  * the slot of the record each corner accessor returns, key orders of half_edge_to_corner / direct_face;
  * _sort_vertex_neighborhoods: the accessor compositions and index increments of the two walks, key order of the
    vertex sort;
  * SurfaceMesh.is_edge_on_border as a boolean expression.
Local variable names are followed by role (taken from the assignment targets), not by spelling.
"""
import ast

from . import common as T
from . import c01b as TB
from ..core import TranslationError

SURF = "mouette/mesh/datatypes/surface.py"
LIN = "mouette/mesh/datatypes/linear.py"

ATTR = {"_adjV2V": "A_adjV2V", "_edge_id": "A_edge_id", "_half_edges": "A_half_edges", "_Cn2he": "A_Cn2he",
        "_adjVF2Cn": "A_adjVF2Cn", "_adjV2Cn": "A_adjV2Cn", "_adjF2Cn": "A_adjF2Cn", "_face_id": "A_face_id",
        "_boundary_edges": "A_boundary_edges", "_interior_edges": "A_interior_edges",
        "_is_vertex_on_border": "A_is_vertex_on_border", "_boundary_vertices": "A_boundary_vertices",
        "_interior_vertices": "A_interior_vertices"}
COMP1 = {"_compute_connectivity": "K_connectivity", "_compute_edge_id": "K_edge_id", "_compute_face_ids": "K_face_ids"}

# accessor -> (file, qualified name, attributes its body reads, self-methods it calls)   [structure the hand model assumes]
LIN_ACC = {
    "edge_id": ({"_edge_id"}, {"_compute_edge_id"}),
    "other_edge_end": (set(), set()),
    "vertex_to_vertices": ({"_adjV2V"}, {"_compute_connectivity"}),
    "vertex_to_edges": (set(), {"edge_id", "vertex_to_vertices"}),
    "edge_to_vertices": (set(), set()),
}
SURF_ACC = {
    "face_id": ({"_face_id"}, {"_compute_face_ids"}),
    "vertex_to_faces": (set(), {"corner_to_face", "vertex_to_corners"}),
    "vertex_to_corners": ({"_adjV2Cn"}, {"_compute_connectivity"}),
    "vertex_to_corner_in_face": ({"_adjVF2Cn"}, {"_compute_connectivity"}),
    "previous_corner": ({"_half_edges", "_Cn2he"}, {"_compute_connectivity"}),
    "next_corner": ({"_half_edges", "_Cn2he"}, {"_compute_connectivity"}),
    "opposite_corner": ({"_half_edges", "_Cn2he"}, {"_compute_connectivity"}),
    "corner_to_half_edge": ({"_Cn2he"}, {"_compute_connectivity"}),
    "corner_to_face": (set(), set()),
    "half_edge_to_corner": ({"_half_edges"}, {"_compute_connectivity"}),
    "direct_face": ({"_half_edges"}, {"_compute_connectivity"}),
    "edge_to_faces": (set(), {"direct_face"}),
    "opposite_face": (set(), {"direct_face"}),
    "common_edge": (set(), {"opposite_face"}),
    "face_to_vertices": (set(), set()),
    "in_face_index": (set(), set()),
    "face_to_edges": (set(), {"edge_id"}),
    "face_to_first_corner": ({"_adjF2Cn"}, {"_compute_connectivity"}),
    "face_to_corners": ({"_adjF2Cn"}, {"_compute_connectivity"}),
    "face_to_faces": (set(), {"_compute_connectivity", "opposite_corner", "face_to_corners", "corner_to_face"}),
}
MESH_ACC = {  # name -> (compute it must call, attributes read, self-methods/properties used)
    "is_vertex_on_border": ("_compute_interior_boundary_vertices", {"_is_vertex_on_border"}),
    "interior_edges": ("_compute_interior_boundary_edges", {"_interior_edges"}),
    "boundary_edges": ("_compute_interior_boundary_edges", {"_boundary_edges"}),
    "boundary_vertices": ("_compute_interior_boundary_vertices", {"_boundary_vertices"}),
    "interior_vertices": ("_compute_interior_boundary_vertices", {"_interior_vertices"}),
}


def self_attr(node):
    """'_X' if node is self._X"""
    if isinstance(node, ast.Attribute) and isinstance(node.value, ast.Name) and node.value.id == "self":
        return node.attr
    return None


def is_none(node):
    return isinstance(node, ast.Constant) and node.value is None


def lazy_if(st):
    """(attr, method) if st is `if self._X is None: self.<method>()`, else None; raises on near misses"""
    if not isinstance(st, ast.If):
        return None
    t = st.test
    if not (isinstance(t, ast.Compare) and len(t.ops) == 1 and isinstance(t.ops[0], ast.Is) and is_none(t.comparators[0])
            and self_attr(t.left) in ATTR):
        return None
    if st.orelse or len(st.body) != 1:
        return "bad"
    b = st.body[0]
    if not (isinstance(b, ast.Expr) and isinstance(b.value, ast.Call) and not b.value.args and not b.value.keywords
            and self_attr(b.value.func)):
        return "bad"
    return self_attr(t.left), self_attr(b.value.func)


def guard_and_rest(rel, fn):
    body = T.body_nodoc(fn)
    g = None
    rest = body
    if body:
        r = lazy_if(body[0])
        if r == "bad":
            T.fail(rel, body[0], "lazy guard of %s has an unexpected shape" % fn.name)
        if r is not None:
            g, rest = r, body[1:]
    for st in rest:
        for n in ast.walk(st):
            if isinstance(n, ast.If) and lazy_if(n) is not None:
                T.fail(rel, n, "%s: a lazy guard that is not the first statement" % fn.name)
    return g, rest


def reads_and_calls(stmts):
    reads, calls = set(), set()
    for st in stmts:
        for n in ast.walk(st):
            a = self_attr(n)
            if a in ATTR:
                reads.add(a)
            if isinstance(n, ast.Call) and self_attr(n.func):
                calls.add(self_attr(n.func))
    return reads, calls


def assigned_attrs(rel, fn, only_none=False):
    out = []
    for n in ast.walk(fn):
        tg = []
        if isinstance(n, ast.Assign):
            tg = [(t, n.value) for t in n.targets]
        elif isinstance(n, ast.AnnAssign) and n.value is not None:
            tg = [(n.target, n.value)]
        for t, v in tg:
            a = self_attr(t)
            if a is None:
                continue
            if a not in ATTR:
                T.fail(rel, n, "%s assigns an attribute the model does not know: %s" % (fn.name, a))
            if only_none and not is_none(v):
                T.fail(rel, n, "%s: %s is not reset to None" % (fn.name, a))
            if ATTR[a] not in out:
                out.append(ATTR[a])
    return out


def calls_super(fn, name):
    for st in T.body_nodoc(fn):
        if isinstance(st, ast.Expr) and isinstance(st.value, ast.Call) and isinstance(st.value.func, ast.Attribute) \
                and st.value.func.attr == name and isinstance(st.value.func.value, ast.Call) \
                and T.dotted(st.value.func.value.func) == "super":
            return True
    return False


# ---------------------------------------------------------------------- small integer expressions
def zexpr(rel, e, env):
    if isinstance(e, ast.Name) and e.id in env:
        return env[e.id]
    if isinstance(e, ast.Constant) and isinstance(e.value, int) and not isinstance(e.value, bool):
        return str(e.value) if e.value >= 0 else "(%d)" % e.value
    if isinstance(e, ast.BinOp):
        ops = {ast.Add: "+", ast.Sub: "-", ast.Mult: "*", ast.Mod: "mod", ast.FloorDiv: "/"}
        if type(e.op) in ops:
            return "(%s %s %s)" % (zexpr(rel, e.left, env), ops[type(e.op)], zexpr(rel, e.right, env))
    T.fail(rel, e, "integer expression outside the translated subset")


def subscript_index(node):
    return node.slice


def const_index(rel, node, what):
    s = subscript_index(node)
    if isinstance(s, ast.Constant) and isinstance(s.value, int) and s.value >= 0:
        return s.value
    T.fail(rel, node, what + ": slot is not a non-negative integer literal")


def name_tuple(rel, node, roles, what):
    """(P, Pnext) -> Coq tuple over role names"""
    if not (isinstance(node, ast.Tuple) and all(isinstance(e, ast.Name) and e.id in roles for e in node.elts)):
        T.fail(rel, node, what + ": not a tuple of the expected local variables")
    return "(" + ", ".join(roles[e.id] for e in node.elts) + ")"


# ---------------------------------------------------------------------- _compute_connectivity
def tr_compute_connectivity(rel, fn):
    body = T.body_nodoc(fn)
    face_loop = None
    opp_loop = None
    sort_if = None
    for st in body:
        if isinstance(st, ast.For) and isinstance(st.iter, ast.Call) and T.dotted(st.iter.func) == "enumerate" \
                and T.dotted(st.iter.args[0]) == "self.mesh.faces":
            face_loop = st
        if isinstance(st, ast.For) and isinstance(st.iter, ast.Call) and isinstance(st.iter.func, ast.Attribute) \
                and st.iter.func.attr == "keys" and self_attr(st.iter.func.value) == "_half_edges":
            opp_loop = st
        if isinstance(st, ast.If) and any(isinstance(n, ast.Call) and self_attr(n.func) == "_sort_vertex_neighborhoods"
                                          for n in ast.walk(st)):
            sort_if = st
    if face_loop is None or opp_loop is None or sort_if is None:
        T.fail(rel, fn, "_compute_connectivity: face loop / opposite loop / sorting call not found")
    # sorting condition: config.sort_neighborhoods and isinstance(self.mesh, SurfaceMesh)
    t = sort_if.test
    ok = isinstance(t, ast.BoolOp) and isinstance(t.op, ast.And) and len(t.values) == 2 \
        and T.dotted(t.values[0]) == "config.sort_neighborhoods" \
        and isinstance(t.values[1], ast.Call) and T.dotted(t.values[1].func) == "isinstance" \
        and T.dotted(t.values[1].args[0]) == "self.mesh" and T.dotted(t.values[1].args[1]) == "SurfaceMesh"
    if not ok or sort_if.orelse or len(sort_if.body) != 1:
        T.fail(rel, sort_if, "condition under which neighbourhoods are sorted changed")
    # ---- face loop
    if not (isinstance(face_loop.target, ast.Tuple) and len(face_loop.target.elts) == 2):
        T.fail(rel, face_loop, "face loop target")
    vF_i, vF = [e.id for e in face_loop.target.elts]
    fb = face_loop.body
    if not (len(fb) == 2 and isinstance(fb[0], ast.Assign) and isinstance(fb[0].value, ast.Call)
            and T.dotted(fb[0].value.func) == "len" and T.dotted(fb[0].value.args[0]) == vF
            and isinstance(fb[1], ast.For) and isinstance(fb[1].iter, ast.Call) and T.dotted(fb[1].iter.func) == "range"
            and len(fb[1].iter.args) == 1 and T.dotted(fb[1].iter.args[0]) == fb[0].targets[0].id):
        T.fail(rel, face_loop, "face loop is not `n = len(F); for iV in range(n): ...`")
    vn = fb[0].targets[0].id
    inner = fb[1]
    viV = inner.target.id
    ib = inner.body
    if len(ib) != 4:
        T.fail(rel, inner, "half-edge loop body does not have 4 statements")
    s1, s2, s3, s4 = ib
    # s1: P, Pprev, Pnext = F[iV], F[(iV-1)%n], F[(iV+1)%n]
    if not (isinstance(s1, ast.Assign) and isinstance(s1.targets[0], ast.Tuple) and len(s1.targets[0].elts) == 3
            and isinstance(s1.value, ast.Tuple) and len(s1.value.elts) == 3):
        T.fail(rel, s1, "P, Pprev, Pnext assignment")
    vP, vPp, vPn = [e.id for e in s1.targets[0].elts]
    env = {viV: "iV", vn: "n"}
    idx = []
    for e in s1.value.elts:
        if not (isinstance(e, ast.Subscript) and T.dotted(e.value) == vF):
            T.fail(rel, e, "vertex is not read from the face")
        idx.append(zexpr(rel, subscript_index(e), env))
    if idx[0] != "iV":
        T.fail(rel, s1, "first vertex is not F[iV]")
    # s2: iC, iCprev, iCnext = (self._adjVF2Cn[(p,iF)] for p in (P,Pprev,Pnext))
    ok = isinstance(s2, ast.Assign) and isinstance(s2.targets[0], ast.Tuple) and len(s2.targets[0].elts) == 3 \
        and isinstance(s2.value, ast.GeneratorExp) and len(s2.value.generators) == 1
    if ok:
        ge = s2.value
        g = ge.generators[0]
        ok = isinstance(ge.elt, ast.Subscript) and self_attr(ge.elt.value) == "_adjVF2Cn" \
            and isinstance(subscript_index(ge.elt), ast.Tuple) \
            and [T.dotted(x) for x in subscript_index(ge.elt).elts] == [g.target.id, vF_i] \
            and isinstance(g.iter, ast.Tuple) and [T.dotted(x) for x in g.iter.elts] == [vP, vPp, vPn] and not g.ifs
    if not ok:
        T.fail(rel, s2, "corner lookup is not (self._adjVF2Cn[(p,iF)] for p in (P,Pprev,Pnext))")
    vC, vCp, vCn = [e.id for e in s2.targets[0].elts]
    vroles = {vP: "P", vPp: "Pprev", vPn: "Pnext"}
    croles = {vC: "iC", vCp: "iCprev", vCn: "iCnext"}
    # s3: self._half_edges[(P,Pnext)] = [...]
    if not (isinstance(s3, ast.Assign) and isinstance(s3.targets[0], ast.Subscript)
            and self_attr(s3.targets[0].value) == "_half_edges" and isinstance(s3.value, ast.List)):
        T.fail(rel, s3, "half-edge record assignment")
    he_key = name_tuple(rel, subscript_index(s3.targets[0]), vroles, "half-edge key")
    env2 = dict(env)
    env2.update(croles)
    env2[vF_i] = "iF"
    rec = []
    for e in s3.value.elts:
        rec.append("None" if is_none(e) else "Some %s" % zexpr(rel, e, env2))
    # s4: self._Cn2he[iC] = (P,Pnext)
    if not (isinstance(s4, ast.Assign) and isinstance(s4.targets[0], ast.Subscript)
            and self_attr(s4.targets[0].value) == "_Cn2he" and isinstance(subscript_index(s4.targets[0]), ast.Name)
            and subscript_index(s4.targets[0]).id in croles):
        T.fail(rel, s4, "_Cn2he assignment")
    c2h_key = croles[subscript_index(s4.targets[0]).id]
    c2h_val = name_tuple(rel, s4.value, vroles, "_Cn2he value")
    # ---- opposite loop:  for (A,B) in keys: iC1 = get((A,B),[None])[k]; iC2 = get((B,A),[None])[k];
    #                      if iC1 is not None and iC2 is not None: he[(A,B)][w] = iC2; he[(B,A)][w] = iC1
    if not (isinstance(opp_loop.target, ast.Tuple) and len(opp_loop.target.elts) == 2 and len(opp_loop.body) == 3):
        T.fail(rel, opp_loop, "opposite loop shape")
    vA, vB = [e.id for e in opp_loop.target.elts]

    def get_slot(st, key):
        ok = isinstance(st, ast.Assign) and isinstance(st.targets[0], ast.Name) and isinstance(st.value, ast.Subscript) \
            and isinstance(st.value.value, ast.Call) and isinstance(st.value.value.func, ast.Attribute) \
            and st.value.value.func.attr == "get" and self_attr(st.value.value.func.value) == "_half_edges" \
            and len(st.value.value.args) == 2 and isinstance(st.value.value.args[0], ast.Tuple) \
            and [T.dotted(x) for x in st.value.value.args[0].elts] == key \
            and isinstance(st.value.value.args[1], ast.List) and len(st.value.value.args[1].elts) == 1 \
            and is_none(st.value.value.args[1].elts[0])
        if not ok:
            T.fail(rel, st, "opposite loop: corner lookup is not self._half_edges.get(%s, [None])[k]" % (key,))
        return st.targets[0].id, const_index(rel, st.value, "opposite loop read")
    n1, r1 = get_slot(opp_loop.body[0], [vA, vB])
    n2, r2 = get_slot(opp_loop.body[1], [vB, vA])
    cond = opp_loop.body[2]
    ok = isinstance(cond, ast.If) and not cond.orelse and isinstance(cond.test, ast.BoolOp) and isinstance(cond.test.op, ast.And) \
        and len(cond.test.values) == 2 and len(cond.body) == 2
    if ok:
        tested = []
        for v in cond.test.values:
            ok = ok and isinstance(v, ast.Compare) and len(v.ops) == 1 and isinstance(v.ops[0], ast.IsNot) \
                and is_none(v.comparators[0]) and isinstance(v.left, ast.Name)
            if ok:
                tested.append(v.left.id)
        ok = ok and sorted(tested) == sorted([n1, n2])
    if not ok or r1 != r2:
        T.fail(rel, cond, "opposite loop: test is not `iC1 is not None and iC2 is not None`")

    def put_slot(st, key, val):
        ok = isinstance(st, ast.Assign) and isinstance(st.targets[0], ast.Subscript) \
            and isinstance(st.targets[0].value, ast.Subscript) and self_attr(st.targets[0].value.value) == "_half_edges" \
            and isinstance(subscript_index(st.targets[0].value), ast.Tuple) \
            and [T.dotted(x) for x in subscript_index(st.targets[0].value).elts] == key \
            and isinstance(st.value, ast.Name) and st.value.id == val
        if not ok:
            T.fail(rel, st, "opposite loop: assignment is not self._half_edges[%s][k] = %s" % (key, val))
        return const_index(rel, st.targets[0], "opposite loop write")
    w1 = put_slot(cond.body[0], [vA, vB], n2)
    w2 = put_slot(cond.body[1], [vB, vA], n1)
    if w1 != w2:
        T.fail(rel, cond, "opposite loop writes two different slots")
    return {"idx_prev": idx[1], "idx_next": idx[2], "he_key": he_key, "rec": rec, "c2h_key": c2h_key, "c2h_val": c2h_val,
            "opp_read": r1, "opp_write": w1}


# ---------------------------------------------------------------------- corner accessors
def ret_slot(rel, fn, rest, table="_half_edges"):
    """slot k of the final `return self._half_edges[<key>][k]`"""
    last = rest[-1]
    if not (isinstance(last, ast.Return) and isinstance(last.value, ast.Subscript)
            and isinstance(last.value.value, ast.Subscript) and self_attr(last.value.value.value) == table):
        T.fail(rel, last, "%s does not end with `return self.%s[key][k]`" % (fn.name, table))
    return const_index(rel, last.value, fn.name)


def tr_corner_accessor(rel, fn, rest):
    # key = self._Cn2he.get(C, None); if key is None: return None; return self._half_edges[key][k]
    C = fn.args.args[1].arg
    ok = len(rest) == 3 and isinstance(rest[0], ast.Assign) and isinstance(rest[0].value, ast.Call) \
        and isinstance(rest[0].value.func, ast.Attribute) and rest[0].value.func.attr == "get" \
        and self_attr(rest[0].value.func.value) == "_Cn2he" and T.dotted(rest[0].value.args[0]) == C \
        and (len(rest[0].value.args) == 1 or is_none(rest[0].value.args[1]))
    if ok:
        key = rest[0].targets[0].id
        i = rest[1]
        ok = isinstance(i, ast.If) and not i.orelse and isinstance(i.test, ast.Compare) and T.dotted(i.test.left) == key \
            and isinstance(i.test.ops[0], ast.Is) and is_none(i.test.comparators[0]) and len(i.body) == 1 \
            and isinstance(i.body[0], ast.Return) and (i.body[0].value is None or is_none(i.body[0].value)) \
            and T.dotted(subscript_index(rest[2].value.value)) == key if isinstance(rest[2], ast.Return) and isinstance(rest[2].value, ast.Subscript) and isinstance(rest[2].value.value, ast.Subscript) else False
    if not ok:
        T.fail(rel, fn, "%s is not `key = self._Cn2he.get(C,None); if key is None: return None; return self._half_edges[key][k]`" % fn.name)
    return ret_slot(rel, fn, rest)


def param_tuple(rel, node, params, what):
    if not (isinstance(node, ast.Tuple) and len(node.elts) == 2 and all(isinstance(e, ast.Name) and e.id in params for e in node.elts)):
        T.fail(rel, node, what + ": key is not a pair of the accessor's own parameters")
    return "(%s, %s)" % tuple(params[e.id] for e in node.elts)


def tr_half_edge_to_corner(rel, fn, rest):
    p = {fn.args.args[1].arg: "u", fn.args.args[2].arg: "v"}
    ok = len(rest) == 1 and isinstance(rest[0], ast.Return) and isinstance(rest[0].value, ast.Subscript) \
        and isinstance(rest[0].value.value, ast.Call) and isinstance(rest[0].value.value.func, ast.Attribute) \
        and rest[0].value.value.func.attr == "get" and self_attr(rest[0].value.value.func.value) == "_half_edges" \
        and len(rest[0].value.value.args) == 2 and isinstance(rest[0].value.value.args[1], ast.List) \
        and len(rest[0].value.value.args[1].elts) == 1 and is_none(rest[0].value.value.args[1].elts[0])
    if not ok:
        T.fail(rel, fn, "half_edge_to_corner is not `return self._half_edges.get((u,v), [None])[k]`")
    return param_tuple(rel, rest[0].value.value.args[0], p, "half_edge_to_corner"), const_index(rel, rest[0].value, "half_edge_to_corner")


def tr_direct_face(rel, fn, rest):
    a = fn.args.args
    if len(a) != 4 or len(fn.args.defaults) != 1 or not (isinstance(fn.args.defaults[0], ast.Constant) and fn.args.defaults[0].value is False):
        T.fail(rel, fn, "direct_face signature is not (self, u, v, return_inds=False)")
    p = {a[1].arg: "u", a[2].arg: "v"}
    flag = a[3].arg
    ok = len(rest) == 1 and isinstance(rest[0], ast.If) and isinstance(rest[0].test, ast.Compare) \
        and isinstance(rest[0].test.ops[0], ast.In) and self_attr(rest[0].test.comparators[0]) == "_half_edges" \
        and len(rest[0].body) == 2 and len(rest[0].orelse) == 2
    if not ok:
        T.fail(rel, fn, "direct_face body shape")
    I = rest[0]
    key = param_tuple(rel, I.test.left, p, "direct_face membership test")

    def flag_if(st):
        return isinstance(st, ast.If) and T.dotted(st.test) == flag and not st.orelse and len(st.body) == 1 \
            and isinstance(st.body[0], ast.Return)
    if not (flag_if(I.body[0]) and isinstance(I.body[1], ast.Return) and flag_if(I.orelse[0]) and isinstance(I.orelse[1], ast.Return)):
        T.fail(rel, fn, "direct_face branches")
    r_in = I.body[0].body[0].value     # self._half_edges[(u,v)][k:]
    r_pl = I.body[1].value             # self._half_edges[(u,v)][k]
    for r in (r_in, r_pl):
        if not (isinstance(r, ast.Subscript) and isinstance(r.value, ast.Subscript) and self_attr(r.value.value) == "_half_edges"
                and param_tuple(rel, subscript_index(r.value), p, "direct_face lookup") == key):
            T.fail(rel, r, "direct_face lookup uses another key than its membership test")
    s = subscript_index(r_in)
    if not (isinstance(s, ast.Slice) and s.upper is None and s.step is None and isinstance(s.lower, ast.Constant)
            and isinstance(s.lower.value, int) and s.lower.value >= 0):
        T.fail(rel, r_in, "direct_face(return_inds) is not a slice [k:]")
    k_pl = const_index(rel, r_pl, "direct_face")
    e1 = I.orelse[0].body[0].value
    e2 = I.orelse[1].value
    if not (isinstance(e1, ast.Tuple) and len(e1.elts) == 3 and all(is_none(x) for x in e1.elts) and is_none(e2)):
        T.fail(rel, fn, "direct_face: answers for an absent half-edge are not (None,None,None) / None")
    return key, k_pl, s.lower.value


# ---------------------------------------------------------------------- _sort_vertex_neighborhoods
STEP = {"previous_corner": "W_prev", "next_corner": "W_next", "opposite_corner": "W_opp"}


def call_chain(rel, e, var):
    """self.f(self.g(Cn)) -> [g, f]"""
    out = []
    while isinstance(e, ast.Call) and self_attr(e.func) in STEP and len(e.args) == 1 and not e.keywords:
        out.append(STEP[self_attr(e.func)])
        e = e.args[0]
    if not (isinstance(e, ast.Name) and e.id == var) or not out:
        T.fail(rel, e, "walk step is not a composition of previous/next/opposite_corner applied to the current corner")
    return list(reversed(out))


def tr_walk_loop(rel, loop, fuel_name):
    if not (isinstance(loop, ast.For) and isinstance(loop.iter, ast.Call) and T.dotted(loop.iter.func) == "range"
            and len(loop.iter.args) == 1 and isinstance(loop.iter.args[0], ast.Call)
            and T.dotted(loop.iter.args[0].func) == "len" and T.dotted(loop.iter.args[0].args[0]) == fuel_name):
        T.fail(rel, loop, "walk loop is not `for _ in range(len(sort_index))`")
    b = loop.body
    ok = len(b) >= 4 and isinstance(b[0], ast.Assign) and isinstance(b[0].targets[0], ast.Subscript) \
        and T.dotted(b[0].targets[0].value) == fuel_name and isinstance(subscript_index(b[0].targets[0]), ast.Name) \
        and isinstance(b[0].value, ast.Name) and isinstance(b[1], ast.AugAssign) and isinstance(b[1].target, ast.Name) \
        and b[1].target.id == b[0].value.id and isinstance(b[1].value, ast.Constant) and isinstance(b[1].value.value, int) \
        and type(b[1].op) in (ast.Add, ast.Sub)
    if not ok:
        T.fail(rel, loop, "walk loop does not start with `sort_index[Cn] = ind; ind +-= k`")
    cn = subscript_index(b[0].targets[0]).id
    delta = b[1].value.value * (1 if isinstance(b[1].op, ast.Add) else -1)
    before, after = [], []
    seen_test = False
    sets_flag = None
    for st in b[2:]:
        if isinstance(st, ast.Assign) and isinstance(st.targets[0], ast.Name) and st.targets[0].id == cn:
            (after if seen_test else before).extend(call_chain(rel, st.value, cn))
        elif isinstance(st, ast.If) and not seen_test:
            t = st.test
            if not (isinstance(t, ast.Compare) and T.dotted(t.left) == cn and isinstance(t.ops[0], ast.Is)
                    and is_none(t.comparators[0]) and not st.orelse and isinstance(st.body[-1], ast.Break)):
                T.fail(rel, st, "walk loop exit is not `if Cn is None: ...; break`")
            for x in st.body[:-1]:
                if isinstance(x, ast.Assign) and isinstance(x.value, ast.Constant) and x.value.value is True:
                    sets_flag = x.targets[0].id
                else:
                    T.fail(rel, x, "unexpected statement before break")
            seen_test = True
        else:
            T.fail(rel, st, "unexpected statement in walk loop")
    if not seen_test or not before:
        T.fail(rel, loop, "walk loop has no None test after a step")
    return cn, delta, before, after, sets_flag


def tr_sort(rel, fn):
    body = T.body_nodoc(fn)
    if not (len(body) == 1 and isinstance(body[0], ast.For) and T.dotted(body[0].iter) == "self.mesh.id_vertices"):
        T.fail(rel, fn, "_sort_vertex_neighborhoods is not one loop over self.mesh.id_vertices")
    vA = body[0].target.id
    b = body[0].body
    loops = [st for st in b if isinstance(st, ast.For)]
    ifs = [st for st in b if isinstance(st, ast.If) and any(isinstance(x, ast.For) for x in st.body)]
    if len(loops) != 2 or len(ifs) != 1:
        T.fail(rel, fn, "expected the clockwise loop, `if is_boundary:` with the counter-clockwise loop, and the vertex-key loop")
    # sort_index = dict([(c,0) for c in corners_A]);  Cn = corners_A[0]; ind = 0
    names = {}
    for st in b:
        if isinstance(st, ast.Assign) and isinstance(st.targets[0], ast.Name):
            names[st.targets[0].id] = st.value
    si = [k for k, v in names.items() if isinstance(v, ast.Call) and T.dotted(v.func) == "dict" and v.args
          and isinstance(v.args[0], ast.ListComp)]
    if len(si) != 1:
        T.fail(rel, fn, "sort_index initialisation not found")
    si = si[0]
    lc = names[si].args[0]
    if not (isinstance(lc.elt, ast.Tuple) and len(lc.elt.elts) == 2 and isinstance(lc.elt.elts[1], ast.Constant)
            and lc.elt.elts[1].value == 0):
        T.fail(rel, lc, "sort_index is not initialised with index 0 for every corner")
    corners = T.dotted(lc.generators[0].iter)
    cw_cn, cw_delta, cw_before, cw_after, flag = tr_walk_loop(rel, loops[0], si)
    if cw_after or flag is None:
        T.fail(rel, loops[0], "clockwise loop: unexpected step after the None test / boundary flag not set")
    I = ifs[0]
    if T.dotted(I.test) != flag or I.orelse:
        T.fail(rel, I, "second walk is not guarded by the boundary flag")
    ccw_loop = [st for st in I.body if isinstance(st, ast.For)]
    if len(ccw_loop) != 1:
        T.fail(rel, I, "counter-clockwise loop")
    ccw_cn, ccw_delta, ccw_before, ccw_after, _ = tr_walk_loop(rel, ccw_loop[0], si)
    # starting points: Cn = corners_A[0], ind = 0 before each walk

    def starts(stmts, cn):
        s_cn = s_ind = False
        for st in stmts:
            if isinstance(st, ast.Assign) and isinstance(st.targets[0], ast.Name):
                if st.targets[0].id == cn and isinstance(st.value, ast.Subscript) and T.dotted(st.value.value) == corners \
                        and isinstance(subscript_index(st.value), ast.Constant) and subscript_index(st.value).value == 0:
                    s_cn = True
                if isinstance(st.value, ast.Constant) and st.value.value == 0 and not isinstance(st.value.value, bool):
                    s_ind = True
        return s_cn and s_ind
    if not starts(b, cw_cn) or not starts(I.body, ccw_cn):
        T.fail(rel, fn, "walks do not start at corners_A[0] with index 0")
    # corner sort key and vertex sort key
    sorts = [n for n in ast.walk(body[0]) if isinstance(n, ast.Call) and isinstance(n.func, ast.Attribute) and n.func.attr == "sort"]
    if len(sorts) != 2:
        T.fail(rel, fn, "expected exactly two .sort(key=...) calls")
    sorted_tables = []
    for sc in sorts:
        if sc.args or [k.arg for k in sc.keywords] != ["key"]:
            T.fail(rel, sc, ".sort(...) takes anything but exactly `key=` (e.g. reverse=)")
        lam = sc.keywords[0].value
        ok = isinstance(lam, ast.Lambda) and len(lam.args.args) == 1 and isinstance(lam.body, ast.Subscript) \
            and isinstance(lam.body.value, ast.Name) and isinstance(subscript_index(lam.body), ast.Name) \
            and subscript_index(lam.body).id == lam.args.args[0].arg
        tgt = sc.func.value
        ok = ok and isinstance(tgt, ast.Subscript) and self_attr(tgt.value) in ("_adjV2Cn", "_adjV2V") \
            and isinstance(subscript_index(tgt), ast.Name) and subscript_index(tgt).id == vA
        if not ok:
            T.fail(rel, sc, "sort is not self._adjV2Cn[A].sort(key = lambda c : <index dict>[c]) / self._adjV2V[A].sort(...)")
        sorted_tables.append((self_attr(tgt.value), lam.body.value.id))
    vloop = loops[1]
    vv = vloop.target.id
    ok = len(vloop.body) == 1 and isinstance(vloop.body[0], ast.Assign) and isinstance(vloop.body[0].value, ast.Call) \
        and isinstance(vloop.body[0].value.func, ast.Attribute) and vloop.body[0].value.func.attr == "get" \
        and T.dotted(vloop.body[0].value.func.value) == si and len(vloop.body[0].value.args) == 2
    if ok:
        c = vloop.body[0].value.args[0]
        d = vloop.body[0].value.args[1]
        ok = isinstance(c, ast.Call) and self_attr(c.func) == "half_edge_to_corner" and len(c.args) == 2 \
            and isinstance(d, ast.UnaryOp) and isinstance(d.op, ast.USub) and isinstance(d.operand, ast.Call) \
            and T.dotted(d.operand.func) == "float" and d.operand.args[0].value == "inf"
    if not ok:
        T.fail(rel, vloop, "vertex key is not sort_index.get(self.half_edge_to_corner(A,v), -float('inf'))")
    # the corner sort is keyed by the walk's index dict, the vertex sort by the dict the key loop fills, at key v
    kt = vloop.body[0].targets[0]
    if not (isinstance(kt, ast.Subscript) and isinstance(kt.value, ast.Name) and isinstance(subscript_index(kt), ast.Name)
            and subscript_index(kt).id == vv):
        T.fail(rel, vloop, "vertex key is not stored at sort_indexV[v]")
    if sorted(sorted_tables) != sorted([("_adjV2Cn", si), ("_adjV2V", kt.value.id)]):
        T.fail(rel, fn, "the two sorts are not keyed by the corner index dict / the vertex key dict")
    roles = {vA: "A", vv: "v"}
    if not all(isinstance(x, ast.Name) and x.id in roles for x in c.args):
        T.fail(rel, c, "half_edge_to_corner arguments in the vertex key")
    key = "(%s, %s)" % tuple(roles[x.id] for x in c.args)
    if T.dotted(vloop.iter) != "self._adjV2V[%s]" % vA and not (isinstance(vloop.iter, ast.Subscript) and self_attr(vloop.iter.value) == "_adjV2V"):
        T.fail(rel, vloop, "vertex key loop does not range over self._adjV2V[A]")
    return {"cw": (cw_before, cw_delta), "ccw": (ccw_before, ccw_after, ccw_delta), "vkey": key}


# ---------------------------------------------------------------------- is_edge_on_border
def tr_bexp(rel, e, atoms):
    if isinstance(e, ast.Constant) and isinstance(e.value, bool):
        return "true" if e.value else "false"
    if isinstance(e, ast.BoolOp):
        op = " && " if isinstance(e.op, ast.And) else " || "
        return "(" + op.join(tr_bexp(rel, v, atoms) for v in e.values) + ")"
    if isinstance(e, ast.UnaryOp) and isinstance(e.op, ast.Not):
        return "(negb %s)" % tr_bexp(rel, e.operand, atoms)
    if isinstance(e, ast.Compare) and len(e.ops) == 1 and is_none(e.comparators[0]) and isinstance(e.ops[0], (ast.Is, ast.IsNot)):
        a = atoms(e.left)
        return ("(onone %s)" if isinstance(e.ops[0], ast.Is) else "(negb (onone %s))") % a
    T.fail(rel, e, "boolean expression outside the translated subset")


def tr_is_edge_on_border(rel, fn):
    a = fn.args.args
    if len(a) != 3:
        T.fail(rel, fn, "is_edge_on_border signature")
    u, v = a[1].arg, a[2].arg

    def atoms(e):
        if isinstance(e, ast.Call) and len(e.args) == 2 and all(isinstance(x, ast.Name) for x in e.args):
            d = T.dotted(e.func)
            args = [x.id for x in e.args]
            if d == "self.connectivity.edge_id" and sorted(args) == sorted([u, v]):
                return "eid"
            if d == "self.connectivity.direct_face" and args == [u, v]:
                return "duv"
            if d == "self.connectivity.direct_face" and args == [v, u]:
                return "dvu"
        T.fail(rel, e, "is_edge_on_border: unknown term")
    body = T.body_nodoc(fn)
    if lazy_if(body[0]) is not None if body else False:
        T.fail(rel, fn, "is_edge_on_border acquired a lazy guard (the model has none)")
    out = None
    for st in reversed(body):
        if isinstance(st, ast.Return) and out is None:
            out = tr_bexp(rel, st.value, atoms)
        elif isinstance(st, ast.If) and not st.orelse and len(st.body) == 1 and isinstance(st.body[0], ast.Return) and out is not None:
            out = "(if %s then %s else %s)" % (tr_bexp(rel, st.test, atoms), tr_bexp(rel, st.body[0].value, atoms), out)
        else:
            T.fail(rel, st, "is_edge_on_border: statement outside `if b: return b` / `return b`")
    if out is None:
        T.fail(rel, fn, "is_edge_on_border has no return")
    return out


# ---------------------------------------------------------------------- main
def gen():
    ssrc, stree = T.load(SURF)
    lsrc, ltree = T.load(LIN)
    parts = []
    L = []
    L.append("From Coq Require Import ZArith List Bool.\nImport ListNotations.\nRequire Import MV.C01.Defs.\nOpen Scope Z_scope.\n")

    def opt_guard(g):
        if g is None:
            return "None"
        a, k = g
        if k not in COMP1:
            raise TranslationError("guard calls %s, not one of the connectivity computations" % k)
        return "Some (%s, %s)" % (ATTR[a], COMP1[k])

    L.append("(* lazy guards: accessor -> Some (attribute tested for None, method called to compute it) *)")
    rests = {}
    for rel, tree, src, cls, table in ((LIN, ltree, lsrc, "PolyLine._Connectivity", LIN_ACC),
                                       (SURF, stree, ssrc, "SurfaceMesh._Connectivity", SURF_ACC)):
        for name, (reads, calls) in table.items():
            fn = T.find_def(tree, cls + "." + name, rel)
            parts.append((cls + "." + name, T.sha(src, fn)))
            g, rest = guard_and_rest(rel, fn)
            r, c = reads_and_calls(rest)
            calls = {x for x in calls if not x.startswith("_compute")}   # the guard itself is translated, not assumed
            if r != reads or c != calls:
                T.fail(rel, fn, "%s reads %s / calls %s; the model assumes reads %s / calls %s"
                       % (name, sorted(r), sorted(c), sorted(reads), sorted(calls)))
            rests[name] = (rel, fn, rest)
            L.append("Definition guard_%s : option (attr * comp1) := %s." % (name, opt_guard(g)))
    L.append("\n(* SurfaceMesh border accessors: attribute tested before _compute_interior_boundary_edges / _vertices is called *)")
    for name, (comp, reads) in MESH_ACC.items():
        fn = T.find_def(stree, "SurfaceMesh." + name, SURF)
        parts.append(("SurfaceMesh." + name, T.sha(ssrc, fn)))
        g, rest = guard_and_rest(SURF, fn)
        r, c = reads_and_calls(rest)
        if g is not None and g[1] != comp:
            T.fail(SURF, fn, "%s computes with %s, the model assumes %s" % (name, g[1], comp))
        if r != reads or c:
            T.fail(SURF, fn, "%s reads %s / calls %s; the model assumes reads %s and no calls" % (name, sorted(r), sorted(c), sorted(reads)))
        L.append("Definition gattr_%s : option attr := %s." % (name, "None" if g is None else "Some " + ATTR[g[0]]))

    L.append("\n(* attributes assigned by each compute method / reset by each clear method *)")
    pl_cc = T.find_def(ltree, "PolyLine._Connectivity._compute_connectivity", LIN)
    sm_cc = T.find_def(stree, "SurfaceMesh._Connectivity._compute_connectivity", SURF)
    if not calls_super(sm_cc, "_compute_connectivity"):
        T.fail(SURF, sm_cc, "_compute_connectivity no longer calls super()._compute_connectivity()")
    parts.append(("PolyLine._Connectivity._compute_connectivity", T.sha(lsrc, pl_cc)))
    parts.append(("SurfaceMesh._Connectivity._compute_connectivity", T.sha(ssrc, sm_cc)))
    sets_cc = assigned_attrs(LIN, pl_cc)
    for a in assigned_attrs(SURF, sm_cc):
        if a not in sets_cc:
            sets_cc.append(a)
    L.append("Definition sets_connectivity : list attr := [%s]." % "; ".join(sets_cc))
    L.append("Definition sets_edge_id : list attr := [%s]." % "; ".join(
        assigned_attrs(LIN, T.find_def(ltree, "PolyLine._Connectivity._compute_edge_id", LIN))))
    L.append("Definition sets_face_ids : list attr := [%s]." % "; ".join(
        assigned_attrs(SURF, T.find_def(stree, "SurfaceMesh._Connectivity._compute_face_ids", SURF))))
    ibe = T.find_def(stree, "SurfaceMesh._compute_interior_boundary_edges", SURF)
    ibv = T.find_def(stree, "SurfaceMesh._compute_interior_boundary_vertices", SURF)
    parts.append(("SurfaceMesh._compute_interior_boundary_edges", T.sha(ssrc, ibe)))
    parts.append(("SurfaceMesh._compute_interior_boundary_vertices", T.sha(ssrc, ibv)))
    L.append("Definition sets_ib_edges : list attr := [%s]." % "; ".join(assigned_attrs(SURF, ibe)))
    L.append("Definition sets_ib_vertices : list attr := [%s]." % "; ".join(assigned_attrs(SURF, ibv)))
    pl_cl = T.find_def(ltree, "PolyLine._Connectivity.clear", LIN)
    sm_cl = T.find_def(stree, "SurfaceMesh._Connectivity.clear", SURF)
    if not calls_super(sm_cl, "clear"):
        T.fail(SURF, sm_cl, "clear no longer calls super().clear()")
    cl = assigned_attrs(LIN, pl_cl, only_none=True)
    for a in assigned_attrs(SURF, sm_cl, only_none=True):
        if a not in cl:
            cl.append(a)
    L.append("Definition clears_connectivity : list attr := [%s]." % "; ".join(cl))
    L.append("Definition clears_boundary : list attr := [%s]." % "; ".join(
        assigned_attrs(SURF, T.find_def(stree, "SurfaceMesh.clear_boundary_data", SURF), only_none=True)))

    # ---- no decorator (memoisation, wrappers) on any anchored method, only immutable defaults, caches start as None
    LAZY_INIT = {"PolyLine._Connectivity.__init__": (LIN, ltree, {"_edge_id", "_adjV2V"}),
                 "SurfaceMesh._Connectivity.__init__": (SURF, stree, {"_half_edges", "_Cn2he", "_adjVF2Cn", "_adjV2Cn", "_adjF2Cn", "_face_id"}),
                 "SurfaceMesh.__init__": (SURF, stree, {"_boundary_edges", "_interior_edges", "_is_vertex_on_border",
                                                        "_boundary_vertices", "_interior_vertices"})}
    PROPS = {"interior_edges", "boundary_edges", "boundary_vertices", "interior_vertices"}
    for rel, tree, cls in ((LIN, ltree, "PolyLine._Connectivity"), (SURF, stree, "SurfaceMesh._Connectivity"), (SURF, stree, "SurfaceMesh")):
        cnode = T.find_def(tree, cls, rel)
        for fnn in cnode.body:
            if not isinstance(fnn, ast.FunctionDef):
                continue
            decos = [T.dotted(d) if not isinstance(d, ast.Call) else T.dotted(d.func) for d in fnn.decorator_list]
            allowed = ["property"] if (cls == "SurfaceMesh" and fnn.name in PROPS | {"id_vertices", "id_edges", "id_faces", "id_corners"}) else []
            if decos != allowed:
                T.fail(rel, fnn, "%s.%s carries decorator(s) %s (the model knows none: a cache or wrapper changes what a call returns)"
                       % (cls, fnn.name, decos))
            for dflt in fnn.args.defaults + [d for d in fnn.args.kw_defaults if d is not None]:
                if not (isinstance(dflt, ast.Constant) and (dflt.value is None or isinstance(dflt.value, (bool, int)))):
                    T.fail(rel, fnn, "%s.%s has a default argument that is not None / an immutable constant" % (cls, fnn.name))
    inits = []
    for qn, (rel, tree, want) in LAZY_INIT.items():
        fnn = T.find_def(tree, qn, rel)
        got = set()
        for n in ast.walk(fnn):
            tg = None
            if isinstance(n, ast.Assign) and len(n.targets) == 1:
                tg, val = n.targets[0], n.value
            elif isinstance(n, ast.AnnAssign) and n.value is not None:
                tg, val = n.target, n.value
            if tg is not None and self_attr(tg) in ATTR:
                if not is_none(val):
                    T.fail(rel, n, "%s initialises the lazy attribute %s with something else than None" % (qn, self_attr(tg)))
                got.add(self_attr(tg))
        if got != want:
            T.fail(rel, fnn, "%s initialises %s to None, the model's fresh cache assumes %s" % (qn, sorted(got), sorted(want)))
        inits += sorted(ATTR[a] for a in got)
    if not calls_super(T.find_def(stree, "SurfaceMesh._Connectivity.__init__", SURF), "__init__"):
        T.fail(SURF, stree, "SurfaceMesh._Connectivity.__init__ no longer calls super().__init__")
    L.append("\n(* attributes the constructors initialise to None (the fresh cache of the model) *)")
    L.append("Definition inits_none : list attr := [%s]." % "; ".join(inits))

    cc = tr_compute_connectivity(SURF, sm_cc)
    L.append("\n(* _compute_connectivity: the half-edge record and its index arithmetic *)")
    L.append("Definition he_idx_prev (iV n : Z) : Z := %s." % cc["idx_prev"])
    L.append("Definition he_idx_next (iV n : Z) : Z := %s." % cc["idx_next"])
    L.append("Definition he_key (P Pprev Pnext : Z) : Z * Z := %s." % cc["he_key"])
    L.append("Definition he_record (iC iCprev iCnext iF iV n : Z) : herec :=\n  [%s]." % "; ".join(cc["rec"]))
    L.append("Definition cn2he_key (iC iCprev iCnext : Z) : Z := %s." % cc["c2h_key"])
    L.append("Definition cn2he_val (P Pprev Pnext : Z) : Z * Z := %s." % cc["c2h_val"])
    L.append("Definition opp_read_slot : nat := %d%%nat." % cc["opp_read"])
    L.append("Definition opp_write_slot : nat := %d%%nat." % cc["opp_write"])

    L.append("\n(* slots of the half-edge record read by the accessors, and the keys they look up *)")
    for name in ("previous_corner", "next_corner", "opposite_corner"):
        rel, fn, rest = rests[name]
        L.append("Definition slot_%s : nat := %d%%nat." % (name, tr_corner_accessor(rel, fn, rest)))
    rel, fn, rest = rests["half_edge_to_corner"]
    key, k = tr_half_edge_to_corner(rel, fn, rest)
    L.append("Definition slot_half_edge_to_corner : nat := %d%%nat." % k)
    L.append("Definition key_half_edge_to_corner (u v : Z) : Z * Z := %s." % key)
    rel, fn, rest = rests["direct_face"]
    key, k, kfrom = tr_direct_face(rel, fn, rest)
    L.append("Definition slot_direct_face : nat := %d%%nat." % k)
    L.append("Definition slot_direct_face_from : nat := %d%%nat." % kfrom)
    L.append("Definition key_direct_face (u v : Z) : Z * Z := %s." % key)

    sfn = T.find_def(stree, "SurfaceMesh._Connectivity._sort_vertex_neighborhoods", SURF)
    parts.append(("SurfaceMesh._Connectivity._sort_vertex_neighborhoods", T.sha(ssrc, sfn)))
    so = tr_sort(SURF, sfn)
    L.append("\n(* _sort_vertex_neighborhoods: the two walks (steps applied left to right) and their index increments *)")
    L.append("Definition cw_steps : list wstep := [%s]." % "; ".join(so["cw"][0]))
    L.append("Definition cw_delta : Z := %s." % (so["cw"][1] if so["cw"][1] >= 0 else "(%d)" % so["cw"][1]))
    L.append("Definition ccw_steps_before_test : list wstep := [%s]." % "; ".join(so["ccw"][0]))
    L.append("Definition ccw_steps_after_test : list wstep := [%s]." % "; ".join(so["ccw"][1]))
    L.append("Definition ccw_delta : Z := %s." % (so["ccw"][2] if so["ccw"][2] >= 0 else "(%d)" % so["ccw"][2]))
    L.append("Definition key_vertex_sort (A v : Z) : Z * Z := %s." % so["vkey"])

    bfn = T.find_def(stree, "SurfaceMesh.is_edge_on_border", SURF)
    parts.append(("SurfaceMesh.is_edge_on_border", T.sha(ssrc, bfn)))
    L.append("\n(* SurfaceMesh.is_edge_on_border over eid = edge_id(u,v), duv = direct_face(u,v), dvu = direct_face(v,u) *)")
    L.append("Definition edge_on_border_expr (eid duv dvu : option Z) : bool :=\n  %s." % tr_is_edge_on_border(SURF, bfn))

    L += TB.gen_linear(LIN, ltree, rests)
    L += TB.gen_surface(SURF, stree, rests)
    L += TB.gen_border(SURF, stree)

    out = T.header("C01: lazy guards, half-edge record layout, slots, walk steps, border predicate "
                   "(surface.py, linear.py)", parts)
    return {"C01/Gen.v": out + "\n".join(L) + "\n"}
