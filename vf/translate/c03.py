"""volume.py / mesh_data.py / geometry.py (+ the inherited __init__s) -> coq/theories/C03/Gen.v, GenR.v

Extracted (fail closed: any other shape raises TranslationError, the tie to the source is then broken):
  * the tetrahedron face tables (mesh_data._complete_faces_from_cells, ._generate_cell_faces,
    volume._compute_adjacent_cell) with their unpacking order;
  * the index expressions `C[:i] + C[i+1:]` (volume._compute_cell_adj, .in_cell_face_index), the arity test and range;
  * the comparisons `n<2` (is_face_on_border), `len(..) != 2` (other_face_side), `(i+1)%n`
    (_compute_interior_boundary_edges);
  * the orientation test of _extract_surface_boundary: determinant arguments, comparison, both emitted triples;
  * geometry.det_3x3 (rule of Sarrus) over Z and over R;
  * the lazy-cache discipline: attributes created in the __init__ chain, (accessor -> attribute tested, compute method
    called) and (compute method -> attributes assigned), for VolumeMesh._Connectivity and for VolumeMesh itself.
"""
import ast

from . import common as T
from ..core import TranslationError

VOL = "mouette/mesh/datatypes/volume.py"
SURF = "mouette/mesh/datatypes/surface.py"
LIN = "mouette/mesh/datatypes/linear.py"
DATA = "mouette/mesh/mesh_data.py"
GEO = "mouette/geometry/geometry.py"
BORD = "mouette/processing/border.py"


def names_of_tuple(node, rel):
    if not isinstance(node, ast.Tuple) or not all(isinstance(e, ast.Name) for e in node.elts):
        T.fail(rel, node, "expected a tuple of names")
    return [e.id for e in node.elts]


def walk_stmts(body):
    for st in body:
        yield st
        for attr in ("body", "orelse"):
            sub = getattr(st, attr, None)
            if isinstance(sub, list):
                yield from walk_stmts(sub)


def len_eq_const(test, rel):
    """`len(X) == k` -> (dotted/str of X, k)"""
    if not (isinstance(test, ast.Compare) and len(test.ops) == 1 and isinstance(test.ops[0], ast.Eq)
            and isinstance(test.left, ast.Call) and T.dotted(test.left.func) == "len" and len(test.left.args) == 1
            and isinstance(test.comparators[0], ast.Constant) and isinstance(test.comparators[0].value, int)):
        return None
    return ast.unparse(test.left.args[0]), test.comparators[0].value


def find_tet_table(fn, rel, src):
    """In fn: the branch `if/elif len(C)==4:` that unpacks 4 names from the cell and binds `faces_C = [ (..)*4 ]`."""
    for st in walk_stmts(fn.body):
        if isinstance(st, ast.If):
            le = len_eq_const(st.test, rel)
            if le and le[1] == 4:
                names, table = None, None
                for s2 in st.body:
                    if isinstance(s2, ast.Assign) and isinstance(s2.targets[0], ast.Tuple):
                        names = names_of_tuple(s2.targets[0], rel)
                        if ast.unparse(s2.value) != le[0]:
                            T.fail(rel, s2, "the 4 names are not unpacked from the cell whose length was tested")
                    elif isinstance(s2, ast.Assign) and isinstance(s2.targets[0], ast.Name) \
                            and isinstance(s2.value, ast.List):
                        table = [names_of_tuple(e, rel) for e in s2.value.elts]
                    else:
                        T.fail(rel, s2, "unexpected statement in the tetrahedron branch")
                if names is None or table is None or len(names) != 4:
                    T.fail(rel, st, "tetrahedron branch without `v0,v1,v2,v3 = C` / `faces_C = [...]`")
                return names, table
    T.fail(rel, fn, "no `len(C)==4` branch found")


def emit_table(defname, names, table, rel, node):
    for row in table:
        if len(row) != 3 or any(x not in names for x in row):
            T.fail(rel, node, "face table row %s is not a triple of the cell's vertices" % (row,))
    if len(table) != 4:
        T.fail(rel, node, "face table does not have 4 rows")
    pos = {n: "v%d" % i for i, n in enumerate(names)}
    rows = "; ".join("[" + "; ".join(pos[x] for x in row) + "]" for row in table)
    return "Definition %s (v0 v1 v2 v3 : nat) : list (list nat) :=\n  [%s].\n" % (defname, rows)


def nat_expr(e, rel, env):
    """integer expression over names in env (non-negative; + * % only, and - is refused) -> Gallina nat term"""
    if isinstance(e, ast.Constant) and isinstance(e.value, int) and not isinstance(e.value, bool) and e.value >= 0:
        return str(e.value)
    if isinstance(e, ast.Name) and e.id in env:
        return env[e.id]
    if isinstance(e, ast.BinOp) and isinstance(e.op, (ast.Add, ast.Mult, ast.Mod)):
        op = {ast.Add: "+", ast.Mult: "*", ast.Mod: "mod"}[type(e.op)]
        return "(%s %s %s)" % (nat_expr(e.left, rel, env), op, nat_expr(e.right, rel, env))
    T.fail(rel, e, "unsupported index expression")


def unwrap_seq(e):
    """tuple(X) / list(X) -> X"""
    while isinstance(e, ast.Call) and T.dotted(e.func) in ("tuple", "list") and len(e.args) == 1 and not e.keywords:
        e = e.args[0]
    return e


def slice_concat(e, rel, base_src, env):
    """`X[:a] + X[b:]` (each side optionally wrapped in tuple()/list()) over the sequence whose source is base_src"""
    e = unwrap_seq(e)
    if isinstance(e, ast.BinOp) and isinstance(e.op, ast.Add):
        return "%s ++ %s" % (slice_concat(e.left, rel, base_src, env), slice_concat(e.right, rel, base_src, env))
    if isinstance(e, ast.Subscript) and isinstance(e.slice, ast.Slice) and e.slice.step is None \
            and ast.unparse(e.value) == base_src:
        lo, hi = e.slice.lower, e.slice.upper
        if lo is None and hi is not None:
            return "firstn %s C" % nat_expr(hi, rel, env)
        if lo is not None and hi is None:
            return "skipn %s C" % nat_expr(lo, rel, env)
        if lo is not None and hi is not None:
            l, h = nat_expr(lo, rel, env), nat_expr(hi, rel, env)
            return "firstn (%s - %s) (skipn %s C)" % (h, l, l)
        return "C"
    T.fail(rel, e, "not a concatenation of slices of " + base_src)


CMPN = {ast.Lt: "%s <? %s", ast.LtE: "%s <=? %s", ast.Gt: "%s <? %s", ast.GtE: "%s <=? %s", ast.Eq: "%s =? %s",
        ast.NotEq: "negb (%s =? %s)"}


def nat_cmp(test, rel, env):
    if not (isinstance(test, ast.Compare) and len(test.ops) == 1 and type(test.ops[0]) in CMPN):
        T.fail(rel, test, "unsupported comparison")
    a, b = nat_expr(test.left, rel, env), nat_expr(test.comparators[0], rel, env)
    if isinstance(test.ops[0], (ast.Gt, ast.GtE)):
        a, b = b, a
    return CMPN[type(test.ops[0])] % (a, b)


# ---------------------------------------------------------------------- lazy-cache tables
def init_fields(cls, rel):
    fn = T.find_def(cls, "__init__", rel)
    out = []
    for st in walk_stmts(fn.body):
        tg = None
        if isinstance(st, ast.Assign) and len(st.targets) == 1:
            tg = st.targets[0]
        elif isinstance(st, ast.AnnAssign):
            tg = st.target
        if tg is not None:
            d = T.dotted(tg)
            if d and d.startswith("self.") and d.count(".") == 1:
                out.append(d[5:])
    return out


def lazy_guard(fn):
    """`if self._X is None: self._compute_Y()` among the leading statements of an accessor -> [(X, Y)]"""
    out = []
    for st in T.body_nodoc(fn):
        if isinstance(st, ast.If) and isinstance(st.test, ast.Compare) and len(st.test.ops) == 1 \
                and isinstance(st.test.ops[0], ast.Is) and isinstance(st.test.comparators[0], ast.Constant) \
                and st.test.comparators[0].value is None and not st.orelse and len(st.body) == 1:
            fld = T.dotted(st.test.left)
            b = st.body[0]
            if fld and fld.startswith("self.") and isinstance(b, ast.Expr) and isinstance(b.value, ast.Call) \
                    and not b.value.args:
                callee = T.dotted(b.value.func)
                if callee and callee.startswith("self."):
                    out.append((fld[5:], callee[5:]))
                    continue
            if fld and fld.startswith("self.") and isinstance(b, ast.Assign) and T.dotted(b.targets[0]) == fld:
                out.append((fld[5:], "<inline:%s>" % fn.name))   # `if self._X is None: self._X = dict()`
                continue
        break
    return out


def assigned_fields(fn):
    out = []
    for node in ast.walk(fn):
        tgs = []
        if isinstance(node, ast.Assign):
            tgs = node.targets
        elif isinstance(node, ast.AnnAssign):
            tgs = [node.target]
        for tg in tgs:
            for t in (tg.elts if isinstance(tg, ast.Tuple) else [tg]):
                d = T.dotted(t)
                if d and d.startswith("self.") and d.count(".") == 1 and d[5:] not in out:
                    out.append(d[5:])
    return out


def calls_super_same(fn):
    for node in ast.walk(fn):
        if isinstance(node, ast.Call) and isinstance(node.func, ast.Attribute) and node.func.attr == fn.name \
                and isinstance(node.func.value, ast.Call) and T.dotted(node.func.value.func) == "super":
            return True
    return False


def methods(cls):
    return {n.name: n for n in cls.body if isinstance(n, ast.FunctionDef)}


def cache_tables(chain, accessors, rel):
    """chain: list of class nodes, most derived first. accessors: names to look up along the chain."""
    fields = []
    for cls in reversed(chain):
        for f in init_fields(cls, rel):
            if f not in fields:
                fields.append(f)

    def resolve(name):
        for k, cls in enumerate(chain):
            m = methods(cls)
            if name in m:
                return k, m[name]
        raise TranslationError("%s: method %s not found along the class chain" % (rel, name))

    guards, assigns = [], {}
    for a in accessors:
        _, fn = resolve(a)
        for fld, comp in lazy_guard(fn):
            guards.append((a, fld, comp))
            if comp.startswith("<inline:"):
                assigns[comp] = [fld]
                continue
            if comp not in assigns:
                k, cf = resolve(comp)
                got = assigned_fields(cf)
                while calls_super_same(cf):
                    found = False
                    for cls in chain[k + 1:]:
                        k += 1
                        if comp in methods(cls):
                            cf = methods(cls)[comp]
                            got += [x for x in assigned_fields(cf) if x not in got]
                            found = True
                            break
                    if not found:
                        raise TranslationError("%s: super().%s() has no target" % (rel, comp))
                assigns[comp] = got
    return fields, guards, assigns


def coq_strs(l):
    return "[" + "; ".join('"%s"' % s for s in l) + "]%string"


def emit_cache(prefix, fields, guards, assigns):
    g = "; ".join('("%s", ("%s", "%s"))' % t for t in guards)
    a = "; ".join('("%s", %s)' % (k, "[" + "; ".join('"%s"' % s for s in v) + "]") for k, v in assigns.items())
    return ("Definition %s_init_fields : list string := %s.\n" % (prefix, coq_strs(fields))
            + "Definition %s_guards : list (string * (string * string)) := [%s]%%string.\n" % (prefix, g)
            + "Definition %s_assigns : list (string * list string) := [%s]%%string.\n" % (prefix, a))


CONN_ACCESSORS = ["face_to_cells", "cell_to_face", "cell_to_cell", "vertex_to_cell", "edge_to_face", "edge_to_cell",
                  "face_id", "edge_id", "n_F2C", "other_face_side", "common_face", "cell_to_vertex", "in_cell_index",
                  "in_cell_face_index", "cell_to_edge", "face_to_edges"]
MESH_ACCESSORS = ["boundary_faces", "interior_faces", "boundary_edges", "interior_edges", "boundary_vertices",
                  "interior_vertices", "is_vertex_on_border", "is_edge_on_border", "is_face_on_border"]


# ---------------------------------------------------------------------- det_3x3 and the orientation test
def sarrus(fn, rel):
    """det_3x3: the 3-argument form stacks its arguments as rows; `d = <polynomial in mat[i,j]>`; `return d`"""
    body = T.body_nodoc(fn)
    rows_ok = False
    expr = None
    for st in walk_stmts(body):
        if isinstance(st, ast.Assign) and isinstance(st.targets[0], ast.Tuple) and ast.unparse(st.value) == "(args[0], args[1], args[2])":
            abc = names_of_tuple(st.targets[0], rel)
            want = "np.array([%s, %s, %s])" % tuple(abc)
            for s2 in walk_stmts(body):
                if isinstance(s2, ast.Assign) and ast.unparse(s2.targets[0]) == "mat" and ast.unparse(s2.value) == want:
                    rows_ok = True
        if isinstance(st, ast.Assign) and ast.unparse(st.targets[0]) == "d":
            expr = st.value
    if not rows_ok:
        T.fail(rel, fn, "det_3x3: arguments are not stacked as the rows of `mat`")
    if expr is None or not (isinstance(body[-1], ast.Return) and ast.unparse(body[-1].value) == "d"):
        T.fail(rel, fn, "det_3x3: no `d = ...; return d`")

    def tr(e):
        if isinstance(e, ast.BinOp) and isinstance(e.op, (ast.Add, ast.Sub, ast.Mult)):
            return "(%s %s %s)" % (tr(e.left), {ast.Add: "+", ast.Sub: "-", ast.Mult: "*"}[type(e.op)], tr(e.right))
        if isinstance(e, ast.UnaryOp) and isinstance(e.op, ast.USub):
            return "(- %s)" % tr(e.operand)
        if isinstance(e, ast.Subscript) and ast.unparse(e.value) == "mat" and isinstance(e.slice, ast.Tuple) \
                and len(e.slice.elts) == 2 and all(isinstance(x, ast.Constant) and x.value in (0, 1, 2) for x in e.slice.elts):
            return "m%d%d" % (e.slice.elts[0].value, e.slice.elts[1].value)
        T.fail(rel, e, "det_3x3: unsupported term")
    return tr(expr)


def orientation(fn, rel):
    """_extract_surface_boundary: names bound to positions / surface ids of the face's vertices, the 4th vertex, the
    test `det_3x3(X-Y, ..) <cmp> 0` and the two appended triples."""
    pnames = bnames = pD = Dname = None
    test_if = None
    for st in ast.walk(fn):
        if isinstance(st, ast.Assign) and isinstance(st.targets[0], ast.Tuple) and isinstance(st.value, ast.GeneratorExp):
            g = st.value
            if len(g.generators) == 1 and not g.generators[0].ifs \
                    and ast.unparse(g.generators[0].iter) == "self.complete_mesh.faces[iF]" \
                    and isinstance(g.generators[0].target, ast.Name):
                var = g.generators[0].target.id
                elt = ast.unparse(g.elt)
                if elt == "self.complete_mesh.vertices[%s]" % var:
                    pnames = names_of_tuple(st.targets[0], rel)
                elif elt == "self.m2b_vertex[%s]" % var:
                    bnames = names_of_tuple(st.targets[0], rel)
        if isinstance(st, ast.Assign) and isinstance(st.targets[0], ast.Name) and isinstance(st.value, ast.Subscript):
            u = ast.unparse(st.value)
            if u == "[x for x in self.complete_mesh.cells[iC] if x not in self.complete_mesh.faces[iF]][0]":
                Dname = st.targets[0].id
            if Dname and u == "self.complete_mesh.vertices[%s]" % Dname:
                pD = st.targets[0].id
        if isinstance(st, ast.If) and isinstance(st.test, ast.Compare) and isinstance(st.test.left, ast.Call) \
                and T.dotted(st.test.left.func) == "det_3x3":
            test_if = st
    has_ic = any(isinstance(st, ast.Assign) and ast.unparse(st.targets[0]) == "iC"
                 and ast.unparse(st.value) == "self.complete_mesh.connectivity.face_to_cells(iF)[0]" for st in ast.walk(fn))
    if not (pnames and bnames and pD and Dname and test_if is not None and has_ic) or len(pnames) != 3 or len(bnames) != 3:
        T.fail(rel, fn, "orientation block of _extract_surface_boundary not recognised")
    cmpn = test_if.test
    if not (len(cmpn.ops) == 1 and isinstance(cmpn.comparators[0], ast.Constant) and cmpn.comparators[0].value == 0
            and type(cmpn.ops[0]) in (ast.Gt, ast.GtE, ast.Lt, ast.LtE)):
        T.fail(rel, cmpn, "orientation test is not `det_3x3(...) <cmp> 0`")
    pmap = dict(zip(pnames, ["pA", "pB", "pC"]))
    pmap[pD] = "pD"
    args = []
    if len(cmpn.left.args) != 3:
        T.fail(rel, cmpn, "det_3x3 is not called with three vectors")
    for a in cmpn.left.args:
        if isinstance(a, ast.BinOp) and isinstance(a.op, ast.Sub) and isinstance(a.left, ast.Name) \
                and isinstance(a.right, ast.Name) and a.left.id in pmap and a.right.id in pmap:
            args.append((pmap[a.left.id], pmap[a.right.id]))
        else:
            T.fail(rel, a, "argument of det_3x3 is not a difference of two of the four positions")
    op = type(cmpn.ops[0])

    def appended(body):
        if len(body) == 1 and isinstance(body[0], ast.Expr) and isinstance(body[0].value, ast.Call) \
                and ast.unparse(body[0].value.func) == "boundary.faces.append" and len(body[0].value.args) == 1:
            t = names_of_tuple(body[0].value.args[0], rel)
            if len(t) == 3 and all(x in bnames for x in t):
                bm = dict(zip(bnames, ["bA", "bB", "bC"]))
                return [bm[x] for x in t]
        T.fail(rel, test_if, "branch of the orientation test does not append a triple of the face's surface ids")
    return args, op, appended(test_if.body), appended(test_if.orelse)


def enum_dict_entries(fn, rel, iter_src, wanted):
    """`for i, x in enumerate(<iter_src>): ... D[k] = v ...` with k, v in {i, x}: {dict name: Gallina pair in (i, x)}"""
    out = {}
    for st in ast.walk(fn):
        if isinstance(st, ast.For) and isinstance(st.iter, ast.Call) and T.dotted(st.iter.func) == "enumerate" \
                and len(st.iter.args) == 1 and ast.unparse(st.iter.args[0]) == iter_src \
                and isinstance(st.target, ast.Tuple) and len(st.target.elts) == 2 \
                and all(isinstance(e, ast.Name) for e in st.target.elts):
            iv, xv = st.target.elts[0].id, st.target.elts[1].id
            nm = {iv: "i", xv: "x"}
            for s2 in st.body:
                if isinstance(s2, ast.Assign) and len(s2.targets) == 1 and isinstance(s2.targets[0], ast.Subscript):
                    d = ast.unparse(s2.targets[0].value)
                    if d in wanted:
                        k, v = s2.targets[0].slice, s2.value
                        if not (isinstance(k, ast.Name) and isinstance(v, ast.Name) and k.id in nm and v.id in nm):
                            T.fail(rel, s2, "dict entry is not D[i|x] = i|x")
                        if d in out:
                            T.fail(rel, s2, "dict %s assigned twice" % d)
                        out[d] = "(%s, %s)" % (nm[k.id], nm[v.id])
    missing = [d for d in wanted if d not in out]
    if missing:
        T.fail(rel, fn, "enumerate(%s) loop does not fill %s" % (iter_src, missing))
    return out


def standalone_extractor(fn, rel):
    """extract_boundary_of_volume: vertex dicts, face tuple order, orientation guard / test / flipped tuple"""
    ent = enum_dict_entries(fn, rel, "vertex_set", ["map_m2b", "map_b2m"])
    loop = None
    for st in ast.walk(fn):
        if isinstance(st, ast.For) and ast.unparse(st.iter) == "enumerate(bound.faces)" and ast.unparse(st.target) == "(i, iF)":
            loop = st
    if loop is None:
        T.fail(rel, fn, "`for i, iF in enumerate(bound.faces)` not found")
    b = loop.body
    if not (len(b) == 4 and isinstance(b[0], ast.Assign) and ast.unparse(b[0].targets[0]) == "face"
            and ast.unparse(b[1]) == "cells_iF = mesh.connectivity.face_to_cells(iF)"
            and isinstance(b[2], ast.If) and not b[2].orelse and ast.unparse(b[3]) == "bound.faces[i] = face"):
        T.fail(rel, loop, "face loop of extract_boundary_of_volume not recognised")
    # face = tuple((map_m2b[v] for v in <order>(mesh.faces[iF])))
    v0 = b[0].value
    if not (isinstance(v0, ast.Call) and T.dotted(v0.func) == "tuple" and len(v0.args) == 1 and isinstance(v0.args[0], ast.GeneratorExp)):
        T.fail(rel, b[0], "face is not tuple(generator)")
    g = v0.args[0]
    if not (len(g.generators) == 1 and not g.generators[0].ifs and isinstance(g.generators[0].target, ast.Name)
            and ast.unparse(g.elt) == "map_m2b[%s]" % g.generators[0].target.id):
        T.fail(rel, b[0], "face generator is not map_m2b[v] for v in ...")
    it = ast.unparse(g.generators[0].iter)
    if it == "mesh.faces[iF]":
        order = "l"
    elif it == "reversed(mesh.faces[iF])":
        order = "rev l"
    else:
        T.fail(rel, b[0], "face vertices are not taken from mesh.faces[iF] in (reversed) order")
    # guard
    gd = b[2].test
    if not (isinstance(gd, ast.BoolOp) and isinstance(gd.op, ast.And) and len(gd.values) == 2):
        T.fail(rel, gd, "orientation guard is not `A and B`")
    env = {}
    parts = []
    for t in gd.values:
        if not (isinstance(t, ast.Compare) and isinstance(t.left, ast.Call) and T.dotted(t.left.func) == "len"
                and ast.unparse(t.left.args[0]) in ("face", "cells_iF")):
            T.fail(rel, t, "guard conjunct is not len(face|cells_iF) <cmp> k")
        nm = {"face": "nface", "cells_iF": "ncells"}[ast.unparse(t.left.args[0])]
        fake = ast.Compare(left=ast.Name(id=nm), ops=t.ops, comparators=t.comparators)
        parts.append(nat_cmp(fake, rel, {"nface": "nface", "ncells": "ncells"}))
    guard = "(%s) && (%s)" % tuple(parts)
    ib = b[2].body
    want = ["iC = cells_iF[0]", "pA, pB, pC = (mesh.vertices[_x] for _x in mesh.faces[iF])",
            "D = [x for x in mesh.cells[iC] if x not in mesh.faces[iF]][0]", "pD = mesh.vertices[D]"]
    if len(ib) != 5 or [ast.unparse(x) for x in ib[:4]] != want or not isinstance(ib[4], ast.If) or ib[4].orelse:
        T.fail(rel, b[2], "orientation block of extract_boundary_of_volume not recognised")
    tst = ib[4].test
    neg = False
    if isinstance(tst, ast.UnaryOp) and isinstance(tst.op, ast.Not):
        neg, tst = True, tst.operand
    if not (isinstance(tst, ast.Compare) and len(tst.ops) == 1 and isinstance(tst.left, ast.Call)
            and T.dotted(tst.left.func) == "det_3x3" and len(tst.left.args) == 3
            and isinstance(tst.comparators[0], ast.Constant) and tst.comparators[0].value == 0
            and type(tst.ops[0]) in (ast.Gt, ast.GtE, ast.Lt, ast.LtE)):
        T.fail(rel, tst, "flip test is not [not] det_3x3(..) <cmp> 0")
    pm = {"pA": "pA", "pB": "pB", "pC": "pC", "pD": "pD"}
    args = []
    for a in tst.left.args:
        if isinstance(a, ast.BinOp) and isinstance(a.op, ast.Sub) and isinstance(a.left, ast.Name) \
                and isinstance(a.right, ast.Name) and a.left.id in pm and a.right.id in pm:
            args.append("(vsub3 %s %s)" % (a.left.id, a.right.id))
        else:
            T.fail(rel, a, "argument of det_3x3 is not a difference of two of the four positions")
    zt = {ast.Gt: "(0 <? %s)%%Z", ast.GtE: "(0 <=? %s)%%Z", ast.Lt: "(%s <? 0)%%Z", ast.LtE: "(%s <=? 0)%%Z"}[type(tst.ops[0])]
    test = zt % ("det_3x3 " + " ".join(args))
    if neg:
        test = "negb %s" % test
    fl = ib[4].body
    if not (len(fl) == 1 and isinstance(fl[0], ast.Assign) and ast.unparse(fl[0].targets[0]) == "face"
            and isinstance(fl[0].value, ast.Tuple) and len(fl[0].value.elts) == 3):
        T.fail(rel, ib[4], "flip branch is not face = (face[a], face[b], face[c])")
    idx = []
    for e in fl[0].value.elts:
        if not (isinstance(e, ast.Subscript) and ast.unparse(e.value) == "face" and isinstance(e.slice, ast.Constant)
                and e.slice.value in (0, 1, 2)):
            T.fail(rel, e, "flip branch element is not face[0|1|2]")
        idx.append("x%d" % e.slice.value)
    # the loop over the border faces fills bound.faces with the face ids, in order
    first = [ast.unparse(x) for x in ast.walk(fn) if isinstance(x, ast.For) and ast.unparse(x.iter) == "mesh.boundary_faces"]
    if not first or "bound.faces.append(iF)" not in first[0]:
        T.fail(rel, fn, "border faces are not collected with `for iF in mesh.boundary_faces: bound.faces.append(iF)`")
    ret = [ast.unparse(x.value) for x in ast.walk(fn) if isinstance(x, ast.Return)]
    if ret != ["(SurfaceMesh(bound), map_m2b, map_b2m)"]:
        T.fail(rel, fn, "extract_boundary_of_volume does not return (SurfaceMesh(bound), map_m2b, map_b2m)")
    return ent, order, guard, test, idx


ALLOWED_DECORATORS = {"property", "allowed_mesh_types", "staticmethod"}


def check_plain_callables(node, rel):
    """fail closed on memoising / unknown decorators and on mutable default arguments of every function defined in
    `node` (a class or a module-level function): `@lru_cache` would hand the same mutable object to every caller, a default
    `x=[]` / `out=RawMeshData()` is shared between calls"""
    for fn in ast.walk(node):
        if not isinstance(fn, (ast.FunctionDef, ast.AsyncFunctionDef)):
            continue
        for d in fn.decorator_list:
            name = T.dotted(d.func) if isinstance(d, ast.Call) else T.dotted(d)
            if name is None or name.split(".")[-1] not in ALLOWED_DECORATORS:
                T.fail(rel, fn, "unexpected decorator on %s: %s" % (fn.name, ast.unparse(d)))
        for dflt in list(fn.args.defaults) + [k for k in fn.args.kw_defaults if k is not None]:
            ok = isinstance(dflt, ast.Constant) or (isinstance(dflt, ast.UnaryOp) and isinstance(dflt.operand, ast.Constant)) \
                or (isinstance(dflt, ast.Attribute) and ast.unparse(dflt).startswith("config."))
            if not ok:
                T.fail(rel, fn, "mutable / computed default argument in %s: %s" % (fn.name, ast.unparse(dflt)))


def gen():
    out_parts = []
    body = []
    # ---- mesh_data tables
    dsrc, dtree = T.load(DATA)
    f1 = T.find_def(dtree, "RawMeshData._complete_faces_from_cells", DATA)
    f2 = T.find_def(dtree, "RawMeshData._generate_cell_faces", DATA)
    out_parts += [("mesh_data._complete_faces_from_cells", T.sha(dsrc, f1)), ("mesh_data._generate_cell_faces", T.sha(dsrc, f2))]
    n1, t1 = find_tet_table(f1, DATA, dsrc)
    n2, t2 = find_tet_table(f2, DATA, dsrc)
    body.append("(* mesh_data.py: convention tables, face i listed for the cell unpacked as (v0,v1,v2,v3) *)\n")
    body.append(emit_table("tet_faces_completion", n1, t1, DATA, f1))
    body.append(emit_table("tet_faces_cellfaces", n2, t2, DATA, f2))
    # ---- volume.py
    vsrc, vtree = T.load(VOL)
    conn = T.find_def(vtree, "VolumeMesh._Connectivity", VOL)
    fa = T.find_def(conn, "_compute_adjacent_cell", VOL)
    out_parts.append(("volume._compute_adjacent_cell", T.sha(vsrc, fa)))
    names = table = None
    for st in ast.walk(fa):
        if isinstance(st, ast.Assign) and isinstance(st.targets[0], ast.Tuple) and ast.unparse(st.value) == "cell":
            names = names_of_tuple(st.targets[0], VOL)
        if isinstance(st, ast.Assign) and isinstance(st.targets[0], ast.Tuple) and isinstance(st.value, ast.Tuple) \
                and st.value.elts and all(isinstance(c, ast.Call) and T.dotted(c.func) == "self.face_id" for c in st.value.elts):
            fnames = names_of_tuple(st.targets[0], VOL)
            table = []
            for c in st.value.elts:
                if c.keywords or not all(isinstance(x, ast.Name) for x in c.args):
                    T.fail(VOL, c, "face_id arguments are not plain names")
                table.append([x.id for x in c.args])
            # the loop must enumerate the faces in the same order
            ok = any(isinstance(s2, ast.For) and ast.unparse(s2.iter) == "enumerate((%s))" % ", ".join(fnames)
                     for s2 in ast.walk(fa))
            if not ok:
                T.fail(VOL, st, "the adjacency loop does not enumerate (f0,f1,f2,f3) in order")
    if names is None or table is None or len(names) != 4:
        T.fail(VOL, fa, "_compute_adjacent_cell: unpacking / face_id tuple not found")
    body.append("(* volume.py _compute_adjacent_cell *)\n")
    body.append(emit_table("tet_faces_adjacent", names, table, VOL, fa))

    fc = T.find_def(conn, "_compute_cell_adj", VOL)
    out_parts.append(("volume._compute_cell_adj", T.sha(vsrc, fc)))
    arity = rng = expr = None
    for st in ast.walk(fc):
        if isinstance(st, ast.If):
            le = len_eq_const(st.test, VOL)
            if le and le[0] == "C":
                arity = le[1]
                for s2 in st.body:
                    if isinstance(s2, ast.For) and isinstance(s2.target, ast.Name) and isinstance(s2.iter, ast.Call) \
                            and T.dotted(s2.iter.func) == "range" and len(s2.iter.args) == 1 \
                            and isinstance(s2.iter.args[0], ast.Constant):
                        rng = s2.iter.args[0].value
                        ivar = s2.target.id
                        b = s2.body
                        ok = len(b) == 4 and isinstance(b[0], ast.Assign) and isinstance(b[0].targets[0], ast.Name) \
                            and isinstance(b[1], ast.Assign) and isinstance(b[1].targets[0], ast.Name)
                        if ok:
                            fv, idv = b[0].targets[0].id, b[1].targets[0].id   # local names are free
                            ok = (ast.unparse(b[1].value) == "self.face_id(*%s)" % fv
                                  and ast.unparse(b[2]) == "self._adjC2F[iC].append(%s)" % idv
                                  and ast.unparse(b[3]) == "self._adjF2C[%s].append(iC)" % idv)
                        if not ok:
                            T.fail(VOL, s2, "tetrahedral loop of _compute_cell_adj not recognised")
                        expr = slice_concat(b[0].value, VOL, "C", {ivar: "i"})
    if arity is None or rng is None or expr is None:
        T.fail(VOL, fc, "_compute_cell_adj: `if len(C)==4: for i in range(4): F = C[:i] + C[i+1:]` not found")
    body.append("(* volume.py _compute_cell_adj *)\n")
    body.append("Definition cell_adj_arity : nat := %d.\nDefinition cell_adj_range : nat := %d.\n" % (arity, rng))
    body.append("Definition cell_adj_face (C : list nat) (i : nat) : list nat := %s.\n" % expr)

    fi = T.find_def(conn, "in_cell_face_index", VOL)
    out_parts.append(("volume.in_cell_face_index", T.sha(vsrc, fi)))
    expr2 = None
    for st in ast.walk(fi):
        if isinstance(st, ast.Assign) and ast.unparse(st.targets[0]) == "cell_set_i" and isinstance(st.value, ast.Call) \
                and T.dotted(st.value.func) == "set" and len(st.value.args) == 1:
            expr2 = slice_concat(st.value.args[0], VOL, "self.mesh.cells[C]", {"i": "i"})
    if expr2 is None:
        T.fail(VOL, fi, "in_cell_face_index: `cell_set_i = set(cells[C][:i] + cells[C][i+1:])` not found")
    body.append("(* volume.py in_cell_face_index *)\n")
    body.append("Definition in_cell_face_sub (C : list nat) (i : nat) : list nat := %s.\n" % expr2)

    vm = T.find_def(vtree, "VolumeMesh", VOL)
    fb = T.find_def(vm, "is_face_on_border", VOL)
    out_parts.append(("volume.is_face_on_border", T.sha(vsrc, fb)))
    last = T.body_nodoc(fb)[-1]
    if not isinstance(last, ast.Return):
        T.fail(VOL, fb, "is_face_on_border does not end with `return n <cmp> k`")
    body.append("(* volume.py is_face_on_border: `return %s` *)\n" % ast.unparse(last.value))
    body.append("Definition face_border_test (n : nat) : bool := %s.\n" % nat_cmp(last.value, VOL, {"n": "n"}))
    lens = [ast.unparse(st.value) for st in ast.walk(fb) if isinstance(st, ast.Assign) and ast.unparse(st.targets[0]) == "n"]
    if sorted(lens) != sorted(["len(self.connectivity.face_to_cells(args[0]))",
                               "len(self.connectivity.face_to_cells(self.connectivity.face_id(*args)))"]):
        T.fail(VOL, fb, "is_face_on_border: n is not the number of cells of the face")

    fo = T.find_def(conn, "other_face_side", VOL)
    out_parts.append(("volume.other_face_side", T.sha(vsrc, fo)))
    b0 = T.body_nodoc(fo)[0]
    if not (isinstance(b0, ast.If) and isinstance(b0.test, ast.Compare) and ast.unparse(b0.test.left) == "len(self.face_to_cells(F))"
            and ast.unparse(b0.body[0]) == "return None"):
        T.fail(VOL, fo, "other_face_side does not start with `if len(self.face_to_cells(F)) <cmp> k: return None`")
    fake = ast.Compare(left=ast.Name(id="n"), ops=b0.test.ops, comparators=b0.test.comparators)
    body.append("(* volume.py other_face_side: `%s` *)\n" % ast.unparse(b0.test))
    body.append("Definition ofs_not_two (n : nat) : bool := %s.\n" % nat_cmp(fake, VOL, {"n": "n"}))

    fe = T.find_def(vm, "_compute_interior_boundary_edges", VOL)
    out_parts.append(("volume._compute_interior_boundary_edges", T.sha(vsrc, fe)))
    nxt = None
    for st in ast.walk(fe):
        if isinstance(st, ast.Assign) and isinstance(st.targets[0], ast.Tuple) and isinstance(st.value, ast.Tuple) \
                and len(st.value.elts) == 2 and ast.unparse(st.value.elts[0]) == "self.faces[iF][i]" \
                and isinstance(st.value.elts[1], ast.Subscript) and ast.unparse(st.value.elts[1].value) == "self.faces[iF]":
            nxt = nat_expr(st.value.elts[1].slice, VOL, {"i": "i", "n": "n"})
    if nxt is None:
        T.fail(VOL, fe, "_compute_interior_boundary_edges: `u,v = self.faces[iF][i], self.faces[iF][(i+1)%n]` not found")
    body.append("(* volume.py _compute_interior_boundary_edges *)\n")
    body.append("Definition bnd_edge_next (i n : nat) : nat := %s.\n" % nxt)

    # ---- det_3x3 and the orientation test
    gsrc, gtree = T.load(GEO)
    fd = T.find_def(gtree, "det_3x3", GEO)
    out_parts.append(("geometry.det_3x3", T.sha(gsrc, fd)))
    poly = sarrus(fd, GEO)
    bc = T.find_def(vtree, "VolumeMesh._BoundaryConnectivity", VOL)
    fx = T.find_def(bc, "_extract_surface_boundary", VOL)
    out_parts.append(("volume._extract_surface_boundary", T.sha(vsrc, fx)))
    args, op, th, el = orientation(fx, VOL)
    imp = [n for n in ast.walk(vtree) if isinstance(n, ast.ImportFrom) and any(a.name == "det_3x3" and a.asname is None for a in n.names)
           and (n.module or "").endswith("geometry.geometry")]
    if not imp:
        T.fail(VOL, vtree, "det_3x3 is not imported from geometry.geometry")

    def det_def(suffix, ty, scope):
        return ("Definition vsub3%s (a b : %s * %s * %s) : %s * %s * %s :=\n"
                "  let '(a0, a1, a2) := a in let '(b0, b1, b2) := b in ((a0 - b0)%%%s, (a1 - b1)%%%s, (a2 - b2)%%%s).\n"
                % (suffix, ty, ty, ty, ty, ty, ty, scope, scope, scope)
                + "Definition det_3x3%s (r0 r1 r2 : %s * %s * %s) : %s :=\n"
                  "  let '(m00, m01, m02) := r0 in let '(m10, m11, m12) := r1 in let '(m20, m21, m22) := r2 in\n  %s%%%s.\n"
                % (suffix, ty, ty, ty, ty, poly, scope))

    dargs = " ".join("(vsub3%%s %s %s)" % a for a in args)
    body.append("(* geometry.py det_3x3 (rows = the three arguments) and volume.py _extract_surface_boundary *)\n")
    body.append(det_def("", "Z", "Z"))
    zt = {ast.Gt: "(0 <? %s)%%Z", ast.GtE: "(0 <=? %s)%%Z", ast.Lt: "(%s <? 0)%%Z", ast.LtE: "(%s <=? 0)%%Z"}[op]
    body.append("Definition orient_test_Z (pA pB pC pD : Z * Z * Z) : bool :=\n  %s.\n"
                % (zt % ("det_3x3 " + dargs % ("", "", ""))))
    body.append("Definition orient_then {A} (bA bB bC : A) : list A := [%s].\n" % "; ".join(th))
    body.append("Definition orient_else {A} (bA bB bC : A) : list A := [%s].\n" % "; ".join(el))
    # ---- index dicts of _BoundaryConnectivity
    ef = enum_dict_entries(fx, VOL, "self.complete_mesh.boundary_faces", ["self.m2b_face", "self.b2m_face"])
    ev = enum_dict_entries(fx, VOL, "vertex_set", ["self.m2b_vertex", "self.b2m_vertex"])
    binit = T.find_def(bc, "__init__", VOL)
    out_parts.append(("volume._BoundaryConnectivity.__init__", T.sha(vsrc, binit)))
    eloop = [st for st in ast.walk(binit) if isinstance(st, ast.For) and ast.unparse(st.iter) == "self.complete_mesh.boundary_edges"]
    if len(eloop) != 1 or [ast.unparse(x) for x in eloop[0].body] != [
            "u, v = self.complete_mesh.edges[e]", "bu, bv = (self.m2b_vertex[u], self.m2b_vertex[v])",
            "be = self.edge_id(bu, bv)", "self.m2b_edge[e] = be", "self.b2m_edge[be] = e"]:
        T.fail(VOL, binit, "edge indirection loop of _BoundaryConnectivity.__init__ not recognised")
    body.append("(* volume.py _BoundaryConnectivity: dict entries written for the i-th enumerated element x *)\n")
    body.append("Definition bc_m2b_face_entry (i x : nat) : nat * nat := %s.\n" % ef["self.m2b_face"])
    body.append("Definition bc_b2m_face_entry (i x : nat) : nat * nat := %s.\n" % ef["self.b2m_face"])
    body.append("Definition bc_m2b_vertex_entry (i x : nat) : nat * nat := %s.\n" % ev["self.m2b_vertex"])
    body.append("Definition bc_b2m_vertex_entry (i x : nat) : nat * nat := %s.\n" % ev["self.b2m_vertex"])
    # ---- border.py extract_boundary_of_volume
    bsrc, btree = T.load(BORD)
    fxb = T.find_def(btree, "extract_boundary_of_volume", BORD)
    out_parts.append(("border.extract_boundary_of_volume", T.sha(bsrc, fxb)))
    imp2 = [n for n in ast.walk(btree) if isinstance(n, ast.ImportFrom) and any(a.name == "det_3x3" and a.asname is None for a in n.names)
            and (n.module or "").endswith("geometry.geometry")]
    if not imp2:
        T.fail(BORD, btree, "det_3x3 is not imported from geometry.geometry")
    xent, xorder, xguard, xtest, xidx = standalone_extractor(fxb, BORD)
    check_plain_callables(fxb, BORD)
    check_plain_callables(vm, VOL)          # VolumeMesh with _Connectivity and _BoundaryConnectivity
    for fnn in (f1, f2):
        check_plain_callables(fnn, DATA)
    check_plain_callables(fd, GEO)
    body.append("(* border.py extract_boundary_of_volume *)\n")
    body.append("Definition ex_m2b_entry (i x : nat) : nat * nat := %s.\n" % xent["map_m2b"])
    body.append("Definition ex_b2m_entry (i x : nat) : nat * nat := %s.\n" % xent["map_b2m"])
    body.append("Definition ex_face_order {A} (l : list A) : list A := %s.\n" % xorder)
    body.append("Definition ex_orient_guard (nface ncells : nat) : bool := %s.\n" % xguard)
    body.append("Definition ex_flip_test (pA pB pC pD : Z * Z * Z) : bool :=\n  %s.\n" % xtest)
    body.append("Definition ex_flip {A} (x0 x1 x2 : A) : list A := [%s].\n" % "; ".join(xidx))

    # ---- lazy caches
    ssrc, stree = T.load(SURF)
    lsrc, ltree = T.load(LIN)
    sconn = T.find_def(stree, "SurfaceMesh._Connectivity", SURF)
    lconn = T.find_def(ltree, "PolyLine._Connectivity", LIN)
    bases = [ast.unparse(b) for b in conn.bases]
    sbases = [ast.unparse(b) for b in sconn.bases]
    if bases != ["SurfaceMesh._Connectivity"] or sbases != ["PolyLine._Connectivity"] or lconn.bases:
        T.fail(VOL, conn, "unexpected base classes of the connectivity chain: %s / %s" % (bases, sbases))
    out_parts += [("volume.VolumeMesh._Connectivity", T.sha(vsrc, conn)), ("surface._Connectivity.__init__", T.sha(ssrc, T.find_def(sconn, "__init__", SURF))),
                  ("linear._Connectivity.__init__", T.sha(lsrc, T.find_def(lconn, "__init__", LIN)))]
    # clear() resets every cache attribute that __init__ creates, each exactly once, after super().clear()
    for cls, rel in ((conn, VOL), (sconn, SURF), (lconn, LIN)):
        own = init_fields(cls, rel)
        own = [f for f in own if f != "mesh"]
        clr = T.find_def(cls, "clear", rel)
        reset = []
        for st in T.body_nodoc(clr):
            tg = st.targets[0] if isinstance(st, ast.Assign) and len(st.targets) == 1 else (st.target if isinstance(st, ast.AnnAssign) else None)
            if tg is not None and isinstance(st.value, ast.Constant) and st.value.value is None and (T.dotted(tg) or "").startswith("self."):
                reset.append(T.dotted(tg)[5:])
            elif isinstance(st, ast.Expr) and ast.unparse(st.value) == "super().clear()" and cls.bases:
                continue
            else:
                T.fail(rel, st, "unexpected statement in clear()")
        if sorted(reset) != sorted(own):
            T.fail(rel, clr, "clear() does not reset every cache attribute of __init__ exactly once: resets %s, __init__ creates %s" % (sorted(reset), sorted(own)))
        if cls.bases and not any(isinstance(st, ast.Expr) and ast.unparse(st.value) == "super().clear()" for st in T.body_nodoc(clr)):
            T.fail(rel, clr, "clear() does not call super().clear()")
    fields, guards, assigns = cache_tables([conn, sconn, lconn], CONN_ACCESSORS, VOL)
    body.append("(* lazy caches of VolumeMesh._Connectivity (with the __init__ chain surface.py / linear.py) *)\n")
    body.append(emit_cache("conn", fields, guards, assigns))
    mfields, mguards, massigns = cache_tables([vm], MESH_ACCESSORS, VOL)
    body.append("(* lazy caches of VolumeMesh (border data) *)\n")
    body.append(emit_cache("mesh", mfields, mguards, massigns))

    head = T.header("C03: tetrahedron face tables, index expressions, comparisons, orientation test, det_3x3, cache guards", out_parts)
    gen_v = head + "From Coq Require Import String List Arith Bool ZArith.\nImport ListNotations.\n\n" + "\n".join(body)
    # ---- the same determinant and test over R (used only by the orientation theorems)
    rt = {ast.Gt: "0 < %s", ast.GtE: "0 <= %s", ast.Lt: "%s < 0", ast.LtE: "%s <= 0"}[op]
    gen_r = (head + "From Coq Require Import Reals.\nOpen Scope R_scope.\n\n"
             + det_def("_R", "R", "R")
             + "Definition orient_test_R (pA pB pC pD : R * R * R) : Prop :=\n  %s.\n"
             % (rt % ("det_3x3_R " + dargs % ("_R", "_R", "_R"))))
    return {"C03/Gen.v": gen_v, "C03/GenR.v": gen_r}
