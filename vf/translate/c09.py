"""mouette/processing/paths.py (+ the comparator of utils/priority_queue.py) -> coq/theories/C09/Gen.v

What is generated (everything the property hinges on that is an expression, a comparison or call plumbing):
  * the three weight-selector lambdas of `shortest_path` (arity and body) and the call `edge_length(v, nv)`;
  * the relaxation comparison `distance[nv] > d` of both Dijkstra loops;
  * the constants of the virtual-sink construction (TARGET sentinel, unit weight, weight of the sink edges);
  * the single-target shortcut: its test, the arguments forwarded to `shortest_path`, the key looked up in the
    returned dict and the index returned;
  * `ind = start if not path else path[-1]`;
  * the forwarding of `shortest_path_to_border`;
  * `PriorityItem.__lt__` (through the C20 translator, which also validates the whole of priority_queue.py).
The loops themselves are modelled by hand (Model.v) and tied by the correspondence.  Recognised shapes only:
anything else raises TranslationError (the tie to the source is then broken).
"""
import ast
import re

from . import common as T
from ..core import TranslationError

REL = "mouette/processing/paths.py"


def _params(fn):
    a = fn.args
    if a.vararg or a.kwarg or a.kwonlyargs or a.posonlyargs:
        T.fail(REL, fn, "unexpected parameter kinds")
    return [x.arg for x in a.args]


def _const_int(node, what):
    """an int/float literal with an integral value (optionally negated) -> int"""
    neg = False
    if isinstance(node, ast.UnaryOp) and isinstance(node.op, ast.USub):
        neg, node = True, node.operand
    if isinstance(node, ast.Constant) and isinstance(node.value, (int, float)) and not isinstance(node.value, bool) \
            and node.value == int(node.value):
        return -int(node.value) if neg else int(node.value)
    T.fail(REL, node, "%s is not an integral numeric literal" % what)


def _z(n):
    return "(%d)" % n if n < 0 else "%d" % n


def _is_name(node, name):
    return isinstance(node, ast.Name) and node.id == name


def _sub(node):
    """X[Y] -> (X, Y) else None"""
    if isinstance(node, ast.Subscript):
        return node.value, node.slice
    return None


def _lambda(node):
    if not isinstance(node, ast.Lambda):
        T.fail(REL, node, "weight selector is not a lambda")
    a = node.args
    if a.vararg or a.kwarg or a.kwonlyargs or a.posonlyargs or a.defaults:
        T.fail(REL, node, "lambda with default/variadic parameters")
    return [x.arg for x in a.args], node.body


def _weights_chain(fn, wname):
    """if <w>=="one": A elif <w>=="length": B else: C  ->  (A, B, C) statement lists"""
    found = []
    for st in fn.body:
        if isinstance(st, ast.If) and isinstance(st.test, ast.Compare) and _is_name(st.test.left, wname) \
                and len(st.test.ops) == 1 and isinstance(st.test.ops[0], ast.Eq) \
                and isinstance(st.test.comparators[0], ast.Constant) and st.test.comparators[0].value == "one":
            found.append(st)
    if len(found) != 1:
        T.fail(REL, fn, 'expected exactly one `if %s=="one"` chain in %s' % (wname, fn.name))
    st = found[0]
    if not (len(st.orelse) == 1 and isinstance(st.orelse[0], ast.If)):
        T.fail(REL, st, "weights chain has no elif")
    st2 = st.orelse[0]
    t = st2.test
    if not (isinstance(t, ast.Compare) and _is_name(t.left, wname) and len(t.ops) == 1 and isinstance(t.ops[0], ast.Eq)
            and isinstance(t.comparators[0], ast.Constant) and t.comparators[0].value == "length"):
        T.fail(REL, st2, 'second branch is not `elif %s=="length"`' % wname)
    if not st2.orelse:
        T.fail(REL, st2, "weights chain has no else branch")
    return st.body, st2.body, st2.orelse


def _pos_expr(node, names, what):
    """node must be one of the given names -> its index"""
    if isinstance(node, ast.Name) and node.id in names:
        return names.index(node.id)
    T.fail(REL, node, "%s: operand is not one of %s" % (what, names))


def _distance_call(node, mesh, names, what):
    """geom.distance(mesh.vertices[A], mesh.vertices[B]) -> (iA, iB)"""
    if not (isinstance(node, ast.Call) and T.dotted(node.func) == "geom.distance" and len(node.args) == 2
            and not node.keywords):
        T.fail(REL, node, "%s is not geom.distance(p, q)" % what)
    out = []
    for a in node.args:
        s = _sub(a)
        if s is None or T.dotted(s[0]) != mesh + ".vertices":
            T.fail(REL, a, "%s: argument is not %s.vertices[.]" % (what, mesh))
        out.append(_pos_expr(s[1], names, what))
    return tuple(out)


def _find_dijkstra(fn):
    """The `while not <q>.empty():` loop and the pieces of its body that are generated."""
    loops = [s for s in fn.body if isinstance(s, ast.While)]
    cand = []
    for w in loops:
        t = w.test
        if isinstance(t, ast.UnaryOp) and isinstance(t.op, ast.Not) and isinstance(t.operand, ast.Call) \
                and isinstance(t.operand.func, ast.Attribute) and t.operand.func.attr == "empty":
            cand.append(w)
    if len(cand) != 1:
        T.fail(REL, fn, "expected exactly one `while not queue.empty()` loop in " + fn.name)
    w = cand[0]
    qname = T.dotted(w.test.operand.func.value)
    b = w.body
    # v = queue.get().x   (or .pop())
    if not (b and isinstance(b[0], ast.Assign) and isinstance(b[0].targets[0], ast.Name)
            and isinstance(b[0].value, ast.Attribute) and b[0].value.attr == "x"
            and isinstance(b[0].value.value, ast.Call) and not b[0].value.value.args
            and T.dotted(b[0].value.value.func) in (qname + ".get", qname + ".pop")):
        T.fail(REL, w, "loop does not start with `v = queue.get().x`")
    v = b[0].targets[0].id
    fors = [s for s in b if isinstance(s, ast.For)]
    if len(fors) != 1 or not isinstance(fors[0].target, ast.Name):
        T.fail(REL, w, "expected exactly one `for nv in ...` in the Dijkstra loop")
    f = fors[0]
    nv = f.target.id
    # d = DIST[v] + <weight expression>
    if not (f.body and isinstance(f.body[0], ast.Assign) and isinstance(f.body[0].targets[0], ast.Name)
            and isinstance(f.body[0].value, ast.BinOp) and isinstance(f.body[0].value.op, ast.Add)):
        T.fail(REL, f, "relaxation does not start with `d = distance[v] + <weight>`")
    d = f.body[0].targets[0].id
    left, wexpr = f.body[0].value.left, f.body[0].value.right
    s = _sub(left)
    if s is None or not isinstance(s[0], ast.Name) or not _is_name(s[1], v):
        left, wexpr = wexpr, left
        s = _sub(left)
        if s is None or not isinstance(s[0], ast.Name) or not _is_name(s[1], v):
            T.fail(REL, f.body[0], "`d = ...` is not distance[v] + <weight>")
    dist = s[0].id
    # if DIST[nv] > d:
    ifs = [x for x in f.body[1:] if isinstance(x, ast.If) and isinstance(x.test, ast.Compare)]
    if len(ifs) != 1:
        T.fail(REL, f, "expected exactly one relaxation comparison")
    c = ifs[0].test
    if len(c.ops) != 1 or type(c.ops[0]) not in T.CMP:
        T.fail(REL, c, "unsupported relaxation comparison")

    def side(e):
        ss = _sub(e)
        if ss is not None and _is_name(ss[0], dist) and _is_name(ss[1], nv):
            return "old"
        if _is_name(e, d):
            return "d"
        T.fail(REL, e, "operand of the relaxation test is neither %s[%s] nor %s" % (dist, nv, d))
    l, r = side(c.left), side(c.comparators[0])
    if {l, r} != {"old", "d"}:
        T.fail(REL, c, "relaxation test does not compare %s[%s] with %s" % (dist, nv, d))
    relax = "%s %s %s" % (T.CMP[type(c.ops[0])], l, r)
    # distance[start] = 0. ; queue.push(start, 0.)
    start = _params(fn)[1]
    zero_assign = zero_push = False
    init_float = False
    for st in fn.body:
        if isinstance(st, ast.Assign) and len(st.targets) == 1:
            ss = _sub(st.targets[0])
            if ss is not None and _is_name(ss[0], dist) and _is_name(ss[1], start):
                if _const_int(st.value, "initial distance") != 0:
                    T.fail(REL, st, "initial distance of the start vertex is not 0")
                zero_assign = True
                # `0.` (float) or `0` (int): the type of the accumulator every distance is summed in
                init_float = isinstance(st.value, ast.Constant) and isinstance(st.value.value, float)
        if isinstance(st, ast.Expr) and isinstance(st.value, ast.Call) and T.dotted(st.value.func) == qname + ".push":
            a = st.value.args
            if not (len(a) == 2 and _is_name(a[0], start) and _const_int(a[1], "initial key") == 0):
                T.fail(REL, st, "initial push is not push(start, 0)")
            zero_push = True
    if not (zero_assign and zero_push):
        T.fail(REL, fn, "initialisation `distance[start] = 0; queue.push(start, 0)` not found in " + fn.name)
    return {"v": v, "nv": nv, "wexpr": wexpr, "relax": relax, "loop": w, "init_float": init_float}


def _resolve(node, env, start, targets):
    """An expression over {start, targets[k], int constant, names bound in env} -> Gallina over (start, targets)."""
    if isinstance(node, ast.Name):
        if node.id in env:
            return env[node.id]
        if node.id == start:
            return "start"
        T.fail(REL, node, "cannot resolve name " + node.id)
    s = _sub(node)
    if s is not None and _is_name(s[0], targets) and isinstance(s[1], ast.Constant) and isinstance(s[1].value, int) \
            and s[1].value >= 0:
        return "(nth %d targets sentinel)" % s[1].value
    return _z(_const_int(node, "forwarded expression")) + "%Z"


KNOWN_DECORATORS = {"shortest_path": ["forbidden_mesh_types(PointCloud)"],
                    "shortest_path_to_vertex_set": ["forbidden_mesh_types(PointCloud)"],
                    "shortest_path_to_border": ["allowed_mesh_types(SurfaceMesh)"],
                    "build_path": [], "_check_weight_argument": []}


def _signature_facts(src, fn):
    """Decorators must be the known type guards (a memoising / wrapping decorator changes what a call returns);
    every default must be an immutable constant. Returns {param: default-constant}."""
    decos = [T.seg(src, d).replace(" ", "") for d in fn.decorator_list]
    if decos != KNOWN_DECORATORS[fn.name]:
        T.fail(REL, fn, "unexpected decorators on %s: %s" % (fn.name, decos))
    a = fn.args
    names = [x.arg for x in a.args]
    out = {}
    for nm, d in zip(names[len(names) - len(a.defaults):], a.defaults):
        if not (isinstance(d, ast.Constant) and (d.value is None or isinstance(d.value, (str, bool, int, float)))):
            T.fail(REL, d, "default of %s.%s is not an immutable constant" % (fn.name, nm))
        out[nm] = d.value
    return out


def _zexpr(node, names):
    """integer arithmetic over the given names -> Gallina (Z)"""
    if isinstance(node, ast.Name) and node.id in names:
        return names[node.id]
    if isinstance(node, ast.Constant) and isinstance(node.value, int) and not isinstance(node.value, bool):
        return _z(node.value)
    if isinstance(node, ast.BinOp) and type(node.op) in (ast.Add, ast.Sub, ast.Mult):
        op = {ast.Add: "+", ast.Sub: "-", ast.Mult: "*"}[type(node.op)]
        return "(%s %s %s)" % (_zexpr(node.left, names), op, _zexpr(node.right, names))
    T.fail(REL, node, "unsupported index expression")


def _gen_build_path(src, tree, g, parts):
    """build_path: the exported polyline. Guards, index expressions and the offset update are generated."""
    bp = T.find_def(tree, "build_path", REL)
    parts.append(("build_path", T.sha(src, bp)))
    pr = _params(bp)
    if len(pr) != 2:
        T.fail(REL, bp, "build_path does not take (mesh, paths)")
    meshn, pathsn = pr
    body = T.body_nodoc(bp)
    if not (len(body) == 4 and isinstance(body[0], ast.Assign) and isinstance(body[0].value, ast.Call)
            and _is_name(body[0].value.func, "PolyLine") and isinstance(body[1], ast.Assign)
            and isinstance(body[2], ast.For) and isinstance(body[3], ast.Return)):
        T.fail(REL, bp, "build_path is not `pm = PolyLine(); k = <int>; for l in paths.values(): ...; return pm`")
    pm = body[0].targets[0].id
    kname = body[1].targets[0].id
    k0 = _const_int(body[1].value, "initial offset")
    if not _is_name(body[3].value, pm):
        T.fail(REL, body[3], "build_path does not return the polyline it builds")
    lp = body[2]
    if not (isinstance(lp.target, ast.Name) and isinstance(lp.iter, ast.Call) and T.dotted(lp.iter.func) == pathsn + ".values"
            and not lp.iter.args):
        T.fail(REL, lp, "outer loop is not `for l in paths.values()`")
    ln = lp.target.id
    if len(lp.body) != 3:
        T.fail(REL, lp, "outer loop body is not [if len(l)>a: ..., if len(l)>b: ..., k += len(l)]")

    def len_guard(st, what):
        c = st.test if isinstance(st, ast.If) else None
        if not (isinstance(c, ast.Compare) and isinstance(c.left, ast.Call) and _is_name(c.left.func, "len")
                and _is_name(c.left.args[0], ln) and len(c.ops) == 1 and type(c.ops[0]) in T.CMP and not st.orelse):
            T.fail(REL, st, what + " is not `if len(l) <cmp> <int>:`")
        return "%s n %s" % (T.CMP[type(c.ops[0])], _z(_const_int(c.comparators[0], what)))

    def vertex_append(st, what):
        """pm.vertices.append(mesh.vertices[l[IDX]](.copy())) -> IDX node"""
        if not (isinstance(st, ast.Expr) and isinstance(st.value, ast.Call) and T.dotted(st.value.func) == pm + ".vertices.append"
                and len(st.value.args) == 1):
            T.fail(REL, st, what + " is not pm.vertices.append(...)")
        a = st.value.args[0]
        if isinstance(a, ast.Call) and isinstance(a.func, ast.Attribute) and a.func.attr == "copy" and not a.args:
            a = a.func.value
        s1 = _sub(a)
        s2 = _sub(s1[1]) if s1 else None
        if not (s1 and T.dotted(s1[0]) == meshn + ".vertices" and s2 and _is_name(s2[0], ln)):
            T.fail(REL, st, what + " does not append mesh.vertices[l[.]]")
        return s2[1]
    g1 = len_guard(lp.body[0], "first guard")
    if len(lp.body[0].body) != 1:
        T.fail(REL, lp.body[0], "first guard does more than one append")
    first_idx = _const_int(vertex_append(lp.body[0].body[0], "first append"), "first index")
    g2 = len_guard(lp.body[1], "second guard")
    inner = lp.body[1].body
    if not (len(inner) == 1 and isinstance(inner[0], ast.For) and isinstance(inner[0].target, ast.Name)
            and isinstance(inner[0].iter, ast.Call) and _is_name(inner[0].iter.func, "range") and len(inner[0].iter.args) == 2
            and isinstance(inner[0].iter.args[1], ast.Call) and _is_name(inner[0].iter.args[1].func, "len")
            and _is_name(inner[0].iter.args[1].args[0], ln) and len(inner[0].body) == 2):
        T.fail(REL, lp.body[1], "inner loop is not `for i in range(<int>, len(l)): append vertex; append edge`")
    iname = inner[0].target.id
    lo = _const_int(inner[0].iter.args[0], "range start")
    if not _is_name(vertex_append(inner[0].body[0], "inner append"), iname):
        T.fail(REL, inner[0], "inner loop does not append mesh.vertices[l[i]]")
    ea = inner[0].body[1]
    if not (isinstance(ea, ast.Expr) and isinstance(ea.value, ast.Call) and T.dotted(ea.value.func) == pm + ".edges.append"
            and len(ea.value.args) == 1 and isinstance(ea.value.args[0], ast.Tuple) and len(ea.value.args[0].elts) == 2):
        T.fail(REL, ea, "inner loop does not append an edge pair")
    e1, e2 = (_zexpr(x, {kname: "k", iname: "i"}) for x in ea.value.args[0].elts)
    adv = lp.body[2]
    if not (isinstance(adv, ast.AugAssign) and _is_name(adv.target, kname) and isinstance(adv.op, ast.Add)
            and isinstance(adv.value, ast.Call) and _is_name(adv.value.func, "len") and _is_name(adv.value.args[0], ln)):
        T.fail(REL, adv, "offset update is not `k += len(l)`")
    g.append("(* ---- build_path: the exported polyline *)")
    g.append("Definition bp_k0 : Z := %s." % _z(k0))
    g.append("Definition bp_first_guard (n : Z) : bool := %s." % g1)
    g.append("Definition bp_first_index : Z := %s." % _z(first_idx))
    g.append("Definition bp_loop_guard (n : Z) : bool := %s." % g2)
    g.append("Definition bp_range_lo : Z := %s." % _z(lo))
    g.append("Definition bp_edge (k i : Z) : Z * Z := (%s, %s)." % (e1, e2))
    g.append("Definition bp_advance (k n : Z) : Z := k + n.")


def gen_paths():
    src, tree = T.load(REL)
    parts = []
    for helper in ("build_path", "_check_weight_argument"):
        _signature_facts(src, T.find_def(tree, helper, REL))
    # ------------------------------------------------------------------ shortest_path
    sp = T.find_def(tree, "shortest_path", REL)
    parts.append(("shortest_path", T.sha(src, sp)))
    P = _params(sp)
    if len(P) != 5:
        T.fail(REL, sp, "shortest_path does not take (mesh, start, targets, weights, export_path_mesh)")
    mesh, start, targets, weights, export = P
    dflt_sp = _signature_facts(src, sp)
    # ---- `if isinstance(targets, <types>): targets = {targets} else: targets = set(targets)`
    st0 = None
    for st in sp.body:
        if isinstance(st, ast.If) and isinstance(st.test, ast.Call) and _is_name(st.test.func, "isinstance"):
            st0 = st
            break
    if st0 is None or len(st0.test.args) != 2 or not _is_name(st0.test.args[0], targets):
        T.fail(REL, sp, "`if isinstance(targets, ...)` not found at the top of shortest_path")
    tyn = st0.test.args[1]
    tys = [T.dotted(e) for e in (tyn.elts if isinstance(tyn, ast.Tuple) else [tyn])]
    acc_py = acc_np = False
    for ty in tys:
        if ty == "int":
            acc_py = True
        elif ty in ("np.integer", "numpy.integer", "np.int64", "numpy.int64"):
            acc_np = True
        elif ty in ("numbers.Integral", "Integral"):
            acc_py = acc_np = True
        else:
            T.fail(REL, tyn, "unrecognised type in isinstance(targets, ...): %s" % ty)
    b0, e0 = st0.body, st0.orelse

    def wraps(node):       # {targets} / [targets] / (targets,)
        return isinstance(node, (ast.Set, ast.List, ast.Tuple)) and len(node.elts) == 1 and _is_name(node.elts[0], targets)

    def dedups(node):      # set(targets) / list(dict.fromkeys(targets)) / dict.fromkeys(targets): a duplicate-free collection
        if isinstance(node, ast.Call) and len(node.args) == 1 and not node.keywords:
            f = T.dotted(node.func)
            if f in ("set", "dict.fromkeys", "frozenset") and _is_name(node.args[0], targets):
                return True
            if f in ("list", "tuple") and dedups(node.args[0]):
                return True
        return False

    def assigns(st, pred):
        return isinstance(st, ast.Assign) and len(st.targets) == 1 and _is_name(st.targets[0], targets) and pred(st.value)
    ok0 = len(b0) == 1 and assigns(b0[0], wraps)
    if ok0 and e0:
        ok0 = len(e0) == 1 and assigns(e0[0], dedups)
    elif ok0:
        nxt = sp.body[sp.body.index(st0) + 1] if sp.body.index(st0) + 1 < len(sp.body) else None
        ok0 = nxt is not None and assigns(nxt, dedups)
    if not ok0:
        T.fail(REL, st0, "target normalisation is not `targets = {targets}` / a duplicate-free collection of targets")
    A, B, C = _weights_chain(sp, weights)
    sel = []
    selname = None
    for br in (A, B, C):
        if not (len(br) == 1 and isinstance(br[0], ast.Assign) and isinstance(br[0].targets[0], ast.Name)):
            T.fail(REL, br[0], "weights branch is not `edge_length = lambda ...`")
        nm = br[0].targets[0].id
        if selname not in (None, nm):
            T.fail(REL, br[0], "weights branches assign different names")
        selname = nm
        sel.append(_lambda(br[0].value))
    (p1, b1), (p2, b2), (p3, b3) = sel
    one_value = _const_int(b1, "unit weight")
    for n in ast.walk(b1):
        if isinstance(n, ast.Name):
            T.fail(REL, b1, "unit weight refers to a variable")
    iA, iB = _distance_call(b2, mesh, p2, "length selector")
    s3 = _sub(b3)
    if not (s3 is not None and _is_name(s3[0], weights) and isinstance(s3[1], ast.Call)
            and T.dotted(s3[1].func) == mesh + ".connectivity.edge_id" and len(s3[1].args) == 2 and not s3[1].keywords):
        T.fail(REL, b3, "custom selector is not weights[mesh.connectivity.edge_id(a, b)]")
    jA, jB = (_pos_expr(a, p3, "custom selector") for a in s3[1].args)
    dj = _find_dijkstra(sp)
    call = dj["wexpr"]
    if not (isinstance(call, ast.Call) and _is_name(call.func, selname) and not call.keywords):
        T.fail(REL, call, "relaxation weight is not a call of the selector " + selname)
    call_args = [_pos_expr(a, [dj["v"], dj["nv"]], "selector call") for a in call.args]
    call_arity = len(call_args)
    it = dj["loop"]
    fors = [s for s in it.body if isinstance(s, ast.For)][0]
    if not (isinstance(fors.iter, ast.Call) and T.dotted(fors.iter.func) == mesh + ".connectivity.vertex_to_vertices"
            and len(fors.iter.args) == 1 and _is_name(fors.iter.args[0], dj["v"])):
        T.fail(REL, fors, "neighbours are not mesh.connectivity.vertex_to_vertices(v)")

    def argn(i):
        return ["v", "nv"][i]

    def lam_app(params, idxs, fname):
        # the selector is called with actuals (call_args); its body uses params[idxs[.]]
        if len(params) != call_arity:
            # arity mismatch: the call raises TypeError (modelled in Model.v); body irrelevant, keep it total
            return "%s v nv" % fname
        return "%s %s" % (fname, " ".join(argn(call_args[i]) for i in idxs))

    out = T.header("C09: weight selectors, relaxation test, sink construction, shortcut plumbing (paths.py)", parts)
    g = []
    g.append("(* ---- shortest_path: `edge_length = lambda ...` per weight mode, called as edge_length(%s) *)"
             % ", ".join(argn(i) for i in call_args))
    g.append("(* a target given singly is wrapped into a set when isinstance(targets, (%s)); otherwise set(targets) is taken *)" % ", ".join(tys))
    g.append("Definition single_accepts_pyint : bool := %s." % ("true" if acc_py else "false"))
    g.append("Definition single_accepts_npint : bool := %s." % ("true" if acc_np else "false"))
    g.append("Definition sp_call_arity : nat := %d." % call_arity)
    g.append("Definition sp_one_arity : nat := %d." % len(p1))
    g.append("Definition sp_length_arity : nat := %d." % len(p2))
    g.append("Definition sp_custom_arity : nat := %d." % len(p3))
    g.append("Definition sp_one (v nv : Z) : Z := %s." % _z(one_value))
    g.append("Definition sp_length (len : Z -> Z -> Z) (v nv : Z) : Z := %s." % lam_app(p2, (iA, iB), "len"))
    g.append("Definition sp_custom (wt : Z -> Z -> Z) (v nv : Z) : Z := %s." % lam_app(p3, (jA, jB), "wt"))
    g.append("(* ---- relaxation test of shortest_path: update iff this holds (old = distance[nv], finite) *)")
    g.append("Definition relax_sp (old d : Z) : bool := %s." % dj["relax"])
    g.append("(* `distance[start] = 0.`: is the literal a float? (then every distance is a float sum, whatever the type of the weights) *)")
    g.append("Definition sp_init_dist_float : bool := %s." % ("true" if dj["init_float"] else "false"))

    # ------------------------------------------------------------------ shortest_path_to_vertex_set
    vs = T.find_def(tree, "shortest_path_to_vertex_set", REL)
    parts.append(("shortest_path_to_vertex_set", T.sha(src, vs)))
    P2 = _params(vs)
    if len(P2) != 5:
        T.fail(REL, vs, "shortest_path_to_vertex_set does not take 5 parameters")
    mesh2, start2, targets2, weights2, export2 = P2
    dflt_vs = _signature_facts(src, vs)
    # TARGET = -1
    tgt = None
    for st in vs.body:
        if isinstance(st, ast.Assign) and len(st.targets) == 1 and isinstance(st.targets[0], ast.Name) \
                and isinstance(st.value, (ast.Constant, ast.UnaryOp)):
            tgt = (st.targets[0].id, _const_int(st.value, "sentinel"))
            break
    if tgt is None:
        T.fail(REL, vs, "sentinel assignment `TARGET = <int>` not found")
    TN, sentinel = tgt
    # empty-target guard: if len(targets)==0: raise
    guard = [st for st in vs.body if isinstance(st, ast.If) and isinstance(st.test, ast.Compare)
             and isinstance(st.test.left, ast.Call) and T.dotted(st.test.left.func) == "len"
             and _is_name(st.test.left.args[0], targets2)]
    if len(guard) != 2:
        T.fail(REL, vs, "expected the two tests `len(targets)==0` and `len(targets)==1`")
    g0, g1 = guard

    def len_test(st, what):
        c = st.test
        if len(c.ops) != 1 or type(c.ops[0]) not in T.CMP:
            T.fail(REL, c, "unsupported comparison in " + what)
        k = _const_int(c.comparators[0], what)
        return "%s n %s" % (T.CMP[type(c.ops[0])], _z(k))
    empty_test = len_test(g0, "empty-target test")
    if not (len(g0.body) == 1 and isinstance(g0.body[0], ast.Raise)):
        T.fail(REL, g0, "empty-target branch does not raise")
    shortcut_test = len_test(g1, "single-target test")
    # inside the shortcut: straight-line assignments, then if export: ... else: ...
    env = {TN: "sentinel"}
    body = list(g1.body)
    while body and isinstance(body[0], ast.Assign):
        st = body.pop(0)
        if not (len(st.targets) == 1 and isinstance(st.targets[0], ast.Name)):
            T.fail(REL, st, "unsupported assignment in the shortcut")
        env[st.targets[0].id] = _resolve(st.value, env, start2, targets2)
    if not (len(body) == 1 and isinstance(body[0], ast.If) and _is_name(body[0].test, export2)
            and body[0].orelse):
        T.fail(REL, g1, "shortcut is not `if export_path_mesh: ... else: ...`")

    def branch(stmts, with_mesh):
        # [parent(, mesh) = shortest_path(...)([KEY])?; return IDX, parent([KEY])?(, mesh)]
        if not (len(stmts) == 2 and isinstance(stmts[0], ast.Assign) and isinstance(stmts[1], ast.Return)):
            T.fail(REL, stmts[0], "shortcut branch is not `x = shortest_path(...); return ...`")
        val = stmts[0].value
        key = None
        if isinstance(val, ast.Subscript):
            key = _resolve(val.slice, env, start2, targets2)
            val = val.value
        if not (isinstance(val, ast.Call) and _is_name(val.func, sp.name)):
            T.fail(REL, val, "shortcut does not call shortest_path")
        bound = {}
        for pn, a in zip(P, val.args):
            bound[pn] = a
        for kw in val.keywords:
            bound[kw.arg] = kw.value
        if not (_is_name(bound.get(mesh), mesh2) and _is_name(bound.get(weights), weights2)):
            T.fail(REL, val, "shortcut does not forward mesh/weights unchanged")
        if not _is_name(bound.get(export), export2):
            T.fail(REL, val, "shortcut forwards an unexpected export_path_mesh")
        fstart = _resolve(bound[start], env, start2, targets2)
        if _is_name(bound[targets], targets2) and targets2 not in env:
            ftargets = "targets"              # the collection itself: set(targets)
        else:                                 # a single int: {target}
            ftargets = "[%s]" % _resolve(bound[targets], env, start2, targets2)
        tg = stmts[0].targets[0]
        pname = tg.elts[0].id if isinstance(tg, ast.Tuple) else tg.id
        rv = stmts[1].value
        if not (isinstance(rv, ast.Tuple) and len(rv.elts) == (3 if with_mesh else 2)):
            T.fail(REL, rv, "shortcut return is not a %d-tuple" % (3 if with_mesh else 2))
        idx = _resolve(rv.elts[0], env, start2, targets2)
        pe = rv.elts[1]
        if isinstance(pe, ast.Subscript):
            if key is not None or not _is_name(pe.value, pname):
                T.fail(REL, pe, "unsupported path expression in the shortcut return")
            key = _resolve(pe.slice, env, start2, targets2)
        elif not _is_name(pe, pname):
            T.fail(REL, pe, "shortcut does not return the path it computed")
        if key is None:
            T.fail(REL, rv, "shortcut never indexes the dict returned by shortest_path")
        return fstart, ftargets, key, idx
    r_exp = branch(body[0].body, True)
    r_no = branch(body[0].orelse, False)
    if r_exp != r_no:
        T.fail(REL, g1, "the two branches of the shortcut forward/return different things: %s / %s" % (r_exp, r_no))
    fstart, ftargets, key, idx = r_no

    # weight modes of the sink construction
    A2, B2, C2 = _weights_chain(vs, weights2)

    def edge_loop(stmts, what, enum):
        if not (len(stmts) == 1 and isinstance(stmts[0], ast.For)):
            T.fail(REL, stmts[0], what + ": not a single for loop")
        f = stmts[0]
        tgtn = f.target
        e = None
        if enum:
            if not (isinstance(f.iter, ast.Call) and _is_name(f.iter.func, "enumerate") and len(f.iter.args) == 1
                    and T.dotted(f.iter.args[0]) == mesh2 + ".edges" and isinstance(tgtn, ast.Tuple)
                    and len(tgtn.elts) == 2 and isinstance(tgtn.elts[0], ast.Name)):
                T.fail(REL, f, what + ": not `for e,(u,v) in enumerate(mesh.edges)`")
            e = tgtn.elts[0].id
            tgtn = tgtn.elts[1]
        elif T.dotted(f.iter) != mesh2 + ".edges":
            T.fail(REL, f, what + ": not a loop over mesh.edges")
        if not (isinstance(tgtn, ast.Tuple) and len(tgtn.elts) == 2 and all(isinstance(x, ast.Name) for x in tgtn.elts)):
            T.fail(REL, f, what + ": loop target is not (u, v)")
        u, v = tgtn.elts[0].id, tgtn.elts[1].id
        return f.body, u, v, e

    def conn_assign(st, what):
        """connectivity[a][b] = value -> (a, b, value)"""
        if not (isinstance(st, ast.Assign) and len(st.targets) == 1):
            T.fail(REL, st, what + ": not an assignment")
        s1 = _sub(st.targets[0])
        s0 = _sub(s1[0]) if s1 else None
        if not (s0 and isinstance(s0[0], ast.Name) and isinstance(s0[1], ast.Name) and isinstance(s1[1], ast.Name)):
            T.fail(REL, st, what + ": not connectivity[a][b] = value")
        return s0[0].id, s0[1].id, s1[1].id, st.value

    def both_ways(stmts, u, v, what):
        if len(stmts) != 2:
            T.fail(REL, stmts[0], what + ": expected the two assignments [u][v] and [v][u]")
        c1 = conn_assign(stmts[0], what)
        c2 = conn_assign(stmts[1], what)
        if c1[0] != c2[0] or {(c1[1], c1[2]), (c2[1], c2[2])} != {(u, v), (v, u)}:
            T.fail(REL, stmts[0], what + ": the two assignments are not [u][v] and [v][u] of one dict")
        return c1[0], c1[3], c2[3]
    bd, u, v, _ = edge_loop(A2, "unit mode", False)
    conn, va, vb = both_ways(bd, u, v, "unit mode")
    set_one = _const_int(va, "unit weight of the sink construction")
    if _const_int(vb, "unit weight of the sink construction") != set_one:
        T.fail(REL, bd[0], "unit mode stores two different weights")
    bd, u, v, _ = edge_loop(B2, "length mode", False)
    if not (len(bd) == 3 and isinstance(bd[0], ast.Assign) and isinstance(bd[0].targets[0], ast.Name)):
        T.fail(REL, bd[0], "length mode: expected `d = geom.distance(...)` then two assignments")
    dn = bd[0].targets[0].id
    la, lb = _distance_call(bd[0].value, mesh2, [u, v], "length mode of the sink construction")
    if {la, lb} != {0, 1}:
        T.fail(REL, bd[0], "length mode measures a degenerate edge")
    c2n, va, vb = both_ways(bd[1:], u, v, "length mode")
    if c2n != conn or not (_is_name(va, dn) and _is_name(vb, dn)):
        T.fail(REL, bd[1], "length mode does not store the computed length both ways")
    bd, u, v, e = edge_loop(C2, "custom mode", True)
    c3n, va, vb = both_ways(bd, u, v, "custom mode")
    for x in (va, vb):
        sx = _sub(x)
        if not (c3n == conn and sx and _is_name(sx[0], weights2) and _is_name(sx[1], e)):
            T.fail(REL, x, "custom mode does not store weights[e] both ways")
    # sink edges: for s in targets: connectivity[s][TARGET] = 0 ; connectivity[TARGET][s] = 0
    sink = [st for st in vs.body if isinstance(st, ast.For) and _is_name(st.iter, targets2)]
    if len(sink) != 1 or not isinstance(sink[0].target, ast.Name):
        T.fail(REL, vs, "sink loop `for s in targets` not found")
    sname = sink[0].target.id
    cs, va, vb = both_ways(sink[0].body, sname, TN, "sink edges")
    if cs != conn:
        T.fail(REL, sink[0], "sink edges go to another dict")
    sink_w = _const_int(va, "sink weight")
    if _const_int(vb, "sink weight") != sink_w:
        T.fail(REL, sink[0], "sink edges have two different weights")
    dj2 = _find_dijkstra(vs)
    f2 = [s for s in dj2["loop"].body if isinstance(s, ast.For)][0]
    s_it = _sub(f2.iter)
    if not (s_it and _is_name(s_it[0], conn) and _is_name(s_it[1], dj2["v"])):
        T.fail(REL, f2, "neighbours of the sink construction are not connectivity[v]")
    sw = _sub(dj2["wexpr"])
    s_in = _sub(sw[0]) if sw else None
    if not (s_in and _is_name(s_in[0], conn) and _is_name(s_in[1], dj2["v"]) and _is_name(sw[1], dj2["nv"])):
        T.fail(REL, dj2["wexpr"], "edge weight of the sink construction is not connectivity[v][nv]")
    # back-tracking starts at the sentinel;  ind = start if not path else path[-1]
    ind = None
    pathn = None
    for st in vs.body:
        if isinstance(st, ast.Assign) and isinstance(st.value, ast.IfExp) and isinstance(st.targets[0], ast.Name):
            ie = st.value
            if not (isinstance(ie.test, ast.UnaryOp) and isinstance(ie.test.op, ast.Not) and isinstance(ie.test.operand, ast.Name)):
                T.fail(REL, ie, "`ind = ...` test is not `not path`")
            pathn = ie.test.operand.id
            if not _is_name(ie.body, start2):
                T.fail(REL, ie, "`ind` of an empty path is not the start vertex")
            so = _sub(ie.orelse)
            if not (so and _is_name(so[0], pathn)):
                T.fail(REL, ie, "`ind` of a non-empty path is not path[k]")
            k = _const_int(so[1], "index in path")
            if k == -1:
                ind = "last path start"
            elif k >= 0:
                ind = "nth %d path start" % k
            else:
                T.fail(REL, ie, "unsupported index in `ind = ...`")
            indname = st.targets[0].id
    if ind is None:
        T.fail(REL, vs, "`ind = start if not path else path[-1]` not found")
    bt = [st for st in vs.body if isinstance(st, ast.Assign) and isinstance(st.targets[0], ast.Name)
          and _is_name(st.value, TN)]
    if len(bt) != 1:
        T.fail(REL, vs, "back-tracking does not start from the sentinel")
    rets = [st for st in vs.body if isinstance(st, ast.Return)]
    if not (len(rets) == 1 and isinstance(rets[0].value, ast.Tuple) and len(rets[0].value.elts) == 2
            and _is_name(rets[0].value.elts[0], indname) and _is_name(rets[0].value.elts[1], pathn)):
        T.fail(REL, vs, "final return is not `return ind, path`")

    g.append("(* ---- shortest_path_to_vertex_set *)")
    g.append("Definition sentinel : Z := %s." % _z(sentinel))
    g.append("Definition no_target_test (n : Z) : bool := %s.   (* raise Exception(\"No target provided\") *)" % empty_test)
    g.append("Definition shortcut_test (n : Z) : bool := %s." % shortcut_test)
    g.append("(* shortcut: shortest_path(mesh, <start>, <targets>, weights, export)[<key>] ; return <index>, path *)")
    g.append("Definition shortcut_start (start : Z) (targets : list Z) : Z := %s." % fstart)
    g.append("Definition shortcut_targets (start : Z) (targets : list Z) : list Z := %s." % ftargets)
    g.append("Definition shortcut_key (start : Z) (targets : list Z) : Z := %s." % key)
    g.append("Definition shortcut_index (start : Z) (targets : list Z) : Z := %s." % idx)
    g.append("Definition set_one : Z := %s." % _z(set_one))
    g.append("Definition sink_weight : Z := %s." % _z(sink_w))
    g.append("Definition relax_set (old d : Z) : bool := %s." % dj2["relax"])
    g.append("Definition set_init_dist_float : bool := %s." % ("true" if dj2["init_float"] else "false"))
    g.append("Definition set_ind (start : Z) (path : list Z) : Z := match path with [] => start | _ => %s end." % ind)

    # ------------------------------------------------------------------ shortest_path_to_border
    bo = T.find_def(tree, "shortest_path_to_border", REL)
    parts.append(("shortest_path_to_border", T.sha(src, bo)))
    P3 = _params(bo)
    if len(P3) != 4:
        T.fail(REL, bo, "shortest_path_to_border does not take (mesh, start, weights, export_path_mesh)")
    dflt_bo = _signature_facts(src, bo)
    bb = T.body_nodoc(bo)
    if not (len(bb) == 4 and isinstance(bb[0], ast.If) and isinstance(bb[0].body[0], ast.Raise)
            and isinstance(bb[1], ast.Assign) and isinstance(bb[2], ast.If) and isinstance(bb[3], ast.Return)):
        T.fail(REL, bo, "unexpected statement sequence in shortest_path_to_border")
    t0 = bb[0].test
    if not (isinstance(t0, ast.Compare) and isinstance(t0.left, ast.Call) and T.dotted(t0.left.func) == "len"
            and T.dotted(t0.left.args[0]) == P3[0] + ".boundary_vertices" and len(t0.ops) == 1
            and type(t0.ops[0]) in T.CMP):
        T.fail(REL, t0, "border guard is not a test on len(mesh.boundary_vertices)")
    no_border = "%s n %s" % (T.CMP[type(t0.ops[0])], _z(_const_int(t0.comparators[0], "border guard")))
    cl = bb[1].value
    if not (isinstance(cl, ast.Call) and _is_name(cl.func, vs.name)):
        T.fail(REL, cl, "shortest_path_to_border does not call shortest_path_to_vertex_set")
    bound = {}
    for pn, a in zip(P2, cl.args):
        bound[pn] = a
    for kw in cl.keywords:
        bound[kw.arg] = kw.value
    if not (_is_name(bound.get(mesh2), P3[0]) and _is_name(bound.get(start2), P3[1])
            and T.dotted(bound.get(targets2)) == P3[0] + ".boundary_vertices"
            and _is_name(bound.get(weights2), P3[2]) and _is_name(bound.get(export2), P3[3])):
        T.fail(REL, cl, "shortest_path_to_border does not forward (mesh, start, mesh.boundary_vertices, weights, export)")
    resn = bb[1].targets[0].id
    t2 = bb[2].test
    if not (isinstance(t2, ast.Compare) and isinstance(t2.left, ast.Call) and T.dotted(t2.left.func) == "len"
            and _is_name(t2.left.args[0], resn) and isinstance(t2.ops[0], ast.Eq)
            and _const_int(t2.comparators[0], "result length") == 2 and len(bb[2].body) == 1
            and isinstance(bb[2].body[0], ast.Return)):
        T.fail(REL, bb[2], "expected `if len(result)==2: return result[k]`")
    sr = _sub(bb[2].body[0].value)
    if not (sr and _is_name(sr[0], resn)):
        T.fail(REL, bb[2], "border result is not result[k]")
    bidx = _const_int(sr[1], "border result index")
    if bidx < 0:
        T.fail(REL, bb[2], "negative border result index")
    g.append("(* ---- shortest_path_to_border: shortest_path_to_vertex_set(mesh, start, mesh.boundary_vertices, ...)[k] *)")
    g.append("Definition no_border_test (n : Z) : bool := %s.   (* raise Exception(\"Mesh has no border\") *)" % no_border)
    g.append("Definition border_result_index : nat := %d." % bidx)

    def dflags(d, wname, ename):
        return (set(d) == {wname, ename} and d.get(wname) == "length", set(d) == {wname, ename} and d.get(ename) is False)
    fl = [dflags(dflt_sp, weights, export), dflags(dflt_vs, weights2, export2), dflags(dflt_bo, P3[2], P3[3])]
    g.append("(* ---- optional parameters: exactly `weights` and `export_path_mesh`, defaults %r / %r / %r *)" % (dflt_sp, dflt_vs, dflt_bo))
    g.append("Definition default_weights_is_length : bool := %s." % ("true" if all(f[0] for f in fl) else "false"))
    g.append("Definition default_export_is_false : bool := %s." % ("true" if all(f[1] for f in fl) else "false"))

    _gen_build_path(src, tree, g, parts)
    out = T.header("C09: weight selectors, relaxation test, sink construction, shortcut plumbing (paths.py)", parts)
    return out, g


def gen_lt():
    """PriorityItem.__lt__ via the C20 translator (which validates the whole of priority_queue.py)."""
    from . import c20
    text = c20.gen()["C20/Gen.v"]
    m = re.search(r"Definition item_lt \(a b : item\) : bool := (.*?)\.\n", text)
    if not m:
        raise TranslationError("priority_queue.py: comparator not found in the C20 translation")
    hs = re.findall(r"source (\S+) sha256/16=(\S+)", text)
    return m.group(1), hs


def gen():
    head, g = gen_paths()
    lt, hs = gen_lt()
    head = head.replace("*)\n", "".join("   source priority_queue.%s sha256/16=%s\n" % h for h in hs) + "*)\n", 1)
    body = """From Coq Require Import ZArith List Bool.
Import ListNotations.
Open Scope Z_scope.

""" + "\n".join(g) + """

(* ---- priority_queue.py: an item is (priority, payload); PriorityItem.__lt__ *)
Definition pq_item : Type := (Z * Z)%%type.
Definition pq_item_lt (a b : pq_item) : bool := %s.
""" % lt
    return {"C09/Gen.v": head + body}
