"""mouette/operators/{laplacian_op,gradient_op,mass,adjacency}.py -> coq/theories/C08/Gen.v

What is extracted (everything else in those functions is modelled by hand in C08/Model.v and tied by correspondence):
the (row, col, value) coefficient patterns of every assembly loop, the per-element weights (cot/2, 0.5, -2 cot, l cot/6,
area/3, 1/len), index formulas (12 |F|, 2 iT + 1, 3 - u - v), thresholds, option post-processing order
(sqrt before inverse), matrix shapes, default arguments that another operator relies on.

Recognised shapes only; anything else raises TranslationError (fail closed: the tie to the source is then broken).
"""
import ast
from fractions import Fraction

from . import common as T
from ..core import TranslationError

LAP = "mouette/operators/laplacian_op.py"
GRAD = "mouette/operators/gradient_op.py"
MASS = "mouette/operators/mass.py"
ADJ = "mouette/operators/adjacency.py"

RESERVED = {"I", "O", "S", "T", "Z", "N", "Q", "R", "at", "in", "as", "fun", "if", "then", "else", "let", "match", "end",
            "with", "forall", "exists", "Type", "Set", "Prop", "fix", "cofix", "return", "where", "using", "mod", "pos",
            "nat", "list", "bool", "true", "false", "fst", "snd", "pair", "id", "length", "map", "half", "two", "three", "six"}


def cn(name):
    return name + "_" if name in RESERVED else name


class Env:
    """typing environment of one extraction: python name -> 'Z' | 'T'; `special(node)` may translate a whole sub-expression."""

    def __init__(self, rel, znames=(), tnames=(), special=None):
        self.rel = rel
        self.z = set(znames)
        self.t = set(tnames)
        self.special = special or (lambda node, kind: None)


CONST_T = {Fraction(0): "(o0 OPS_)", Fraction(1): "(o1 OPS_)", Fraction(2): "(two OPS_)", Fraction(3): "(three OPS_)",
           Fraction(6): "(six OPS_)", Fraction(1, 2): "(half OPS_)"}


def tconst(rel, node):
    v = node.value
    if isinstance(v, bool) or not isinstance(v, (int, float)):
        T.fail(rel, node, "unsupported constant")
    fr = Fraction(repr(v)) if isinstance(v, float) else Fraction(v)
    if fr in CONST_T:
        return CONST_T[fr]
    if fr < 0:
        T.fail(rel, node, "negative literal")
    if fr.denominator == 1:
        return "(oofZ OPS_ %d)" % fr.numerator
    return "(odiv OPS_ (oofZ OPS_ %d) (oofZ OPS_ %d))" % (fr.numerator, fr.denominator)


def zexpr(node, env):
    s = env.special(node, "Z")
    if s is not None:
        return s
    if isinstance(node, ast.Constant) and isinstance(node.value, int) and not isinstance(node.value, bool):
        return str(node.value) if node.value >= 0 else "(%d)" % node.value
    if isinstance(node, ast.Name) and node.id in env.z:
        return cn(node.id)
    if isinstance(node, ast.UnaryOp) and isinstance(node.op, ast.USub):
        return "(- %s)" % zexpr(node.operand, env)
    if isinstance(node, ast.BinOp) and type(node.op) in (ast.Add, ast.Sub, ast.Mult):
        op = {ast.Add: "+", ast.Sub: "-", ast.Mult: "*"}[type(node.op)]
        return "(%s %s %s)" % (zexpr(node.left, env), op, zexpr(node.right, env))
    T.fail(env.rel, node, "unsupported integer expression")


def texpr(node, env):
    s = env.special(node, "T")
    if s is not None:
        return s
    if isinstance(node, ast.Constant):
        return tconst(env.rel, node)
    if isinstance(node, ast.Name) and node.id in env.t:
        return cn(node.id)
    if isinstance(node, ast.UnaryOp) and isinstance(node.op, ast.USub):
        return "(oopp OPS_ %s)" % texpr(node.operand, env)
    if isinstance(node, ast.BinOp) and type(node.op) in (ast.Add, ast.Sub, ast.Mult, ast.Div):
        op = {ast.Add: "oadd", ast.Sub: "osub", ast.Mult: "omul", ast.Div: "odiv"}[type(node.op)]
        return "(%s OPS_ %s %s)" % (op, texpr(node.left, env), texpr(node.right, env))
    if isinstance(node, ast.Call) and T.dotted(node.func) == "abs" and len(node.args) == 1 and not node.keywords:
        return "(oabs OPS_ %s)" % texpr(node.args[0], env)
    if isinstance(node, ast.Call) and T.dotted(node.func) in ("np.sqrt", "math.sqrt") and len(node.args) == 1 and not node.keywords:
        return "(osqrt OPS_ %s)" % texpr(node.args[0], env)
    T.fail(env.rel, node, "unsupported numeric expression")


def cexpr(node, env):
    """complex-valued expression -> (re, im) pair of T-expressions"""
    if isinstance(node, ast.Call) and T.dotted(node.func) == "complex" and len(node.args) == 2 and not node.keywords:
        return texpr(node.args[0], env), texpr(node.args[1], env)
    if isinstance(node, ast.BinOp) and isinstance(node.op, ast.Div):
        re, im = cexpr(node.left, env)
        d = texpr(node.right, env)
        return "(odiv OPS_ %s %s)" % (re, d), "(odiv OPS_ %s %s)" % (im, d)
    T.fail(env.rel, node, "unsupported complex expression")


def bexpr(node, env):
    if isinstance(node, ast.Compare) and len(node.ops) == 1 and isinstance(node.ops[0], (ast.Lt, ast.Gt)):
        a, b = texpr(node.left, env), texpr(node.comparators[0], env)
        if isinstance(node.ops[0], ast.Gt):
            a, b = b, a
        return "(oltb OPS_ %s %s)" % (a, b)
    T.fail(env.rel, node, "unsupported numeric comparison")


# ------------------------------------------------------------------------------------------------ small matchers
def is_name(node, name=None):
    return isinstance(node, ast.Name) and (name is None or node.id == name)


def names_of_tuple(rel, node, n=None):
    if not isinstance(node, ast.Tuple) or not all(isinstance(e, ast.Name) for e in node.elts):
        T.fail(rel, node, "expected a tuple of names")
    if n is not None and len(node.elts) != n:
        T.fail(rel, node, "expected %d names" % n)
    return [e.id for e in node.elts]


def enumerate_loop(rel, node, over):
    """`for i, (a, b, ..) in enumerate(<over>)` or `for i, x in enumerate(<over>)` -> (i, [a, b, ..] | x)"""
    if not (isinstance(node, ast.For) and not node.orelse and isinstance(node.iter, ast.Call)
            and T.dotted(node.iter.func) == "enumerate" and len(node.iter.args) == 1
            and T.dotted(node.iter.args[0]) == over and isinstance(node.target, ast.Tuple) and len(node.target.elts) == 2
            and is_name(node.target.elts[0])):
        T.fail(rel, node, "expected `for i, .. in enumerate(%s)`" % over)
    second = node.target.elts[1]
    if isinstance(second, ast.Tuple):
        return node.target.elts[0].id, names_of_tuple(rel, second)
    if is_name(second):
        return node.target.elts[0].id, second.id
    T.fail(rel, node, "unsupported loop target")


def coo_roles(rel, call, ctor=("sp.csc_matrix", "sp.coo_matrix")):
    """`sp.csc_matrix((data, (rows, cols)), ...)` -> ({'data': name, 'row': name, 'col': name}, keywords)"""
    if not (isinstance(call, ast.Call) and T.dotted(call.func) in ctor and len(call.args) == 1):
        T.fail(rel, call, "expected a scipy coo-style constructor")
    a = call.args[0]
    if not (isinstance(a, ast.Tuple) and len(a.elts) == 2 and is_name(a.elts[0]) and isinstance(a.elts[1], ast.Tuple)
            and len(a.elts[1].elts) == 2 and all(is_name(x) for x in a.elts[1].elts)):
        T.fail(rel, call, "expected (data, (rows, cols))")
    roles = {"data": a.elts[0].id, "row": a.elts[1].elts[0].id, "col": a.elts[1].elts[1].id}
    if len(set(roles.values())) != 3:
        T.fail(rel, call, "data/rows/cols arrays are not distinct")
    return roles, {k.arg: k.value for k in call.keywords}


def shape_kw(rel, kws, env, required=True):
    sh = kws.get("shape")
    if sh is None:
        if required:
            raise TranslationError("%s: the sparse constructor is given no explicit shape" % rel)
        return None
    if not (isinstance(sh, ast.Tuple) and len(sh.elts) == 2):
        T.fail(rel, sh, "shape is not a pair")
    return "(%s, %s)" % (zexpr(sh.elts[0], env), zexpr(sh.elts[1], env))


def counter_triplet(rel, st, roles, env, counter, cplx=False):
    """`rows[_c], cols[_c], coeffs[_c], _c = R, C, V, _c+1` -> (R, C, V)"""
    if not (isinstance(st, ast.Assign) and len(st.targets) == 1 and isinstance(st.targets[0], ast.Tuple)
            and isinstance(st.value, ast.Tuple) and len(st.targets[0].elts) == 4 and len(st.value.elts) == 4):
        T.fail(rel, st, "expected `rows[c], cols[c], coeffs[c], c = i, j, v, c+1`")
    got = {}
    for tg, val in zip(st.targets[0].elts[:3], st.value.elts[:3]):
        if not (isinstance(tg, ast.Subscript) and is_name(tg.value) and is_name(tg.slice, counter)):
            T.fail(rel, tg, "coefficient slot is not indexed by the running counter")
        got[tg.value.id] = val
    last_t, last_v = st.targets[0].elts[3], st.value.elts[3]
    if not (is_name(last_t, counter) and isinstance(last_v, ast.BinOp) and isinstance(last_v.op, ast.Add)
            and is_name(last_v.left, counter) and isinstance(last_v.right, ast.Constant) and last_v.right.value == 1):
        T.fail(rel, st, "the running counter is not advanced by one")
    if set(got) != set(roles.values()):
        T.fail(rel, st, "coefficient statement does not fill rows/cols/data")
    return (zexpr(got[roles["row"]], env), zexpr(got[roles["col"]], env), texpr(got[roles["data"]], env))


def slot_triplet(rel, st, roles, env, cplx=False):
    """`rows[K], cols[K], vals[K] = R, C, V` -> (slot K as source text, (R, C, V))"""
    if not (isinstance(st, ast.Assign) and len(st.targets) == 1 and isinstance(st.targets[0], ast.Tuple)
            and isinstance(st.value, ast.Tuple) and len(st.targets[0].elts) == 3 and len(st.value.elts) == 3):
        T.fail(rel, st, "expected `rows[k], cols[k], vals[k] = i, j, v`")
    got, slots = {}, set()
    for tg, val in zip(st.targets[0].elts, st.value.elts):
        if not (isinstance(tg, ast.Subscript) and is_name(tg.value)):
            T.fail(rel, tg, "expected an array slot")
        slots.add(ast.dump(tg.slice))
        got[tg.value.id] = (val, tg.slice)
    if len(slots) != 1 or set(got) != set(roles.values()):
        T.fail(rel, st, "rows/cols/vals are not written at one common slot")
    slot = got[roles["row"]][1]
    v = got[roles["data"]][0]
    val = ("(%s, %s)" % cexpr(v, env)) if cplx else texpr(v, env)
    return slot, (zexpr(got[roles["row"]][0], env), zexpr(got[roles["col"]][0], env), val)


def check_slots(rel, slots, loopvar, k, where):
    """slots must be k*loopvar + j for j = 0..k-1, in order"""
    for j, s in enumerate(slots):
        want = "%d*%s" % (k, loopvar) if j == 0 else "%d*%s+%d" % (k, loopvar, j)
        if ast.unparse(s).replace(" ", "") != want:
            T.fail(rel, s, "%s: coefficient slot %d is not %s" % (where, j, want))


def mat_assign(rel, st, matname, env):
    """`mat[R, C] = V` | `+= V` | `-= V`  -> (R, C, signed V)"""
    if isinstance(st, ast.Assign) and len(st.targets) == 1:
        tg, v, sign = st.targets[0], st.value, 1
    elif isinstance(st, ast.AugAssign) and isinstance(st.op, (ast.Add, ast.Sub)):
        tg, v, sign = st.target, st.value, (1 if isinstance(st.op, ast.Add) else -1)
    else:
        T.fail(rel, st, "expected an assignment into the matrix")
    if not (isinstance(tg, ast.Subscript) and is_name(tg.value, matname) and isinstance(tg.slice, ast.Tuple) and len(tg.slice.elts) == 2):
        T.fail(rel, st, "expected `%s[i, j] ...`" % matname)
    val = texpr(v, env)
    if sign < 0:
        val = "(oopp OPS_ %s)" % val
    return zexpr(tg.slice.elts[0], env), zexpr(tg.slice.elts[1], env), val


def trip(t):
    return "(%s, %s, %s)" % t


def tlist(ts):
    return "[" + "; ".join(trip(t) for t in ts) + "]"


def binders(names, ty):
    return "(%s : %s)" % (" ".join(cn(n) for n in names), ty) if names else ""


def only_for(rel, stmts, what):
    fs = [s for s in stmts if isinstance(s, ast.For)]
    if len(fs) != 1:
        raise TranslationError("%s: expected exactly one loop in %s" % (rel, what))
    return fs[0]


def find_assign(rel, stmts, name):
    for s in stmts:
        if isinstance(s, ast.Assign) and len(s.targets) == 1 and is_name(s.targets[0], name):
            return s.value
    raise TranslationError("%s: assignment to %s not found" % (rel, name))


def len_special(mapping):
    """special: len(<dotted>) -> integer name"""
    def sp(node, kind):
        if isinstance(node, ast.Call) and T.dotted(node.func) == "len" and len(node.args) == 1:
            d = T.dotted(node.args[0])
            if d in mapping and kind == mapping[d][0]:
                return mapping[d][1]
        return None
    return sp


def ret_value(rel, fn):
    b = T.body_nodoc(fn)
    if not b or not isinstance(b[-1], ast.Return):
        T.fail(rel, fn, "function does not end with a return")
    return b[-1].value


# ------------------------------------------------------------------------------------------------ laplacian_op.py
def gen_graph_laplacian(src, tree, out, parts):
    fn = T.find_def(tree, "graph_laplacian", LAP)
    parts.append(("laplacian_op.graph_laplacian", T.sha(src, fn)))
    b = T.body_nodoc(fn)
    lens = len_special({"mesh.vertices": ("Z", "n"), "mesh.edges": ("Z", "m")})
    if ast.unparse(find_assign(LAP, b, "n")) != "len(mesh.vertices)" or ast.unparse(find_assign(LAP, b, "m")) != "len(mesh.edges)":
        T.fail(LAP, fn, "n, m are not the vertex / edge counts")
    envz = Env(LAP, znames={"n", "m"})
    ncoeffs = zexpr(find_assign(LAP, b, "ncoeffs"), envz)
    add = [s for s in b if isinstance(s, ast.FunctionDef) and s.name == "add"]
    if len(add) != 1:
        T.fail(LAP, fn, "helper add(k, i, j, x) not found")
    add = add[0]
    ap = [a.arg for a in add.args.args]
    if len(ap) != 4:
        T.fail(LAP, add, "add does not take (k, i, j, x)")
    roles, kws = coo_roles(LAP, ret_value(LAP, fn))
    shape = shape_kw(LAP, kws, envz)
    ab = T.body_nodoc(add)
    got = {}
    for s in ab[:-1]:
        if not (isinstance(s, ast.Assign) and isinstance(s.targets[0], ast.Subscript) and is_name(s.targets[0].value)
                and is_name(s.targets[0].slice, ap[0]) and is_name(s.value) and s.value.id in ap[1:]):
            T.fail(LAP, s, "add: expected `array[k] = <param>`")
        got[s.targets[0].value.id] = s.value.id
    r = ab[-1]
    if not (isinstance(r, ast.Return) and ast.unparse(r.value).replace(" ", "") == ap[0] + "+1") or set(got) != set(roles.values()):
        T.fail(LAP, add, "add does not fill data/rows/cols at k and return k+1")
    loop = only_for(LAP, b, "graph_laplacian")
    if not (is_name(loop.target) and T.dotted(loop.iter) == "mesh.id_vertices"):
        T.fail(LAP, loop, "expected `for l in mesh.id_vertices`")
    l = loop.target.id
    lb = loop.body
    if not (len(lb) == 3 and isinstance(lb[0], ast.Assign) and is_name(lb[0].targets[0])
            and ast.unparse(lb[0].value) == "mesh.connectivity.vertex_to_vertices(%s)" % l):
        T.fail(LAP, loop, "expected adj = mesh.connectivity.vertex_to_vertices(l)")
    adj = lb[0].targets[0].id

    def addcall(st, k):
        if not (isinstance(st, ast.Assign) and is_name(st.targets[0], k) and isinstance(st.value, ast.Call)
                and is_name(st.value.func, "add") and len(st.value.args) == 4 and is_name(st.value.args[0], k)):
            T.fail(LAP, st, "expected k = add(k, i, j, x)")
        return dict(zip(ap[1:], st.value.args[1:]))
    kname = lb[1].targets[0].id if isinstance(lb[1], ast.Assign) and is_name(lb[1].targets[0]) else None
    d = addcall(lb[1], kname)
    inner = lb[2]
    if not (isinstance(inner, ast.For) and is_name(inner.target) and is_name(inner.iter, adj) and len(inner.body) == 1):
        T.fail(LAP, inner, "expected `for b in adj: k = add(...)`")
    bname = inner.target.id
    o = addcall(inner.body[0], kname)

    def sp(node, kind):
        if kind == "T" and ast.unparse(node) == "len(%s)" % adj:
            return "len_adj"
        return None
    env = Env(LAP, znames={l, bname}, tnames=set(), special=sp)
    dg = (zexpr(d[got[roles["row"]]], env), zexpr(d[got[roles["col"]]], env), texpr(d[got[roles["data"]]], env))
    of = (zexpr(o[got[roles["row"]]], env), zexpr(o[got[roles["col"]]], env), texpr(o[got[roles["data"]]], env))
    out.append("(* ---- laplacian_op.graph_laplacian *)")
    out.append("Definition gl_ncoeffs (n m : Z) : Z := %s." % ncoeffs)
    out.append("Definition gl_shape (n m : Z) : Z * Z := %s." % shape)
    out.append("Definition gl_diag %s (len_adj : NUM_) : Z * Z * NUM_ := %s." % (binders([l], "Z"), trip(dg)))
    out.append("Definition gl_off %s : Z * Z * NUM_ := %s." % (binders([l, bname], "Z"), trip(of)))


def gen_laplacian(src, tree, out, parts):
    fn = T.find_def(tree, "laplacian", LAP)
    parts.append(("laplacian_op.laplacian", T.sha(src, fn)))
    b = T.body_nodoc(fn)
    envz = Env(LAP, znames={"n"}, special=len_special({"mesh.faces": ("Z", "nf"), "mesh.vertices": ("Z", "n")}))
    ncoeffs = zexpr(find_assign(LAP, b, "n_coeffs"), envz)
    mat = find_assign(LAP, b, "mat")
    roles, kws = coo_roles(LAP, mat)
    if not (isinstance(b[-1], ast.Return) and is_name(b[-1].value, "mat")):
        T.fail(LAP, fn, "laplacian does not return mat")
    if ast.unparse(find_assign(LAP, b, "n")) != "len(mesh.vertices)":
        T.fail(LAP, fn, "n is not the vertex count")
    shape = shape_kw(LAP, kws, envz)
    loop = only_for(LAP, b, "laplacian")
    iT, fv = enumerate_loop(LAP, loop, "mesh.faces")
    if not isinstance(fv, list) or len(fv) != 3:
        T.fail(LAP, loop, "faces are not unpacked as three vertices")
    lb = loop.body
    if not (len(lb) == 2 and isinstance(lb[0], ast.If) and is_name(lb[0].test, "cotan") and isinstance(lb[1], ast.For)):
        T.fail(LAP, loop, "unexpected shape of the per-face body")
    # weights
    cot_b, uni_b = lb[0].body, lb[0].orelse
    if not (len(cot_b) == 1 and len(uni_b) == 1 and isinstance(cot_b[0], ast.Assign) and isinstance(uni_b[0], ast.Assign)):
        T.fail(LAP, lb[0], "weights are not a single assignment per branch")
    wn = names_of_tuple(LAP, cot_b[0].targets[0], 3)
    if names_of_tuple(LAP, uni_b[0].targets[0], 3) != wn:
        T.fail(LAP, lb[0], "the two branches bind different weight names")
    ge = cot_b[0].value
    if not (isinstance(ge, ast.GeneratorExp) and len(ge.generators) == 1 and not ge.generators[0].ifs
            and is_name(ge.generators[0].target)):
        T.fail(LAP, ge, "cotan weights are not a generator over the face vertices")
    gv = ge.generators[0].target.id
    order = names_of_tuple(LAP, ge.generators[0].iter, 3)
    if not set(order) <= set(fv):
        T.fail(LAP, ge, "generator does not range over the face's vertices")
    cot_name = None
    for s in b:
        pass

    def mk_special(vname):
        def sp(node, kind):
            if kind == "T" and isinstance(node, ast.Subscript) and is_name(node.value, "cot"):
                if ast.unparse(node.slice) == "mesh.connectivity.vertex_to_corner_in_face(%s, %s)" % (gv, iT):
                    return "(cot_at %s)" % cn(vname)
                T.fail(LAP, node, "cot is not read at the corner of the generator's vertex in the current face")
            return None
        return sp
    wc = [texpr(ge.elt, Env(LAP, special=mk_special(v))) for v in order]
    if not (isinstance(uni_b[0].value, ast.Tuple) and len(uni_b[0].value.elts) == 3):
        T.fail(LAP, uni_b[0], "uniform weights are not a 3-tuple")
    wu = [texpr(e, Env(LAP)) for e in uni_b[0].value.elts]
    # edges of the face and their weights
    ef = lb[1]
    ijv = names_of_tuple(LAP, ef.target, 3)
    if not (isinstance(ef.iter, ast.List) and len(ef.iter.elts) == 3):
        T.fail(LAP, ef, "expected a list of three (i, j, weight) triples")
    edges = []
    for e in ef.iter.elts:
        nm = names_of_tuple(LAP, e, 3)
        if not (nm[0] in fv and nm[1] in fv and nm[2] in wn):
            T.fail(LAP, e, "edge triple is not (vertex, vertex, weight)")
        edges.append((cn(nm[0]), cn(nm[1]), cn(nm[2])))
    # the four coefficients (scalar branch)
    eb = ef.body
    if not (len(eb) == 3 and isinstance(eb[2], ast.If) and ast.unparse(eb[2].test) == "connection is not None" and len(eb[2].orelse) == 2):
        T.fail(LAP, ef, "unexpected shape of the per-edge body")
    env = Env(LAP, znames=set(ijv[:2]), tnames={ijv[2]})
    co = [counter_triplet(LAP, s, roles, env, "_c") for s in (eb[0], eb[1], eb[2].orelse[0], eb[2].orelse[1])]
    out.append("(* ---- laplacian_op.laplacian *)")
    out.append("Definition lap_ncoeffs (nf : Z) : Z := %s." % ncoeffs)
    out.append("Definition lap_shape (n : Z) : Z * Z := %s." % shape)
    out.append("Definition lap_w_cotan (cot_at : Z -> NUM_) %s : NUM_ * NUM_ * NUM_ := (%s)." % (binders(fv, "Z"), ", ".join(wc)))
    out.append("Definition lap_w_uniform : NUM_ * NUM_ * NUM_ := (%s)." % ", ".join(wu))
    out.append("Definition lap_edges %s %s : list (Z * Z * NUM_) := %s." % (binders(fv, "Z"), binders(wn, "NUM_"), tlist(edges)))
    out.append("Definition lap_coeffs %s %s : list (Z * Z * NUM_) := %s." % (binders(ijv[:2], "Z"), binders(ijv[2:], "NUM_"), tlist(co)))


def gen_ced(src, tree, out, parts):
    fn = T.find_def(tree, "cotan_edge_diagonal", LAP)
    parts.append(("laplacian_op.cotan_edge_diagonal", T.sha(src, fn)))
    # default of `inverse` (laplacian_triangles relies on it)
    args = fn.args.args
    defaults = dict(zip([a.arg for a in args][len(args) - len(fn.args.defaults):], fn.args.defaults))
    if "inverse" not in defaults or not isinstance(defaults["inverse"], ast.Constant) or not isinstance(defaults["inverse"].value, bool):
        T.fail(LAP, fn, "cotan_edge_diagonal has no boolean default for `inverse`")
    b = T.body_nodoc(fn)
    r = ret_value(LAP, fn)
    if not (isinstance(r, ast.Call) and T.dotted(r.func) == "sp.diags" and len(r.args) == 1 and is_name(r.args[0], "coeffs")):
        T.fail(LAP, r, "expected return sp.diags(coeffs, ...)")
    loop = only_for(LAP, b, "cotan_edge_diagonal")
    ie, uv = enumerate_loop(LAP, loop, "mesh.edges")
    lb = loop.body
    if not (len(lb) == 6 and isinstance(uv, list) and len(uv) == 2):
        T.fail(LAP, loop, "unexpected shape of the per-edge body")
    u, v = uv
    sides = []
    for st, (x, y) in zip(lb[:2], ((u, v), (v, u))):
        if not (isinstance(st, ast.Assign) and ast.unparse(st.value) == "mesh.connectivity.direct_face(%s, %s, True)" % (x, y)):
            T.fail(LAP, st, "expected direct_face(%s, %s, True)" % (x, y))
        sides.append(names_of_tuple(LAP, st.targets[0], 3))
    cts = names_of_tuple(LAP, lb[2].targets[0], 2) if isinstance(lb[2], ast.Assign) else None
    if cts is None or ast.unparse(lb[2].value) not in ("(0.0, 0.0)", "(0, 0)"):
        T.fail(LAP, lb[2], "expected cT1, cT2 = 0., 0.")
    opps = []
    for k, (st, (tname, i1, i2)) in enumerate(zip(lb[3:5], sides)):
        if not (isinstance(st, ast.If) and ast.unparse(st.test) == "%s is not None" % tname and len(st.body) == 3 and not st.orelse):
            T.fail(LAP, st, "expected `if %s is not None:` with three statements" % tname)
        w, c, ct = st.body
        if not (isinstance(w, ast.Assign) and is_name(w.targets[0]) and isinstance(w.value, ast.Subscript)
                and ast.unparse(w.value.value) == "mesh.faces[%s]" % tname):
            T.fail(LAP, w, "expected w = mesh.faces[%s][...]" % tname)
        wname = w.targets[0].id
        opps.append((i1, i2, zexpr(w.value.slice, Env(LAP, znames={i1, i2}))))
        if not (isinstance(c, ast.Assign) and is_name(c.targets[0])
                and ast.unparse(c.value) == "mesh.connectivity.vertex_to_corner_in_face(%s, %s)" % (wname, tname)):
            T.fail(LAP, c, "expected the corner of the opposite vertex in the face")
        if not (isinstance(ct, ast.Assign) and is_name(ct.targets[0], cts[k]) and ast.unparse(ct.value) == "cotan[%s]" % c.targets[0].id):
            T.fail(LAP, ct, "expected %s = cotan[corner]" % cts[k])
    fin = lb[5]
    env = Env(LAP, tnames=set(cts))

    def coeff_of(stmts):
        if len(stmts) == 1 and isinstance(stmts[0], ast.Assign) and ast.unparse(stmts[0].targets[0]) == "coeffs[%s]" % ie:
            return texpr(stmts[0].value, env)
        if len(stmts) == 1 and isinstance(stmts[0], ast.If) and stmts[0].orelse:
            return "(if %s then %s else %s)" % (bexpr(stmts[0].test, env), coeff_of(stmts[0].body), coeff_of(stmts[0].orelse))
        T.fail(LAP, stmts[0], "unsupported coefficient statement")
    if not (isinstance(fin, ast.If) and is_name(fin.test, "inverse") and fin.orelse):
        T.fail(LAP, fin, "expected `if inverse: ... else: ...`")
    out.append("(* ---- laplacian_op.cotan_edge_diagonal *)")
    out.append("Definition ced_default_inverse : bool := %s." % ("true" if defaults["inverse"].value else "false"))
    for k, (i1, i2, e) in enumerate(opps):
        out.append("Definition ced_opp%d %s : Z := %s." % (k + 1, binders([i1, i2], "Z"), e))
    out.append("Definition ced_coeff_inverse %s : NUM_ := %s." % (binders(cts, "NUM_"), coeff_of(fin.body)))
    out.append("Definition ced_coeff_direct %s : NUM_ := %s." % (binders(cts, "NUM_"), coeff_of(fin.orelse)))


def gen_lap_triangles(src, tree, out, parts):
    fn = T.find_def(tree, "laplacian_triangles", LAP)
    parts.append(("laplacian_op.laplacian_triangles", T.sha(src, fn)))
    b = T.body_nodoc(fn)
    ifs = [s for s in b if isinstance(s, ast.If)]
    if not (len(ifs) == 2 and ast.unparse(ifs[0].test) == "connection is not None" and len(ifs[0].orelse) == 1):
        T.fail(LAP, fn, "unexpected control structure")
    nab = find_assign(LAP, b, "Nabla")
    if not (isinstance(nab, ast.Call) and T.dotted(nab.func) == "sp.lil_matrix" and ast.unparse(nab.args[0]) == "(m, n)"):
        T.fail(LAP, nab, "Nabla is not a lil_matrix((m, n))")
    if ast.unparse(find_assign(LAP, b, "n")) != "len(mesh.faces)" or ast.unparse(find_assign(LAP, b, "m")) != "len(mesh.edges)":
        T.fail(LAP, fn, "n, m are not the face / edge counts")
    loop = ifs[0].orelse[0]
    ie, e2 = enumerate_loop(LAP, loop, "mesh.edges")
    lb = loop.body
    if not (len(lb) == 2 and isinstance(lb[0], ast.Assign) and isinstance(e2, list) and len(e2) == 2
            and ast.unparse(lb[0].value) == "mesh.connectivity.edge_to_faces(%s, %s)" % tuple(e2)):
        T.fail(LAP, loop, "expected T1, T2 = edge_to_faces(ei, ej)")
    t12 = names_of_tuple(LAP, lb[0].targets[0], 2)
    cond = lb[1]
    if not (isinstance(cond, ast.If) and ast.unparse(cond.test) == "%s is not None and %s is not None" % tuple(t12) and not cond.orelse):
        T.fail(LAP, cond, "expected the both-faces-exist guard")
    env = Env(LAP, znames={ie, *t12})
    ent = [mat_assign(LAP, s, "Nabla", env) for s in cond.body]
    if any(isinstance(s, ast.AugAssign) for s in cond.body):
        T.fail(LAP, cond, "Nabla entries are expected to be plain assignments")
    # the products returned
    tail = [ast.unparse(s) for s in b if not isinstance(s, (ast.If, ast.For))]
    need = ["Nabla = Nabla.tocsc()", "Nabla_star = Nabla.conj().transpose()"]
    for x in need:
        if x not in tail:
            raise TranslationError("%s: laplacian_triangles: statement `%s` not found" % (LAP, x))
    last = ifs[1]
    if not (is_name(last.test, "cotan") and [ast.unparse(s) for s in last.body] == ["D = cotan_edge_diagonal(mesh)", "return Nabla_star @ D @ Nabla"]
            and [ast.unparse(s) for s in last.orelse] == ["return Nabla_star @ Nabla"]):
        T.fail(LAP, last, "the returned products are not N* D N / N* N with D = cotan_edge_diagonal(mesh)")
    out.append("(* ---- laplacian_op.laplacian_triangles (scalar branch): returns N^T D N with D = cotan_edge_diagonal(mesh), or N^T N *)")
    out.append("Definition lapt_nabla %s : list (Z * Z * NUM_) := %s." % (binders([ie] + t12, "Z"), tlist(ent)))


def gen_lap_edges(src, tree, out, parts):
    fn = T.find_def(tree, "laplacian_edges", LAP)
    parts.append(("laplacian_op.laplacian_edges", T.sha(src, fn)))
    b = T.body_nodoc(fn)
    envz = Env(LAP, special=len_special({"mesh.face_corners": ("Z", "ncorners")}))
    ncoeffs = zexpr(find_assign(LAP, b, "n_coeffs"), envz)
    roles, kws = coo_roles(LAP, find_assign(LAP, b, "mat"))
    if ast.unparse(find_assign(LAP, b, "m")) != "len(mesh.edges)":
        T.fail(LAP, fn, "m is not the edge count")
    lape_shape = shape_kw(LAP, kws, Env(LAP, znames={"m"}))
    loop = only_for(LAP, b, "laplacian_edges")
    cnr, cur = enumerate_loop(LAP, loop, "mesh.face_corners")
    lb = loop.body
    if not (len(lb) == 7 and isinstance(cur, str)):
        T.fail(LAP, loop, "unexpected shape of the per-corner body")
    which = {}
    for st in lb[:2]:
        if not (isinstance(st, ast.Assign) and is_name(st.targets[0])):
            T.fail(LAP, st, "expected prevV / nextV assignment")
        u = ast.unparse(st.value)
        for k in ("previous_corner", "next_corner"):
            if u == "mesh.face_corners[mesh.connectivity.%s(%s)]" % (k, cnr):
                which[st.targets[0].id] = k
    if sorted(which.values()) != ["next_corner", "previous_corner"]:
        T.fail(LAP, loop, "prevV / nextV are not the previous and next corner's vertices")
    co = lb[2]
    if not (isinstance(co, ast.Assign) and is_name(co.targets[0]) and isinstance(co.value, ast.IfExp) and is_name(co.value.test, "cotan")):
        T.fail(LAP, co, "expected coeff = <..> if cotan else <..>")
    cf = co.targets[0].id

    def sp(node, kind):
        if kind == "T" and ast.unparse(node) == "cot[%s]" % cnr:
            return "cot_cnr"
        return None
    c_cot = texpr(co.value.body, Env(LAP, special=sp))
    c_uni = texpr(co.value.orelse, Env(LAP))
    es = lb[3]
    e12 = names_of_tuple(LAP, es.targets[0], 2) if isinstance(es, ast.Assign) else None
    if e12 is None or not (isinstance(es.value, ast.Tuple) and len(es.value.elts) == 2):
        T.fail(LAP, es, "expected e1, e2 = edge_id(..), edge_id(..)")
    vnames = [cur] + list(which)
    eargs = []
    for c in es.value.elts:
        if not (isinstance(c, ast.Call) and T.dotted(c.func) == "mesh.connectivity.edge_id" and len(c.args) == 2
                and all(is_name(a) and a.id in vnames for a in c.args)):
            T.fail(LAP, c, "expected mesh.connectivity.edge_id(<vertex>, <vertex>)")
        eargs.append("eid %s %s" % (cn(c.args[0].id), cn(c.args[1].id)))
    br = lb[4]
    if not (isinstance(br, ast.If) and ast.unparse(br.test) == "connection is not None" and len(br.orelse) == 2):
        T.fail(LAP, br, "expected the connection / scalar branch")
    env = Env(LAP, znames=set(e12), tnames={cf})
    ts = [counter_triplet(LAP, s, roles, env, "_c") for s in (br.orelse[0], br.orelse[1], lb[5], lb[6])]
    prevname = [k for k, v in which.items() if v == "previous_corner"][0]
    nextname = [k for k, v in which.items() if v == "next_corner"][0]
    out.append("(* ---- laplacian_op.laplacian_edges *)")
    out.append("Definition lape_ncoeffs (ncorners : Z) : Z := %s." % ncoeffs)
    out.append("Definition lape_shape (m : Z) : Z * Z := %s." % lape_shape)
    out.append("Definition lape_coeff_cotan (cot_cnr : NUM_) : NUM_ := %s." % c_cot)
    out.append("Definition lape_coeff_uniform : NUM_ := %s." % c_uni)
    out.append("Definition lape_e1e2 (eid : Z -> Z -> Z) %s : Z * Z := (%s, %s)." % (binders([prevname, cur, nextname], "Z"), eargs[0], eargs[1]))
    out.append("Definition lape_coeffs %s %s : list (Z * Z * NUM_) := %s." % (binders(e12, "Z"), binders([cf], "NUM_"), tlist(ts)))


def gen_volume_laplacian(src, tree, out, parts):
    fn = T.find_def(tree, "volume_laplacian", LAP)
    parts.append(("laplacian_op.volume_laplacian", T.sha(src, fn)))
    b = T.body_nodoc(fn)
    if ast.unparse(find_assign(LAP, b, "mat")) != "sp.lil_matrix((n, n))" or ast.unparse(find_assign(LAP, b, "n")) != "len(mesh.vertices)":
        T.fail(LAP, fn, "mat is not lil_matrix((n, n)) with n = |V|")
    if not is_name(ret_value(LAP, fn), "mat"):
        T.fail(LAP, fn, "does not return mat")
    loop = only_for(LAP, b, "volume_laplacian")
    e, ij = enumerate_loop(LAP, loop, "mesh.edges")
    lb = loop.body
    if not (len(lb) == 6 and isinstance(ij, list) and len(ij) == 2 and isinstance(lb[0], ast.Assign) and is_name(lb[0].targets[0])
            and isinstance(lb[0].value, ast.Constant) and lb[0].value.value == 0):
        T.fail(LAP, loop, "unexpected shape of the per-edge body")
    om = lb[0].targets[0].id
    vi, vj = ij
    inner = lb[1]
    if not (isinstance(inner, ast.For) and is_name(inner.target) and ast.unparse(inner.iter) == "mesh.connectivity.edge_to_cell(%s)" % e
            and len(inner.body) == 6):
        T.fail(LAP, inner, "expected the loop over the cells around the edge")
    ic = inner.target.id
    s0, s1, s2, s3, s4, s5 = inner.body
    kl = names_of_tuple(LAP, s0.targets[0], 2) if isinstance(s0, ast.Assign) else None
    if kl is None or ast.unparse(s0.value) != "(x for x in mesh.cells[%s] if x not in (%s, %s))" % (ic, vi, vj):
        T.fail(LAP, s0, "expected K, L = the two other vertices of the cell, in cell order")
    kk, ll = kl
    if not (isinstance(s1, ast.Assign) and is_name(s1.targets[0]) and isinstance(s1.value, ast.Call) and T.dotted(s1.value.func) == "distance"
            and sorted(ast.unparse(a) for a in s1.value.args) == sorted(["mesh.vertices[%s]" % kk, "mesh.vertices[%s]" % ll])):
        T.fail(LAP, s1, "expected l = distance(vertices[K], vertices[L])")
    lname = s1.targets[0].id
    faces = []
    zn = []
    for st in (s2, s3):
        if not (isinstance(st, ast.Assign) and isinstance(st.targets[0], ast.Tuple) and len(st.targets[0].elts) == 3 and is_name(st.targets[0].elts[2])
                and isinstance(st.value, ast.Call) and T.dotted(st.value.func) == "face_basis" and len(st.value.args) == 1
                and isinstance(st.value.args[0], ast.Starred) and isinstance(st.value.args[0].value, ast.GeneratorExp)):
            T.fail(LAP, st, "expected _, _, Z = face_basis(*(mesh.vertices[_u] for _u in (..)))")
        g = st.value.args[0].value
        gt = g.generators[0].target.id if is_name(g.generators[0].target) else None
        if gt is None or ast.unparse(g.elt) != "mesh.vertices[%s]" % gt:
            T.fail(LAP, st, "face_basis is not given mesh vertices")
        tri = names_of_tuple(LAP, g.generators[0].iter, 3)
        if not set(tri) <= {vi, vj, kk, ll}:
            T.fail(LAP, st, "face_basis triangle is not made of I, J, K, L")
        faces.append(tri)
        zn.append(st.targets[0].elts[2].id)

    def sp(node, kind):
        if kind != "T":
            return None
        u = ast.unparse(node)
        if u in ("dot(%s, %s)" % (zn[0], zn[1]), "dot(%s, %s)" % (zn[1], zn[0])):
            return "dot_Z1Z2"
        if u in ("norm(cross(%s, %s))" % (zn[0], zn[1]), "norm(cross(%s, %s))" % (zn[1], zn[0])):
            return "ncross_Z1Z2"
        return None
    if not (isinstance(s4, ast.Assign) and is_name(s4.targets[0])):
        T.fail(LAP, s4, "expected cot = ...")
    cotn = s4.targets[0].id
    cot = texpr(s4.value, Env(LAP, special=sp))
    if not (isinstance(s5, ast.AugAssign) and isinstance(s5.op, ast.Add) and is_name(s5.target, om)):
        T.fail(LAP, s5, "expected omega += ...")
    term = texpr(s5.value, Env(LAP, tnames={lname, cotn}))
    env = Env(LAP, znames={vi, vj}, tnames={om})
    co = [mat_assign(LAP, s, "mat", env) for s in lb[2:6]]
    # the model SUMS coefficients: a diagonal slot is hit once per incident edge, so it must be accumulated (`+=`/`-=`);
    # an off-diagonal slot (I, J) is hit once per edge, plain assignment and accumulation coincide there
    for st, (r_, c_, _) in zip(lb[2:6], co):
        if r_ == c_ and not isinstance(st, ast.AugAssign):
            T.fail(LAP, st, "diagonal coefficient of volume_laplacian is assigned, not accumulated")
    out.append("(* ---- laplacian_op.volume_laplacian *)")
    out.append("Definition vl_face1 %s : Z * Z * Z := (%s)." % (binders([vi, vj, kk, ll], "Z"), ", ".join(cn(x) for x in faces[0])))
    out.append("Definition vl_face2 %s : Z * Z * Z := (%s)." % (binders([vi, vj, kk, ll], "Z"), ", ".join(cn(x) for x in faces[1])))
    out.append("Definition vl_cot (dot_Z1Z2 ncross_Z1Z2 : NUM_) : NUM_ := %s." % cot)
    out.append("Definition vl_term %s : NUM_ := %s." % (binders([lname, cotn], "NUM_"), term))
    out.append("Definition vl_coeffs %s %s : list (Z * Z * NUM_) := %s." % (binders([vi, vj], "Z"), binders([om], "NUM_"), tlist(co)))


def gen_lap_tetrahedra(src, tree, out, parts):
    fn = T.find_def(tree, "laplacian_tetrahedra", LAP)
    parts.append(("laplacian_op.laplacian_tetrahedra", T.sha(src, fn)))
    b = T.body_nodoc(fn)
    if ast.unparse(find_assign(LAP, b, "mat")) != "sp.lil_matrix((n, n))" or ast.unparse(find_assign(LAP, b, "n")) != "len(mesh.cells)":
        T.fail(LAP, fn, "mat is not lil_matrix((n, n)) with n = |C|")
    if ast.unparse(ret_value(LAP, fn)) != "mat.tocsc()":
        T.fail(LAP, fn, "does not return mat.tocsc()")
    loop = only_for(LAP, b, "laplacian_tetrahedra")
    if not (is_name(loop.target) and T.dotted(loop.iter) == "mesh.id_cells" and len(loop.body) == 2):
        T.fail(LAP, loop, "expected `for c1 in mesh.id_cells` with two statements")
    c1 = loop.target.id
    nb = "mesh.connectivity.cell_to_cell(%s)" % c1

    def sp(node, kind):
        if kind == "T" and ast.unparse(node) == "len(%s)" % nb:
            return "len_adj"
        return None
    dg = mat_assign(LAP, loop.body[0], "mat", Env(LAP, znames={c1}, special=sp))
    inner = loop.body[1]
    if not (isinstance(inner, ast.For) and is_name(inner.target) and ast.unparse(inner.iter) == nb and len(inner.body) == 1):
        T.fail(LAP, inner, "expected `for c2 in cell_to_cell(c1)`")
    c2 = inner.target.id
    of = mat_assign(LAP, inner.body[0], "mat", Env(LAP, znames={c1, c2}))
    if not isinstance(loop.body[0], ast.AugAssign) or not isinstance(inner.body[0], ast.AugAssign):
        T.fail(LAP, loop, "entries are expected to be accumulated")
    out.append("(* ---- laplacian_op.laplacian_tetrahedra *)")
    out.append("Definition tl_diag %s (len_adj : NUM_) : Z * Z * NUM_ := %s." % (binders([c1], "Z"), trip(dg)))
    out.append("Definition tl_off %s : Z * Z * NUM_ := %s." % (binders([c1, c2], "Z"), trip(of)))


# ------------------------------------------------------------------------------------------------ gradient_op.py
def gen_gradient(src, tree, out, parts):
    fn = T.find_def(tree, "gradient", GRAD)
    parts.append(("gradient_op.gradient", T.sha(src, fn)))
    b = T.body_nodoc(fn)
    if ast.unparse(find_assign(GRAD, b, "N")) != "len(mesh.vertices)" or ast.unparse(find_assign(GRAD, b, "M")) != "len(mesh.faces)":
        T.fail(GRAD, fn, "N, M are not the vertex / face counts")
    br = [s for s in b if isinstance(s, ast.If) and is_name(s.test, "as_complex")]
    if len(br) != 1:
        T.fail(GRAD, fn, "expected one `if as_complex:`")
    br = br[0]
    roles, kws = coo_roles(GRAD, ret_value(GRAD, fn))
    shape = shape_kw(GRAD, kws, Env(GRAD, znames={"M", "N"}))
    out.append("(* ---- gradient_op.gradient *)")
    res = {}
    for label, stmts, k, cplx in (("complex", br.body, 3, True), ("real", br.orelse, 6, False)):
        alloc = stmts[0]
        if not (isinstance(alloc, ast.Assign) and isinstance(alloc.value, ast.Tuple)
                and all(isinstance(c, ast.Call) and T.dotted(c.func) == "np.zeros" and ast.unparse(c.args[0]).replace(" ", "") == "%d*M" % k
                        for c in alloc.value.elts)):
            T.fail(GRAD, alloc, "coefficient arrays are not allocated with %d*M slots" % k)
        loop = only_for(GRAD, stmts, "gradient/" + label)
        iT, abc = enumerate_loop(GRAD, loop, "mesh.faces")
        lb = loop.body
        if not (isinstance(abc, list) and len(abc) == 3 and len(lb) == 4 + k):
            T.fail(GRAD, loop, "unexpected shape of the per-face body")
        a0 = lb[0]
        if not (isinstance(a0, ast.Assign) and is_name(a0.targets[0])):
            T.fail(GRAD, a0, "expected aT = ...")
        aT = a0.targets[0].id

        def sp(node, kind):
            if kind == "T" and ast.unparse(node) == "area[%s]" % iT:
                return "area_iT"
            return None
        res["aT_" + label] = texpr(a0.value, Env(GRAD, special=sp))
        xy = {}
        for st in lb[1:4]:
            nm = names_of_tuple(GRAD, st.targets[0], 2) if isinstance(st, ast.Assign) else None
            ok = False
            for vtx in abc:
                if nm and ast.unparse(st.value) == "conn.project(mesh.vertices[%s], %s)" % (vtx, iT):
                    if vtx in xy:
                        T.fail(GRAD, st, "vertex projected twice")
                    xy[vtx] = nm
                    ok = True
            if not ok:
                T.fail(GRAD, st, "expected x, y = conn.project(mesh.vertices[<A|B|C>], iT)")
        coords = [n for vtx in abc for n in xy[vtx]]
        env = Env(GRAD, znames={iT, *abc}, tnames=set(coords) | {aT})
        slots, ts = [], []
        for st in lb[4:]:
            s, t = slot_triplet(GRAD, st, roles, env, cplx=cplx)
            slots.append(s)
            ts.append(t)
        check_slots(GRAD, slots, iT, k, "gradient/" + label)
        ty = "(NUM_ * NUM_)" if cplx else "NUM_"
        out.append("Definition grad_%s %s %s : list (Z * Z * %s) := %s."
                   % (label, binders([iT] + abc, "Z"), binders(coords + [aT], "NUM_"), ty, tlist(ts)))
        if not cplx:
            aug = [s for s in stmts if isinstance(s, ast.AugAssign)]
            if not (len(aug) == 1 and is_name(aug[0].target, "M") and isinstance(aug[0].op, ast.Mult)):
                T.fail(GRAD, loop, "expected M *= 2 after the real-gradient loop")
            out.append("Definition grad_real_nrows (M : Z) : Z := (M * %s)." % zexpr(aug[0].value, Env(GRAD)))
    if res["aT_complex"] != res["aT_real"]:
        raise TranslationError(GRAD + ": the two branches of gradient normalise differently")
    out.append("Definition grad_aT (area_iT : NUM_) : NUM_ := %s." % res["aT_complex"])
    out.append("Definition grad_shape (M N_ : Z) : Z * Z := %s." % shape.replace("N)", "N_)").replace("N,", "N_,"))


# ------------------------------------------------------------------------------------------------ mass.py
def post_chain(rel, stmts, var, flags):
    """`if flag: var = f(var)` statements in order -> Gallina function body on x"""
    body = "x"
    seen = []
    for s in stmts:
        if isinstance(s, ast.If) and is_name(s.test) and s.test.id in flags:
            if not (len(s.body) == 1 and not s.orelse and isinstance(s.body[0], ast.Assign) and is_name(s.body[0].targets[0], var)):
                T.fail(rel, s, "expected `if %s: %s = f(%s)`" % (s.test.id, var, var))

            def sp(node, kind):
                if kind == "T" and is_name(node, var):
                    return "x"
                return None
            e = texpr(s.body[0].value, Env(rel, special=sp))
            body = "(let x := (if %s then %s else x) in %s)" % (s.test.id, e, "@@")
            seen.append((s.test.id, e))
    # build nested lets in order
    txt = "x"
    for flag, e in reversed(seen):
        txt = "(let x := (if %s then %s else x) in %s)" % (flag, e, txt)
    return txt, [f for f, _ in seen]


def gen_mass(src, tree, out, parts):
    out.append("(* ---- mass.py *)")
    # area_weight_matrix
    fn = T.find_def(tree, "area_weight_matrix", MASS)
    parts.append(("mass.area_weight_matrix", T.sha(src, fn)))
    b = T.body_nodoc(fn)
    if ast.unparse(find_assign(MASS, b, "A")) != "np.zeros(len(mesh.vertices))":
        T.fail(MASS, fn, "A is not np.zeros(|V|)")
    loop = only_for(MASS, b, "area_weight_matrix")
    iT, tv = enumerate_loop(MASS, loop, "mesh.faces")
    if not (len(loop.body) == 1 and isinstance(loop.body[0], ast.For) and is_name(loop.body[0].iter, tv) and len(loop.body[0].body) == 1):
        T.fail(MASS, loop, "expected `for u in T:` with one statement")
    u = loop.body[0].target.id
    acc = loop.body[0].body[0]
    if not (isinstance(acc, ast.AugAssign) and isinstance(acc.op, ast.Add) and ast.unparse(acc.target) == "A[%s]" % u):
        T.fail(MASS, acc, "expected A[u] += ...")

    def sp_area(idx):
        def sp(node, kind):
            if kind == "T" and ast.unparse(node) == "area[%s]" % idx:
                return "area_T"
            return None
        return sp
    contrib = texpr(acc.value, Env(MASS, special=sp_area(iT)))
    post, flags = post_chain(MASS, b, "A", {"sqrt", "inverse"})
    if sorted(flags) != ["inverse", "sqrt"] or ast.unparse(ret_value(MASS, fn)) != "sp.diags(A, format=format)":
        T.fail(MASS, fn, "options / return are not the expected ones")
    out.append("Definition massv_contrib (area_T : NUM_) : NUM_ := %s." % contrib)
    out.append("Definition massv_post (inverse sqrt : bool) (x : NUM_) : NUM_ := %s." % post)
    # area_weight_matrix_faces
    fn = T.find_def(tree, "area_weight_matrix_faces", MASS)
    parts.append(("mass.area_weight_matrix_faces", T.sha(src, fn)))
    b = T.body_nodoc(fn)
    if "area = np.atleast_1d(area.as_array(len(mesh.faces)))" not in [ast.unparse(s) for s in b] or ast.unparse(ret_value(MASS, fn)) != "sp.diags(area, format=format)":
        T.fail(MASS, fn, "unexpected body")
    post, flags = post_chain(MASS, b, "area", {"inverse"})
    if flags != ["inverse"]:
        T.fail(MASS, fn, "inverse option not found")
    out.append("Definition massf_post (inverse : bool) (x : NUM_) : NUM_ := %s." % post)
    # area_weight_matrix_edges
    fn = T.find_def(tree, "area_weight_matrix_edges", MASS)
    parts.append(("mass.area_weight_matrix_edges", T.sha(src, fn)))
    b = T.body_nodoc(fn)
    if ast.unparse(find_assign(MASS, b, "area_edges")) != "np.zeros(len(mesh.edges))":
        T.fail(MASS, fn, "area_edges is not np.zeros(|E|)")
    loop = only_for(MASS, b, "area_weight_matrix_edges")
    e, ab = enumerate_loop(MASS, loop, "mesh.edges")
    inner = loop.body[0] if len(loop.body) == 1 else None
    if not (isinstance(inner, ast.For) and is_name(inner.target) and isinstance(ab, list) and len(ab) == 2
            and ast.unparse(inner.iter) == "mesh.connectivity.edge_to_faces(%s, %s)" % tuple(ab) and len(inner.body) == 2):
        T.fail(MASS, loop, "expected the loop over edge_to_faces(A, B)")
    tn = inner.target.id
    if ast.unparse(inner.body[0]) != "if %s is None:\n    continue" % tn:
        T.fail(MASS, inner.body[0], "expected `if T is None: continue`")
    acc = inner.body[1]
    if not (isinstance(acc, ast.AugAssign) and isinstance(acc.op, ast.Add) and ast.unparse(acc.target) == "area_edges[%s]" % e):
        T.fail(MASS, acc, "expected area_edges[e] += ...")
    share = texpr(acc.value, Env(MASS, special=sp_area(tn)))
    post, flags = post_chain(MASS, b, "area_edges", {"inverse"})
    if flags != ["inverse"] or not ast.unparse(ret_value(MASS, fn)).startswith("sp.diags(area_edges"):
        T.fail(MASS, fn, "options / return are not the expected ones")
    out.append("Definition mass_edge_share (area_T : NUM_) : NUM_ := %s." % share)
    out.append("Definition masse_post (inverse : bool) (x : NUM_) : NUM_ := %s." % post)
    # volume_weight_matrix
    fn = T.find_def(tree, "volume_weight_matrix", MASS)
    parts.append(("mass.volume_weight_matrix", T.sha(src, fn)))
    b = T.body_nodoc(fn)
    if ast.unparse(find_assign(MASS, b, "V")) != "np.zeros(len(mesh.vertices))":
        T.fail(MASS, fn, "V is not np.zeros(|V|)")
    loop = only_for(MASS, b, "volume_weight_matrix")
    iC, cv = enumerate_loop(MASS, loop, "mesh.cells")
    if not (len(loop.body) == 1 and isinstance(loop.body[0], ast.For) and is_name(loop.body[0].iter, cv) and len(loop.body[0].body) == 1):
        T.fail(MASS, loop, "expected `for u in C:` with one statement")
    u = loop.body[0].target.id
    acc = loop.body[0].body[0]
    if not (isinstance(acc, ast.AugAssign) and isinstance(acc.op, ast.Add) and ast.unparse(acc.target) == "V[%s]" % u):
        T.fail(MASS, acc, "expected V[u] += ...")

    def sp_vol(node, kind):
        if kind == "T" and ast.unparse(node) == "volume[%s]" % iC:
            return "volume_C"
        return None
    contrib = texpr(acc.value, Env(MASS, special=sp_vol))
    post, flags = post_chain(MASS, b, "V", {"sqrt", "inverse"})
    if sorted(flags) != ["inverse", "sqrt"] or ast.unparse(ret_value(MASS, fn)) != "sp.diags(V, format=format)":
        T.fail(MASS, fn, "options / return are not the expected ones")
    out.append("Definition massvv_contrib (volume_C : NUM_) : NUM_ := %s." % contrib)
    out.append("Definition massvv_post (inverse sqrt : bool) (x : NUM_) : NUM_ := %s." % post)
    # volume_weight_matrix_cells
    fn = T.find_def(tree, "volume_weight_matrix_cells", MASS)
    parts.append(("mass.volume_weight_matrix_cells", T.sha(src, fn)))
    b = T.body_nodoc(fn)
    if ast.unparse(find_assign(MASS, b, "V")) != "np.atleast_1d(volume.as_array(len(mesh.cells)))" or ast.unparse(ret_value(MASS, fn)) != "sp.diags(V, format=format)":
        T.fail(MASS, fn, "unexpected body")
    post, flags = post_chain(MASS, b, "V", {"sqrt", "inverse"})
    if sorted(flags) != ["inverse", "sqrt"]:
        T.fail(MASS, fn, "options are not the expected ones")
    out.append("Definition massvc_post (inverse sqrt : bool) (x : NUM_) : NUM_ := %s." % post)


# ------------------------------------------------------------------------------------------------ adjacency.py
def gen_adjacency(src, tree, out, parts):
    out.append("(* ---- adjacency.py *)")
    fn = T.find_def(tree, "adjacency_matrix", ADJ)
    parts.append(("adjacency.adjacency_matrix", T.sha(src, fn)))
    b = T.body_nodoc(fn)
    if ast.unparse(find_assign(ADJ, b, "n")) != "len(mesh.vertices)" or ast.unparse(find_assign(ADJ, b, "m")) != "len(mesh.edges)":
        T.fail(ADJ, fn, "n, m are not the vertex / edge counts")
    roles, kws = coo_roles(ADJ, ret_value(ADJ, fn))
    shape = shape_kw(ADJ, kws, Env(ADJ, znames={"n", "m"}))
    sel = [s for s in b if isinstance(s, ast.If) and ast.unparse(s.test) == "weights == 'one'"]
    if len(sel) != 1:
        T.fail(ADJ, fn, "weight selection not found")
    sel = sel[0]
    one = sel.body
    if not (len(one) == 1 and ast.unparse(one[0]) == "%s = np.ones(2 * m)" % roles["data"]):
        T.fail(ADJ, sel, "'one' weights are not np.ones(2*m)")
    if not (len(sel.orelse) == 1 and isinstance(sel.orelse[0], ast.If) and ast.unparse(sel.orelse[0].test) == "weights == 'length'"):
        T.fail(ADJ, sel, "expected elif weights == 'length'")
    ln, cu = sel.orelse[0].body, sel.orelse[0].orelse

    def val_slots(stmts, loop_kind):
        if not (len(stmts) == 2 and ast.unparse(stmts[0]) == "%s = np.zeros(2 * m)" % roles["data"] and isinstance(stmts[1], ast.For)):
            T.fail(ADJ, stmts[0], "weights are not np.zeros(2*m) followed by one loop")
        lp = stmts[1]
        return lp
    lp = val_slots(ln, "length")
    e, ab = enumerate_loop(ADJ, lp, "mesh.edges")
    if not (isinstance(ab, list) and len(ab) == 2 and len(lp.body) == 3
            and ast.unparse(lp.body[0]) in ("d = geom.distance(mesh.vertices[%s], mesh.vertices[%s])" % (ab[0], ab[1]),
                                             "d = geom.distance(mesh.vertices[%s], mesh.vertices[%s])" % (ab[1], ab[0]))):
        T.fail(ADJ, lp, "expected d = geom.distance(vertices[a], vertices[b])")

    def slot_vals(stmts, env, evar):
        got = []
        for s in stmts:
            if not (isinstance(s, ast.Assign) and isinstance(s.targets[0], ast.Subscript) and is_name(s.targets[0].value, roles["data"])):
                T.fail(ADJ, s, "expected vals[slot] = value")
            got.append((s.targets[0].slice, texpr(s.value, env)))
        check_slots(ADJ, [g[0] for g in got], evar, 2, "adjacency values")
        return [g[1] for g in got]
    vl = slot_vals(lp.body[1:], Env(ADJ, tnames={"d"}), e)
    lp = val_slots(cu, "custom")
    if not (is_name(lp.target) and T.dotted(lp.iter) == "mesh.id_edges" and len(lp.body) == 2):
        T.fail(ADJ, lp, "expected `for e in mesh.id_edges`")
    e2 = lp.target.id

    def spw(node, kind):
        if kind == "T" and ast.unparse(node) == "weights[%s]" % e2:
            return "w_e"
        return None
    vc = slot_vals(lp.body, Env(ADJ, special=spw), e2)
    # rows / cols
    loops = [s for s in b if isinstance(s, ast.For)]
    if len(loops) != 1:
        T.fail(ADJ, fn, "expected one top-level loop filling rows / cols")
    lp = loops[0]
    e3, ab = enumerate_loop(ADJ, lp, "mesh.edges")
    env = Env(ADJ, znames={e3, *ab})
    rc = {roles["row"]: [], roles["col"]: []}
    for s in lp.body:
        if not (isinstance(s, ast.Assign) and isinstance(s.targets[0], ast.Subscript) and is_name(s.targets[0].value)
                and s.targets[0].value.id in rc):
            T.fail(ADJ, s, "expected rows[slot] / cols[slot] = vertex")
        rc[s.targets[0].value.id].append((s.targets[0].slice, zexpr(s.value, env)))
    for k in rc:
        rc[k].sort(key=lambda t: ast.unparse(t[0]))
        check_slots(ADJ, [t[0] for t in rc[k]], e3, 2, "adjacency " + k)
    ents = [(rc[roles["row"]][j][1], rc[roles["col"]][j][1], "v%d" % j) for j in range(2)]
    out.append("Definition adj_shape (n m : Z) : Z * Z := %s." % shape)
    out.append("Definition adj_entries %s (v0 v1 : NUM_) : list (Z * Z * NUM_) := %s." % (binders([e3] + ab, "Z"), tlist(ents)))
    out.append("Definition adj_vals_one : NUM_ * NUM_ := ((o1 OPS_), (o1 OPS_)).")
    out.append("Definition adj_vals_length (d : NUM_) : NUM_ * NUM_ := (%s, %s)." % tuple(vl))
    out.append("Definition adj_vals_custom (w_e : NUM_) : NUM_ * NUM_ := (%s, %s)." % tuple(vc))
    # vertex_to_edge_operator
    fn = T.find_def(tree, "vertex_to_edge_operator", ADJ)
    parts.append(("adjacency.vertex_to_edge_operator", T.sha(src, fn)))
    b = T.body_nodoc(fn)
    if ast.unparse(b[0]) != "(n, m) = (len(mesh.vertices), len(mesh.edges))" and ast.unparse(b[0]) != "n, m = (len(mesh.vertices), len(mesh.edges))":
        T.fail(ADJ, b[0], "expected n, m = |V|, |E|")
    mt = find_assign(ADJ, b, "mat")
    if not (isinstance(mt, ast.Call) and T.dotted(mt.func) == "sp.lil_matrix" and isinstance(mt.args[0], ast.Tuple)):
        T.fail(ADJ, mt, "mat is not a lil_matrix of explicit shape")
    shape = "(%s, %s)" % tuple(zexpr(x, Env(ADJ, znames={"n", "m"})) for x in mt.args[0].elts)
    oc = find_assign(ADJ, b, "orig_coeff")
    if not (isinstance(oc, ast.IfExp) and is_name(oc.test, "oriented")):
        T.fail(ADJ, oc, "expected orig_coeff = <..> if oriented else <..>")
    orig = "(if oriented then %s else %s)" % (texpr(oc.body, Env(ADJ)), texpr(oc.orelse, Env(ADJ)))
    lp = only_for(ADJ, b, "vertex_to_edge_operator")
    e, ab = enumerate_loop(ADJ, lp, "mesh.edges")
    env = Env(ADJ, znames={e, *ab}, tnames={"orig_coeff"})
    ents = [mat_assign(ADJ, s, "mat", env) for s in lp.body]
    if any(isinstance(s, ast.AugAssign) for s in lp.body) or ast.unparse(ret_value(ADJ, fn)) != "mat.tocsc()":
        T.fail(ADJ, fn, "entries are expected to be plain assignments and mat.tocsc() returned")
    out.append("Definition v2e_shape (n m : Z) : Z * Z := %s." % shape)
    out.append("Definition v2e_orig (oriented : bool) : NUM_ := %s." % orig)
    out.append("Definition v2e_entries %s (orig_coeff : NUM_) : list (Z * Z * NUM_) := %s." % (binders([e] + ab, "Z"), tlist(ents)))
    # vertex_to_face_operator
    fn = T.find_def(tree, "vertex_to_face_operator", ADJ)
    parts.append(("adjacency.vertex_to_face_operator", T.sha(src, fn)))
    b = T.body_nodoc(fn)
    if ast.unparse(b[0]) not in ("(n, m) = (len(mesh.vertices), len(mesh.faces))", "n, m = (len(mesh.vertices), len(mesh.faces))"):
        T.fail(ADJ, b[0], "expected n, m = |V|, |F|")
    mt = find_assign(ADJ, b, "mat")
    if not (isinstance(mt, ast.Call) and T.dotted(mt.func) == "sp.lil_matrix" and isinstance(mt.args[0], ast.Tuple)):
        T.fail(ADJ, mt, "mat is not a lil_matrix of explicit shape")
    shape = "(%s, %s)" % tuple(zexpr(x, Env(ADJ, znames={"n", "m"})) for x in mt.args[0].elts)
    lp = only_for(ADJ, b, "vertex_to_face_operator")
    iT, tv = enumerate_loop(ADJ, lp, "mesh.faces")
    if not (len(lp.body) == 2 and isinstance(lp.body[0], ast.Assign) and is_name(lp.body[0].targets[0]) and isinstance(lp.body[1], ast.For)
            and is_name(lp.body[1].iter, tv) and len(lp.body[1].body) == 1):
        T.fail(ADJ, lp, "unexpected per-face body")
    an = lp.body[0].targets[0].id

    def splen(node, kind):
        if kind == "T" and ast.unparse(node) == "len(%s)" % tv:
            return "len_T"
        return None
    wt = texpr(lp.body[0].value, Env(ADJ, special=splen))
    vv = lp.body[1].target.id
    ent = mat_assign(ADJ, lp.body[1].body[0], "mat", Env(ADJ, znames={iT, vv}, tnames={an}))
    if isinstance(lp.body[1].body[0], ast.AugAssign) or ast.unparse(ret_value(ADJ, fn)) != "mat.tocsc()":
        T.fail(ADJ, fn, "entries are expected to be plain assignments and mat.tocsc() returned")
    out.append("Definition v2f_shape (n m : Z) : Z * Z := %s." % shape)
    out.append("Definition v2f_weight (len_T : NUM_) : NUM_ := %s." % wt)
    out.append("Definition v2f_entry %s %s : Z * Z * NUM_ := %s." % (binders([iT, vv], "Z"), binders([an], "NUM_"), trip(ent)))


ANCHORED = {
    LAP: ["graph_laplacian", "laplacian", "cotan_edge_diagonal", "laplacian_triangles", "laplacian_edges", "volume_laplacian",
          "laplacian_tetrahedra"],
    GRAD: ["gradient"],
    MASS: ["area_weight_matrix", "area_weight_matrix_faces", "area_weight_matrix_edges", "volume_weight_matrix",
           "volume_weight_matrix_cells"],
    ADJ: ["adjacency_matrix", "vertex_to_edge_operator", "vertex_to_face_operator"],
}


def gen_signatures(out):
    """decorators and defaults of every anchored operator: only the mesh-type guards may decorate them (a memoising
    decorator would hand out shared matrices), every default is None or an immutable constant; boolean / string defaults
    are emitted so that a theorem pins them"""
    out.append("(* ---- signatures: defaults of the optional parameters *)")
    for rel, names in ANCHORED.items():
        src, tree = T.load(rel)
        for name in names:
            fn = T.find_def(tree, name, rel)
            for d in fn.decorator_list:
                if not (isinstance(d, ast.Call) and T.dotted(d.func) in ("allowed_mesh_types", "forbidden_mesh_types")
                        and all(isinstance(a, ast.Name) for a in d.args) and not d.keywords):
                    T.fail(rel, d, "unknown decorator on " + name)
            if len(fn.decorator_list) != 1:
                T.fail(rel, fn, "%s is expected to carry exactly its mesh-type guard" % name)
            if fn.args.vararg or fn.args.kwarg or fn.args.kwonlyargs or fn.args.posonlyargs:
                T.fail(rel, fn, "unexpected parameter kinds in " + name)
            args = [a.arg for a in fn.args.args]
            defs = fn.args.defaults
            for a, dv in zip(args[len(args) - len(defs):], defs):
                if not (isinstance(dv, ast.Constant) and (dv.value is None or isinstance(dv.value, (bool, int, str)))):
                    T.fail(rel, dv, "default of %s.%s is not None or an immutable constant" % (name, a))
                v = dv.value
                if isinstance(v, bool):
                    out.append("Definition dflt_%s_%s : bool := %s." % (name, a, "true" if v else "false"))
                elif isinstance(v, str):
                    out.append('Definition dflt_%s_%s : string := "%s"%%string.' % (name, a, v.replace('"', '""')))
                elif isinstance(v, int):
                    out.append("Definition dflt_%s_%s : Z := %d." % (name, a, v))
                else:
                    out.append("Definition dflt_%s_%s : option Z := None." % (name, a))
            out.append("Definition params_%s : list string := [%s]." % (name, "; ".join('"%s"%%string' % a for a in args)))


def gen():
    out, parts = [], []
    src, tree = T.load(LAP)
    gen_graph_laplacian(src, tree, out, parts)
    gen_laplacian(src, tree, out, parts)
    gen_ced(src, tree, out, parts)
    gen_lap_triangles(src, tree, out, parts)
    gen_lap_edges(src, tree, out, parts)
    gen_volume_laplacian(src, tree, out, parts)
    gen_lap_tetrahedra(src, tree, out, parts)
    src, tree = T.load(GRAD)
    gen_gradient(src, tree, out, parts)
    src, tree = T.load(MASS)
    gen_mass(src, tree, out, parts)
    src, tree = T.load(ADJ)
    gen_adjacency(src, tree, out, parts)
    gen_signatures(out)
    text = T.header("C08: coefficient patterns, weights, index formulas and shapes of the operator assembly loops", parts)
    text += """From Coq Require Import ZArith List Bool String.
Import ListNotations.
Require Import MV.C08.Ops.
Open Scope Z_scope.

Section Gen.
Context {NUM_ : Type} (OPS_ : ops NUM_).

"""
    text += "\n".join(out) + "\n\nEnd Gen.\n"
    return {"C08/Gen.v": text}
