"""geometry.py + attributes/*.py -> coq/theories/C07/Gen.v

A typed, fail-closed translator for the arithmetic of the C07 anchors.  Every formula, constant (/2, /6, 2*pi),
argument order, branch selector and index expression that the property hinges on is re-read from the source on
every run and emitted as a Gallina definition parametric in the operations record `ops T` of Model.v.  The loops
around them (per edge / face / corner / cell) are modelled by hand in Mesh.v and tied by the correspondence.

Types of the little language:  s scalar | v 3-vector | z integer | lv list of vectors | lz list of integers |
ang (cos-part, sin-part) pair standing for math.atan2(sin-part, cos-part) | mat3 rows of a 3x3 matrix.
Anything not recognised raises TranslationError.
"""
import ast

from . import common as T
from ..core import TranslationError

GEOM = "mouette/geometry/geometry.py"
AV = "mouette/attributes/attr_vertices.py"
AE = "mouette/attributes/attr_edges.py"
AF = "mouette/attributes/attr_faces.py"
AC = "mouette/attributes/attr_corners.py"
ACE = "mouette/attributes/attr_cells.py"
GLOB = "mouette/attributes/glob.py"
INTERP = "mouette/attributes/interpolate.py"


COQ_KEYWORDS = {"by", "at", "in", "as", "fun", "if", "then", "else", "end", "let", "match", "with", "return", "fix", "cofix",
                "forall", "exists", "Type", "Set", "Prop", "using", "where", "struct", "for", "is", "exists2", "IF", "mod"}


class Tr:
    """Expression translator with an environment name -> (type, coq term)."""

    # callee (dotted) -> (generated/primitive coq function, argument types, result type)
    FUN = {
        "cross": ("g_cross o", "vv", "v"), "geom.cross": ("g_cross o", "vv", "v"),
        "dot": ("dot o", "vv", "s"), "geom.dot": ("dot o", "vv", "s"), "np.dot": ("dot o", "vv", "s"),
        "norm": ("g_norm o", "v", "s"), "geom.norm": ("g_norm o", "v", "s"), "Vec.norm": ("norm o", "v", "s"),
        "Vec.normalized": ("normalized o", "v", "v"),
        "np.sqrt": ("osqrt o", "s", "s"),
        "abs": ("oabs o", "s", "s"),
        "distance": ("g_distance o", "vv", "s"), "geom.distance": ("g_distance o", "vv", "s"),
        "triangle_area": ("g_triangle_area o", "vvv", "s"), "geom.triangle_area": ("g_triangle_area o", "vvv", "s"),
        "quad_area": ("g_quad_area o", "vvvv", "s"), "geom.quad_area": ("g_quad_area o", "vvvv", "s"),
        "det_3x3": ("g_det3 o", "vvv", "s"), "geom.det_3x3": ("g_det3 o", "vvv", "s"),
        "cotan": ("g_cotan o", "vvv", "s"), "geom.cotan": ("g_cotan o", "vvv", "s"),
        "angle_3pts": ("g_angle3 o", "vvv", "ang"), "geom.angle_3pts": ("g_angle3 o", "vvv", "ang"),
    }

    def __init__(self, rel, env=None, allowed=None):
        self.rel = rel
        self.env = dict(env or {})
        self.allowed = allowed  # set of callee names allowed here (None = all)

    def fail(self, node, msg):
        T.fail(self.rel, node, msg)

    # ---- coercions
    def as_s(self, tv, node):
        t, c = tv
        if t == "s":
            return c
        if t == "z":
            return "(oZ o %s)" % c
        self.fail(node, "expected a scalar, got type %s" % t)

    def need(self, tv, ty, node):
        if ty == "s":
            return self.as_s(tv, node)
        if tv[0] != ty:
            self.fail(node, "expected type %s, got %s" % (ty, tv[0]))
        return tv[1]

    # ---- expressions
    def tr(self, e):
        if isinstance(e, ast.Name):
            if e.id not in self.env:
                self.fail(e, "unknown name %s" % e.id)
            return self.env[e.id]
        if isinstance(e, ast.Constant) and isinstance(e.value, float):
            from fractions import Fraction
            fr = Fraction(repr(e.value))
            if fr <= 0:
                self.fail(e, "unsupported float constant %r" % (e.value,))
            return ("s", "(odiv o (oZ o %d) (oZ o %d))" % (fr.numerator, fr.denominator))
        if isinstance(e, ast.Constant):
            if isinstance(e.value, bool) or not isinstance(e.value, int):
                self.fail(e, "unsupported constant %r" % (e.value,))
            return ("z", "%d" % e.value if e.value >= 0 else "(%d)" % e.value)
        if isinstance(e, ast.UnaryOp) and isinstance(e.op, ast.USub):
            t, c = self.tr(e.operand)
            if t == "z":
                return ("z", "(- %s)" % c)
            if t == "s":
                return ("s", "(osub o (o0 o) %s)" % c)
            self.fail(e, "unary minus on type %s" % t)
        if isinstance(e, ast.BinOp):
            return self.binop(e)
        if isinstance(e, ast.Subscript):
            return self.subscript(e)
        if isinstance(e, ast.Attribute):
            d = T.dotted(e)
            if d in ("math.pi", "np.pi", "pi"):
                return ("s", "pi")
            if e.attr in ("x", "y", "z"):
                b = self.tr(e.value)
                if b[0] == "w" and e.attr in ("x", "y"):
                    return ("s", "(%s %s)" % ({"x": "fst", "y": "snd"}[e.attr], b[1]))
                if b[0] == "v":
                    return ("s", "(%s %s)" % ({"x": "vx", "y": "vy", "z": "vz"}[e.attr], b[1]))
            self.fail(e, "unsupported attribute %s" % d)
        if isinstance(e, ast.Call):
            return self.call(e)
        self.fail(e, "unsupported expression")

    def binop(self, e):
        a, b = self.tr(e.left), self.tr(e.right)
        op = type(e.op)
        ta, tb = a[0], b[0]
        if ta == "z" and tb == "z":
            sym = {ast.Add: "+", ast.Sub: "-", ast.Mult: "*", ast.FloorDiv: "/", ast.Mod: "mod"}.get(op)
            if sym is None:
                self.fail(e, "unsupported integer operator")
            return ("z", "(%s %s %s)" % (a[1], sym, b[1]))
        if ta == "v" and tb == "v":
            f = {ast.Add: "vadd", ast.Sub: "vsub"}.get(op)
            if f is None:
                self.fail(e, "unsupported vector operator")
            return ("v", "(%s o %s %s)" % (f, a[1], b[1]))
        if ta == "w" and tb == "w":
            f = {ast.Add: "wadd", ast.Sub: "wsub"}.get(op)
            if f is None:
                self.fail(e, "unsupported 2-vector operator")
            return ("w", "(%s o %s %s)" % (f, a[1], b[1]))
        if ta == "w" and tb in ("s", "z"):
            if op is ast.Div:
                return ("w", "(wdiv o %s %s)" % (a[1], self.as_s(b, e)))
            if op is ast.Mult:
                return ("w", "(wscale o %s %s)" % (self.as_s(b, e), a[1]))
            self.fail(e, "unsupported 2-vector/scalar operator")
        if ta in ("s", "z") and tb == "w" and op is ast.Mult:
            return ("w", "(wscale o %s %s)" % (self.as_s(a, e), b[1]))
        if ta == "v" and tb in ("s", "z"):
            if op is ast.Div:
                return ("v", "(vdiv o %s %s)" % (a[1], self.as_s(b, e)))
            if op is ast.Mult:
                return ("v", "(vscale o %s %s)" % (self.as_s(b, e), a[1]))
            self.fail(e, "unsupported vector/scalar operator")
        if ta in ("s", "z") and tb == "v" and op is ast.Mult:
            return ("v", "(vscale o %s %s)" % (self.as_s(a, e), b[1]))
        if ta in ("s", "z") and tb in ("s", "z"):
            f = {ast.Add: "oadd", ast.Sub: "osub", ast.Mult: "omul", ast.Div: "odiv"}.get(op)
            if f is None:
                self.fail(e, "unsupported scalar operator")
            return ("s", "(%s o %s %s)" % (f, self.as_s(a, e), self.as_s(b, e)))
        self.fail(e, "operator on types %s, %s" % (ta, tb))

    def subscript(self, e):
        base = self.tr(e.value)
        sl = e.slice
        if base[0] == "v":
            if isinstance(sl, ast.Constant) and sl.value in (0, 1, 2):
                return ("s", "(%s %s)" % (("vx", "vy", "vz")[sl.value], base[1]))
            self.fail(e, "vector index is not 0/1/2")
        if base[0] == "w":
            if isinstance(sl, ast.Constant) and sl.value in (0, 1):
                return ("s", "(%s %s)" % (("fst", "snd")[sl.value], base[1]))
            self.fail(e, "2-vector index is not 0/1")
        if base[0] == "mat3":
            if (isinstance(sl, ast.Tuple) and len(sl.elts) == 2
                    and all(isinstance(x, ast.Constant) and x.value in (0, 1, 2) for x in sl.elts)):
                i, j = sl.elts[0].value, sl.elts[1].value
                return ("s", "(%s %s)" % (("vx", "vy", "vz")[j], base[1][i]))
            self.fail(e, "matrix index is not [i,j] with constants")
        if base[0] == "lv":
            i = self.need(self.tr(sl), "z", e)
            return ("v", "(znth %s %s (vzero o))" % (base[1], i))
        if base[0] == "lz":
            i = self.need(self.tr(sl), "z", e)
            return ("z", "(znth %s %s 0)" % (base[1], i))
        self.fail(e, "subscript on type %s" % base[0])

    def call(self, e):
        if e.keywords:
            self.fail(e, "keyword arguments not supported here")
        # method call x.norm()
        if isinstance(e.func, ast.Attribute) and e.func.attr == "norm" and not e.args \
                and T.dotted(e.func) not in self.FUN:
            v = self.tr(e.func.value)
            return ("s", "(norm o %s)" % self.need(v, "v", e))
        if isinstance(e.func, ast.Attribute) and e.func.attr == "flatten" and not e.args:
            return self.tr(e.func.value)
        d = T.dotted(e.func)
        if d == "Vec":
            if len(e.args) == 1:
                return self.tr(e.args[0])
            if len(e.args) == 3:
                cs = [self.as_s(self.tr(a), a) for a in e.args]
                return ("v", "(%s, %s, %s)" % tuple(cs))
            if len(e.args) == 2:
                cs = [self.as_s(self.tr(a), a) for a in e.args]
                return ("w", "(%s, %s)" % tuple(cs))
            self.fail(e, "Vec(...) with %d arguments" % len(e.args))
        if d == "len" and len(e.args) == 1:
            a = self.tr(e.args[0])
            if a[0] in ("lv", "lz"):
                return ("z", "(zlen %s)" % a[1])
            self.fail(e, "len of type %s" % a[0])
        if d == "sum" and len(e.args) == 1:
            a = self.tr(e.args[0])
            if a[0] == "lv":
                return ("v", "(vsum o %s)" % a[1])
            self.fail(e, "sum of type %s" % a[0])
        if d == "math.atan2" and len(e.args) == 2:
            s = self.as_s(self.tr(e.args[0]), e)
            c = self.as_s(self.tr(e.args[1]), e)
            return ("ang", "(%s, %s)" % (c, s))
        if d == "np.array" and len(e.args) == 1 and isinstance(e.args[0], ast.List) and len(e.args[0].elts) == 3:
            rows = [self.need(self.tr(r), "v", r) for r in e.args[0].elts]
            return ("mat3", rows)
        if d in ("dot", "geom.dot", "np.dot") and len(e.args) == 2 and (self.allowed is None or d in self.allowed):
            a0, a1 = self.tr(e.args[0]), self.tr(e.args[1])
            if a0[0] == "w" and a1[0] == "w":
                return ("s", "(dot2 o %s %s)" % (a0[1], a1[1]))
        if d == "det_2x2" and len(e.args) == 2 and (self.allowed is None or d in self.allowed):
            a0, a1 = self.tr(e.args[0]), self.tr(e.args[1])
            return ("s", "(g_det2 o %s %s)" % (self.need(a0, "w", e), self.need(a1, "w", e)))
        if d in self.FUN and (self.allowed is None or d in self.allowed):
            fn, at, rt = self.FUN[d]
            args = e.args
            if len(args) == 1 and isinstance(args[0], ast.Starred):
                lst = self.tr(args[0].value)
                if lst[0] != "lv":
                    self.fail(e, "*args of type %s" % lst[0])
                cs = ["(znth %s %d (vzero o))" % (lst[1], k) for k in range(len(at))]
            else:
                # a trailing `which` parameter forwarded unchanged to norm is accepted (l2 is the default modelled)
                if d in ("norm", "geom.norm") and len(args) == 2 and isinstance(args[1], ast.Name) and args[1].id == "which":
                    args = args[:1]
                if len(args) != len(at):
                    self.fail(e, "%s called with %d arguments, expected %d" % (d, len(args), len(at)))
                cs = [self.need(self.tr(a), ty, a) for a, ty in zip(args, at)]
            return (rt, "(%s %s)" % (fn, " ".join(cs)))
        self.fail(e, "unsupported call %s" % d)

    # ---- straight-line bodies:  name = expr ; (a,b,..) = (e1,e2,..) ; return expr
    def block(self, stmts, want):
        """Translate assignments followed by a final `return`; gives a let-chain of type `want`."""
        lets = []
        for k, st in enumerate(stmts):
            if isinstance(st, ast.Return):
                if k != len(stmts) - 1:
                    self.fail(st, "return is not the last statement")
                tv = self.tr(st.value)
                body = self.need(tv, want, st)
                for n, c in reversed(lets):
                    body = "let %s := %s in\n    %s" % (n, c, body)
                return body
            if isinstance(st, ast.Assign) and len(st.targets) == 1:
                self.assign(st.targets[0], st.value, lets, st)
                continue
            self.fail(st, "unsupported statement")
        self.fail(stmts[-1] if stmts else None, "no return")

    def assign(self, tgt, val, lets, st):
        if isinstance(tgt, ast.Name):
            tv = self.tr(val)
            self.bind(tgt.id, tv, lets)
            return
        if isinstance(tgt, ast.Tuple) and isinstance(val, ast.Tuple) and len(tgt.elts) == len(val.elts) \
                and all(isinstance(x, ast.Name) for x in tgt.elts):
            tvs = [self.tr(v) for v in val.elts]  # all right-hand sides first (Python semantics)
            for x, tv in zip(tgt.elts, tvs):
                self.bind(x.id, tv, lets, fresh=True)
            return
        self.fail(st, "unsupported assignment")

    def bind(self, name, tv, lets, fresh=False):
        if tv[0] == "mat3":
            self.env[name] = tv
            return
        # SSA-rename so that `A = Vec(A)` style rebinding keeps Python's meaning
        k = 0
        pyname = name
        cn = name + "_" if name in COQ_KEYWORDS else name
        name = cn
        used = {c for (_, c) in self.env.values() if isinstance(c, str)} | {n for n, _ in lets}
        while cn in used or (fresh and cn in used):
            k += 1
            cn = "%s_%d" % (name, k)
        lets.append((cn, tv[1]))
        self.env[pyname] = (tv[0], cn)


def fn_args(fn):
    return [a.arg for a in fn.args.args]


def simple_fn(rel, tree, src, name, argtypes, want, parts, coqname, allowed=None, extra_env=None):
    """def name(a, b, ...): straight-line body -> `Definition coqname (a b : ..) := ...`"""
    fn = T.find_def(tree, name, rel)
    parts.append((rel.split("/")[-1] + ":" + name, T.sha(src, fn)))
    args = fn_args(fn)
    if fn.args.vararg is not None:
        T.fail(rel, fn, "unexpected *args")
    if len(args) < len(argtypes):
        T.fail(rel, fn, "%s has %d parameters, expected >= %d" % (name, len(args), len(argtypes)))
    env = dict(extra_env or {})
    binders = []
    for a, ty in zip(args, argtypes):
        env[a] = (ty, a)
        binders.append("(%s : %s)" % (a, {"v": "vec T", "s": "T", "z": "Z", "w": "(T * T)%type"}[ty]))
    tr = Tr(rel, env, allowed)
    body = tr.block(T.body_nodoc(fn), want)
    rty = {"v": "vec T", "s": "T", "ang": "(T * T)%type", "z": "Z", "w": "(T * T)%type"}[want]
    return "Definition %s %s : %s :=\n    %s.\n" % (coqname, " ".join(binders), rty, body)


def is_call(node, name):
    return isinstance(node, ast.Call) and T.dotted(node.func) == name


def find_for(body, pred, rel, what):
    for st in body:
        if isinstance(st, ast.For) and pred(st):
            return st
    raise TranslationError("%s: loop `%s` not found" % (rel, what))


def seg_is(src, node, text):
    return "".join((T.seg(src, node) or "").split()) == "".join(text.split())


def expect(src, rel, node, text):
    if not seg_is(src, node, text):
        T.fail(rel, node, "expected `%s`, found `%s`" % (text, T.seg(src, node)))


# ------------------------------------------------------------------------------------------------ geometry.py
def gen_geometry(out, parts):
    src, tree = T.load(GEOM)
    # cross
    out.append(simple_fn(GEOM, tree, src, "cross", "vv", "v", parts, "g_cross", allowed=set()))
    # norm: only the l2 branch is modelled; the branch structure is pinned
    fn = T.find_def(tree, "norm", GEOM)
    parts.append(("geometry.py:norm", T.sha(src, fn)))
    b = T.body_nodoc(fn)
    l2 = None
    for st in b:
        if isinstance(st, ast.If):
            cur = st
            while True:
                if seg_is(src, cur.test, 'which=="l2"'):
                    l2 = cur.body
                if len(cur.orelse) == 1 and isinstance(cur.orelse[0], ast.If):
                    cur = cur.orelse[0]
                else:
                    break
    if l2 is None or len(l2) != 1 or not isinstance(l2[0], ast.Return):
        T.fail(GEOM, fn, "norm: `if which==\"l2\": return ...` not found")
    if fn_args(fn)[:1] != ["x"] or not (fn.args.defaults and isinstance(fn.args.defaults[-1], ast.Constant)
                                       and fn.args.defaults[-1].value == "l2"):
        T.fail(GEOM, fn, "norm: signature is not (x, which=\"l2\")")
    tr = Tr(GEOM, {"x": ("v", "x")}, allowed={"np.sqrt", "np.dot"})
    out.append("Definition g_norm (x : vec T) : T :=\n    %s.\n" % tr.block(l2, "s"))
    out.append(simple_fn(GEOM, tree, src, "distance", "vv", "s", parts, "g_distance", allowed={"norm"},
                         extra_env={"which": ("which", "which")}))
    out.append(simple_fn(GEOM, tree, src, "cotan", "vvv", "s", parts, "g_cotan",
                         allowed={"np.dot", "norm", "cross", "Vec.normalized"}))
    out.append(simple_fn(GEOM, tree, src, "angle_3pts", "vvv", "ang", parts, "g_angle3",
                         allowed={"cross", "dot"}))
    out.append(simple_fn(GEOM, tree, src, "triangle_area", "vvv", "s", parts, "g_triangle_area", allowed={"cross"}))
    out.append(simple_fn(GEOM, tree, src, "quad_area", "vvvv", "s", parts, "g_quad_area", allowed={"triangle_area"}))
    # det_3x3(*args): the three-column-vector form
    fn = T.find_def(tree, "det_3x3", GEOM)
    parts.append(("geometry.py:det_3x3", T.sha(src, fn)))
    b = T.body_nodoc(fn)
    if not (len(b) == 3 and isinstance(b[0], ast.If) and isinstance(b[1], ast.Assign) and isinstance(b[2], ast.Return)):
        T.fail(GEOM, fn, "det_3x3: unexpected body shape")
    br = b[0]
    if not (len(br.orelse) == 1 and isinstance(br.orelse[0], ast.If) and seg_is(src, br.orelse[0].test, "len(args)==3")):
        T.fail(GEOM, br, "det_3x3: `elif len(args)==3` not found")
    b3 = br.orelse[0].body
    if not (len(b3) == 2 and seg_is(src, b3[0], "A,B,C = args[0], args[1], args[2]")):
        T.fail(GEOM, br, "det_3x3: `A,B,C = args[0], args[1], args[2]` not found")
    tr = Tr(GEOM, {"A": ("v", "A"), "B": ("v", "B"), "C": ("v", "C")}, allowed=set())
    body = tr.block([b3[1], b[1], b[2]], "s")
    out.append("Definition g_det3 (A B C : vec T) : T :=\n    %s.\n" % body)



def gen_circumcenter(out, parts):
    src, tree = T.load(GEOM)
    # face_basis(*f): the three-point form
    fn = T.find_def(tree, "face_basis", GEOM)
    parts.append(("geometry.py:face_basis", T.sha(src, fn)))
    b = T.body_nodoc(fn)
    if not (len(b) == 6 and seg_is(src, b[0], "if len(f)==1: f = f[0]") and seg_is(src, b[1], "pA,pB,pC = (x for x in f)")
            and isinstance(b[5], ast.Return) and seg_is(src, b[5].value, "X,Y,Z")):
        T.fail(GEOM, fn, "face_basis: unexpected shape")
    tr = Tr(GEOM, {"pA": ("v", "pA"), "pB": ("v", "pB"), "pC": ("v", "pC")}, {"cross", "Vec.normalized"})
    lets = []
    for st in b[2:5]:
        if not (isinstance(st, ast.Assign) and isinstance(st.targets[0], ast.Name)):
            T.fail(GEOM, st, "face_basis: expected an assignment")
        tr.assign(st.targets[0], st.value, lets, st)
    body = "(%s, %s, %s)" % tuple(tr.env[k][1] for k in ("X", "Y", "Z"))
    for n, c in reversed(lets):
        body = "let %s := %s in\n    %s" % (n, c, body)
    out.append("Definition g_face_basis (pA pB pC : vec T) : vec T * vec T * vec T :=\n    %s.\n" % body)
    # det_2x2: the array form (neither argument a python complex)
    fn = T.find_def(tree, "det_2x2", GEOM)
    parts.append(("geometry.py:det_2x2", T.sha(src, fn)))
    b = T.body_nodoc(fn)
    if not (len(b) == 3 and isinstance(b[0], ast.If) and isinstance(b[1], ast.If) and isinstance(b[2], ast.Return)
            and seg_is(src, b[0].test, "isinstance(A,complex)") and seg_is(src, b[1].test, "isinstance(B,complex)")
            and len(b[0].orelse) == 1 and seg_is(src, b[0].orelse[0], "ax,ay = A[0], A[1]")
            and len(b[1].orelse) == 1 and seg_is(src, b[1].orelse[0], "bx,by = B[0], B[1]")):
        T.fail(GEOM, fn, "det_2x2: unexpected shape")
    tr = Tr(GEOM, {"A": ("w", "A"), "B": ("w", "B")}, set())
    body = tr.block([b[0].orelse[0], b[1].orelse[0], b[2]], "s")
    out.append("Definition g_det2 (A B : (T * T)%%type) : T :=\n    %s.\n" % body)
    # intersect_2lines2D: `det = det_2x2(d1,d2)` ; `if <lhs> <cmp> <rhs> : return None` (parallelism guard) ; intersection
    fn = T.find_def(tree, "intersect_2lines2D", GEOM)
    parts.append(("geometry.py:intersect_2lines2D", T.sha(src, fn)))
    b = T.body_nodoc(fn)
    if not (len(b) == 6 and seg_is(src, b[0], "p1,d1,p2,d2 = (u[:2] for u in (p1,d1,p2,d2))")
            and seg_is(src, b[1], "det = det_2x2(d1,d2)") and isinstance(b[2], ast.If)
            and len(b[2].body) == 1 and seg_is(src, b[2].body[0], "return None") and not b[2].orelse):
        T.fail(GEOM, fn, "intersect_2lines2D: unexpected shape")
    g = b[2].test
    if not (isinstance(g, ast.Compare) and len(g.ops) == 1 and type(g.ops[0]) in (ast.Lt, ast.LtE)):
        T.fail(GEOM, g, "intersect_2lines2D: guard is not `<expr> < <expr>` or `<expr> <= <expr>`")
    env = {k: ("w", k) for k in ("p1", "d1", "p2", "d2")}
    tr = Tr(GEOM, env, {"dot", "det_2x2", "abs"})
    lets = []
    tr.assign(b[1].targets[0], b[1].value, lets, b[1])
    lhs = tr.as_s(tr.tr(g.left), g)
    rhs = tr.as_s(tr.tr(g.comparators[0]), g)
    parallel = ("oleb o %s %s" % (lhs, rhs)) if isinstance(g.ops[0], ast.LtE) else ("negb (oleb o %s %s)" % (rhs, lhs))
    body = tr.block(b[3:], "w")
    out.append("(* None when the two directions are (numerically) parallel: the source's guard, literal constants as exact rationals *)\n"
               "Definition g_intersect_2lines2D (p1 d1 p2 d2 : (T * T)%%type) : option (T * T) :=\n"
               "    let %s := %s in\n"
               "    if %s then None else Some (\n    %s).\n"
               % (lets[0][0], lets[0][1], parallel, body))
    # circumcenter
    fn = T.find_def(tree, "circumcenter", GEOM)
    parts.append(("geometry.py:circumcenter", T.sha(src, fn)))
    b = T.body_nodoc(fn)
    if not (len(b) == 11 and seg_is(src, b[0], "X,Y,Z = face_basis(v1,v2,v3)")
            and seg_is(src, b[2], "v1,v2,v3 = (Vec(dot(X,v), dot(Y,v)) for v in (v1,v2,v3))")
            and seg_is(src, b[9], "S = intersect_2lines2D(p1, d1, p2, d2)") and isinstance(b[10], ast.Return)):
        T.fail(GEOM, fn, "circumcenter: unexpected shape")
    env = {k: ("v", k) for k in ("v1", "v2", "v3", "X", "Y", "Z")}
    tr = Tr(GEOM, env, {"dot"})
    lets = []
    tr.assign(b[1].targets[0], b[1].value, lets, b[1])            # h = dot(Z, v1)
    for k in ("v1", "v2", "v3"):                                  # projections into the basis of the triangle
        tr.bind("q" + k, ("w", "(dot o X %s, dot o Y %s)" % (k, k)), lets)
    for k in ("v1", "v2", "v3"):
        tr.env[k] = tr.env["q" + k]
    for st in b[3:9]:
        if not (isinstance(st, ast.Assign) and isinstance(st.targets[0], ast.Name)):
            T.fail(GEOM, st, "circumcenter: expected an assignment")
        tr.assign(st.targets[0], st.value, lets, st)
    args = " ".join(tr.env[k][1] for k in ("p1", "d1", "p2", "d2"))
    tr.env["S"] = ("w", "S_")
    ret = tr.need(tr.tr(b[10].value), "v", b[10])
    body = "match g_intersect_2lines2D o %s with\n    | Some S_ => Some %s\n    | None => None\n    end" % (args, ret)
    for n, c in reversed(lets):
        body = "let %s := %s in\n    %s" % (n, c, body)
    out.append("Definition g_circumcenter (v1 v2 v3 : vec T) : option (vec T) :=\n"
               "    let '(X, Y, Z) := g_face_basis o v1 v2 v3 in\n    %s.\n" % body)
    # face_circumcenter: loop plumbing
    srcf, treef = T.load(AF)
    fn = T.find_def(treef, "face_circumcenter", AF)
    parts.append(("attr_faces.py:face_circumcenter", T.sha(srcf, fn)))
    lp = find_for(fn.body, lambda s_: seg_is(srcf, s_.iter, "enumerate(mesh.faces)"), AF, "for iF,F in enumerate(mesh.faces)")
    if not (len(lp.body) == 2 and isinstance(lp.body[0], ast.If) and seg_is(srcf, lp.body[0].test, "len(F)!=3")
            and isinstance(lp.body[0].body[0], ast.Raise)
            and seg_is(srcf, lp.body[1], "circum[iF] = geom.circumcenter(*(mesh.vertices[u] for u in F))")):
        T.fail(AF, lp, "face_circumcenter: unexpected loop body")

# ------------------------------------------------------------------------------------------------ attributes
def loop_body_fn(rel, src, loop, env, want_target, allowed, drop_prefix=0):
    """Inside a `for` body: straight-line assignments ending with `<want_target>[..] = expr`.
    Returns the let-chain for expr."""
    tr = Tr(rel, env, allowed)
    stmts = list(loop.body)[drop_prefix:]
    last = stmts[-1]
    if not (isinstance(last, ast.Assign) and isinstance(last.targets[0], ast.Subscript)
            and T.dotted(last.targets[0].value) == want_target):
        T.fail(rel, last, "loop does not end with `%s[...] = ...`" % want_target)
    ret = ast.Return(value=last.value)
    ast.copy_location(ret, last)
    return tr, stmts[:-1] + [ret], last


def pts_binding(rel, src, st, names_text):
    """`pA,pB = mesh.vertices[a], mesh.vertices[b]` style statement -> nothing (the generated function takes the points)."""
    expect(src, rel, st, names_text)


def gen_edges(out, parts):
    src, tree = T.load(AE)
    # edge_length
    fn = T.find_def(tree, "edge_length", AE)
    parts.append(("attr_edges.py:edge_length", T.sha(src, fn)))
    lp = find_for(fn.body, lambda s: seg_is(src, s.iter, "enumerate(mesh.edges)"), AE, "for e,(a,b) in enumerate(mesh.edges)")
    expect(src, AE, lp.target, "e,(a,b)")
    pts_binding(AE, src, lp.body[0], "pA,pB = mesh.vertices[a], mesh.vertices[b]")
    tr, stmts, last = loop_body_fn(AE, src, lp, {"pA": ("v", "pA"), "pB": ("v", "pB")}, "length", {"geom.distance"}, 1)
    expect(src, AE, last.targets[0], "length[e]")
    out.append("Definition g_edge_length (pA pB : vec T) : T :=\n    %s.\n" % tr.block(stmts, "s"))
    # edge_middle_point
    fn = T.find_def(tree, "edge_middle_point", AE)
    parts.append(("attr_edges.py:edge_middle_point", T.sha(src, fn)))
    lp = find_for(fn.body, lambda s: seg_is(src, s.iter, "enumerate(mesh.edges)"), AE, "for e,(a,b) in enumerate(mesh.edges)")
    expect(src, AE, lp.target, "e,(a,b)")
    pts_binding(AE, src, lp.body[0], "pA,pB = mesh.vertices[a], mesh.vertices[b]")
    tr, stmts, last = loop_body_fn(AE, src, lp, {"pA": ("v", "pA"), "pB": ("v", "pB")}, "middle", set(), 1)
    expect(src, AE, last.targets[0], "middle[e]")
    out.append("Definition g_edge_middle (pA pB : vec T) : vec T :=\n    %s.\n" % tr.block(stmts, "v"))
    # cotan_weights
    fn = T.find_def(tree, "cotan_weights", AE)
    parts.append(("attr_edges.py:cotan_weights", T.sha(src, fn)))
    lp = find_for(fn.body, lambda s: seg_is(src, s.iter, "enumerate(mesh.edges)"), AE, "for e,(A,B) in enumerate(mesh.edges)")
    expect(src, AE, lp.target, "e,(A,B)")
    if len(lp.body) % 2 != 0 or not lp.body:
        T.fail(AE, lp, "cotan_weights: loop body is not a sequence of (lookup, if) pairs")
    calls = []
    corner = None
    term = None
    for k in range(0, len(lp.body), 2):
        look, cond = lp.body[k], lp.body[k + 1]
        if not (isinstance(look, ast.Assign) and isinstance(look.targets[0], ast.Tuple) and len(look.targets[0].elts) == 3
                and is_call(look.value, "mesh.connectivity.direct_face") and len(look.value.args) == 3
                and isinstance(look.value.args[2], ast.Constant) and look.value.args[2].value is True):
            T.fail(AE, look, "cotan_weights: expected `T,i,j = mesh.connectivity.direct_face(u,v,True)`")
        tn = [T.dotted(x) for x in look.targets[0].elts]
        an = [T.dotted(x) for x in look.value.args[:2]]
        if tn[0] != "T" or sorted(tn[1:]) != ["iA", "iB"] or sorted(an) != ["A", "B"]:
            T.fail(AE, look, "cotan_weights: unexpected names in the half-edge lookup")
        calls.append((an == ["B", "A"], tn[1:] == ["iB", "iA"]))
        if not (isinstance(cond, ast.If) and seg_is(src, cond.test, "T is not None") and not cond.orelse and len(cond.body) == 2):
            T.fail(AE, cond, "cotan_weights: expected `if T is not None:` with two statements")
        c1, c2 = cond.body
        if not (isinstance(c1, ast.Assign) and T.dotted(c1.targets[0]) == "cnr"):
            T.fail(AE, c1, "cotan_weights: expected `cnr = ...`")
        # cnr = mesh.connectivity.face_to_first_corner(T) + ...   (first := that call)
        class R(ast.NodeTransformer):
            def visit_Call(self, n):
                if T.dotted(n.func) == "mesh.connectivity.face_to_first_corner" and len(n.args) == 1 \
                        and T.dotted(n.args[0]) == "T":
                    return ast.copy_location(ast.Name(id="first", ctx=ast.Load()), n)
                return self.generic_visit(n)
        e1 = R().visit(ast.parse(T.seg(src, c1.value), mode="eval").body)
        tr = Tr(AE, {"first": ("z", "first"), "iA": ("z", "iA"), "iB": ("z", "iB")}, allowed=set())
        ctext = tr.need(tr.tr(e1), "z", c1)
        if not (isinstance(c2, ast.AugAssign) and isinstance(c2.op, ast.Add) and seg_is(src, c2.target, "cw[e]")):
            T.fail(AE, c2, "cotan_weights: expected `cw[e] += ...`")
        class R2(ast.NodeTransformer):
            def visit_Subscript(self, n):
                if T.dotted(n.value) == "cot" and T.dotted(n.slice) == "cnr":
                    return ast.copy_location(ast.Name(id="x", ctx=ast.Load()), n)
                return self.generic_visit(n)
        e2 = R2().visit(ast.parse(T.seg(src, c2.value), mode="eval").body)
        tr2 = Tr(AE, {"x": ("s", "x")}, allowed=set())
        ttext = tr2.as_s(tr2.tr(e2), c2)
        if corner is None:
            corner, term = [ctext], [ttext]
        else:
            corner.append(ctext)
            term.append(ttext)
    out.append("(* cotan_weights: one entry per half-edge lookup: (arguments are (B,A)?, results unpacked as (iB,iA)?) *)\n"
               "DefinitionZ g_cw_calls : list (bool * bool) := [%s].\n"
               % "; ".join("(%s, %s)" % ("true" if a else "false", "true" if b else "false") for a, b in calls))
    out.append("DefinitionZ g_cw_corner (k : nat) (first iA iB : Z) : Z :=\n    match k with %s | _ => 0 end.\n"
               % " ".join("| %s => %s" % ("S " * i + "O" if i else "O", c) for i, c in enumerate(corner)).replace("S O", "(S O)") )
    out.append("Definition g_cw_term (k : nat) (x : T) : T :=\n    match k with %s | _ => x end.\n"
               % " ".join("| %s => %s" % ("S " * i + "O" if i else "O", c) for i, c in enumerate(term)).replace("S O", "(S O)"))


def gen_faces(out, parts):
    src, tree = T.load(AF)
    # face_area
    fn = T.find_def(tree, "face_area", AF)
    parts.append(("attr_faces.py:face_area", T.sha(src, fn)))
    lp = find_for(fn.body, lambda s: seg_is(src, s.iter, "mesh.id_faces"), AF, "for T in mesh.id_faces")
    b = lp.body
    if not (len(b) == 3 and seg_is(src, b[0], "pts = [mesh.vertices[u] for u in mesh.faces[T]]")
            and seg_is(src, b[1], "npt = len(pts)") and isinstance(b[2], ast.If)):
        T.fail(AF, lp, "face_area: unexpected loop body")
    env = {"pts": ("lv", "pts"), "npt": ("z", "npt")}
    branches = []
    cur = b[2]
    while True:
        t = cur.test
        if not (isinstance(t, ast.Compare) and T.dotted(t.left) == "npt" and len(t.ops) == 1 and isinstance(t.ops[0], ast.Eq)
                and isinstance(t.comparators[0], ast.Constant) and isinstance(t.comparators[0].value, int)):
            T.fail(AF, t, "face_area: branch test is not `npt == <int>`")
        if not (len(cur.body) == 1 and isinstance(cur.body[0], ast.Assign) and seg_is(src, cur.body[0].targets[0], "area[T]")):
            T.fail(AF, cur, "face_area: branch is not `area[T] = ...`")
        tr = Tr(AF, env, {"geom.triangle_area", "geom.quad_area"})
        branches.append((t.comparators[0].value, tr.as_s(tr.tr(cur.body[0].value), cur)))
        if len(cur.orelse) == 1 and isinstance(cur.orelse[0], ast.If):
            cur = cur.orelse[0]
        else:
            break
    el = cur.orelse
    if not (len(el) == 2 and isinstance(el[0], ast.Assign) and T.dotted(el[0].targets[0]) == "bary" and isinstance(el[1], ast.For)
            and seg_is(src, el[1].iter, "range(npt)") and T.dotted(el[1].target) == "i"):
        T.fail(AF, cur, "face_area: polygon branch is not `bary = ...; for i in range(npt): ...`")
    tr = Tr(AF, env, set())
    bary = tr.need(tr.tr(el[0].value), "v", el[0])
    fb = el[1].body
    last = fb[-1]
    if not (isinstance(last, ast.AugAssign) and isinstance(last.op, ast.Add) and seg_is(src, last.target, "area[T]")):
        T.fail(AF, last, "face_area: polygon loop does not end with `area[T] += ...`")
    env2 = dict(env, bary=("v", "bary"), i=("z", "i"))
    tr = Tr(AF, env2, {"geom.triangle_area"})
    ret = ast.copy_location(ast.Return(value=last.value), last)
    step = tr.block(list(fb[:-1]) + [ret], "s")
    txt = "Definition g_face_area (pts : list (vec T)) : T :=\n    let npt := zlen pts in\n"
    for n, c in branches:
        txt += "    if (npt =? %d)%%Z then %s else\n" % (n, c)
    txt += ("    let bary := %s in\n    fold_left (fun acc i => oadd o acc (\n    %s)) (zrange npt) (o0 o).\n" % (bary, step))
    out.append(txt)
    # face_normals
    fn = T.find_def(tree, "face_normals", AF)
    parts.append(("attr_faces.py:face_normals", T.sha(src, fn)))
    lp = find_for(fn.body, lambda s: seg_is(src, s.iter, "enumerate(mesh.faces)"), AF, "for iT,T in enumerate(mesh.faces)")
    expect(src, AF, lp.target, "iT,T")
    expect(src, AF, lp.body[0], "pA,pB,pC = (mesh.vertices[u] for u in T[:3])")
    tr, stmts, last = loop_body_fn(AF, src, lp, {"pA": ("v", "pA"), "pB": ("v", "pB"), "pC": ("v", "pC")}, "normals",
                                   {"geom.cross", "Vec.normalized"}, 1)
    expect(src, AF, last.targets[0], "normals[iT]")
    out.append("Definition g_face_normal (pA pB pC : vec T) : vec T :=\n    %s.\n" % tr.block(stmts, "v"))
    # face_barycenter
    fn = T.find_def(tree, "face_barycenter", AF)
    parts.append(("attr_faces.py:face_barycenter", T.sha(src, fn)))
    lp = find_for(fn.body, lambda s: seg_is(src, s.iter, "enumerate(mesh.faces)"), AF, "for iT,T in enumerate(mesh.faces)")
    expect(src, AF, lp.target, "iT,T")
    out.append(bary_expr(AF, src, lp, "bary[iT]", "T", "g_face_bary"))


def bary_expr(rel, src, lp, target, elt, coqname):
    """`bary[i] = sum(mesh.vertices[u] for u in X) / len(X)` -> function of the point list"""
    if len(lp.body) != 1 or not isinstance(lp.body[0], ast.Assign):
        T.fail(rel, lp, "barycenter loop body is not a single assignment")
    st = lp.body[0]
    expect(src, rel, st.targets[0], target)

    want_sum = ast.dump(ast.parse("sum(mesh.vertices[u] for u in %s)" % elt, mode="eval").body)

    class R(ast.NodeTransformer):
        def visit_Call(self, n):
            if ast.dump(n) == want_sum:
                return ast.copy_location(ast.Call(func=ast.Name(id="sum", ctx=ast.Load()),
                                                  args=[ast.Name(id="pts", ctx=ast.Load())], keywords=[]), n)
            if T.dotted(n.func) == "len" and len(n.args) == 1 and T.dotted(n.args[0]) == elt:
                return ast.copy_location(ast.Call(func=ast.Name(id="len", ctx=ast.Load()),
                                                  args=[ast.Name(id="pts", ctx=ast.Load())], keywords=[]), n)
            return self.generic_visit(n)
    e = R().visit(ast.parse(T.seg(src, st.value), mode="eval").body)
    tr = Tr(rel, {"pts": ("lv", "pts")}, set())
    return "Definition %s (pts : list (vec T)) : vec T :=\n    %s.\n" % (coqname, tr.need(tr.tr(e), "v", st))


def gen_corners(out, parts):
    src, tree = T.load(AC)
    fn = T.find_def(tree, "corner_angles", AC)
    parts.append(("attr_corners.py:corner_angles", T.sha(src, fn)))
    lp = find_for(fn.body, lambda s: seg_is(src, s.iter, "mesh.faces"), AC, "for face in mesh.faces")
    if not (len(lp.body) == 2 and seg_is(src, lp.body[0], "n = len(face)") and isinstance(lp.body[1], ast.For)
            and seg_is(src, lp.body[1].iter, "range(n)") and T.dotted(lp.body[1].target) == "i"):
        T.fail(AC, lp, "corner_angles: unexpected loop nest")
    ib = lp.body[1].body
    if len(ib) != 4:
        T.fail(AC, lp.body[1], "corner_angles: inner body is not 4 statements")
    s0 = ib[0]
    if not (isinstance(s0, ast.Assign) and seg_is(src, s0.targets[0], "iPrev,iV,iNext") and isinstance(s0.value, ast.Tuple)
            and len(s0.value.elts) == 3):
        T.fail(AC, s0, "corner_angles: expected `iPrev,iV,iNext = ...`")
    tr = Tr(AC, {"face": ("lz", "face"), "n": ("z", "n"), "i": ("z", "i")}, set())
    idx = [tr.need(tr.tr(x), "z", x) for x in s0.value.elts]
    expect(src, AC, ib[1], "pPrev, pV, pNext = mesh.vertices[iPrev], mesh.vertices[iV], mesh.vertices[iNext]")
    expect(src, AC, ib[3], "c += 1")
    s2 = ib[2]
    if not (isinstance(s2, ast.Assign) and seg_is(src, s2.targets[0], "angles[c]")):
        T.fail(AC, s2, "corner_angles: expected `angles[c] = ...`")
    tr = Tr(AC, {"pPrev": ("v", "pPrev"), "pV": ("v", "pV"), "pNext": ("v", "pNext")}, {"geom.angle_3pts"})
    out.append("DefinitionZ g_corner_vertices (face : list Z) (n i : Z) : Z * Z * Z :=\n    (%s, %s, %s).\n" % tuple(idx))
    out.append("Definition g_corner_angle (pPrev pV pNext : vec T) : (T * T)%%type :=\n    %s.\n"
               % tr.need(tr.tr(s2.value), "ang", s2))
    # cotangent: the direct branch
    fn = T.find_def(tree, "cotangent", AC)
    parts.append(("attr_corners.py:cotangent", T.sha(src, fn)))
    lp = None
    for n in ast.walk(fn):
        if isinstance(n, ast.For) and seg_is(src, n.iter, "enumerate(mesh.faces)"):
            lp = n
    if lp is None:
        T.fail(AC, fn, "cotangent: `for i, (iA,iB,iC) in enumerate(mesh.faces)` not found")
    expect(src, AC, lp.target, "i, (iA,iB,iC)")
    expect(src, AC, lp.body[0], "pA, pB, pC = (mesh.vertices[_i] for _i in (iA,iB,iC))")
    entries = {}
    stride = None
    for st in lp.body[1:]:
        if not (isinstance(st, ast.Assign) and isinstance(st.targets[0], ast.Subscript) and T.dotted(st.targets[0].value) == "cot"):
            T.fail(AC, st, "cotangent: expected `cot[k*i+j] = ...`")
        sl = st.targets[0].slice
        off = 0
        if isinstance(sl, ast.BinOp) and isinstance(sl.op, ast.Add) and isinstance(sl.right, ast.Constant):
            off, sl = sl.right.value, sl.left
        if not (isinstance(sl, ast.BinOp) and isinstance(sl.op, ast.Mult) and isinstance(sl.left, ast.Constant)
                and T.dotted(sl.right) == "i"):
            T.fail(AC, st, "cotangent: corner index is not `<int>*i + <int>`")
        if stride not in (None, sl.left.value):
            T.fail(AC, st, "cotangent: inconsistent strides")
        stride = sl.left.value
        tr = Tr(AC, {"pA": ("v", "pA"), "pB": ("v", "pB"), "pC": ("v", "pC")}, {"geom.cotan"})
        if off in entries:
            T.fail(AC, st, "cotangent: corner offset %d assigned twice" % off)
        entries[off] = tr.as_s(tr.tr(st.value), st)
    if sorted(entries) != list(range(len(entries))) or stride != len(entries):
        T.fail(AC, lp, "cotangent: offsets %s with stride %s do not tile the corners" % (sorted(entries), stride))
    out.append("DefinitionZ g_cot_stride : Z := %d.\n" % stride)
    out.append("Definition g_cot_face (pA pB pC : vec T) : list T :=\n    [%s].\n"
               % ";\n     ".join(entries[k] for k in sorted(entries)))
    # cotangent from the cached angles:  cot[c] = -np.tan(angles[c] + np.pi/2)   (pinned textually; it is
    # the identity cot(x) = -tan(x + pi/2), exercised by the correspondence)
    found = False
    for n in ast.walk(fn):
        if isinstance(n, ast.Assign) and seg_is(src, n, "cot[c] = -np.tan(angles[c] + np.pi/2)"):
            found = True
    if not found:
        T.fail(AC, fn, "cotangent: cached-angle branch `cot[c] = -np.tan(angles[c] + np.pi/2)` changed")


def gen_vertices(out, parts):
    src, tree = T.load(AV)
    fn = T.find_def(tree, "angle_defects", AV)
    parts.append(("attr_vertices.py:angle_defects", T.sha(src, fn)))
    # default value 2*pi (all four creation sites must agree)
    dvals = []
    for n in ast.walk(fn):
        if isinstance(n, ast.keyword) and n.arg == "default_value":
            dvals.append(n.value)
    if len(dvals) != 3:
        T.fail(AV, fn, "angle_defects: expected 3 `default_value=` sites, found %d" % len(dvals))
    tr = Tr(AV, {"pi": ("s", "pi")}, set())
    dv = {tr.as_s(tr.tr(d), d) for d in dvals}
    if len(dv) != 1:
        T.fail(AV, fn, "angle_defects: default values differ between the creation sites")
    out.append("Definition g_defect_init (pi : T) : T :=\n    %s.\n" % dv.pop())
    lp = find_for(fn.body, lambda s: seg_is(src, s.iter, "mesh.boundary_vertices"), AV, "for i in mesh.boundary_vertices")
    if not (len(lp.body) == 1 and isinstance(lp.body[0], ast.Assign) and seg_is(src, lp.body[0].targets[0], "defects[i]")
            and isinstance(lp.body[0].value, ast.IfExp) and T.dotted(lp.body[0].value.test) == "zero_border"):
        T.fail(AV, lp, "angle_defects: expected `defects[i] = <a> if zero_border else <b>`")
    ie = lp.body[0].value
    out.append("Definition g_defect_border (zero_border : bool) (pi : T) : T :=\n    if zero_border then %s else %s.\n"
               % (tr.as_s(tr.tr(ie.body), ie), tr.as_s(tr.tr(ie.orelse), ie)))
    lp = find_for(fn.body, lambda s: seg_is(src, s.iter, "enumerate(mesh.face_corners)"), AV,
                  "for C,V in enumerate(mesh.face_corners)")
    expect(src, AV, lp.target, "C,V")
    if not (len(lp.body) == 2 and isinstance(lp.body[0], ast.If) and len(lp.body[0].body) == 1
            and isinstance(lp.body[0].body[0], ast.Continue) and not lp.body[0].orelse):
        T.fail(AV, lp, "angle_defects: expected `if <cond>: continue` then the update")
    cond = lp.body[0].test
    def btr(e):
        if isinstance(e, ast.BoolOp):
            opn = "&&" if isinstance(e.op, ast.And) else "||"
            return "(" + (" %s " % opn).join(btr(v) for v in e.values) + ")"
        if isinstance(e, ast.UnaryOp) and isinstance(e.op, ast.Not):
            return "(negb %s)" % btr(e.operand)
        if seg_is(src, e, "mesh.is_vertex_on_border(V)"):
            return "on_border"
        if T.dotted(e) == "zero_border":
            return "zero_border"
        T.fail(AV, e, "angle_defects: unsupported skip condition")
    out.append("DefinitionZ g_defect_skip (on_border zero_border : bool) : bool :=\n    %s.\n" % btr(cond))
    up = lp.body[1]
    if not (isinstance(up, ast.AugAssign) and seg_is(src, up.target, "defects[V]") and seg_is(src, up.value, "ang[C]")
            and type(up.op) in (ast.Sub, ast.Add)):
        T.fail(AV, up, "angle_defects: expected `defects[V] -= ang[C]`")
    out.append("Definition g_defect_step (d a : T) : T :=\n    %s o d a.\n" % ("osub" if isinstance(up.op, ast.Sub) else "oadd"))
    # which angle source: corner_angles(mesh, ...) ; the cached attribute is named "angles"
    ok = any(isinstance(n, ast.Assign) and seg_is(src, n, "ang = corner_angles(mesh, persistent=persistent)") for n in ast.walk(fn))
    if not ok:
        T.fail(AV, fn, "angle_defects: `ang = corner_angles(mesh, persistent=persistent)` changed")
    # degree
    fn = T.find_def(tree, "degree", AV)
    parts.append(("attr_vertices.py:degree", T.sha(src, fn)))
    lp = find_for(fn.body, lambda s: seg_is(src, s.iter, "mesh.edges"), AV, "for (a,b) in mesh.edges")
    expect(src, AV, lp.target, "(a,b)")
    ends = []
    for st in lp.body:
        ok = False
        for nm in ("a", "b"):
            for inc in (1,):
                if seg_is(src, st, "deg[%s] = deg[%s] + 1" % (nm, nm)):
                    ends.append(nm)
                    ok = True
        if not ok:
            T.fail(AV, st, "degree: expected `deg[x] = deg[x] + 1`")
    out.append("DefinitionZ g_degree_ends (a b : Z) : list Z :=\n    [%s].\n" % "; ".join(ends))
    # vertex_normals: forwards `weight=interpolation` and normalises
    fn = T.find_def(tree, "vertex_normals", AV)
    parts.append(("attr_vertices.py:vertex_normals", T.sha(src, fn)))
    ok1 = any(isinstance(n, ast.Assign) and seg_is(src, n, "normals = interpolate_faces_to_vertices(mesh, fnormals, normals, weight=interpolation)")
              for n in ast.walk(fn))
    ok2 = any(isinstance(n, ast.Assign) and seg_is(src, n, "normals[v] = Vec.normalized(normals[v])") for n in ast.walk(fn))
    ok3 = any(isinstance(n, ast.Assign) and seg_is(src, n, "fnormals = face_normals(mesh, persistent=persistent)") for n in ast.walk(fn))
    if not (ok1 and ok2 and ok3):
        T.fail(AV, fn, "vertex_normals: plumbing (face_normals -> interpolate(weight=interpolation) -> normalized) changed")
    chain = None
    for st in T.body_nodoc(fn):
        if isinstance(st, ast.If) and any(isinstance(x, ast.Assign) and T.dotted(x.targets[0]) == "fnormals" for x in st.body):
            chain = st
    if chain is None:
        T.fail(AV, fn, "vertex_normals: the if/elif/else choosing `fnormals` was not found")
    tests = []
    cur = chain
    while True:
        if not (len(cur.body) == 1 and isinstance(cur.body[0], ast.Assign) and T.dotted(cur.body[0].targets[0]) == "fnormals"):
            T.fail(AV, cur, "vertex_normals: a branch of the fnormals choice is not a single assignment")
        if seg_is(src, cur.test, "custom_fnormals is not None") and seg_is(src, cur.body[0].value, "custom_fnormals"):
            tests.append(("custom", "0%nat"))
        elif seg_is(src, cur.test, 'mesh.faces.has_attribute("normals")') and seg_is(src, cur.body[0].value, 'mesh.faces.get_attribute("normals")'):
            tests.append(("cached", "1%nat"))
        else:
            T.fail(AV, cur, "vertex_normals: unrecognised branch in the fnormals choice")
        if len(cur.orelse) == 1 and isinstance(cur.orelse[0], ast.If):
            cur = cur.orelse[0]
        else:
            break
    if not (len(cur.orelse) == 1 and seg_is(src, cur.orelse[0], "fnormals = face_normals(mesh, persistent=persistent)")):
        T.fail(AV, cur, "vertex_normals: the final branch does not compute face_normals(mesh, persistent=persistent)")
    if sorted(t for t, _ in tests) != ["cached", "custom"]:
        T.fail(AV, chain, "vertex_normals: expected exactly the tests on custom_fnormals and on the cached attribute")
    out.append("(* which face normals vertex_normals interpolates: 0 the caller's custom_fnormals, 1 the cached \"normals\" attribute,\n"
               "   2 freshly computed ones - in the order the source tests them *)\n"
               "DefinitionZ g_vn_source (custom cached : bool) : nat :=\n    %s 2%%nat.\n"
               % " ".join("if %s then %s else" % (t, v) for t, v in tests))
    modes = None
    for n in ast.walk(fn):
        if isinstance(n, ast.Compare) and T.dotted(n.left) == "interpolation" and isinstance(n.ops[0], ast.NotIn) \
                and isinstance(n.comparators[0], ast.Set):
            modes = sorted(x.value for x in n.comparators[0].elts)
    if modes != ["angle", "area", "uniform"]:
        T.fail(AV, fn, "vertex_normals: accepted interpolation modes are %s" % modes)
    out.append("Definition g_vertex_normal_finish (x : vec T) : vec T :=\n    normalized o x.\n")


def gen_cells(out, parts):
    src, tree = T.load(ACE)
    fn = T.find_def(tree, "cell_volume", ACE)
    parts.append(("attr_cells.py:cell_volume", T.sha(src, fn)))
    lp = find_for(fn.body, lambda s: seg_is(src, s.iter, "enumerate(mesh.cells)"), ACE, "for ic,(A,B,C,D) in enumerate(mesh.cells)")
    expect(src, ACE, lp.target, "ic,(A,B,C,D)")
    expect(src, ACE, lp.body[0], "pA,pB,pC,pD = (mesh.vertices[_v] for _v in (A,B,C,D))")
    env = {k: ("v", k) for k in ("pA", "pB", "pC", "pD")}
    tr, stmts, last = loop_body_fn(ACE, src, lp, env, "volume", {"det_3x3", "abs"}, 1)
    expect(src, ACE, last.targets[0], "volume[ic]")
    out.append("Definition g_cell_volume (pA pB pC pD : vec T) : T :=\n    %s.\n" % tr.block(stmts, "s"))
    fn = T.find_def(tree, "cell_barycenter", ACE)
    parts.append(("attr_cells.py:cell_barycenter", T.sha(src, fn)))
    lp = find_for(fn.body, lambda s: seg_is(src, s.iter, "enumerate(mesh.cells)"), ACE, "for iC,C in enumerate(mesh.cells)")
    expect(src, ACE, lp.target, "iC,C")
    out.append(bary_expr(ACE, src, lp, "bary[iC]", "C", "g_cell_bary"))


def gen_glob(out, parts):
    src, tree = T.load(GLOB)
    fn = T.find_def(tree, "euler_characteristic", GLOB)
    parts.append(("glob.py:euler_characteristic", T.sha(src, fn)))
    b = T.body_nodoc(fn)
    if not (len(b) == 4 and seg_is(src, b[0], "v = len(mesh.vertices)") and seg_is(src, b[1], "e = len(mesh.edges)")
            and seg_is(src, b[2], "f = len(mesh.faces)") and isinstance(b[3], ast.Return)):
        T.fail(GLOB, fn, "euler_characteristic: unexpected body")
    tr = Tr(GLOB, {"v": ("z", "v"), "e": ("z", "e"), "f": ("z", "f")}, set())
    out.append("DefinitionZ g_euler (v e f : Z) : Z :=\n    %s.\n" % tr.need(tr.tr(b[3].value), "z", b[3]))
    # the three means: accumulate over range(min(n, len(X))), return acc/n with n defaulting to len(X)
    for name, cont, acc, item, coq in (
            ("mean_edge_length", "mesh.edges", "l", None, "g_mean_edge_length"),
            ("mean_face_area", "mesh.faces", "res", "farea[k]", "g_mean_face_area"),
            ("mean_cell_volume", "mesh.cells", "res", "cvol[k]", "g_mean_cell_volume")):
        fn = T.find_def(tree, name, GLOB)
        parts.append(("glob.py:" + name, T.sha(src, fn)))
        b = T.body_nodoc(fn)
        idx = [i for i, st in enumerate(b) if seg_is(src, st, "if n is None: n = len(%s)" % cont)]
        if len(idx) != 1:
            T.fail(GLOB, fn, "%s: `if n is None: n = len(%s)` not found" % (name, cont))
        # statements between the default and the loop may only re-bind n (e.g. `n = min(n, len(X))`)
        li = [i for i, st in enumerate(b) if isinstance(st, ast.For)]
        nexpr = "n"
        for st in b[idx[0] + 1:(li[0] if li else len(b))]:
            if isinstance(st, ast.Assign) and T.dotted(st.targets[0]) == "n" and isinstance(st.value, ast.Call) \
                    and T.dotted(st.value.func) in ("min", "max") and len(st.value.args) == 2:
                def zt(e):
                    if T.dotted(e) == "n":
                        return nexpr
                    if seg_is(src, e, "len(%s)" % cont):
                        return "len_"
                    T.fail(GLOB, e, "%s: unsupported operand in the re-binding of n" % name)
                nexpr = "(Z.%s %s %s)" % (T.dotted(st.value.func), zt(st.value.args[0]), zt(st.value.args[1]))
            elif isinstance(st, ast.Assign) and T.dotted(st.targets[0]) in ("res", "l") and isinstance(st.value, ast.Constant) \
                    and st.value.value == 0:
                continue
            elif isinstance(st, ast.If) or (isinstance(st, ast.Assign) and T.dotted(st.targets[0]) in ("farea", "cvol")):
                continue   # selection of the cached attribute (exercised by the correspondence)
            else:
                T.fail(GLOB, st, "%s: unexpected statement before the loop" % name)
        out.append("DefinitionZ %s_n (n len_ : Z) : Z :=\n    %s.\n" % (coq, nexpr))
        lp = find_for(b, lambda s: T.dotted(s.target) == "k", GLOB, "for k in range(...)")
        if not (is_call(lp.iter, "range") and len(lp.iter.args) == 1):
            T.fail(GLOB, lp, "%s: loop is not over range(<count>)" % name)
        trz = Tr(GLOB, {"n": ("z", "n"), "len_": ("z", "len_")}, set())

        class R(ast.NodeTransformer):
            def visit_Call(self, n):
                if T.dotted(n.func) == "len" and len(n.args) == 1 and T.dotted(n.args[0]) == cont:
                    return ast.copy_location(ast.Name(id="len_", ctx=ast.Load()), n)
                if T.dotted(n.func) in ("min", "max") and len(n.args) == 2:
                    self.generic_visit(n)
                    return n
                return self.generic_visit(n)
        ce = R().visit(ast.parse(T.seg(src, lp.iter.args[0]), mode="eval").body)

        def ztr(e):
            if isinstance(e, ast.Call) and T.dotted(e.func) in ("min", "max") and len(e.args) == 2:
                return "(Z.%s %s %s)" % (T.dotted(e.func), ztr(e.args[0]), ztr(e.args[1]))
            return trz.need(trz.tr(e), "z", e)
        out.append("DefinitionZ %s_count (n len_ : Z) : Z :=\n    %s.\n" % (coq, ztr(ce)))
        last = lp.body[-1]
        if not (isinstance(last, ast.AugAssign) and isinstance(last.op, ast.Add) and T.dotted(last.target) == acc):
            T.fail(GLOB, last, "%s: loop does not end with `%s += ...`" % (name, acc))
        if item is not None:
            if len(lp.body) != 1 or not seg_is(src, last.value, item):
                T.fail(GLOB, lp, "%s: loop body is not `%s += %s`" % (name, acc, item))
        else:
            if not (len(lp.body) == 2 and seg_is(src, lp.body[0], "a,b = (Vec(mesh.vertices[u]) for u in mesh.edges[k])")):
                T.fail(GLOB, lp, "mean_edge_length: expected `a,b = (Vec(mesh.vertices[u]) for u in mesh.edges[k])`")
            tr = Tr(GLOB, {"a": ("v", "a"), "b": ("v", "b")}, set())
            out.append("Definition g_mean_edge_length_item (a b : vec T) : T :=\n    %s.\n" % tr.as_s(tr.tr(last.value), last))
        rt = b[-1]
        if not isinstance(rt, ast.Return):
            T.fail(GLOB, fn, "%s: no final return" % name)
        tr = Tr(GLOB, {acc: ("s", "acc"), "n": ("z", "n")}, set())
        out.append("Definition %s_result (acc : T) (n : Z) : T :=\n    %s.\n" % (coq, tr.as_s(tr.tr(rt.value), rt)))
    fn = T.find_def(tree, "total_area", GLOB)
    parts.append(("glob.py:total_area", T.sha(src, fn)))
    rt = T.body_nodoc(fn)[-1]
    if not (isinstance(rt, ast.Return) and seg_is(src, rt.value, "sum([farea[iF] for iF in mesh.id_faces])")):
        T.fail(GLOB, fn, "total_area: return is not `sum([farea[iF] for iF in mesh.id_faces])`")
    out.append("Definition g_total_area (farea : list T) : T :=\n    ssum o farea.\n")
    fn = T.find_def(tree, "barycenter", GLOB)
    parts.append(("glob.py:barycenter", T.sha(src, fn)))
    rt = T.body_nodoc(fn)[-1]

    class R3(ast.NodeTransformer):
        def visit_Attribute(self, n):
            if T.dotted(n) == "mesh.vertices":
                return ast.copy_location(ast.Name(id="pts", ctx=ast.Load()), n)
            return self.generic_visit(n)
    e = R3().visit(ast.parse(T.seg(src, rt.value), mode="eval").body)
    tr = Tr(GLOB, {"pts": ("lv", "pts")}, set())
    out.append("Definition g_barycenter (pts : list (vec T)) : vec T :=\n    %s.\n" % tr.need(tr.tr(e), "v", rt))


def gen_interp(out, parts):
    """interpolate.py: the accumulate / normalise expressions of every weighting branch, as functions of an abstract
    value type A with (add, scale-by-scalar, divide-by-scalar).  The loops are in Mesh.v."""
    src, tree = T.load(INTERP)

    def atr(e, env):
        """value-typed expression over names in env: ('a', coq) values, ('s', coq) weights, ('z', coq) counts"""
        if isinstance(e, ast.BinOp):
            l, r = atr(e.left, env), atr(e.right, env)
            if isinstance(e.op, ast.Add) and l[0] == r[0] == "a":
                return ("a", "(aadd %s %s)" % (l[1], r[1]))
            if isinstance(e.op, ast.Add) and l[0] == r[0] == "s":
                return ("s", "(oadd o %s %s)" % (l[1], r[1]))
            if isinstance(e.op, ast.Mult) and {l[0], r[0]} == {"a", "s"}:
                a, s = (l, r) if l[0] == "a" else (r, l)
                return ("a", "(ascale %s %s)" % (s[1], a[1]))
            if isinstance(e.op, ast.Div) and l[0] == "a" and r[0] in ("s", "z"):
                return ("a", "(adiv %s %s)" % (l[1], r[1] if r[0] == "s" else "(oZ o %s)" % r[1]))
            T.fail(INTERP, e, "unsupported operator in an interpolation formula")
        for k, v in env.items():
            if seg_is(src, e, k):
                return v
        T.fail(INTERP, e, "unsupported term `%s` in an interpolation formula" % T.seg(src, e))

    def branch_of(fn, wname):
        """statements of the branch `weight == wname` (or `weight in (.., wname, ..)`)"""
        for n in ast.walk(fn):
            if isinstance(n, ast.If):
                t = n.test
                if seg_is(src, t, 'weight == "%s"' % wname) or seg_is(src, t, "weight == '%s'" % wname):
                    return n.body
                if isinstance(t, ast.Compare) and T.dotted(t.left) == "weight" and isinstance(t.ops[0], ast.In) \
                        and isinstance(t.comparators[0], (ast.Tuple, ast.List, ast.Set)) \
                        and wname in [getattr(x, "value", None) for x in t.comparators[0].elts] and len(n.body) > 1 or \
                        (isinstance(t, ast.Compare) and T.dotted(t.left) == "weight" and isinstance(t.ops[0], ast.In)
                         and wname in [getattr(x, "value", None) for x in getattr(t.comparators[0], "elts", [])]):
                    return n.body
        T.fail(INTERP, fn, "branch for weight %r not found" % wname)

    def find_stmt(stmts, pred, what, fn):
        for st in stmts:
            for n in ast.walk(st):
                if pred(n):
                    return n
        T.fail(INTERP, fn, "statement `%s` not found" % what)

    def assign_to(n, target):
        return isinstance(n, ast.Assign) and seg_is(src, n.targets[0], target)

    def aug_to(n, target, op):
        return isinstance(n, ast.AugAssign) and seg_is(src, n.target, target) and isinstance(n.op, op)

    hdr = "(acc x : A)"

    def need_lower(fn):
        """`weight = weight.lower()` then `check_argument("weight", weight, str, ...)`: every accepted spelling is normalised
        before validation and before the branches compare it"""
        b = T.body_nodoc(fn)
        if not (len(b) >= 2 and seg_is(src, b[0], "weight = weight.lower()") and isinstance(b[1], ast.Expr)
                and is_call(b[1].value, "check_argument") and len(b[1].value.args) == 4
                and seg_is(src, b[1].value.args[0], '"weight"') and T.dotted(b[1].value.args[1]) == "weight"):
            T.fail(INTERP, fn, "%s: does not start with `weight = weight.lower()` ; `check_argument(\"weight\", weight, str, ...)`" % fn.name)

    def need_shape(fn, shape):
        """top-level statement kinds of the body (an early return, an extra loop or guard changes it)"""
        got = [type(st).__name__ for st in T.body_nodoc(fn)]
        if got != shape:
            T.fail(INTERP, fn, "%s: body statements %s, expected %s" % (fn.name, got, shape))

    def need_clear(fn, out):
        """the output attribute is emptied before the first weighting branch (the model starts from zero)"""
        for st in T.body_nodoc(fn):
            if isinstance(st, ast.If):
                break
            if isinstance(st, ast.Expr) and seg_is(src, st, out + ".clear()"):
                return
        T.fail(INTERP, fn, "%s: `%s.clear()` before the weighting branches not found" % (fn.name, out))
    # ---- interpolate_vertices_to_faces
    fn = T.find_def(tree, "interpolate_vertices_to_faces", INTERP)
    parts.append(("interpolate.py:interpolate_vertices_to_faces", T.sha(src, fn)))
    b = T.body_nodoc(fn)
    if not seg_is(src, b[0], "fattr.clear()"):
        T.fail(INTERP, fn, "interpolate_vertices_to_faces: does not start with fattr.clear()")
    need_shape(fn, ["Expr", "For", "For", "Return"])
    st = find_stmt(b, lambda n: assign_to(n, "fattr[f]"), "fattr[f] = ...", fn)
    out.append("Definition g_v2f_acc %s : A :=\n    %s.\n" % (hdr, atr(st.value, {"fattr[f]": ("a", "acc"), "vattr[v]": ("a", "x")})[1]))
    st = find_stmt(b, lambda n: aug_to(n, "fattr[f]", ast.Div), "fattr[f] /= ...", fn)
    out.append("Definition g_v2f_fin (acc : A) (n : Z) : A :=\n    %s.\n"
               % atr(ast.BinOp(left=ast.Name(id="ACC"), op=ast.Div(), right=st.value), {"ACC": ("a", "acc"), "len(F)": ("z", "n")})[1]
               if False else
               "Definition g_v2f_fin (acc : A) (n : Z) : A :=\n    (adiv acc %s).\n" % atr(st.value, {"len(F)": ("s", "(oZ o n)")})[1])

    # ---- interpolate_faces_to_vertices
    fn = T.find_def(tree, "interpolate_faces_to_vertices", INTERP)
    parts.append(("interpolate.py:interpolate_faces_to_vertices", T.sha(src, fn)))
    ws = None
    for n in ast.walk(fn):
        if is_call(n, "check_argument") and len(n.args) == 4 and isinstance(n.args[3], (ast.Set, ast.List)):
            ws = sorted(x.value for x in n.args[3].elts)
    if ws != ["angle", "area", "sum", "uniform"]:
        T.fail(INTERP, fn, "interpolate_faces_to_vertices: accepted weights %s" % ws)
    need_lower(fn)
    need_clear(fn, "vattr")
    need_shape(fn, ["Assign", "Expr", "Expr", "If", "Return"])
    bu = branch_of(fn, "uniform")
    st = find_stmt(bu, lambda n: assign_to(n, "vattr[v]"), "vattr[v] = sum(...)", fn)
    if not seg_is(src, st.value, "sum([fattr[f] for f in v2f])"):
        T.fail(INTERP, st, "interpolate_faces_to_vertices: uniform/sum branch is not `sum([fattr[f] for f in v2f])`")
    if not any(isinstance(n, ast.Assign) and seg_is(src, n, "v2f = mesh.connectivity.vertex_to_faces(v)") for n in ast.walk(fn)):
        T.fail(INTERP, fn, "interpolate_faces_to_vertices: v2f is not vertex_to_faces(v)")
    dv = find_stmt(bu, lambda n: isinstance(n, ast.If) and seg_is(src, n.test, 'weight == "uniform"'), 'if weight == "uniform"', fn)
    if not (len(dv.body) == 1 and aug_to(dv.body[0], "vattr[v]", ast.Div) and not dv.orelse):
        T.fail(INTERP, dv, "interpolate_faces_to_vertices: uniform division changed")
    out.append("Definition g_f2v_uniform_fin (acc : A) (n : Z) : A :=\n    (adiv acc %s).\n"
               % atr(dv.body[0].value, {"len(v2f)": ("s", "(oZ o n)")})[1])
    for wname, wattr, tot in (("area", "area[f]", "total_area[v]"), ("angle", "angles[c]", "defects[v]")):
        bb = branch_of(fn, wname)
        st = find_stmt(bb, lambda n: assign_to(n, "vattr[v]"), "vattr[v] = vattr[v] + ...", fn)
        out.append("Definition g_f2v_%s_acc (acc x : A) (w : T) : A :=\n    %s.\n"
                   % (wname, atr(st.value, {"vattr[v]": ("a", "acc"), "fattr[f]": ("a", "x"), wattr: ("s", "w")})[1]))
        st = find_stmt(bb, lambda n: assign_to(n, tot), tot + " = ... + ...", fn) if wname == "angle" else None
        if wname == "area":
            cands = [n for s2 in bb for n in ast.walk(s2) if assign_to(n, tot) and isinstance(n.value, ast.BinOp)]
            if len(cands) != 1:
                T.fail(INTERP, fn, "interpolate_faces_to_vertices: area total accumulation not found")
            st = cands[0]
            if not any(assign_to(n, tot) and seg_is(src, n.value, "0.") for s2 in bb for n in ast.walk(s2)):
                T.fail(INTERP, fn, "interpolate_faces_to_vertices: `total_area[v] = 0.` missing")
        out.append("Definition g_f2v_%s_tot (tot w : T) : T :=\n    %s.\n"
                   % (wname, atr(st.value, {tot: ("s", "tot"), wattr: ("s", "w")})[1]))
        st = find_stmt(bb, lambda n: aug_to(n, "vattr[v]", ast.Div), "vattr[v] /= ...", fn)
        out.append("Definition g_f2v_%s_fin (acc : A) (tot : T) : A :=\n    (adiv acc %s).\n"
                   % (wname, atr(st.value, {tot: ("s", "tot")})[1]))
    if not any(isinstance(n, ast.Assign) and seg_is(src, n, "f = mesh.face_corners.adj(c)") for n in ast.walk(fn)):
        T.fail(INTERP, fn, "interpolate_faces_to_vertices: angle branch does not take f = mesh.face_corners.adj(c)")

    # ---- average_corners_to_vertices
    fn = T.find_def(tree, "average_corners_to_vertices", INTERP)
    parts.append(("interpolate.py:average_corners_to_vertices", T.sha(src, fn)))
    need_lower(fn)
    need_clear(fn, "vattr")
    need_shape(fn, ["Assign", "Expr", "Expr", "If", "Return"])
    bb = branch_of(fn, "uniform")
    st = find_stmt(bb, lambda n: assign_to(n, "vattr[v]"), "vattr[v] = ...", fn)
    out.append("Definition g_c2v_uniform_acc %s : A :=\n    %s.\n" % (hdr, atr(st.value, {"vattr[v]": ("a", "acc"), "cattr[c]": ("a", "x")})[1]))
    st = find_stmt(bb, lambda n: aug_to(n, "count[v]", ast.Add), "count[v] += 1", fn)
    if not seg_is(src, st.value, "1"):
        T.fail(INTERP, st, "average_corners_to_vertices: count increment is not 1")
    st = find_stmt(bb, lambda n: aug_to(n, "vattr[v]", ast.Div), "vattr[v] /= count[v]", fn)
    out.append("Definition g_c2v_uniform_fin (acc : A) (n : Z) : A :=\n    (adiv acc %s).\n" % atr(st.value, {"count[v]": ("s", "(oZ o n)")})[1])
    bb = branch_of(fn, "sum")
    st = find_stmt(bb, lambda n: assign_to(n, "vattr[v]"), "vattr[v] = ...", fn)
    out.append("Definition g_c2v_sum_acc %s : A :=\n    %s.\n" % (hdr, atr(st.value, {"vattr[v]": ("a", "acc"), "cattr[c]": ("a", "x")})[1]))
    bb = branch_of(fn, "angle")
    st = find_stmt(bb, lambda n: assign_to(n, "vattr[v]"), "vattr[v] = ...", fn)
    out.append("Definition g_c2v_angle_acc (acc x : A) (w : T) : A :=\n    %s.\n"
               % atr(st.value, {"vattr[v]": ("a", "acc"), "cattr[c]": ("a", "x"), "angles[c]": ("s", "w")})[1])
    st = find_stmt(bb, lambda n: aug_to(n, "defects[v]", ast.Add), "defects[v] += angles[c]", fn)
    if not seg_is(src, st.value, "angles[c]"):
        T.fail(INTERP, st, "average_corners_to_vertices: weight total does not add angles[c]")
    st = find_stmt(bb, lambda n: aug_to(n, "vattr[v]", ast.Div), "vattr[v] /= defects[v]", fn)
    out.append("Definition g_c2v_angle_fin (acc : A) (tot : T) : A :=\n    (adiv acc %s).\n" % atr(st.value, {"defects[v]": ("s", "tot")})[1])

    # ---- average_corners_to_faces
    fn = T.find_def(tree, "average_corners_to_faces", INTERP)
    parts.append(("interpolate.py:average_corners_to_faces", T.sha(src, fn)))
    need_lower(fn)
    need_clear(fn, "fattr")
    need_shape(fn, ["Assign", "Expr", "Expr", "If", "Return"])
    bb = branch_of(fn, "uniform")
    st = find_stmt(bb, lambda n: assign_to(n, "fattr[F]"), "fattr[F] = ...", fn)
    out.append("Definition g_c2f_uniform_acc (acc x : A) (n : Z) : A :=\n    %s.\n"
               % atr(st.value, {"fattr[F]": ("a", "acc"), "cattr[c]": ("a", "x"), "len(cnrF)": ("z", "n")})[1])
    bb = branch_of(fn, "sum")
    st = find_stmt(bb, lambda n: assign_to(n, "fattr[F]"), "fattr[F] = sum(...)", fn)
    if not seg_is(src, st.value, "sum([cattr[c] for c in mesh.connectivity.face_to_corners(F)])"):
        T.fail(INTERP, st, "average_corners_to_faces: sum branch changed")
    bb = branch_of(fn, "angle")
    st = find_stmt(bb, lambda n: assign_to(n, "fattr[F]"), "fattr[F] = ...", fn)
    out.append("Definition g_c2f_angle_acc (acc x : A) (w : T) : A :=\n    %s.\n"
               % atr(st.value, {"fattr[F]": ("a", "acc"), "cattr[c]": ("a", "x"), "angles[c]": ("s", "w")})[1])
    st = find_stmt(bb, lambda n: aug_to(n, "sum_angles[F]", ast.Add), "sum_angles[F] += angles[c]", fn)
    if not seg_is(src, st.value, "angles[c]"):
        T.fail(INTERP, st, "average_corners_to_faces: weight total does not add angles[c]")
    st = find_stmt(bb, lambda n: aug_to(n, "fattr[F]", ast.Div), "fattr[F] /= sum_angles[F]", fn)
    out.append("Definition g_c2f_angle_fin (acc : A) (tot : T) : A :=\n    (adiv acc %s).\n" % atr(st.value, {"sum_angles[F]": ("s", "tot")})[1])

    # ---- scatters: plain copies
    fn = T.find_def(tree, "scatter_vertices_to_corners", INTERP)
    parts.append(("interpolate.py:scatter_vertices_to_corners", T.sha(src, fn)))
    need_shape(fn, ["For", "Return"])
    if not any(isinstance(n, ast.Assign) and seg_is(src, n, "cattr[c] = vattr[v]") for n in ast.walk(fn)):
        T.fail(INTERP, fn, "scatter_vertices_to_corners: `cattr[c] = vattr[v]` changed")
    fn = T.find_def(tree, "scatter_faces_to_corners", INTERP)
    parts.append(("interpolate.py:scatter_faces_to_corners", T.sha(src, fn)))
    need_shape(fn, ["For", "Return"])
    if not any(isinstance(n, ast.Assign) and seg_is(src, n, "cattr[c] = fattr[F]") for n in ast.walk(fn)):
        T.fail(INTERP, fn, "scatter_faces_to_corners: `cattr[c] = fattr[F]` changed")



# ------------------------------------------------------------------------------------------------ signatures (fail closed)
# (file, function) -> (decorators, [(parameter, default)]) exactly as the drivers / theorems assume them.  A memoising or
# otherwise unknown decorator, a mutable default, a re-ordered or renamed parameter breaks the tie.
SIGNATURES = {
    (AV, "degree"): (["forbidden_mesh_types(PointCloud)"], [("mesh", None), ("name", "'degree'"), ("persistent", "True"), ("dense", "True")]),
    (AV, "angle_defects"): (["allowed_mesh_types(SurfaceMesh)"], [("mesh", None), ("zero_border", "False"), ("name", "'angleDefect'"), ("persistent", "True"), ("dense", "True")]),
    (AV, "vertex_normals"): (["allowed_mesh_types(SurfaceMesh)"], [("mesh", None), ("name", "'normals'"), ("persistent", "True"), ("interpolation", "'area'"), ("dense", "True"), ("custom_fnormals", "None")]),
    (AE, "edge_length"): (["forbidden_mesh_types(PointCloud)"], [("mesh", None), ("name", "'length'"), ("persistent", "True"), ("dense", "True")]),
    (AE, "edge_middle_point"): (["forbidden_mesh_types(PointCloud)"], [("mesh", None), ("name", "'middle'"), ("persistent", "True"), ("dense", "True")]),
    (AE, "cotan_weights"): (["allowed_mesh_types(SurfaceMesh)"], [("mesh", None), ("name", "'cotan_weight'"), ("persistent", "True"), ("dense", "True")]),
    (AF, "face_area"): (["allowed_mesh_types(SurfaceMesh, VolumeMesh)"], [("mesh", None), ("name", "'area'"), ("persistent", "True"), ("dense", "True")]),
    (AF, "face_normals"): (["allowed_mesh_types(SurfaceMesh)"], [("mesh", None), ("name", "'normals'"), ("persistent", "True"), ("dense", "True")]),
    (AF, "face_barycenter"): (["allowed_mesh_types(SurfaceMesh, VolumeMesh)"], [("mesh", None), ("name", "'barycenter'"), ("persistent", "True"), ("dense", "True")]),
    (AF, "face_circumcenter"): (["allowed_mesh_types(SurfaceMesh, VolumeMesh)"], [("mesh", None), ("name", "'circumcenter'"), ("persistent", "True"), ("dense", "True")]),
    (AC, "corner_angles"): (["allowed_mesh_types(SurfaceMesh)"], [("mesh", None), ("name", "'angles'"), ("persistent", "True"), ("dense", "True")]),
    (AC, "cotangent"): (["allowed_mesh_types(SurfaceMesh)"], [("mesh", None), ("name", "'cotan'"), ("persistent", "True"), ("dense", "True")]),
    (ACE, "cell_volume"): (["allowed_mesh_types(VolumeMesh)"], [("mesh", None), ("name", "'volume'"), ("persistent", "True"), ("dense", "True")]),
    (ACE, "cell_barycenter"): (["allowed_mesh_types(VolumeMesh)"], [("mesh", None), ("name", "'barycenter'"), ("persistent", "True"), ("dense", "True")]),
    (GLOB, "euler_characteristic"): (["allowed_mesh_types(SurfaceMesh)"], [("mesh", None)]),
    (GLOB, "mean_edge_length"): (["forbidden_mesh_types(PointCloud)"], [("mesh", None), ("n", "None")]),
    (GLOB, "mean_face_area"): (["allowed_mesh_types(SurfaceMesh, VolumeMesh)"], [("mesh", None), ("n", "None")]),
    (GLOB, "mean_cell_volume"): (["allowed_mesh_types(VolumeMesh)"], [("mesh", None), ("n", "None")]),
    (GLOB, "total_area"): (["allowed_mesh_types(SurfaceMesh)"], [("mesh", None)]),
    (GLOB, "barycenter"): ([], [("mesh", None)]),
    (INTERP, "interpolate_vertices_to_faces"): (["forbidden_mesh_types(PointCloud, PolyLine)"], [("mesh", None), ("vattr", None), ("fattr", None)]),
    (INTERP, "interpolate_faces_to_vertices"): (["allowed_mesh_types(SurfaceMesh)"], [("mesh", None), ("fattr", None), ("vattr", None), ("weight", "'uniform'")]),
    (INTERP, "scatter_vertices_to_corners"): (["allowed_mesh_types(SurfaceMesh)"], [("mesh", None), ("vattr", None), ("cattr", None)]),
    (INTERP, "average_corners_to_vertices"): (["allowed_mesh_types(SurfaceMesh)"], [("mesh", None), ("cattr", None), ("vattr", None), ("weight", "'uniform'")]),
    (INTERP, "scatter_faces_to_corners"): (["allowed_mesh_types(SurfaceMesh)"], [("mesh", None), ("fattr", None), ("cattr", None)]),
    (INTERP, "average_corners_to_faces"): (["allowed_mesh_types(SurfaceMesh)"], [("mesh", None), ("cattr", None), ("fattr", None), ("weight", "'uniform'")]),
    (GEOM, "norm"): ([], [("x", None), ("which", "'l2'")]),
    (GEOM, "dot"): ([], [("A", None), ("B", None)]),
    (GEOM, "distance"): ([], [("A", None), ("B", None), ("which", "'l2'")]),
    (GEOM, "cross"): ([], [("A", None), ("B", None)]),
    (GEOM, "cotan"): ([], [("A", None), ("B", None), ("C", None)]),
    (GEOM, "angle_3pts"): ([], [("A", None), ("B", None), ("C", None)]),
    (GEOM, "triangle_area"): ([], [("A", None), ("B", None), ("C", None)]),
    (GEOM, "quad_area"): ([], [("A", None), ("B", None), ("C", None), ("D", None)]),
    (GEOM, "det_2x2"): ([], [("A", None), ("B", None)]),
    (GEOM, "det_3x3"): ([], []),
    (GEOM, "face_basis"): ([], []),
    (GEOM, "intersect_2lines2D"): ([], [("p1", None), ("d1", None), ("p2", None), ("d2", None)]),
    (GEOM, "circumcenter"): ([], [("v1", None), ("v2", None), ("v3", None)]),
}
# attribute functions whose persistent branch must CREATE (never fetch) the attribute they fill: container it lives on
CREATES = {(AV, "degree"): "mesh.vertices", (AV, "angle_defects"): "mesh.vertices", (AV, "vertex_normals"): "mesh.vertices",
           (AE, "edge_length"): "mesh.edges", (AE, "edge_middle_point"): "mesh.edges", (AE, "cotan_weights"): "mesh.edges",
           (AF, "face_area"): "mesh.faces", (AF, "face_normals"): "mesh.faces", (AF, "face_barycenter"): "mesh.faces",
           (AF, "face_circumcenter"): "mesh.faces", (AC, "corner_angles"): "mesh.face_corners",
           (ACE, "cell_volume"): "mesh.cells", (ACE, "cell_barycenter"): "mesh.cells"}


def check_signatures(parts):
    trees = {}
    for (rel, name), (decos, params) in sorted(SIGNATURES.items()):
        if rel not in trees:
            trees[rel] = T.load(rel)
        src, tree = trees[rel]
        fn = T.find_def(tree, name, rel)
        got_d = [ast.unparse(d) for d in fn.decorator_list]
        if got_d != decos:
            T.fail(rel, fn, "%s: decorators %s, expected %s" % (name, got_d, decos))
        a = fn.args
        if a.kwonlyargs or a.kwarg or a.posonlyargs:
            T.fail(rel, fn, "%s: unexpected keyword-only / ** / positional-only parameters" % name)
        names = [x.arg for x in a.args]
        defaults = [None] * (len(names) - len(a.defaults)) + list(a.defaults)
        for dn in a.defaults:
            if not isinstance(dn, ast.Constant):      # a list / dict / set / call default would be shared between calls
                T.fail(rel, dn, "%s: a parameter default is not an immutable constant" % name)
        got_p = [(n, None if d is None else ast.unparse(d)) for n, d in zip(names, defaults)]
        if got_p != params:
            T.fail(rel, fn, "%s: parameters %s, expected %s" % (name, got_p, params))
        if (rel, name) in CREATES:
            cont = CREATES[(rel, name)]
            ok = False
            for st in T.body_nodoc(fn):
                if isinstance(st, ast.If) and (T.dotted(st.test) == "persistent" or seg_is(src, st.test, "persistent")):
                    b0 = st.body[0] if st.body else None
                    ok = (len(st.body) == 1 and isinstance(b0, ast.Assign) and isinstance(b0.value, ast.Call)
                          and T.dotted(b0.value.func) == cont + ".create_attribute"
                          and b0.value.args and T.dotted(b0.value.args[0]) == "name")
                    break
            if not ok:
                T.fail(rel, fn, "%s: `if persistent:` does not simply create the attribute with %s.create_attribute(name, ...)" % (name, cont))
    parts.append(("signatures/decorators/defaults/creation sites of %d anchored functions" % len(SIGNATURES), "pinned"))


def gen():
    parts = []
    check_signatures(parts)
    geo, att, itp = [], [], []
    gen_geometry(geo, parts)
    gen_circumcenter(geo, parts)
    gen_edges(att, parts)
    gen_faces(att, parts)
    gen_corners(att, parts)
    gen_vertices(att, parts)
    gen_cells(att, parts)
    gen_glob(att, parts)
    gen_interp(itp, parts)
    txt = T.header("C07: formulas of geometry.py and attributes/*.py over the operations record", parts)

    def fix(block, params):
        block = block.replace("DefinitionZ ", "Definition@ ")
        block = block.replace("Definition g_", "Definition g_@P@")
        import re
        block = re.sub(r"Definition g_@P@(\w*)", lambda m: "Definition g_%s %s" % (m.group(1), params), block)
        return block.replace("Definition@ ", "Definition ")
    txt += """From Coq Require Import ZArith List Bool.
Import ListNotations.
Require Import MV.Lib.Base MV.C07.Model.
Open Scope Z_scope.

(* ---- geometry.py *)
""" + fix("\n".join(geo), "{T : Type} (o : ops T)") + """
(* ---- attributes/attr_*.py, glob.py *)
""" + fix("\n".join(att), "{T : Type} (o : ops T)") + """
(* ---- interpolate.py: formulas over an abstract value type A (scalars or vectors) *)
""" + fix("\n".join(itp), "{T : Type} (o : ops T) {A : Type} (aadd : A -> A -> A) (ascale : T -> A -> A) (adiv : A -> T -> A)")
    return {"C07/Gen.v": txt}
