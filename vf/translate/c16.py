"""mouette/processing/cutting.py -> coq/theories/C16/Gen.v

What is generated (everything of SingularityCutter that is an expression, a comparison, index arithmetic or call
plumbing and that the C16 theorems hinge on):
  * `_build_mesh_with_cuts`: the corner numbering `[kF+_i for _i in range(nF)]`, the duplicate numbering
    `duplicate_vertices[v].add(kF+iv)`, the stride `kF += nF`, the start `kF = 0`; the test deciding whether an
    interior edge is glued (`e not in self.cut_edges`); the arguments of the two `direct_face` calls, the order in
    which their results are unpacked and which face/local-index pairs the two `uf.union` calls join;
  * `_prune_edge_tree`: the two leaf tests (`d==1 and i not in self.singularities`,
    `len(self.cut_adj[B])==1 and B not in self.singularities`) and the skeleton of the loop (what is removed);
  * `_build_cut_edges_tree`: `set(id_edges) - evisited` and the two adjacency insertions;
  * `run` / `_run_no_features` / `_run_with_features`: the sequence of steps (checked, fail closed);
  * `_build_singularity_spanning_tree_no_features`: the empty-singularity guard and the border test;
  * `_build_dual_tree_no_features` / `_build_dual_tree_with_features`: the relaxation comparison
    `dist[iF2] > dist[iF] + d`, what it updates (`dist[iF2]`, `path[iF2] = e`), the settled test
    `if fvisited[iF] : continue` and the push guard `if not fvisited[iF2]`.
Loops are modelled by hand (Model.v) and tied by the correspondence. Recognised shapes only: anything else raises
TranslationError (the tie to the source is then broken).
"""
import ast

from . import common as T
from ..core import TranslationError

REL = "mouette/processing/cutting.py"
CLS = "SingularityCutter"

BIN = {ast.Add: "+", ast.Sub: "-", ast.Mult: "*"}
CMPZ = {ast.Eq: "=?", ast.Lt: "<?", ast.LtE: "<=?", ast.Gt: ">?", ast.GtE: ">=?"}


def zexpr(node, env):
    """integer expression over the names in env (python name -> Coq name)"""
    if isinstance(node, ast.Constant) and isinstance(node.value, int) and not isinstance(node.value, bool):
        return "(%d)" % node.value if node.value < 0 else "%d" % node.value
    if isinstance(node, ast.Name):
        if node.id in env:
            return env[node.id]
        T.fail(REL, node, "unknown name %s in an index expression" % node.id)
    if isinstance(node, ast.BinOp) and type(node.op) in BIN:
        return "(%s %s %s)" % (zexpr(node.left, env), BIN[type(node.op)], zexpr(node.right, env))
    if isinstance(node, ast.BinOp) and isinstance(node.op, ast.FloorDiv):
        return "(%s / %s)" % (zexpr(node.left, env), zexpr(node.right, env))
    if isinstance(node, ast.BinOp) and isinstance(node.op, ast.Mod):
        return "(%s mod %s)" % (zexpr(node.left, env), zexpr(node.right, env))
    T.fail(REL, node, "unsupported index expression")


def _is_attr(node, dotted):
    return T.dotted(node) == dotted


def _uncopy(node):
    """x.copy() -> x (value copies do not matter to the combinatorial model)"""
    while isinstance(node, ast.Call) and isinstance(node.func, ast.Attribute) and node.func.attr == "copy" \
            and not node.args and not node.keywords:
        node = node.func.value
    return node


def leaf_test(node, dexpr_ok, vname, lineno_node):
    """`<d> == 1 and <v> not in self.singularities` -> Gallina over (d : Z) (sing : bool)."""
    if not (isinstance(node, ast.BoolOp) and isinstance(node.op, (ast.And, ast.Or)) and len(node.values) == 2):
        T.fail(REL, node, "leaf test is not a two-operand boolean expression")
    parts = []
    for v in node.values:
        if isinstance(v, ast.Compare) and len(v.ops) == 1:
            op, l, r = v.ops[0], v.left, v.comparators[0]
            if isinstance(op, (ast.In, ast.NotIn)) and isinstance(l, ast.Name) and l.id == vname \
                    and _is_attr(r, "self.singularities"):
                parts.append("sing" if isinstance(op, ast.In) else "negb sing")
                continue
            if dexpr_ok(l) and isinstance(r, ast.Constant) and isinstance(r.value, int):
                if type(op) in CMPZ:
                    parts.append("(d %s %d)" % (CMPZ[type(op)], r.value))
                    continue
                if isinstance(op, ast.NotEq):
                    parts.append("negb (d =? %d)" % r.value)
                    continue
        T.fail(REL, v, "unsupported operand of a leaf test")
    return "(%s %s %s)" % (parts[0], "&&" if isinstance(node.op, ast.And) else "||", parts[1])


def _call_name(node):
    if isinstance(node, ast.Expr):
        node = node.value
    if isinstance(node, ast.Call):
        return T.dotted(node.func)
    return None


def _strip_logs(body):
    return [s for s in body if _call_name(s) != "self.log"]


ALLOWED_DECORATORS = {
    "__init__": ["allowed_mesh_types(SurfaceMesh)"],
    "has_features": ["property"], "output_mesh": ["property"], "cut_graph": ["property"],
}


def check_signatures(src, tree, parts):
    """decorators and defaults of every method of SingularityCutter: no memoisation, no mutable default.
    Unknown decorator / non-constant default / unknown method => fail closed."""
    cls = T.find_def(tree, CLS, REL)
    if [ast.unparse(b) for b in cls.bases] != ["Worker"] or cls.decorator_list or cls.keywords:
        T.fail(REL, cls, "SingularityCutter is not a plain subclass of Worker")
    names = []
    for node in cls.body:
        if isinstance(node, ast.Expr) and isinstance(node.value, ast.Constant) and isinstance(node.value.value, str):
            continue
        if not isinstance(node, ast.FunctionDef):
            T.fail(REL, node, "class-level statement in SingularityCutter (shared state between cutters?)")
        names.append(node.name)
        deco = [ast.unparse(d) for d in node.decorator_list]
        if deco != ALLOWED_DECORATORS.get(node.name, []):
            T.fail(REL, node, "unexpected decorators %s on %s" % (deco, node.name))
        a = node.args
        if a.vararg or a.kwarg or a.posonlyargs:
            T.fail(REL, node, "unexpected parameter kinds on %s" % node.name)
        for d in list(a.defaults) + [k for k in a.kw_defaults if k is not None]:
            if not (isinstance(d, ast.Constant) and (d.value is None or isinstance(d.value, (bool, int, float, str)))):
                T.fail(REL, d, "default value of a parameter of %s is not an immutable constant" % node.name)
    init = T.find_def(tree, CLS + ".__init__", REL)
    params = [x.arg for x in init.args.args]
    defaults = [ast.unparse(d) for d in init.args.defaults]
    if params != ["self", "mesh", "singularities", "features", "verbose"] or defaults != ["None", "False"]:
        T.fail(REL, init, "constructor is not (self, mesh, singularities, features=None, verbose=False)")
    parts.append(("class signatures", T.sha(src, cls)[:16] if False else
                  __import__("hashlib").sha256(" ".join(names).encode()).hexdigest()[:16]))
    return names


def gen():
    src, tree = T.load(REL)
    parts = []
    out = []
    check_signatures(src, tree, parts)

    # ------------------------------------------------------------------ _build_mesh_with_cuts
    fn = T.find_def(tree, CLS + "._build_mesh_with_cuts", REL)
    parts.append(("_build_mesh_with_cuts", T.sha(src, fn)))
    body = T.body_nodoc(fn)
    loop1 = loop2 = None
    for s in body:
        if isinstance(s, ast.For) and isinstance(s.iter, ast.Call) and T.dotted(s.iter.func) == "enumerate" \
                and len(s.iter.args) == 1 and _is_attr(s.iter.args[0], "self.input_mesh.faces"):
            if loop1 is not None:
                T.fail(REL, s, "two loops over the input faces")
            loop1 = s
        if isinstance(s, ast.For) and _is_attr(s.iter, "self.input_mesh.interior_edges"):
            if loop2 is not None:
                T.fail(REL, s, "two loops over the interior edges")
            loop2 = s
    if loop1 is None or loop2 is None:
        T.fail(REL, fn, "rebuild: the loop over input faces or the loop over interior edges is missing")
    accs = [s.target.id for s in loop1.body if isinstance(s, ast.AugAssign) and isinstance(s.target, ast.Name)]
    if len(accs) != 1:
        T.fail(REL, loop1, "rebuild: the face loop does not advance exactly one counter")
    ACC = accs[0]
    kf0 = None
    for s in body:
        if s is loop1:
            break
        if isinstance(s, ast.Assign) and len(s.targets) == 1 and isinstance(s.targets[0], ast.Name) \
                and s.targets[0].id == ACC:
            if not (isinstance(s.value, ast.Constant) and isinstance(s.value.value, int)
                    and not isinstance(s.value.value, bool)):
                T.fail(REL, s, "the corner counter is not initialised with an integer literal")
            kf0 = s.value.value
    if kf0 is None:
        T.fail(REL, fn, "rebuild: the corner counter is not initialised before the face loop")
    # loop 1
    tgt = loop1.target
    if not (isinstance(tgt, ast.Tuple) and len(tgt.elts) == 2 and all(isinstance(e, ast.Name) for e in tgt.elts)):
        T.fail(REL, loop1, "face loop target is not `iF, F`")
    Fname = tgt.elts[1].id
    nF = None
    corner = dup = stride = None
    inner = None
    for s in loop1.body:
        if isinstance(s, ast.Assign) and isinstance(s.targets[0], ast.Name) and isinstance(s.value, ast.Call) \
                and T.dotted(s.value.func) == "len" and isinstance(s.value.args[0], ast.Name) and s.value.args[0].id == Fname:
            nF = s.targets[0].id
        elif isinstance(s, ast.Expr) and _call_name(s) == "self._output_mesh.faces.append":
            a = s.value.args[0]
            if not (isinstance(a, ast.ListComp) and len(a.generators) == 1 and not a.generators[0].ifs
                    and isinstance(a.generators[0].target, ast.Name)):
                T.fail(REL, s, "output face is not a single list comprehension")
            g = a.generators[0]
            if not (isinstance(g.iter, ast.Call) and T.dotted(g.iter.func) == "range" and len(g.iter.args) == 1
                    and isinstance(g.iter.args[0], ast.Name) and g.iter.args[0].id == nF):
                T.fail(REL, s, "output face comprehension does not range over range(nF)")
            corner = zexpr(a.elt, {ACC: "kF", g.target.id: "i"})
        elif isinstance(s, ast.For):
            if inner is not None:
                T.fail(REL, s, "two inner loops in the face loop")
            inner = s
        elif isinstance(s, ast.AugAssign) and isinstance(s.target, ast.Name) and s.target.id == ACC:
            if not isinstance(s.op, ast.Add):
                T.fail(REL, s, "the corner counter is not advanced with +=")
            stride = "(kF + %s)" % zexpr(s.value, {ACC: "kF", nF or "nF": "nF"})
        else:
            T.fail(REL, s, "unexpected statement in the face loop of the rebuild")
    if None in (nF, corner, stride, inner):
        T.fail(REL, loop1, "face loop of the rebuild lacks nF / the output face / the stride / the corner loop")
    if not (isinstance(inner.iter, ast.Call) and T.dotted(inner.iter.func) == "enumerate"
            and isinstance(inner.iter.args[0], ast.Name) and inner.iter.args[0].id == Fname
            and isinstance(inner.target, ast.Tuple) and len(inner.target.elts) == 2):
        T.fail(REL, inner, "corner loop is not `for iv,v in enumerate(F)`")
    ivn, vn = inner.target.elts[0].id, inner.target.elts[1].id
    pvn = None
    appended = False
    for s in inner.body:
        if isinstance(s, ast.Assign) and isinstance(s.targets[0], ast.Name):
            sub = _uncopy(s.value)
            if not (isinstance(sub, ast.Subscript) and _is_attr(sub.value, "self.input_mesh.vertices")
                    and isinstance(sub.slice, ast.Name) and sub.slice.id == vn):
                T.fail(REL, s, "corner position is not self.input_mesh.vertices[v]")
            pvn = s.targets[0].id
        elif _call_name(s) == "self._output_mesh.vertices.append":
            a = _uncopy(s.value.args[0])
            direct = (isinstance(a, ast.Subscript) and _is_attr(a.value, "self.input_mesh.vertices")
                      and isinstance(a.slice, ast.Name) and a.slice.id == vn)
            if not ((isinstance(a, ast.Name) and a.id == pvn) or direct):
                T.fail(REL, s, "appended vertex is not the corner position")
            appended = True
        elif isinstance(s, ast.Expr) and isinstance(s.value, ast.Call) and isinstance(s.value.func, ast.Attribute) \
                and s.value.func.attr == "add":
            tgt2 = s.value.func.value
            if not (isinstance(tgt2, ast.Subscript) and isinstance(tgt2.value, ast.Name)
                    and isinstance(tgt2.slice, ast.Name) and tgt2.slice.id == vn):
                T.fail(REL, s, "not <duplicates>[v].add(..)")
            dup = zexpr(s.value.args[0], {ACC: "kF", ivn: "iv"})
        else:
            T.fail(REL, s, "unexpected statement in the corner loop of the rebuild")
    if dup is None or not appended:
        T.fail(REL, inner, "corner loop lacks the vertex append or the duplicate registration")
    # loop 2
    en = loop2.target.id if isinstance(loop2.target, ast.Name) else T.fail(REL, loop2, "edge loop target")
    b2 = loop2.body
    if not (len(b2) == 2 and isinstance(b2[0], ast.Assign) and isinstance(b2[0].targets[0], ast.Tuple)
            and isinstance(b2[0].value, ast.Subscript) and _is_attr(b2[0].value.value, "self.input_mesh.edges")
            and isinstance(b2[0].value.slice, ast.Name) and b2[0].value.slice.id == en and isinstance(b2[1], ast.If)
            and not b2[1].orelse):
        T.fail(REL, loop2, "edge loop is not `a,b = edges[e]` followed by one `if`")
    an, bn = [x.id for x in b2[0].targets[0].elts]
    test = b2[1].test
    if not (isinstance(test, ast.Compare) and len(test.ops) == 1 and isinstance(test.ops[0], (ast.In, ast.NotIn))
            and isinstance(test.left, ast.Name) and test.left.id == en and _is_attr(test.comparators[0], "self.cut_edges")):
        T.fail(REL, test, "glue test is not `e [not] in self.cut_edges`")
    glue = "negb in_cut" if isinstance(test.ops[0], ast.NotIn) else "in_cut"
    ib = b2[1].body
    if len(ib) != 4:
        T.fail(REL, b2[1], "glue block is not two direct_face calls followed by two unions")
    dfs = []
    envs = {}
    for k in (0, 1):
        s = ib[k]
        if not (isinstance(s, ast.Assign) and isinstance(s.targets[0], ast.Tuple) and len(s.targets[0].elts) == 3
                and isinstance(s.value, ast.Call) and T.dotted(s.value.func) == "self.input_mesh.connectivity.direct_face"
                and len(s.value.args) == 3 and isinstance(s.value.args[2], ast.Constant) and s.value.args[2].value is True
                and not s.value.keywords):
            T.fail(REL, s, "not `X, i, j = self.input_mesh.connectivity.direct_face(u, v, True)`")
        args = []
        for a in s.value.args[:2]:
            if not (isinstance(a, ast.Name) and a.id in (an, bn)):
                T.fail(REL, a, "direct_face argument is not an end of the edge")
            args.append("a" if a.id == an else "b")
        dfs.append(args)
        for pos, nm in enumerate(s.targets[0].elts):
            if not isinstance(nm, ast.Name):
                T.fail(REL, nm, "direct_face result is not unpacked into names")
            envs[nm.id] = (k, pos)   # later binding wins, as in Python
    unions = []
    for k in (2, 3):
        s = ib[k]
        if not (_call_name(s) == "uf.union" and len(s.value.args) == 2):
            T.fail(REL, s, "not uf.union(x, y)")
        pr = []
        for a in s.value.args:
            if not (isinstance(a, ast.Subscript) and isinstance(a.value, ast.Subscript)
                    and _is_attr(a.value.value, "self._output_mesh.faces")
                    and isinstance(a.value.slice, ast.Name) and isinstance(a.slice, ast.Name)
                    and a.value.slice.id in envs and a.slice.id in envs):
                T.fail(REL, a, "union argument is not self._output_mesh.faces[<F>][<i>] of direct_face results")
            pr.append((envs[a.value.slice.id], envs[a.slice.id]))
        unions.append(pr)

    def comp(kp):
        k, pos = kp
        return "%s (d%d)" % (("tF", "tI", "tJ")[pos], k + 1)
    up = "; ".join("(lookup (%s) (%s), lookup (%s) (%s))" % (comp(p[0][0]), comp(p[0][1]), comp(p[1][0]), comp(p[1][1]))
                   for p in unions)

    out.append("""(* ---- _build_mesh_with_cuts *)
Definition kF_start : Z := %d.
Definition corner_id (kF i : Z) : Z := %s.        (* self._output_mesh.faces.append([... for _i in range(nF)]) *)
Definition dup_corner (kF iv : Z) : Z := %s.      (* duplicate_vertices[v].add(...) *)
Definition next_kF (kF nF : Z) : Z := %s.         (* kF += nF *)
Definition glue_test (in_cut : bool) : bool := %s. (* interior edge e is glued iff ... *)
(* direct_face is called with these ends of the edge (a,b) = edges[e] *)
Definition df1_args (a b : Z) : Z * Z := (%s, %s).
Definition df2_args (a b : Z) : Z * Z := (%s, %s).
Definition tF (d : Z * Z * Z) : Z := fst (fst d).
Definition tI (d : Z * Z * Z) : Z := snd (fst d).
Definition tJ (d : Z * Z * Z) : Z := snd d.
(* the two uf.union calls: lookup F i = self._output_mesh.faces[F][i]; d1, d2 = results of the two direct_face calls *)
Definition union_pairs (lookup : Z -> Z -> Z) (d1 d2 : Z * Z * Z) : list (Z * Z) := [%s].
""" % (kf0, corner, dup, stride, glue, dfs[0][0], dfs[0][1], dfs[1][0], dfs[1][1], up))

    # ------------------------------------------------------------------ _prune_edge_tree
    fn = T.find_def(tree, CLS + "._prune_edge_tree", REL)
    parts.append(("_prune_edge_tree", T.sha(src, fn)))
    body = _strip_logs(T.body_nodoc(fn))
    if not (len(body) == 3 and isinstance(body[0], ast.Assign) and isinstance(body[1], ast.For)
            and isinstance(body[2], ast.While)):
        T.fail(REL, fn, "prune is not `queue = deque()`, a for loop, a while loop")
    if not (isinstance(body[0].value, ast.Call) and T.dotted(body[0].value.func) == "deque" and not body[0].value.args):
        T.fail(REL, body[0], "queue is not an empty deque")
    qn = body[0].targets[0].id
    f0 = body[1]
    if not (_is_attr(f0.iter, "self.input_mesh.id_vertices") and isinstance(f0.target, ast.Name)):
        T.fail(REL, f0, "initial loop does not range over id_vertices")
    iv = f0.target.id
    fb = f0.body
    if not (len(fb) == 2 and isinstance(fb[0], ast.Assign) and isinstance(fb[1], ast.If) and not fb[1].orelse):
        T.fail(REL, f0, "initial loop body is not `d = len(self.cut_adj[i])` + `if`")

    def is_len_adj(node, vname):
        return (isinstance(node, ast.Call) and T.dotted(node.func) == "len" and len(node.args) == 1
                and isinstance(node.args[0], ast.Subscript) and _is_attr(node.args[0].value, "self.cut_adj")
                and isinstance(node.args[0].slice, ast.Name) and node.args[0].slice.id == vname)
    if not is_len_adj(fb[0].value, iv):
        T.fail(REL, fb[0], "d is not len(self.cut_adj[i])")
    dn = fb[0].targets[0].id
    t0 = leaf_test(fb[1].test, lambda n: isinstance(n, ast.Name) and n.id == dn, iv, fb[1])

    def is_append(s, vname):
        return (_call_name(s) == qn + ".append" and len(s.value.args) == 1 and isinstance(s.value.args[0], ast.Name)
                and s.value.args[0].id == vname)
    if not (len(fb[1].body) == 1 and is_append(fb[1].body[0], iv)):
        T.fail(REL, fb[1], "initial leaves are not appended to the queue")
    w = body[2]
    wt = w.test
    if not (isinstance(wt, ast.Compare) and isinstance(wt.ops[0], ast.Gt) and isinstance(wt.left, ast.Call)
            and T.dotted(wt.left.func) == "len" and isinstance(wt.left.args[0], ast.Name) and wt.left.args[0].id == qn
            and isinstance(wt.comparators[0], ast.Constant) and wt.comparators[0].value == 0):
        T.fail(REL, wt, "while test is not len(queue)>0")
    wb = w.body
    if not (len(wb) == 3 and isinstance(wb[0], ast.Assign) and isinstance(wb[0].value, ast.Call)
            and T.dotted(wb[0].value.func) in (qn + ".popleft", qn + ".pop") and isinstance(wb[1], ast.For)
            and isinstance(wb[2], ast.Assign)):
        T.fail(REL, w, "while body is not pop / for / reset")
    An = wb[0].targets[0].id
    fl = wb[1]
    if not (isinstance(fl.target, ast.Name) and isinstance(fl.iter, ast.Subscript) and _is_attr(fl.iter.value, "self.cut_adj")
            and isinstance(fl.iter.slice, ast.Name) and fl.iter.slice.id == An):
        T.fail(REL, fl, "inner loop does not range over self.cut_adj[A]")
    Bn = fl.target.id
    lb = fl.body
    if len(lb) != 3:
        T.fail(REL, fl, "inner loop is not remove / remove / if")
    def is_adj_remove(s):
        return (isinstance(s, ast.Expr) and isinstance(s.value, ast.Call)
                and isinstance(s.value.func, ast.Attribute) and s.value.func.attr in ("remove", "discard")
                and isinstance(s.value.func.value, ast.Subscript) and _is_attr(s.value.func.value.value, "self.cut_adj")
                and isinstance(s.value.func.value.slice, ast.Name) and s.value.func.value.slice.id == Bn
                and len(s.value.args) == 1 and isinstance(s.value.args[0], ast.Name) and s.value.args[0].id == An)

    def is_edge_remove(s):
        return (_call_name(s) in ("self.cut_edges.remove", "self.cut_edges.discard") and len(s.value.args) == 1
                and isinstance(s.value.args[0], ast.Call)
                and T.dotted(s.value.args[0].func) == "self.input_mesh.connectivity.edge_id"
                and sorted(a.id for a in s.value.args[0].args if isinstance(a, ast.Name)) == sorted([An, Bn]))
    if not ((is_adj_remove(lb[0]) and is_edge_remove(lb[1])) or (is_adj_remove(lb[1]) and is_edge_remove(lb[0]))):
        T.fail(REL, fl, "inner loop does not start with self.cut_adj[B].remove(A) and self.cut_edges.remove(edge_id(A,B))")
    s = lb[2]
    if not (isinstance(s, ast.If) and not s.orelse and len(s.body) == 1 and is_append(s.body[0], Bn)):
        T.fail(REL, s, "third statement is not `if <test>: queue.append(B)`")
    t1 = leaf_test(s.test, lambda n: is_len_adj(n, Bn), Bn, s)
    s = wb[2]
    if not (isinstance(s.targets[0], ast.Subscript) and _is_attr(s.targets[0].value, "self.cut_adj")
            and isinstance(s.targets[0].slice, ast.Name) and s.targets[0].slice.id == An
            and isinstance(s.value, ast.Call) and T.dotted(s.value.func) == "set" and not s.value.args):
        T.fail(REL, s, "last statement is not self.cut_adj[A] = set()")
    out.append("""(* ---- _prune_edge_tree : d = number of neighbours in the cut graph, sing = the vertex is singular *)
Definition leaf_test_init (d : Z) (sing : bool) : bool := %s.
Definition leaf_test_loop (d : Z) (sing : bool) : bool := %s.
""" % (t0, t1))

    # ------------------------------------------------------------------ _build_cut_edges_tree
    fn = T.find_def(tree, CLS + "._build_cut_edges_tree", REL)
    parts.append(("_build_cut_edges_tree", T.sha(src, fn)))
    pn = [a.arg for a in fn.args.args]
    if len(pn) != 2:
        T.fail(REL, fn, "_build_cut_edges_tree does not take (self, evisited)")
    body = T.body_nodoc(fn)
    s = body[0]
    ok = (isinstance(s, ast.Assign) and _is_attr(s.targets[0], "self.cut_edges") and isinstance(s.value, ast.BinOp)
          and isinstance(s.value.op, ast.Sub) and isinstance(s.value.left, ast.Call) and T.dotted(s.value.left.func) == "set"
          and len(s.value.left.args) == 1 and _is_attr(s.value.left.args[0], "self.input_mesh.id_edges")
          and isinstance(s.value.right, ast.Name) and s.value.right.id == pn[1])
    if not ok:
        T.fail(REL, s, "cut_edges is not set(id_edges) - evisited")
    if not (len(body) == 3 and isinstance(body[1], ast.Assign) and _is_attr(body[1].targets[0], "self.cut_adj")
            and isinstance(body[2], ast.For) and _is_attr(body[2].iter, "self.cut_edges")):
        T.fail(REL, fn, "cut_adj is not built from cut_edges")
    lb = body[2].body
    if not (len(lb) == 3 and isinstance(lb[0], ast.Assign) and isinstance(lb[0].targets[0], ast.Tuple)
            and isinstance(lb[0].value, ast.Subscript) and _is_attr(lb[0].value.value, "self.input_mesh.edges")):
        T.fail(REL, body[2], "adjacency loop is not `a,b = edges[e]` + two insertions")
    a2, b2n = [x.id for x in lb[0].targets[0].elts]
    ins = []
    for s in lb[1:]:
        ok = (isinstance(s, ast.Expr) and isinstance(s.value, ast.Call) and isinstance(s.value.func, ast.Attribute)
              and s.value.func.attr == "add" and isinstance(s.value.func.value, ast.Subscript)
              and _is_attr(s.value.func.value.value, "self.cut_adj") and isinstance(s.value.func.value.slice, ast.Name)
              and isinstance(s.value.args[0], ast.Name))
        if not ok:
            T.fail(REL, s, "not self.cut_adj[x].add(y)")
        ins.append((s.value.func.value.slice.id, s.value.args[0].id))
    if sorted(ins) != sorted([(a2, b2n), (b2n, a2)]):
        T.fail(REL, body[2], "adjacency insertions are not a->b and b->a")
    out.append("""(* ---- _build_cut_edges_tree : edge e stays in cut_edges iff ... (visited = e in evisited) *)
Definition cut0_keep (visited : bool) : bool := negb visited.
""")

    # ------------------------------------------------------------------ run plumbing (checked, fail closed)
    fn = T.find_def(tree, CLS + ".run", REL)
    parts.append(("run", T.sha(src, fn)))
    body = _strip_logs(T.body_nodoc(fn))
    # leading `self._output_mesh = None` / `self._cut_graph = None` / `self.ref_vertex = None` (results of an earlier run dropped)
    resets = []
    while body and isinstance(body[0], ast.Assign) and len(body[0].targets) == 1 \
            and T.dotted(body[0].targets[0]) in ("self._output_mesh", "self._cut_graph", "self.ref_vertex") \
            and isinstance(body[0].value, ast.Constant) and body[0].value.value is None:
        resets.append(T.dotted(body[0].targets[0]))
        body = body[1:]
    if not (len(body) == 1 and isinstance(body[0], ast.If) and _is_attr(body[0].test, "self.has_features")):
        T.fail(REL, fn, "run is not `if self.has_features: ... else: ...`")
    if [_call_name(x) for x in _strip_logs(body[0].body)] != ["self._run_with_features"] or \
            [_call_name(x) for x in _strip_logs(body[0].orelse)] != ["self._run_no_features"]:
        T.fail(REL, fn, "run does not dispatch to _run_with_features / _run_no_features")
    for suffix in ("no_features", "with_features"):
        fn = T.find_def(tree, CLS + "._run_" + suffix, REL)
        parts.append(("_run_" + suffix, T.sha(src, fn)))
        body = _strip_logs(T.body_nodoc(fn))
        ok = (len(body) == 4
              and isinstance(body[0], ast.Assign) and _call_name(body[0].value) == "self._build_singularity_spanning_tree_" + suffix
              and isinstance(body[1], ast.Assign) and _call_name(body[1].value) == "self._build_dual_tree_" + suffix
              and [a.id for a in body[1].value.args if isinstance(a, ast.Name)] == [body[0].targets[0].id]
              and _call_name(body[2]) == "self._build_cut_edges_tree"
              and [a.id for a in body[2].value.args if isinstance(a, ast.Name)] == [body[1].targets[0].id]
              and _call_name(body[3]) == "self._prune_edge_tree" and not body[3].value.args)
        if not ok:
            T.fail(REL, fn, "_run_%s is not spanning tree -> dual tree -> complement -> prune" % suffix)

    # ------------------------------------------------------------------ spanning tree guards (no features)
    fn = T.find_def(tree, CLS + "._build_singularity_spanning_tree_no_features", REL)
    parts.append(("_build_singularity_spanning_tree_no_features", T.sha(src, fn)))
    body = T.body_nodoc(fn)
    border_cmp = None
    guard = False
    for s in body:
        if isinstance(s, ast.Assign) and isinstance(s.targets[0], ast.Name) and s.targets[0].id == "mesh_has_border":
            v = s.value
            if not (isinstance(v, ast.Compare) and len(v.ops) == 1 and type(v.ops[0]) in CMPZ
                    and isinstance(v.left, ast.Call) and T.dotted(v.left.func) == "len"
                    and _is_attr(v.left.args[0], "self.input_mesh.boundary_vertices")
                    and isinstance(v.comparators[0], ast.Constant) and isinstance(v.comparators[0].value, int)):
                T.fail(REL, s, "mesh_has_border is not len(boundary_vertices) <cmp> <int>")
            border_cmp = "(n %s %d)" % (CMPZ[type(v.ops[0])], v.comparators[0].value)
        if isinstance(s, ast.If) and isinstance(s.test, ast.UnaryOp) and isinstance(s.test.op, ast.Not) \
                and _is_attr(s.test.operand, "self.singularities"):
            if len(s.body) == 1 and isinstance(s.body[0], ast.Return) and isinstance(s.body[0].value, ast.Name) \
                    and s.body[0].value.id == "edge_flags":
                guard = True
    if border_cmp is None or not guard:
        T.fail(REL, fn, "spanning tree: the border test or the empty-singularity guard is missing")
    out.append("""(* ---- _build_singularity_spanning_tree_no_features *)
Definition mesh_has_border (n : Z) : bool := %s.   (* n = number of boundary vertices *)
Definition no_flags_when_no_singularity : bool := true.  (* `if not self.singularities: return edge_flags` (empty) *)
""" % border_cmp)

    # ------------------------------------------------------------------ dual Dijkstra: relaxation test of both builders
    for suffix in ("no_features", "with_features"):
        fn = T.find_def(tree, CLS + "._build_dual_tree_" + suffix, REL)
        parts.append(("_build_dual_tree_" + suffix, T.sha(src, fn)))
        loops = [x for x in T.body_nodoc(fn) if isinstance(x, ast.While)]
        if len(loops) != 1:
            T.fail(REL, fn, "dual tree: not exactly one while loop")
        w = loops[0]
        # `iF = queue.get().x` ; `if fvisited[iF] : continue` ; `fvisited[iF] = True`
        wb = w.body
        if not (len(wb) == 4 and isinstance(wb[0], ast.Assign) and isinstance(wb[0].targets[0], ast.Name)
                and isinstance(wb[1], ast.If) and isinstance(wb[2], ast.Assign) and isinstance(wb[3], ast.For)):
            T.fail(REL, w, "dual tree loop is not pop / settled test / settle / for")
        cur = wb[0].targets[0].id
        t1 = wb[1]
        if not (isinstance(t1.test, ast.Subscript) and isinstance(t1.test.value, ast.Name)
                and isinstance(t1.test.slice, ast.Name) and t1.test.slice.id == cur and len(t1.body) == 1
                and isinstance(t1.body[0], ast.Continue) and not t1.orelse):
            T.fail(REL, t1, "settled test is not `if fvisited[iF] : continue`")
        vis = t1.test.value.id
        s2 = wb[2]
        if not (isinstance(s2.targets[0], ast.Subscript) and isinstance(s2.targets[0].value, ast.Name)
                and s2.targets[0].value.id == vis and isinstance(s2.targets[0].slice, ast.Name)
                and s2.targets[0].slice.id == cur and isinstance(s2.value, ast.Constant) and s2.value.value is True):
            T.fail(REL, s2, "the popped face is not marked visited")
        relax = []
        pushes = []
        for node in ast.walk(wb[3]):
            if isinstance(node, ast.If) and isinstance(node.test, ast.Compare) and len(node.test.ops) == 1 \
                    and isinstance(node.test.left, ast.Subscript) and isinstance(node.test.left.value, ast.Name) \
                    and node.test.left.value.id == "dist":
                relax.append(node)
            if isinstance(node, ast.If) and isinstance(node.test, ast.UnaryOp) and isinstance(node.test.op, ast.Not) \
                    and isinstance(node.test.operand, ast.Subscript) and isinstance(node.test.operand.value, ast.Name) \
                    and node.test.operand.value.id == vis:
                pushes.append(node)
        if len(relax) != 1 or len(pushes) != 1:
            T.fail(REL, w, "dual tree: expected one relaxation test on dist[...] and one `if not fvisited[...]` push guard")
        rx = relax[0]
        c = rx.test
        nb = c.left.slice.id if isinstance(c.left.slice, ast.Name) else T.fail(REL, c, "relaxation subject")
        rhs = c.comparators[0]
        ok = (isinstance(rhs, ast.BinOp) and isinstance(rhs.op, ast.Add) and isinstance(rhs.left, ast.Subscript)
              and isinstance(rhs.left.value, ast.Name) and rhs.left.value.id == "dist"
              and isinstance(rhs.left.slice, ast.Name) and rhs.left.slice.id == cur and isinstance(rhs.right, ast.Name))
        if not ok or type(c.ops[0]) not in CMPZ:
            T.fail(REL, c, "relaxation test is not `dist[iF2] <cmp> dist[iF] + d`")
        dname = rhs.right.id
        # body: dist[iF2] = dist[iF] + d ; path[iF2] = e
        rb = rx.body
        ok = (len(rb) == 2 and not rx.orelse
              and isinstance(rb[0], ast.Assign) and isinstance(rb[0].targets[0], ast.Subscript)
              and isinstance(rb[0].targets[0].value, ast.Name) and rb[0].targets[0].value.id == "dist"
              and isinstance(rb[0].targets[0].slice, ast.Name) and rb[0].targets[0].slice.id == nb
              and ast.dump(rb[0].value) == ast.dump(rhs)
              and isinstance(rb[1], ast.Assign) and isinstance(rb[1].targets[0], ast.Subscript)
              and isinstance(rb[1].targets[0].value, ast.Name) and rb[1].targets[0].value.id == "path"
              and isinstance(rb[1].targets[0].slice, ast.Name) and rb[1].targets[0].slice.id == nb
              and isinstance(rb[1].value, ast.Name))
        if not ok:
            T.fail(REL, rx, "relaxation does not update dist[iF2] = dist[iF] + d and path[iF2] = e")
        pg = pushes[0]
        if not (isinstance(pg.test.operand.slice, ast.Name) and pg.test.operand.slice.id == nb
                and any(_call_name(x) == "queue.push" for x in pg.body)):
            T.fail(REL, pg, "push guard is not `if not fvisited[iF2]: queue.push(...)`")
        out.append("""(* ---- _build_dual_tree_%s : relax (old = dist[iF2], new = dist[iF] + %s); true = dist and path of iF2 are overwritten *)
Definition relax_dual_%s (old new : Z) : bool := (old %s new).
""" % (suffix, dname, suffix, CMPZ[type(c.ops[0])]))

    text = T.header("C16: index arithmetic, tests and plumbing of SingularityCutter (cutting.py)", parts)
    text += "From Coq Require Import ZArith List Bool.\nImport ListNotations.\nOpen Scope Z_scope.\n\n" + "\n".join(out)
    return {"C16/Gen.v": text}
