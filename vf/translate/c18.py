"""mouette/processing/framefield/{faces2d,vertex2d,base}.py, processing/connection.py, operators/laplacian_op.py
   -> coq/theories/C18/Gen.v

What is extracted (the loops around these expressions are modelled by hand in C18/Model.v and tied by correspondence):
  * connection.py   SurfaceConnectionFaces._initialize: the edge vector, the atan2 arguments (which dot product is the real
                    part), the two mirrored transport entries (angle1 - angle2 / angle2 - angle1), SurfaceConnection.project;
  * faces2d.py      _initialize_variables: edge vector orientation, local coordinates, the representation power in
                    (c/abs(c))**K;  optimize: the sub-matrix selectors, the sign of the right-hand side, the `fixed` rule,
                    the smoothing guard, the final normalisation;  flag_singularities: threshold, sign rule, index scale;
  * vertex2d.py     _initialize_variables: branch condition, powers, thresholds, order of the two updates; optimize: as above;
  * base.py         normalize: comparison, threshold, division by abs;
  * laplacian_op.py laplacian_triangles: the two Nabla entries (with and without connection), the conjugate transpose,
                    the products;  laplacian: the (i, j, weight) pairing, the weights, the four coefficients per edge with
                    their rect(1, order*(...)) angle forms (with and without connection).
Angles are turned into unit complex numbers: a symbol a -> its unit complex number, a - b -> a * conj b, - pi -> * (-1),
rect(1, order * x) -> x ^ order.

Statements are matched on their `ast.unparse` text with named holes for local variables (a renamed local still matches);
anything unexpected raises TranslationError (fail closed: the tie to the source is then broken).
"""
import ast
import re
from fractions import Fraction

from . import common as T
from ..core import TranslationError

CONN = "mouette/processing/connection.py"
FACES = "mouette/processing/framefield/faces2d.py"
VERTS = "mouette/processing/framefield/vertex2d.py"
BASE = "mouette/processing/framefield/base.py"
LAP = "mouette/operators/laplacian_op.py"


# ------------------------------------------------------------------------------------------------ every anchored callable
KNOWN_DECORATORS = {"allowed_mesh_types(SurfaceMesh)", "forbidden_mesh_types(PointCloud)", "abstractmethod", "property"}


def find_fn(tree, qual, rel):
    """T.find_def + the two facts no template below would notice: the callable carries no decorator other than the type checks
    (a memoising / wrapping decorator changes what every call returns) and every default of an optional parameter is None or an
    immutable literal (a mutable default is shared between calls)"""
    fn = T.find_def(tree, qual, rel)
    if isinstance(fn, ast.FunctionDef):
        for d in fn.decorator_list:
            if ast.unparse(d) not in KNOWN_DECORATORS:
                T.fail(rel, fn, "unknown decorator @%s on %s" % (ast.unparse(d), qual))
        for dflt in list(fn.args.defaults) + [x for x in fn.args.kw_defaults if x is not None]:
            ok = isinstance(dflt, ast.Constant) or (isinstance(dflt, ast.UnaryOp) and isinstance(dflt.operand, ast.Constant))
            if not ok:
                T.fail(rel, fn, "default argument `%s` of %s is not None / an immutable literal" % (ast.unparse(dflt), qual))
    return fn


def check_signatures():
    """the public entry points the driver calls that no template parses"""
    for rel, quals in ((FACES, ["_BaseFrameField2DFaces.__init__", "FrameField2DFaces.__init__", "FrameField2DFaces.initialize"]),
                       (VERTS, ["_BaseFrameField2DVertices.__init__", "FrameField2DVertices.__init__", "FrameField2DVertices.initialize"]),
                       (BASE, ["FrameField.__init__", "FrameField._check_init", "FrameField.__getitem__"]),
                       ("mouette/processing/framefield/framefield.py", ["SurfaceFrameField"]),
                       (CONN, ["SurfaceConnection.__init__", "SurfaceConnection.transport", "SurfaceConnection.base",
                               "SurfaceConnectionFaces.__init__", "SurfaceConnectionVertices.__init__", "SurfaceConnectionVertices._initialize"]),
                       (LAP, ["cotan_edge_diagonal"]),
                       ("mouette/optimize/eigensolve.py", ["inverse_power_method"]),
                       ("mouette/utils/maths.py", ["roots", "angle_diff", "principal_angle"])):
        src, tree = T.load(rel)
        for q in quals:
            find_fn(tree, q, rel)


# ------------------------------------------------------------------------------------------------ matching helpers
class Env:
    """pattern matcher over unparsed statements with named holes `{name}` for identifiers"""

    def __init__(self, rel):
        self.rel = rel
        self.b = {}

    def rx(self, pat):
        out, seen = [], set()
        pos = 0
        for m in re.finditer(r"\{(#?\w+)\}", pat):
            out.append(re.escape(pat[pos:m.start()]))
            name = m.group(1)
            if name.startswith("#"):
                out.append(r"(?P<%s>\d+)" % name[1:])
                pos = m.end()
                continue
            if name in self.b:
                out.append(re.escape(self.b[name]))
            elif name in seen:
                out.append("(?P=%s)" % name)
            else:
                seen.add(name)
                out.append(r"(?P<%s>[A-Za-z_]\w*)" % name)
            pos = m.end()
        out.append(re.escape(pat[pos:]))
        return "^" + "".join(out) + "$"

    def match(self, node, pat, what=None):
        txt = ast.unparse(node)
        m = re.match(self.rx(pat), txt)
        if not m:
            T.fail(self.rel, node, "expected `%s`%s, found `%s`" % (pat, " (" + what + ")" if what else "", txt[:120]))
        for k, v in m.groupdict().items():
            self.b[k] = v
        return m

    def try_match(self, node, pat):
        m = re.match(self.rx(pat), ast.unparse(node))
        if m:
            for k, v in m.groupdict().items():
                self.b[k] = v
        return m

    def find(self, stmts, pat, what=None, count=1):
        hits = [s for s in stmts if re.match(self.rx(pat), ast.unparse(s))]
        if len(hits) != count:
            raise TranslationError("%s: expected %d statement(s) `%s`%s, found %d" % (self.rel, count, pat, " (" + what + ")" if what else "", len(hits)))
        for h in hits:
            self.match(h, pat)
        return hits[0] if count == 1 else hits


def stmts(fn):
    return T.body_nodoc(fn)


def the_loop(rel, body, pat_iter, env, what):
    """the unique `for <target> in <iter>` statement of `body` whose unparsed header matches"""
    hits = []
    for s in body:
        if isinstance(s, ast.For) and not s.orelse:
            head = "for %s in %s" % (ast.unparse(s.target), ast.unparse(s.iter))
            if re.match(env.rx(pat_iter), head):
                hits.append(s)
    if len(hits) != 1:
        raise TranslationError("%s: expected exactly one loop `%s` (%s), found %d" % (rel, pat_iter, what, len(hits)))
    s = hits[0]
    m = re.match(env.rx(pat_iter), "for %s in %s" % (ast.unparse(s.target), ast.unparse(s.iter)))
    for k, v in m.groupdict().items():
        env.b[k] = v
    return s


def qlit(fr):
    return "(%d # %d)%%Q" % (fr.numerator, fr.denominator)


def const_fraction(rel, node):
    if isinstance(node, ast.Constant) and isinstance(node.value, (int, float)) and not isinstance(node.value, bool):
        return Fraction(repr(node.value)) if isinstance(node.value, float) else Fraction(node.value)
    if isinstance(node, ast.UnaryOp) and isinstance(node.op, ast.USub):
        return -const_fraction(rel, node.operand)
    T.fail(rel, node, "expected a numeric literal")


# ------------------------------------------------------------------------------------------------ angle forms
def linear_form(rel, node, syms):
    """integer linear form over the angle symbols `syms` (python name -> model symbol) and pi"""
    if isinstance(node, ast.Name) and node.id in syms:
        return {syms[node.id]: 1}
    d = T.dotted(node)
    if d in ("math.pi", "np.pi", "pi"):
        return {"PI": 1}
    if isinstance(node, ast.UnaryOp) and isinstance(node.op, ast.USub):
        return {k: -v for k, v in linear_form(rel, node.operand, syms).items()}
    if isinstance(node, ast.BinOp) and isinstance(node.op, (ast.Add, ast.Sub)):
        a = linear_form(rel, node.left, syms)
        b = linear_form(rel, node.right, syms)
        sg = 1 if isinstance(node.op, ast.Add) else -1
        out = dict(a)
        for k, v in b.items():
            out[k] = out.get(k, 0) + sg * v
        return out
    if isinstance(node, ast.Call):
        txt = ast.unparse(node)
        if txt in syms:
            return {syms[txt]: 1}
    T.fail(rel, node, "unsupported angle expression (expected +/- combination of %s and pi)" % sorted(syms))


def unit_of_form(form):
    """e^{i form} as a Gallina complex expression over the unit complex numbers of the symbols"""
    factors = []
    for k in sorted(form):
        c = form[k]
        if c == 0:
            continue
        if k == "PI":
            if c % 2:
                factors.append("(cneg OPS_ (c1 OPS_))")
            continue
        base = k if c > 0 else "(cconj OPS_ %s)" % k
        factors.append(base if abs(c) == 1 else "(cpow OPS_ %s %d)" % (base, abs(c)))
    # keep a canonical order: positive symbols, conjugated symbols, then -1
    pos = [f for f in factors if not f.startswith("(cconj") and not f.startswith("(cneg")]
    neg = [f for f in factors if f.startswith("(cconj")]
    m1 = [f for f in factors if f.startswith("(cneg")]
    fs = pos + neg + m1
    if not fs:
        return "(c1 OPS_)"
    out = fs[0]
    for f in fs[1:]:
        out = "(cmul OPS_ %s %s)" % (out, f)
    return out


def rect_expr(rel, node, syms, order_names=("order",)):
    """cmath.rect(1, order * <form>)  ->  cpow <unit of form> order"""
    if not (isinstance(node, ast.Call) and T.dotted(node.func) == "cmath.rect" and len(node.args) == 2 and not node.keywords):
        T.fail(rel, node, "expected cmath.rect(1, order * angle)")
    if const_fraction(rel, node.args[0]) != 1:
        T.fail(rel, node, "modulus of cmath.rect is not 1")
    a = node.args[1]
    if not (isinstance(a, ast.BinOp) and isinstance(a.op, ast.Mult)):
        T.fail(rel, a, "expected order * angle")
    if T.dotted(a.left) in order_names:
        form = linear_form(rel, a.right, syms)
    elif T.dotted(a.right) in order_names:
        form = linear_form(rel, a.left, syms)
    else:
        T.fail(rel, a, "expected order * angle")
    return "(cpow OPS_ %s order)" % unit_of_form(form)


# ------------------------------------------------------------------------------------------------ connection.py
def gen_connection(parts):
    src, tree = T.load(CONN)
    fn = find_fn(tree, "SurfaceConnectionFaces._initialize", CONN)
    parts.append(("connection.SurfaceConnectionFaces._initialize", T.sha(src, fn)))
    env = Env(CONN)
    body = stmts(fn)
    loop = the_loop(CONN, body, "for {e} in self.mesh.interior_edges", env, "transport loop")
    lb = loop.body
    env.find(lb, "{A}, {B} = self.mesh.edges[{e}]")
    env.find(lb, "{pA}, {pB} = (self.mesh.vertices[{A}], self.mesh.vertices[{B}])")
    m = env.find(lb, "{E} = geom.Vec({x} - {y})")
    b = env.b
    if (b["x"], b["y"]) == (b["pB"], b["pA"]):
        edge_vec = "vsub OPS_ pB pA"
    elif (b["x"], b["y"]) == (b["pA"], b["pB"]):
        edge_vec = "vsub OPS_ pA pB"
    else:
        T.fail(CONN, m, "edge vector is not a difference of the two end points")
    env.find(lb, "{T1}, {T2} = self.mesh.connectivity.edge_to_faces({A}, {B})")
    env.find(lb, "{X1}, {Y1} = (self._baseX[{T1}], self._baseY[{T1}])")
    env.find(lb, "{X2}, {Y2} = (self._baseX[{T2}], self._baseY[{T2}])")
    dirs = {}
    rx_at = re.compile(r"^(\w+) = math\.atan2\(geom\.dot\((\w+), (\w+)\), geom\.dot\((\w+), (\w+)\)\)$")
    ats = [s_ for s_ in lb if rx_at.match(ast.unparse(s_))]
    if len(ats) != 2:
        raise TranslationError(CONN + ": expected two `angle = math.atan2(geom.dot(..), geom.dot(..))` statements, found %d" % len(ats))
    for st in ats:
        g = rx_at.match(ast.unparse(st)).groups()

        def which(u, v):
            names = {u, v}
            if b["E"] not in names or len(names) != 2:
                T.fail(CONN, st, "atan2 argument is not a dot product with the edge vector")
            other = (names - {b["E"]}).pop()
            for k in ("1", "2"):
                if other == b["X" + k]:
                    return "X", k
                if other == b["Y" + k]:
                    return "Y", k
            T.fail(CONN, st, "atan2 argument does not use a face basis")
        (im, k1), (re_, k2) = which(g[1], g[2]), which(g[3], g[4])
        if k1 != k2 or k1 in dirs:
            T.fail(CONN, st, "atan2 mixes the bases of the two faces")
        dirs[k1] = "(vdot OPS_ E %s, vdot OPS_ E %s)" % (re_, im)
        b["angle" + k1] = g[0]
    dirs = [dirs["1"], dirs["2"]]
    if dirs[0] != dirs[1]:
        raise TranslationError(CONN + ": angle1 and angle2 are not computed by the same formula")
    syms = {b["angle1"]: "w1", b["angle2"]: "w2"}
    outs = {}
    for key, name in ((("T1", "T2"), "conn_t12"), (("T2", "T1"), "conn_t21")):
        hit = None
        for s in lb:
            if isinstance(s, ast.Assign) and len(s.targets) == 1 and \
                    ast.unparse(s.targets[0]) == "self._transport[%s, %s]" % (b[key[0]], b[key[1]]):
                if hit is not None:
                    T.fail(CONN, s, "transport entry written twice")
                hit = s
        if hit is None:
            raise TranslationError("%s: no assignment to self._transport[(%s, %s)]" % (CONN, key[0], key[1]))
        outs[name] = unit_of_form(linear_form(CONN, hit.value, syms))
    pj = find_fn(tree, "SurfaceConnection.project", CONN)
    parts.append(("connection.SurfaceConnection.project", T.sha(src, pj)))
    e2 = Env(CONN)
    pb = stmts(pj)
    if len(pb) != 1:
        T.fail(CONN, pj, "project is not a single return")
    a0, a1, a2 = [a.arg for a in pj.args.args]
    e2.b.update({"V": a1, "i": a2})
    e2.match(pb[0], "return Vec(self._baseX[{i}].dot({V}), self._baseY[{i}].dot({V}))")
    txt = ["(* ---- connection.py: SurfaceConnectionFaces._initialize, SurfaceConnection.project *)",
           "Definition conn_edge_vec (pA pB : vec) : vec := %s." % edge_vec,
           "Definition conn_dir (E X Y : vec) : cx := %s." % dirs[0],
           "Definition conn_t12 (w1 w2 : cx) : cx := %s." % outs["conn_t12"],
           "Definition conn_t21 (w1 w2 : cx) : cx := %s." % outs["conn_t21"],
           "Definition conn_project (X Y V : vec) : cx := (vdot OPS_ X V, vdot OPS_ Y V)."]
    return "\n".join(txt)


# ------------------------------------------------------------------------------------------------ power expressions
def unit_power(rel, node, cname, order_txt="self.order"):
    """(c / abs(c)) ** K  ->  the exponent as a Gallina nat expression in `order`"""
    if not (isinstance(node, ast.BinOp) and isinstance(node.op, ast.Pow)):
        T.fail(rel, node, "expected (c / abs(c)) ** k")
    if ast.unparse(node.left) != "%s / abs(%s)" % (cname, cname):
        T.fail(rel, node.left, "the base of the power is not %s / abs(%s)" % (cname, cname))
    return exponent(rel, node.right, order_txt)


def exponent(rel, node, order_txt="self.order"):
    if ast.unparse(node) == order_txt:
        return "order"
    if isinstance(node, ast.Constant) and isinstance(node.value, int) and not isinstance(node.value, bool) and node.value >= 0:
        return "%d%%nat" % node.value
    T.fail(rel, node, "unsupported exponent (expected a natural literal or %s)" % order_txt)


# ------------------------------------------------------------------------------------------------ faces2d.py
def cmp_guard(rel, node, lhs_txt, opsname="OPS_"):
    """`<lhs> > c` / `<lhs> >= c` / .. on a numeric lhs -> (threshold Fraction, gallina bool in `a`)"""
    if not (isinstance(node, ast.Compare) and len(node.ops) == 1 and ast.unparse(node.left) == lhs_txt):
        T.fail(rel, node, "expected a comparison of %s with a constant" % lhs_txt)
    thr = node.comparators[0]
    op = type(node.ops[0])
    return thr, op


def guard_text(op, thr_q, arg):
    t = "(oofQ OPS_ %s)" % thr_q
    if op is ast.Gt:
        return "oltb OPS_ %s %s" % (t, arg)
    if op is ast.GtE:
        return "negb (oltb OPS_ %s %s)" % (arg, t)
    if op is ast.Lt:
        return "oltb OPS_ %s %s" % (arg, t)
    if op is ast.LtE:
        return "negb (oltb OPS_ %s %s)" % (t, arg)
    raise TranslationError("unsupported comparison operator %s" % op.__name__)


def int_guard(rel, node, lhs_txt, var):
    if not (isinstance(node, ast.Compare) and len(node.ops) == 1 and ast.unparse(node.left) == lhs_txt
            and isinstance(node.comparators[0], ast.Constant) and isinstance(node.comparators[0].value, int)):
        T.fail(rel, node, "expected %s <cmp> <int>" % lhs_txt)
    k = node.comparators[0].value
    op = type(node.ops[0])
    tab = {ast.Gt: "%d <? %s", ast.GtE: "%d <=? %s", ast.NotEq: "negb (%d =? %s)"}
    if op not in tab:
        T.fail(rel, node, "unsupported comparison")
    return tab[op] % (k, var)


def gen_optimize(rel, tree, src, qual, prefix, parts, faces):
    fn = find_fn(tree, qual, rel)
    parts.append((qual, T.sha(src, fn)))
    body = stmts(fn)
    br = [s for s in body if isinstance(s, ast.If) and ast.unparse(s.test) == "len(self.feat.feature_vertices) > 0"]
    if len(br) != 1 or not br[0].orelse:
        raise TranslationError("%s: %s has no `if len(self.feat.feature_vertices) > 0: .. else: ..`" % (rel, qual))
    bb = br[0].body
    env = Env(rel)
    out = []
    if faces:
        loop = the_loop(rel, bb, "for {ie} in self.feat.feature_edges", env, "fixed rule")
        lb = loop.body
        env.find(lb, "{u}, {v} = self.mesh.edges[{ie}]")
        env.find(lb, "{T1}, {T2} = self.mesh.connectivity.edge_to_faces({u}, {v})")
        flags = {}
        for s in lb:
            for k in ("T1", "T2"):
                if isinstance(s, ast.If) and not s.orelse and ast.unparse(s.test) == "%s is not None" % env.b[k] \
                        and len(s.body) == 1 and re.match(r"^(\w+)\[%s\] = True$" % env.b[k], ast.unparse(s.body[0])):
                    flags[k] = re.match(r"^(\w+)\[", ast.unparse(s.body[0])).group(1)
        if len(lb) != 2 + len(flags):
            T.fail(rel, loop, "unexpected statement in the loop that flags the fixed faces")
        if len(set(flags.values())) > 1:
            T.fail(rel, loop, "the two faces are flagged in different attributes")
        fixed_attr = (list(flags.values()) or ["fixed"])[0]
        out.append("Definition optf_fix_direct : bool := %s." % ("true" if "T1" in flags else "false"))
        out.append("Definition optf_fix_indirect : bool := %s." % ("true" if "T2" in flags else "false"))
        env.b["fixed"] = fixed_attr
        ploop = the_loop(rel, bb, "for {T} in self.mesh.id_faces", env, "partition")
        if len(ploop.body) != 1:
            T.fail(rel, ploop, "unexpected partition loop")
        env.match(ploop.body[0], "if {fixed}[{T}]:\n    {fixedInds}.append({T})\nelse:\n    {freeInds}.append({T})")
        er = [s for s in bb if isinstance(s, ast.If) and ast.unparse(s.test) == "len(%s) == 0" % env.b["freeInds"]]
        if len(er) != 1 or not isinstance(er[0].body[-1], ast.Return) or er[0].body[-1].value is not None:
            raise TranslationError("%s: the early return for an empty free set is missing" % rel)
    else:
        ploop = the_loop(rel, bb, "for {v} in self.mesh.id_vertices", env, "partition")
        if len(ploop.body) != 1:
            T.fail(rel, ploop, "unexpected partition loop")
        env.match(ploop.body[0], "if {v} in self.feat.feature_vertices:\n    {fixedInds}.append({v})\nelse:\n    {freeInds}.append({v})")
    env.find(bb, "{lapI} = lap[{freeInds}, :][:, {freeInds}]", "rows and columns of the free block")
    env.find(bb, "{lapB} = lap[{freeInds}, :][:, {fixedInds}]", "free rows, fixed columns")
    env.find(bb, "{valB} = {lapB}.dot(self.var[{fixedInds}])")
    hits = [s for s in bb if isinstance(s, ast.Assign) and isinstance(s.value, ast.Call)
            and T.dotted(s.value.func) == "linalg.spsolve"]
    if len(hits) != 1 or len(hits[0].value.args) != 2 or ast.unparse(hits[0].value.args[0]) != env.b["lapI"]:
        raise TranslationError("%s: the first solve is not `res = linalg.spsolve(lapI, ..)`" % rel)
    rhs = hits[0].value.args[1]
    if ast.unparse(rhs) == "-" + env.b["valB"]:
        out.append("Definition %s_rhs (valB : cx) : cx := cneg OPS_ valB." % prefix)
    elif ast.unparse(rhs) == env.b["valB"]:
        out.append("Definition %s_rhs (valB : cx) : cx := let _ := OPS_ in valB." % prefix)
    else:
        T.fail(rel, rhs, "unsupported right-hand side of the first solve")
    env.b["res"] = ast.unparse(hits[0].targets[0])
    i_solve = bb.index(hits[0])
    if i_solve + 1 >= len(bb) or ast.unparse(bb[i_solve + 1]) != "self.var[%s] = %s" % (env.b["freeInds"], env.b["res"]):
        raise TranslationError("%s: the solution is not stored with self.var[freeInds] = res" % rel)
    sm = [s for s in bb if isinstance(s, ast.If) and ast.unparse(s.test).startswith("self.n_smooth")]
    if len(sm) != 1 or sm[0].orelse:
        raise TranslationError("%s: smoothing guard not found" % rel)
    out.append("Definition %s_smooth_guard (n_smooth : Z) : bool := %s." % (prefix, int_guard(rel, sm[0].test, "self.n_smooth", "n_smooth")))
    loops = [s for s in sm[0].body if isinstance(s, ast.For)]
    if len(loops) != 1 or ast.unparse(loops[0].iter) != "range(self.n_smooth)" or \
            ast.unparse(loops[0].body[0]) != "self.normalize()":
        raise TranslationError("%s: the smoothing loop does not start with self.normalize()" % rel)
    if bb.index(sm[0]) < i_solve or ast.unparse(bb[-1]) != "self.normalize()" or bb[-2] is not sm[0]:
        raise TranslationError("%s: the bordered branch does not end with the smoothing block followed by self.normalize()" % rel)
    return out


def attr_reset(rel, body, container, what):
    """`if self.mesh.<container>.has_attribute(name): x = ...get_attribute(name) [; x.clear()] else: x = ...create_attribute(..)`
    for the singularity attribute -> does flag_singularities reset an attribute that already exists?"""
    hits = [s_ for s_ in body if isinstance(s_, ast.If)
            and ast.unparse(s_.test) == "self.mesh.%s.has_attribute(singul_attr_name)" % container]
    if len(hits) != 1 or len(hits[0].orelse) != 1:
        raise TranslationError("%s: %s: the get-or-create of the singularity attribute was not found" % (rel, what))
    st = hits[0]
    m = re.match(r"^(\w+) = self\.mesh\.%s\.get_attribute\(singul_attr_name\)$" % container, ast.unparse(st.body[0]))
    if not m:
        T.fail(rel, st, "unexpected fetch of the singularity attribute")
    name = m.group(1)
    if not ast.unparse(st.orelse[0]).startswith("%s = self.mesh.%s.create_attribute(singul_attr_name" % (name, container)):
        T.fail(rel, st, "unexpected creation of the singularity attribute")
    rest = [ast.unparse(x) for x in st.body[1:]]
    if rest == ["%s.clear()" % name]:
        return True
    if rest == []:
        return False
    T.fail(rel, st, "unexpected statement next to the fetch of the singularity attribute")


def gen_faces(parts):
    src, tree = T.load(FACES)
    out = []
    # ---- _initialize_variables
    fn = find_fn(tree, "_BaseFrameField2DFaces._initialize_variables", FACES)
    parts.append(("faces2d._BaseFrameField2DFaces._initialize_variables", T.sha(src, fn)))
    env = Env(FACES)
    body = stmts(fn)
    env.find(body, "self.var = np.zeros(len(self.mesh.faces), dtype=complex)")
    loop = the_loop(FACES, body, "for {e} in self.feat.feature_edges", env, "constraint loop")
    if len(body) != 2:
        T.fail(FACES, fn, "unexpected statement in _initialize_variables")
    lb = loop.body
    if len(lb) != 3:
        T.fail(FACES, loop, "unexpected statement in the constraint loop")
    env.match(lb[0], "{e1}, {e2} = self.mesh.edges[{e}]")
    m = env.match(lb[1], "{edge} = self.mesh.vertices[{x}] - self.mesh.vertices[{y}]")
    b = env.b
    if (b["x"], b["y"]) == (b["e2"], b["e1"]):
        ev = "vsub OPS_ p2 p1"
    elif (b["x"], b["y"]) == (b["e1"], b["e2"]):
        ev = "vsub OPS_ p1 p2"
    else:
        T.fail(FACES, lb[1], "edge vector is not the difference of the two end points")
    inner = lb[2]
    if not (isinstance(inner, ast.For) and ast.unparse(inner.iter) == "self.mesh.connectivity.edge_to_faces(%s, %s)" % (b["e1"], b["e2"])
            and isinstance(inner.target, ast.Name)):
        T.fail(FACES, inner, "expected `for T in self.mesh.connectivity.edge_to_faces(e1, e2)`")
    b["T"] = inner.target.id
    ib = inner.body
    if len(ib) != 4:
        T.fail(FACES, inner, "unexpected statement in the per-face constraint")
    env.match(ib[0], "if {T} is None:\n    continue")
    env.match(ib[1], "{X}, {Y} = self.conn.base({T})")
    st = ib[2]
    env.match(st, "{c} = complex({edge}.dot({bx}), {edge}.dot({by}))")
    if (b["bx"], b["by"]) == (b["X"], b["Y"]):
        loc = "(vdot OPS_ edge X, vdot OPS_ edge Y)"
    elif (b["bx"], b["by"]) == (b["Y"], b["X"]):
        loc = "(vdot OPS_ edge Y, vdot OPS_ edge X)"
    else:
        T.fail(FACES, st, "local coordinates are not (edge.X, edge.Y)")
    st = ib[3]
    if not (isinstance(st, ast.Assign) and ast.unparse(st.targets[0]) == "self.var[%s]" % b["T"]):
        T.fail(FACES, st, "expected self.var[T] = (c/abs(c))**k")
    power = unit_power(FACES, st.value, b["c"])
    out += ["(* ---- faces2d.py: _BaseFrameField2DFaces._initialize_variables *)",
            "Definition cstrf_edge_vec (p1 p2 : vec) : vec := %s." % ev,
            "Definition cstrf_local (edge X Y : vec) : cx := %s." % loc,
            "Definition cstrf_power (order : nat) : nat := %s." % power,
            "Definition cstrf_value (order : nat) (c : cx) : cx := cpow OPS_ (cdivr OPS_ c (cabs OPS_ c)) (cstrf_power order)."]
    # ---- optimize
    out.append("(* ---- faces2d.py: FrameField2DFaces.optimize (bordered branch) *)")
    out += gen_optimize(FACES, tree, src, "FrameField2DFaces.optimize", "optf", parts, True)
    # ---- flag_singularities
    fn = find_fn(tree, "_BaseFrameField2DFaces.flag_singularities", FACES)
    parts.append(("faces2d._BaseFrameField2DFaces.flag_singularities", T.sha(src, fn)))
    env = Env(FACES)
    body = stmts(fn)
    zt = [s for s in body if isinstance(s, ast.Assign) and ast.unparse(s.targets[0]) == "ZERO_THRESHOLD"]
    if len(zt) != 1:
        raise TranslationError(FACES + ": ZERO_THRESHOLD not found in flag_singularities")
    thr = const_fraction(FACES, zt[0].value)
    loop = the_loop(FACES, body, "for {v} in self.mesh.id_vertices", env, "index loop")
    lb = loop.body
    if len(lb) != 3:
        T.fail(FACES, loop, "unexpected statement in the index loop")
    env.match(lb[0], "{angle} = self.defect[{v}]")
    il = lb[1]
    if not (isinstance(il, ast.For) and ast.unparse(il.iter) == "self.mesh.connectivity.vertex_to_edges(%s)" % env.b["v"]
            and isinstance(il.target, ast.Name) and len(il.body) == 2):
        T.fail(FACES, il, "expected the loop over vertex_to_edges(v)")
    env.b["e"] = il.target.id
    env.match(il.body[0], "{u} = self.mesh.connectivity.other_edge_end({e}, {v})")
    st = il.body[1]
    if not (isinstance(st, ast.AugAssign) and isinstance(st.op, ast.Add) and ast.unparse(st.target) == env.b["angle"]
            and isinstance(st.value, ast.IfExp)):
        T.fail(FACES, st, "expected angle += rot if .. else -rot")
    ie = st.value
    pos_t, neg_t = ast.unparse(ie.body), ast.unparse(ie.orelse)
    m1 = re.match(r"^(\w+)\[%s\]$" % env.b["e"], pos_t)
    if not m1:
        T.fail(FACES, st, "unsupported rotation term")
    if neg_t == "-" + pos_t:
        flip = False
    else:
        T.fail(FACES, st, "the two branches are not rot / -rot")
    cond = ie.test
    if not (isinstance(cond, ast.Compare) and len(cond.ops) == 1 and isinstance(cond.ops[0], (ast.Lt, ast.Gt))):
        T.fail(FACES, cond, "unsupported sign rule")
    l, r = ast.unparse(cond.left), ast.unparse(cond.comparators[0])
    if isinstance(cond.ops[0], ast.Gt):
        l, r = r, l
    if {l, r} != {env.b["u"], env.b["v"]}:
        T.fail(FACES, cond, "the sign rule does not compare the two end points")
    sign = "u <? v" if l == env.b["u"] else "v <? u"
    fl = lb[2]
    if not (isinstance(fl, ast.If) and not fl.orelse and len(fl.body) == 1):
        T.fail(FACES, fl, "expected `if abs(angle) > ZERO_THRESHOLD: singuls[v] = ..`")
    tnode, op = cmp_guard(FACES, fl.test, "abs(%s)" % env.b["angle"])
    if ast.unparse(tnode) != "ZERO_THRESHOLD":
        T.fail(FACES, fl.test, "threshold is not ZERO_THRESHOLD")
    asg = fl.body[0]
    if not (isinstance(asg, ast.Assign) and re.match(r"^\w+\[%s\]$" % env.b["v"], ast.unparse(asg.targets[0]))):
        T.fail(FACES, asg, "expected singuls[v] = ..")

    def texpr(n):
        if isinstance(n, ast.Name) and n.id == env.b["angle"]:
            return "angle"
        if T.dotted(n) in ("pi", "math.pi", "np.pi"):
            return "(opi OPS_)"
        if isinstance(n, ast.Constant) and isinstance(n.value, int) and not isinstance(n.value, bool):
            return "(oofZ OPS_ %d)" % n.value
        if isinstance(n, ast.BinOp) and type(n.op) in (ast.Mult, ast.Div):
            return "(%s OPS_ %s %s)" % ("omul" if isinstance(n.op, ast.Mult) else "odiv", texpr(n.left), texpr(n.right))
        T.fail(FACES, n, "unsupported index expression")
    resets = attr_reset(FACES, body, "vertices", "faces2d.flag_singularities")
    out += ["(* ---- faces2d.py: _BaseFrameField2DFaces.flag_singularities *)",
            "Definition sing_resets_faces : bool := %s." % ("true" if resets else "false"),
            "Definition sing_thr : Q := %s." % qlit(thr),
            "Definition sing_sign (u v : Z) : bool := %s." % sign,
            "Definition sing_flag (angle : T) : bool := %s." % guard_text(op, "sing_thr", "(oabs OPS_ angle)"),
            "Definition sing_value (angle : T) : T := %s." % texpr(asg.value)]
    return "\n".join(out)


# ------------------------------------------------------------------------------------------------ vertex2d.py
def gen_vertices(parts):
    src, tree = T.load(VERTS)
    fn = find_fn(tree, "_BaseFrameField2DVertices._initialize_variables", VERTS)
    parts.append(("vertex2d._BaseFrameField2DVertices._initialize_variables", T.sha(src, fn)))
    body = stmts(fn)
    if len(body) != 2 or not isinstance(body[0], ast.If) or not body[0].orelse or not isinstance(body[1], ast.For):
        T.fail(VERTS, fn, "unexpected shape of _initialize_variables")
    cond = body[0].test
    if not (isinstance(cond, ast.BoolOp) and isinstance(cond.op, ast.And) and len(cond.values) == 2
            and ast.unparse(cond.values[0]) == "self.smooth_normals"):
        T.fail(VERTS, cond, "unexpected branch condition")
    par = cond.values[1]
    m = re.match(r"^self\.order % 2 (!=|==) ([01])$", ast.unparse(par))
    if not m:
        T.fail(VERTS, par, "unexpected parity test")
    ptxt = "(order mod 2 =? %s)" % m.group(2)
    if m.group(1) == "!=":
        ptxt = "negb " + ptxt
    env = Env(VERTS)
    loop = body[0].body
    if len(loop) != 1 or not isinstance(loop[0], ast.For) or ast.unparse(loop[0].iter) != "self.feat.feature_edges":
        T.fail(VERTS, body[0], "expected a loop over the feature edges")
    env.b["e"] = ast.unparse(loop[0].target)
    lb = loop[0].body
    if len(lb) != 10:
        T.fail(VERTS, loop[0], "unexpected number of statements in the smooth-normals branch")
    env.match(lb[0], "{A}, {B} = self.mesh.edges[{e}]")
    st = lb[1]
    env.match(st, "{edge} = self.mesh.vertices[{x}] - self.mesh.vertices[{y}]")
    b = env.b
    if (b["x"], b["y"]) == (b["B"], b["A"]):
        ev = "vsub OPS_ pB pA"
    elif (b["x"], b["y"]) == (b["A"], b["B"]):
        ev = "vsub OPS_ pA pB"
    else:
        T.fail(VERTS, st, "edge vector is not the difference of the two end points")
    powers, thrs, ops_ = [], [], []
    for k, who in ((2, "B"), (6, "A")):
        e2 = Env(VERTS)
        e2.b.update({"edge": b["edge"], "W": b[who]})
        e2.match(lb[k], "{vx}, {vy} = self.conn.project({edge}, {W})", "first B then A")
        e2.match(lb[k + 1], "{v} = complex({vx}, {vy})")
        st = lb[k + 2]
        if not (isinstance(st, ast.Assign) and isinstance(st.targets[0], ast.Name)):
            T.fail(VERTS, st, "expected vpow = (v/abs(v)) ** order")
        e2.b["vpow"] = st.targets[0].id
        powers.append(unit_power(VERTS, st.value, e2.b["v"]))
        st = lb[k + 3]
        if not (isinstance(st, ast.If) and not st.orelse and len(st.body) == 1
                and ast.unparse(st.body[0]) == "self.var[%s] += %s" % (b[who], e2.b["vpow"])):
            T.fail(VERTS, st, "expected `if abs(self.var[W] + vpow) > thr: self.var[W] += vpow`")
        tn, op = cmp_guard(VERTS, st.test, "abs(self.var[%s] + %s)" % (b[who], e2.b["vpow"]))
        thrs.append(const_fraction(VERTS, tn))
        ops_.append(op)
    # else branch
    eb = body[0].orelse
    if len(eb) != 1 or not isinstance(eb[0], ast.For) or ast.unparse(eb[0].iter) != "self.feat.feature_edges":
        T.fail(VERTS, body[0], "expected a loop over the feature edges in the else branch")
    e3 = Env(VERTS)
    e3.b["e"] = ast.unparse(eb[0].target)
    l3 = eb[0].body
    if len(l3) != 3:
        T.fail(VERTS, eb[0], "unexpected statements in the else branch")
    e3.match(l3[0], "{A}, {B} = self.mesh.edges[{e}]")
    for st, (p, q) in ((l3[1], ("A", "B")), (l3[2], ("B", "A"))):
        if not (isinstance(st, ast.AugAssign) and isinstance(st.op, ast.Add)
                and ast.unparse(st.target) == "self.var[%s]" % e3.b[p]
                and isinstance(st.value, ast.BinOp) and isinstance(st.value.op, ast.Pow)
                and ast.unparse(st.value.left) == "cmath.rect(1, self.conn.transport(%s, %s))" % (e3.b[p], e3.b[q])):
            T.fail(VERTS, st, "expected self.var[%s] += cmath.rect(1, self.conn.transport(%s, %s)) ** order" % (p, p, q))
        powers.append(exponent(VERTS, st.value.right))
    if len(set(powers)) != 1:
        raise TranslationError(VERTS + ": the representation powers of _initialize_variables differ: %s" % powers)
    if len(set(thrs)) != 1 or len(set(ops_)) != 1:
        raise TranslationError(VERTS + ": the two accumulation guards differ")
    # final normalisation
    fl = body[1]
    e4 = Env(VERTS)
    e4.b["A"] = ast.unparse(fl.target)
    if ast.unparse(fl.iter) != "self.feat.feature_vertices" or len(fl.body) != 1:
        T.fail(VERTS, fl, "expected the normalisation loop over the feature vertices")
    st = fl.body[0]
    if not (isinstance(st, ast.If) and not st.orelse and len(st.body) == 1
            and ast.unparse(st.body[0]) == "self.var[%s] /= abs(self.var[%s])" % (e4.b["A"], e4.b["A"])):
        T.fail(VERTS, st, "expected `if abs(self.var[A]) > thr: self.var[A] /= abs(self.var[A])`")
    tn, nop = cmp_guard(VERTS, st.test, "abs(self.var[%s])" % e4.b["A"])
    nthr = const_fraction(VERTS, tn)
    out = ["(* ---- vertex2d.py: _BaseFrameField2DVertices._initialize_variables *)",
           "Definition cstrv_smooth_branch (smooth_normals : bool) (order : Z) : bool := smooth_normals && %s." % ptxt,
           "Definition cstrv_edge_vec (pA pB : vec) : vec := %s." % ev,
           "Definition cstrv_power (order : nat) : nat := %s." % powers[0],
           "Definition cstrv_add_thr : Q := %s." % qlit(thrs[0]),
           "Definition cstrv_add_guard (a : T) : bool := %s." % guard_text(ops_[0], "cstrv_add_thr", "a"),
           "Definition cstrv_norm_thr : Q := %s." % qlit(nthr),
           "Definition cstrv_norm_guard (a : T) : bool := %s." % guard_text(nop, "cstrv_norm_thr", "a"),
           "(* ---- vertex2d.py: FrameField2DVertices.optimize (bordered branch) *)"]
    out += gen_optimize(VERTS, tree, src, "FrameField2DVertices.optimize", "optv", parts, False)
    fs = find_fn(tree, "_BaseFrameField2DVertices.flag_singularities", VERTS)
    parts.append(("vertex2d._BaseFrameField2DVertices.flag_singularities", T.sha(src, fs)))
    rv = attr_reset(VERTS, stmts(fs), "faces", "vertex2d.flag_singularities")
    out += ["(* ---- vertex2d.py: _BaseFrameField2DVertices.flag_singularities *)",
            "Definition sing_resets_vertices : bool := %s." % ("true" if rv else "false")]
    return "\n".join(out)


# ------------------------------------------------------------------------------------------------ base.py
def stage_expr(rel, stmts_, st="st"):
    """the statements of FrameField.run() as a state transformer on (initialized, smoothed, executed stages)"""
    if not stmts_:
        return st
    x, rest = stmts_[0], stmts_[1:]
    txt = ast.unparse(x)
    if re.match(r"^self\.log\(.*\)$", txt, re.S):
        return stage_expr(rel, rest, st)
    if txt == "self.initialize()":
        cur = "(st_push SInit %s)" % st
    elif txt == "self.optimize()":
        cur = "(st_push SOpt %s)" % st
    elif txt in ("self.initialized = True", "self.initialized = False"):
        cur = "(st_seti %s %s)" % (txt.endswith("True") and "true" or "false", st)
    elif txt in ("self.smoothed = True", "self.smoothed = False"):
        cur = "(st_sets %s %s)" % (txt.endswith("True") and "true" or "false", st)
    elif isinstance(x, ast.If) and not x.orelse and ast.unparse(x.test) in ("not self.initialized", "not self.smoothed", "self.initialized", "self.smoothed"):
        t = ast.unparse(x.test)
        cond = {"not self.initialized": "negb (st_i %s)", "not self.smoothed": "negb (st_s %s)",
                "self.initialized": "st_i %s", "self.smoothed": "st_s %s"}[t] % st
        cur = "(if %s then %s else %s)" % (cond, stage_expr(rel, x.body, st), st)
    else:
        T.fail(rel, x, "unsupported statement in FrameField.run")
    if not rest:
        return cur
    return "(let st := %s in %s)" % (cur, stage_expr(rel, rest, "st"))


def sets_flag(rel, tree, qual, flag):
    fn = find_fn(tree, qual, rel)
    return any(ast.unparse(x) == "self.%s = True" % flag for x in stmts(fn))


ATTR_FUNCS = ("cotangent", "angle_defects", "corner_angles", "vertex_normals", "attributes.cotangent", "attributes.angle_defects",
              "attributes.corner_angles", "attributes.vertex_normals", "face_normals", "attributes.face_normals", "face_area",
              "attributes.face_area", "mean_edge_length", "attributes.parallel_transport_curvature")


def cached_calls(rel, tree, src, qual, parts):
    """the attribute computations of `_initialize_attributes` that are stored on the mesh (persistent is not False)"""
    fn = find_fn(tree, qual, rel)
    parts.append((qual, T.sha(src, fn)))
    out = []
    for node in ast.walk(fn):
        if isinstance(node, ast.Call) and T.dotted(node.func) in ATTR_FUNCS:
            kw = {k.arg: k.value for k in node.keywords}
            pers = kw.get("persistent")
            if pers is None:
                cached = True
            elif isinstance(pers, ast.Constant) and isinstance(pers.value, bool):
                cached = pers.value
            else:
                T.fail(rel, node, "persistent= is not a literal")
            if cached:
                out.append(T.dotted(node.func).split(".")[-1])
        elif isinstance(node, ast.Call) and (T.dotted(node.func) or "").endswith("create_attribute"):
            out.append("create_attribute:" + ast.unparse(node.args[0]) if node.args else "create_attribute")
    return out


def gen_base(parts):
    src, tree = T.load(BASE)
    rn = find_fn(tree, "FrameField.run", BASE)
    parts.append(("base.FrameField.run", T.sha(src, rn)))
    if [a.arg for a in rn.args.args] != ["self"]:
        T.fail(BASE, rn, "unexpected signature of run")
    run_txt = stage_expr(BASE, stmts(rn))
    wsrc, wtree = T.load("mouette/processing/worker.py")
    cl = find_fn(wtree, "Worker.__call__", "mouette/processing/worker.py")
    if [ast.unparse(x) for x in stmts(cl)] != ["self.run(*args, **kwargs)", "return self"]:
        T.fail("mouette/processing/worker.py", cl, "__call__ is not `self.run(*args, **kwargs); return self`")
    parts.append(("worker.Worker.__call__", T.sha(wsrc, cl)))
    fsrc, ftree = T.load(FACES)
    vsrc, vtree = T.load(VERTS)
    flags = {
        "initf_sets_initialized": sets_flag(FACES, ftree, "FrameField2DFaces.initialize", "initialized"),
        "initv_sets_initialized": sets_flag(VERTS, vtree, "FrameField2DVertices.initialize", "initialized"),
        "optf_sets_smoothed": sets_flag(FACES, ftree, "FrameField2DFaces.optimize", "smoothed"),
        "optv_sets_smoothed": sets_flag(VERTS, vtree, "FrameField2DVertices.optimize", "smoothed"),
    }
    cf = cached_calls(FACES, ftree, fsrc, "_BaseFrameField2DFaces._initialize_attributes", parts)
    cv = cached_calls(VERTS, vtree, vsrc, "_BaseFrameField2DVertices._initialize_attributes", parts)

    def slist(l):
        return "[" + "; ".join('"%s"%%string' % x.replace('"', "'") for x in l) + "]"
    CACHE_DEFS.append("\n".join([
        "(* ---- faces2d.py / vertex2d.py: _initialize_attributes - the attribute computations it leaves cached on the mesh *)",
        "Definition initf_cached : list string := %s." % slist(cf),
        "Definition initv_cached : list string := %s." % slist(cv)]))
    run_defs = ["(* ---- base.py: FrameField.run (which stage is called under which flag); worker.py: __call__ = run *)",
                "Definition run_step (st : ffstate) : ffstate := %s." % run_txt] + \
               ["Definition %s : bool := %s." % (k, "true" if v else "false") for k, v in sorted(flags.items())]
    RUN_DEFS.append("\n".join(run_defs))
    fn = find_fn(tree, "FrameField.normalize", BASE)
    parts.append(("base.FrameField.normalize", T.sha(src, fn)))
    body = stmts(fn)
    env = Env(BASE)
    if len(body) != 2:
        T.fail(BASE, fn, "unexpected shape of normalize")
    env.match(body[0], "if self.var is None:\n    return")
    lp = body[1]
    if not (isinstance(lp, ast.For) and ast.unparse(lp.iter) == "range(self.var.size)" and isinstance(lp.target, ast.Name)
            and len(lp.body) == 1):
        T.fail(BASE, lp, "expected `for i in range(self.var.size)`")
    i = lp.target.id
    st = lp.body[0]
    if not (isinstance(st, ast.If) and not st.orelse and len(st.body) == 1
            and ast.unparse(st.body[0]) == "self.var[%s] /= abs(self.var[%s])" % (i, i)):
        T.fail(BASE, st, "expected `if abs(self.var[i]) > thr: self.var[i] /= abs(self.var[i])`")
    tn, op = cmp_guard(BASE, st.test, "abs(self.var[%s])" % i)
    thr = const_fraction(BASE, tn)
    return RUN_DEFS.pop() + "\n\n" + CACHE_DEFS.pop() + "\n\n" + "\n".join([
        "(* ---- base.py: FrameField.normalize *)",
        "Definition norm_thr : Q := %s." % qlit(thr),
        "Definition norm_guard (a : T) : bool := %s." % guard_text(op, "norm_thr", "a"),
        "Definition norm_elem (z : cx) : cx := if norm_guard (cabs OPS_ z) then cdivr OPS_ z (cabs OPS_ z) else z."])


# ------------------------------------------------------------------------------------------------ laplacian_op.py
def cconst(rel, node):
    fr = const_fraction(rel, node)
    if fr == 1:
        return "c1 OPS_"
    if fr == -1:
        return "cneg OPS_ (c1 OPS_)"
    T.fail(rel, node, "unsupported Nabla coefficient")


def gen_laplacians(parts):
    src, tree = T.load(LAP)
    out = []
    # ---- laplacian_triangles
    fn = find_fn(tree, "laplacian_triangles", LAP)
    parts.append(("laplacian_op.laplacian_triangles", T.sha(src, fn)))
    body = stmts(fn)
    env = Env(LAP)
    br = [s for s in body if isinstance(s, ast.If) and ast.unparse(s.test) == "connection is not None"]
    if len(br) != 1 or len(br[0].body) != 1 or len(br[0].orelse) != 1:
        raise TranslationError(LAP + ": laplacian_triangles has no `if connection is not None: loop else: loop`")
    coefs = []
    for lp, withc in ((br[0].body[0], True), (br[0].orelse[0], False)):
        e = Env(LAP)
        if not isinstance(lp, ast.For):
            T.fail(LAP, lp, "expected the gradient loop")
        m = re.match(e.rx("for ({ie}, ({ei}, {ej})) in enumerate(mesh.edges)"),
                     "for %s in %s" % (ast.unparse(lp.target), ast.unparse(lp.iter)))
        if not m or len(lp.body) != 2:
            T.fail(LAP, lp, "expected `for ie, (ei, ej) in enumerate(mesh.edges)` with two statements")
        e.b.update(m.groupdict())
        e.match(lp.body[0], "{T1}, {T2} = mesh.connectivity.edge_to_faces({ei}, {ej})")
        cnd = lp.body[1]
        if not (isinstance(cnd, ast.If) and not cnd.orelse and len(cnd.body) == 2
                and ast.unparse(cnd.test) == "%s is not None and %s is not None" % (e.b["T1"], e.b["T2"])):
            T.fail(LAP, cnd, "expected `if T1 is not None and T2 is not None:` with the two Nabla entries")
        vals = {}
        for st in cnd.body:
            for k in ("T1", "T2"):
                if isinstance(st, ast.Assign) and ast.unparse(st.targets[0]) == "Nabla[%s, %s]" % (e.b["ie"], e.b[k]):
                    if k in vals:
                        T.fail(LAP, st, "Nabla entry written twice")
                    vals[k] = st.value
        if set(vals) != {"T1", "T2"}:
            T.fail(LAP, cnd, "the two Nabla entries (ie, T1), (ie, T2) were not found")
        syms = {"connection.transport(%s, %s)" % (e.b["T1"], e.b["T2"]): "t12",
                "connection.transport(%s, %s)" % (e.b["T2"], e.b["T1"]): "t21"}
        row = []
        for k in ("T1", "T2"):
            v = vals[k]
            if isinstance(v, ast.Call):
                if not withc:
                    T.fail(LAP, v, "transport used without a connection")
                row.append(rect_expr(LAP, v, syms))
            else:
                row.append(cconst(LAP, v))
        coefs.append(row)
    ns = [s for s in body if isinstance(s, ast.Assign) and ast.unparse(s.targets[0]) == "Nabla_star"]
    if len(ns) != 1:
        raise TranslationError(LAP + ": Nabla_star is not defined exactly once")
    nst = ast.unparse(ns[0].value)
    if nst in ("Nabla.conj().transpose()", "Nabla.transpose().conj()", "Nabla.conj().T", "Nabla.T.conj()", "Nabla.getH()"):
        star = "cconj OPS_ z"
    elif nst in ("Nabla.transpose()", "Nabla.T"):
        star = "let _ := OPS_ in z"
    else:
        T.fail(LAP, ns[0], "unsupported definition of Nabla_star")
    fin = body[-1]
    if not (isinstance(fin, ast.If) and ast.unparse(fin.test) == "cotan" and len(fin.body) == 2 and len(fin.orelse) == 1
            and ast.unparse(fin.body[0]) == "D = cotan_edge_diagonal(mesh)"
            and ast.unparse(fin.body[1]) == "return Nabla_star @ D @ Nabla"
            and ast.unparse(fin.orelse[0]) == "return Nabla_star @ Nabla"):
        T.fail(LAP, fin, "unexpected final products of laplacian_triangles")
    if ast.unparse(body[body.index(ns[0]) - 1]) != "Nabla = Nabla.tocsc()":
        T.fail(LAP, ns[0], "unexpected statement before Nabla_star")
    out += ["(* ---- laplacian_op.py: laplacian_triangles *)",
            "Definition lapt_n1 : cx := %s." % coefs[0][0],
            "Definition lapt_n2 (order : nat) (t12 t21 : cx) : cx := %s." % coefs[0][1],
            "Definition lapt_n1_flat : cx := %s." % coefs[1][0],
            "Definition lapt_n2_flat : cx := %s." % coefs[1][1],
            "Definition lapt_star (z : cx) : cx := %s." % star]
    # ---- laplacian (vertices)
    fn = find_fn(tree, "laplacian", LAP)
    parts.append(("laplacian_op.laplacian", T.sha(src, fn)))
    body = stmts(fn)
    loops = [s for s in body if isinstance(s, ast.For)]
    if len(loops) != 1:
        raise TranslationError(LAP + ": laplacian has not exactly one assembly loop")
    lp = loops[0]
    e = Env(LAP)
    m = re.match(e.rx("for ({iT}, ({p}, {q}, {r})) in enumerate(mesh.faces)"), "for %s in %s" % (ast.unparse(lp.target), ast.unparse(lp.iter)))
    if not m or len(lp.body) != 2:
        T.fail(LAP, lp, "expected `for iT, (p, q, r) in enumerate(mesh.faces)` with the weights and the edge loop")
    e.b.update(m.groupdict())
    w = lp.body[0]
    if not (isinstance(w, ast.If) and ast.unparse(w.test) == "cotan" and len(w.body) == 1 and len(w.orelse) == 1):
        T.fail(LAP, w, "expected `if cotan: a,b,c = .. else: a,b,c = ..`")
    m = re.match(e.rx("{a}, {b}, {c} = (cot[mesh.connectivity.vertex_to_corner_in_face({_v}, {iT})] / {#div} for {_v} in ({p}, {q}, {r}))"),
                 ast.unparse(w.body[0]))
    if not m:
        T.fail(LAP, w.body[0], "unexpected cotangent weights")
    e.b.update({k: v for k, v in m.groupdict().items() if v})
    div = int(m.group("div"))
    u = w.orelse[0]
    if not (isinstance(u, ast.Assign) and ast.unparse(u.targets[0]) == "(%s, %s, %s)" % (e.b["a"], e.b["b"], e.b["c"])
            and isinstance(u.value, ast.Tuple) and len(u.value.elts) == 3):
        T.fail(LAP, u, "unexpected uniform weights")
    uw = [const_fraction(LAP, x) for x in u.value.elts]
    el = lp.body[1]
    if not (isinstance(el, ast.For) and isinstance(el.iter, ast.List) and len(el.iter.elts) == 3 and isinstance(el.target, ast.Tuple)):
        T.fail(LAP, el, "expected `for (i, j, v) in [(p, q, c), (q, r, a), (r, p, b)]`")
    i_, j_, v_ = [x.id for x in el.target.elts]
    ren = {e.b["p"]: "p", e.b["q"]: "q", e.b["r"]: "r", e.b["a"]: "a", e.b["b"]: "b", e.b["c"]: "c"}
    trip = []
    for t in el.iter.elts:
        if not (isinstance(t, ast.Tuple) and len(t.elts) == 3 and all(isinstance(x, ast.Name) and x.id in ren for x in t.elts)):
            T.fail(LAP, t, "unexpected (i, j, weight) triple")
        names = [ren[x.id] for x in t.elts]
        if names[0] not in "pqr" or names[1] not in "pqr" or names[2] not in "abc":
            T.fail(LAP, t, "unexpected (i, j, weight) triple")
        trip.append("(%s, %s, %s)" % tuple(names))
    eb = el.body
    if len(eb) != 3:
        T.fail(LAP, el, "expected two diagonal coefficients and the connection test")

    def coefficient(st, syms):
        if not (isinstance(st, ast.Assign) and isinstance(st.targets[0], ast.Tuple) and isinstance(st.value, ast.Tuple)
                and ast.unparse(st.targets[0]) == "(rows[_c], cols[_c], coeffs[_c], _c)" and len(st.value.elts) == 4
                and ast.unparse(st.value.elts[3]) == "_c + 1"):
            T.fail(LAP, st, "expected `rows[_c], cols[_c], coeffs[_c], _c = i, j, value, _c+1`")
        rr, cc, vv = st.value.elts[:3]
        for x in (rr, cc):
            if not (isinstance(x, ast.Name) and x.id in (i_, j_)):
                T.fail(LAP, x, "row/column is not i or j")
        r0 = "i" if rr.id == i_ else "j"
        c0 = "i" if cc.id == i_ else "j"

        def real(n):
            if isinstance(n, ast.Name) and n.id == v_:
                return "v"
            if isinstance(n, ast.UnaryOp) and isinstance(n.op, ast.USub):
                return "(oopp OPS_ %s)" % real(n.operand)
            T.fail(LAP, n, "unsupported weight expression")
        if isinstance(vv, ast.BinOp) and isinstance(vv.op, ast.Mult) and isinstance(vv.right, ast.Call):
            val = "cscale OPS_ %s %s" % (real(vv.left), rect_expr(LAP, vv.right, syms))
        else:
            val = "cofre OPS_ %s" % real(vv)
        return "(%s, %s, %s)" % (r0, c0, val)
    diag = [coefficient(eb[0], {}), coefficient(eb[1], {})]
    ct = eb[2]
    if not (isinstance(ct, ast.If) and ast.unparse(ct.test) == "connection is not None" and len(ct.body) == 3 and len(ct.orelse) == 2):
        T.fail(LAP, ct, "expected the connection / no-connection off-diagonal coefficients")
    e5 = Env(LAP)
    e5.match(ct.body[0], "{ai}, {aj} = (connection.transport(%s, %s), connection.transport(%s, %s))" % (i_, j_, j_, i_))
    syms = {e5.b["ai"]: "ai", e5.b["aj"]: "aj"}
    off = [coefficient(ct.body[1], syms), coefficient(ct.body[2], syms)]
    off_flat = [coefficient(ct.orelse[0], {}), coefficient(ct.orelse[1], {})]

    def tq(fr):
        return "oofQ OPS_ %s" % qlit(fr)
    out += ["(* ---- laplacian_op.py: laplacian *)",
            "Definition lapv_edges {W : Type} (p q r : Z) (a b c : W) : list (Z * Z * W) := [%s]." % "; ".join(trip),
            "Definition lapv_w_cotan (cp cq cr : T) : T * T * T :=",
            "  (odiv OPS_ cp (oofZ OPS_ %d), odiv OPS_ cq (oofZ OPS_ %d), odiv OPS_ cr (oofZ OPS_ %d))." % (div, div, div),
            "Definition lapv_w_uniform : T * T * T := (%s, %s, %s)." % tuple(tq(x) for x in uw),
            "Definition lapv_coeffs (order : nat) (i j : Z) (v : T) (ai aj : cx) : cmat :=",
            "  [%s]." % ";\n   ".join(diag + off),
            "Definition lapv_coeffs_flat (i j : Z) (v : T) : cmat :=",
            "  [%s]." % ";\n   ".join(diag + off_flat)]
    return "\n".join(out)


RUN_DEFS = []
CACHE_DEFS = []

PRELUDE = """From Coq Require Import ZArith List Bool QArith String.
Import ListNotations.
Require Import MV.Lib.Base MV.C18.Ops.
Open Scope Z_scope.

Section Gen.
Context {T : Type} (OPS_ : ops T).
Notation cx := (cx T).
Notation vec := (vec T).
Notation cmat := (cmat T).
"""


def gen():
    parts = []
    check_signatures()
    secs = [gen_connection(parts), gen_faces(parts), gen_base(parts), gen_laplacians(parts), gen_vertices(parts)]
    text = T.header("C18: connection / constraint / normalisation / Laplacian / optimisation / index expressions", parts)
    text += PRELUDE + "\n" + "\n\n".join(secs) + "\n\nEnd Gen.\n"
    return {"C18/Gen.v": text}
