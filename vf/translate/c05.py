"""mesh_attributes.py + data_container.py -> coq/theories/C05/Gen.v

Every decision expression, table and amount the C05 theorems hinge on is read off the current source:
  _can_be_casted (pair table + equality shortcut), the dense bounds test, the arity test, the vector/scalar branch
  tests, "every component is type-checked", the fresh-default branch of the sparse read, the row/length arithmetic of
  ArrayAttribute.__init__/_expand/clear, the per-type default table, the default-type test, and for both containers
  the amount each growth operation passes to attr._expand (and whether it is taken before or after the data grew).
Only the shapes below are recognised; anything else raises TranslationError (the tie to the source is then broken).
"""
import ast

from . import common as T
from ..core import TranslationError

ATTR = "mouette/mesh/mesh_attributes.py"
CONT = "mouette/mesh/data_container.py"
CONF = "mouette/config.py"

TYN = {"Bool": "TBool", "Int": "TInt", "Float": "TFloat", "Complex": "TComplex", "String": "TString"}


# ---------------------------------------------------------------------- tiny expression translator
def zexp(rel, e, env):
    """integer expression over the names in env -> Gallina (Z)"""
    d = T.dotted(e)
    if d is not None and d in env:
        return env[d]
    if isinstance(e, ast.Constant) and isinstance(e.value, int) and not isinstance(e.value, bool):
        return "%d" % e.value if e.value >= 0 else "(%d)" % e.value
    if isinstance(e, ast.Call) and T.dotted(e.func) == "len" and len(e.args) == 1 and not e.keywords:
        k = "len(%s)" % T.dotted(e.args[0])
        if k in env:
            return env[k]
    if isinstance(e, ast.Call) and T.dotted(e.func) == "int" and len(e.args) == 1 and not e.keywords:
        return zexp(rel, e.args[0], env)
    if isinstance(e, ast.BinOp) and type(e.op) in (ast.Add, ast.Sub, ast.Mult):
        op = {ast.Add: "+", ast.Sub: "-", ast.Mult: "*"}[type(e.op)]
        return "(%s %s %s)" % (zexp(rel, e.left, env), op, zexp(rel, e.right, env))
    if isinstance(e, ast.UnaryOp) and isinstance(e.op, ast.USub):
        return "(- %s)" % zexp(rel, e.operand, env)
    T.fail(rel, e, "integer expression outside the recognised subset")


CMPZ = {ast.Lt: "(%s <? %s)", ast.LtE: "(%s <=? %s)", ast.Gt: "(%s >? %s)", ast.GtE: "(%s >=? %s)",
        ast.Eq: "(%s =? %s)", ast.NotEq: "(negb (%s =? %s))"}


def bexp(rel, e, env):
    if isinstance(e, ast.BoolOp):
        op = " && " if isinstance(e.op, ast.And) else " || "
        return "(" + op.join(bexp(rel, v, env) for v in e.values) + ")"
    if isinstance(e, ast.UnaryOp) and isinstance(e.op, ast.Not):
        return "(negb %s)" % bexp(rel, e.operand, env)
    if isinstance(e, ast.Compare):
        parts = []
        left = e.left
        for op, right in zip(e.ops, e.comparators):
            if type(op) not in CMPZ:
                T.fail(rel, e, "comparison operator outside the recognised subset")
            parts.append(CMPZ[type(op)] % (zexp(rel, left, env), zexp(rel, right, env)))
            left = right
        return parts[0] if len(parts) == 1 else "(" + " && ".join(parts) + ")"
    T.fail(rel, e, "boolean expression outside the recognised subset")


def is_raise(stmt, exc_suffix):
    return (isinstance(stmt, ast.Raise) and isinstance(stmt.exc, ast.Call)
            and (T.dotted(stmt.exc.func) or "").endswith(exc_suffix))


def typename(rel, e):
    d = T.dotted(e) or ""
    for pre in ("Attribute.Type.", "cls.", "self.__class__.", "_BaseAttribute.Type."):
        if d.startswith(pre) and d[len(pre):] in TYN:
            return TYN[d[len(pre):]]
    T.fail(rel, e, "not a member of Attribute.Type")


# ---------------------------------------------------------------------- mesh_attributes.py
def can_be_casted(src, tree):
    fn = T.find_def(tree, "_BaseAttribute._can_be_casted", ATTR)
    a, b = [x.arg for x in fn.args.args]
    body = T.body_nodoc(fn)
    eq_short = False
    pairs = None
    setname = None
    ret = None
    for st in body:
        if (isinstance(st, ast.If) and isinstance(st.test, ast.Compare) and len(st.test.ops) == 1
                and isinstance(st.test.ops[0], ast.Eq) and {T.dotted(st.test.left), T.dotted(st.test.comparators[0])} == {a, b}
                and len(st.body) == 1 and isinstance(st.body[0], ast.Return) and isinstance(st.body[0].value, ast.Constant)
                and st.body[0].value.value is True and not st.orelse):
            eq_short = True
        elif isinstance(st, ast.Assign) and isinstance(st.value, ast.Set) and isinstance(st.targets[0], ast.Name):
            setname = st.targets[0].id
            pairs = []
            for el in st.value.elts:
                if not (isinstance(el, ast.Tuple) and len(el.elts) == 2):
                    T.fail(ATTR, el, "cast table entry is not a pair")
                pairs.append((typename(ATTR, el.elts[0]), typename(ATTR, el.elts[1])))
        elif isinstance(st, ast.Return):
            ret = st.value
        else:
            T.fail(ATTR, st, "unexpected statement in _can_be_casted")
    if pairs is None or ret is None:
        T.fail(ATTR, fn, "_can_be_casted has no pair table / return")
    if not (isinstance(ret, ast.Compare) and len(ret.ops) == 1 and isinstance(ret.ops[0], ast.In)
            and isinstance(ret.left, ast.Tuple) and len(ret.left.elts) == 2
            and T.dotted(ret.comparators[0]) == setname):
        T.fail(ATTR, ret, "_can_be_casted does not return `(x,y) in casts`")
    order = [T.dotted(x) for x in ret.left.elts]
    if sorted(order) != sorted([a, b]):
        T.fail(ATTR, ret, "looked-up pair is not made of the two parameters")
    first, second = ("ta", "tb") if order == [a, b] else ("tb", "ta")
    table = "[" + "; ".join("(%s, %s)" % p for p in pairs) + "]"
    text = "Definition cast_table : list (ty * ty) := %s.\n" % table
    text += ("Definition can_be_casted (ta tb : ty) : bool :=\n  %sexistsb (fun p => ty_eqb (fst p) %s && ty_eqb (snd p) %s) cast_table.\n"
             % ("ty_eqb ta tb || " if eq_short else "", first, second))
    return text, ("_can_be_casted", T.sha(src, fn))


def oob(src, tree):
    fn = T.find_def(tree, "ArrayAttribute._check_out_of_bounds", ATTR)
    params = [x.arg for x in fn.args.args]
    body = T.body_nodoc(fn)
    if not (len(params) == 2 and len(body) == 1 and isinstance(body[0], ast.If) and not body[0].orelse
            and len(body[0].body) == 1 and is_raise(body[0].body[0], "OutOfBoundsError")):
        T.fail(ATTR, fn, "_check_out_of_bounds is not `if <test>: raise OutOfBoundsError`")
    env = {params[1]: "key", "self.n_elem": "n_elem"}
    return ("Definition dense_oob (key n_elem : Z) : bool := %s.\n" % bexp(ATTR, body[0].test, env),
            ("ArrayAttribute._check_out_of_bounds", T.sha(src, fn)))


def setitem(src, tree, cls, prefix, bounds_first):
    fn = T.find_def(tree, cls + ".__setitem__", ATTR)
    params = [x.arg for x in fn.args.args]
    if len(params) != 3:
        T.fail(ATTR, fn, "__setitem__ does not take (self, key, value)")
    key, value = params[1], params[2]
    body = T.body_nodoc(fn)
    if bounds_first:
        st = body[0]
        if not (isinstance(st, ast.Expr) and isinstance(st.value, ast.Call)
                and T.dotted(st.value.func) == "self._check_out_of_bounds"
                and [T.dotted(x) for x in st.value.args] == [key]):
            T.fail(ATTR, fn, "dense __setitem__ does not start with self._check_out_of_bounds(key)")
        body = body[1:]
    if not (len(body) == 1 and isinstance(body[0], ast.If) and body[0].orelse):
        T.fail(ATTR, fn, "__setitem__ is not a single if/else on the element size")
    top = body[0]
    is_vec = bexp(ATTR, top.test, {"self.elemsize": "elemsize"})

    # ---- vector branch
    vb = list(top.body)
    if not (isinstance(vb[0], ast.Assign) and isinstance(vb[0].value, ast.Call) and T.dotted(vb[0].value.func) == "list"
            and [T.dotted(x) for x in vb[0].value.args] == [value]):
        T.fail(ATTR, vb[0], "vector branch does not start with data = list(value)")
    data = vb[0].targets[0].id
    if not (isinstance(vb[1], ast.Assign) and isinstance(vb[1].value, ast.Call) and T.dotted(vb[1].value.func) == "len"
            and [T.dotted(x) for x in vb[1].value.args] == [data]):
        T.fail(ATTR, vb[1], "vector branch does not take n = len(data)")
    nname = vb[1].targets[0].id
    st = vb[2]
    if not (isinstance(st, ast.If) and not st.orelse and len(st.body) == 1 and is_raise(st.body[0], "InvalidSizeError")):
        T.fail(ATTR, st, "no `if <arity test>: raise InvalidSizeError`")
    size_bad = bexp(ATTR, st.test, {nname: "n", "self.elemsize": "elemsize"})

    def type_check(stmts, subject_ok):
        """datatype = type(<subject>); t = Attribute.Type(datatype); if not self._can_be_casted(t, self.type): raise
        returns (first argument is the value's type?)"""
        if len(stmts) != 3:
            T.fail(ATTR, stmts[0] if stmts else fn, "type check is not the three-statement form")
        s0, s1, s2 = stmts
        if not (isinstance(s0, ast.Assign) and isinstance(s0.value, ast.Call) and T.dotted(s0.value.func) == "type"
                and len(s0.value.args) == 1 and subject_ok(s0.value.args[0])):
            T.fail(ATTR, s0, "type check does not start with datatype = type(<component>)")
        dt = s0.targets[0].id
        if not (isinstance(s1, ast.Assign) and isinstance(s1.value, ast.Call) and T.dotted(s1.value.func) == "Attribute.Type"
                and [T.dotted(x) for x in s1.value.args] == [dt]):
            T.fail(ATTR, s1, "type check does not map the python type through Attribute.Type")
        at = s1.targets[0].id
        if not (isinstance(s2, ast.If) and not s2.orelse and len(s2.body) == 1 and is_raise(s2.body[0], "TypeNotMatchingError")
                and isinstance(s2.test, ast.UnaryOp) and isinstance(s2.test.op, ast.Not) and isinstance(s2.test.operand, ast.Call)
                and T.dotted(s2.test.operand.func) == "self._can_be_casted" and len(s2.test.operand.args) == 2):
            T.fail(ATTR, s2, "no `if not self._can_be_casted(..): raise TypeNotMatchingError`")
        args = [T.dotted(x) for x in s2.test.operand.args]
        if args == [at, "self.type"]:
            return "can_be_casted tv ta"
        if args == ["self.type", at]:
            return "can_be_casted ta tv"
        T.fail(ATTR, s2, "arguments of _can_be_casted are not (value type, attribute type)")

    rest = vb[3:]
    if rest and isinstance(rest[0], ast.For):
        loop = rest[0]
        if not (isinstance(loop.target, ast.Name) and T.dotted(loop.iter) == data and not loop.orelse):
            T.fail(ATTR, loop, "component loop does not run over data")
        x = loop.target.id
        vec_cast = type_check(list(loop.body), lambda e: T.dotted(e) == x)
        all_comps = True
        rest = rest[1:]
    else:
        def first_of_data(e):
            return (isinstance(e, ast.Subscript) and T.dotted(e.value) == data and isinstance(e.slice, ast.Constant)
                    and e.slice.value == 0)
        vec_cast = type_check(rest[:3], first_of_data)
        all_comps = False
        rest = rest[3:]
    st = rest[0] if len(rest) == 1 else None
    attr_dtype = None
    if (st is not None and isinstance(st, ast.Assign) and isinstance(st.targets[0], ast.Subscript)
            and T.dotted(st.targets[0].value) == "self._data" and T.dotted(st.targets[0].slice) == key
            and isinstance(st.value, ast.Call) and T.dotted(st.value.func) == "Vec" and len(st.value.args) == 1):
        arg = st.value.args[0]
        if T.dotted(arg) == data:
            attr_dtype = False          # np.asarray(list): numpy infers the dtype
        elif (isinstance(arg, ast.Call) and T.dotted(arg.func) in ("np.array", "np.asarray") and len(arg.args) == 1
              and T.dotted(arg.args[0]) == data and len(arg.keywords) == 1 and arg.keywords[0].arg == "dtype"
              and T.dotted(arg.keywords[0].value) == "self.type.dtype"):
            attr_dtype = True
    if attr_dtype is None:
        T.fail(ATTR, fn, "vector branch does not end with self._data[key] = Vec(data) / Vec(np.array(data, dtype=self.type.dtype))")

    # ---- scalar branch
    sb = list(top.orelse)
    sc_cast = type_check(sb[:3], lambda e: T.dotted(e) == value)
    st = sb[3] if len(sb) == 4 else None
    scal_conv = None
    if (st is not None and isinstance(st, ast.Assign) and isinstance(st.targets[0], ast.Subscript)
            and T.dotted(st.targets[0].value) == "self._data" and T.dotted(st.targets[0].slice) == key):
        v = st.value
        if T.dotted(v) == value:
            scal_conv = False                  # the object itself is stored (the dense array converts on assignment)
        elif (isinstance(v, ast.Call) and isinstance(v.func, ast.Attribute) and v.func.attr == "item" and not v.args
              and isinstance(v.func.value, ast.Call) and T.dotted(v.func.value.func) in ("np.array", "np.asarray")
              and len(v.func.value.args) == 1 and T.dotted(v.func.value.args[0]) == value
              and len(v.func.value.keywords) == 1 and v.func.value.keywords[0].arg == "dtype"
              and T.dotted(v.func.value.keywords[0].value) == "self.type.dtype"):
            scal_conv = True                   # np.array(value, dtype=self.type.dtype).item()
    if scal_conv is None:
        T.fail(ATTR, fn, "scalar branch does not end with self._data[key] = value / np.array(value, dtype=self.type.dtype).item()")
    text = "Definition %s_is_vec (elemsize : Z) : bool := %s.\n" % (prefix, is_vec)
    text += "Definition %s_size_bad (n elemsize : Z) : bool := %s.\n" % (prefix, size_bad)
    text += "Definition %s_checks_all_components : bool := %s.\n" % (prefix, "true" if all_comps else "false")
    text += "Definition %s_vec_cast_ok (tv ta : ty) : bool := %s.\n" % (prefix, vec_cast)
    text += "Definition %s_scal_cast_ok (tv ta : ty) : bool := %s.\n" % (prefix, sc_cast)
    text += "Definition %s_vec_uses_attr_dtype : bool := %s.\n" % (prefix, "true" if attr_dtype else "false")
    text += "Definition %s_scal_converted : bool := %s.\n" % (prefix, "true" if scal_conv else "false")
    return text, (cls + ".__setitem__", T.sha(src, fn))


def np_full_rows(rel, call, env):
    """np.full((<rows>, <cols>), self.default_value, dtype=...) -> rows expression; cols must be the element size"""
    if not (isinstance(call, ast.Call) and T.dotted(call.func) == "np.full" and len(call.args) >= 2
            and isinstance(call.args[0], ast.Tuple) and len(call.args[0].elts) == 2
            and T.dotted(call.args[1]) == "self.default_value"):
        T.fail(rel, call, "not np.full((rows, elemsize), self.default_value, ...)")
    cols = T.dotted(call.args[0].elts[1])
    if cols not in ("self.elemsize", "elem_size"):
        T.fail(rel, call, "second dimension is not the element size")
    return zexp(rel, call.args[0].elts[0], env)


def sparse_getitem(src, tree):
    fn = T.find_def(tree, "Attribute.__getitem__", ATTR)
    key = fn.args.args[1].arg
    body = T.body_nodoc(fn)
    st = body[0]
    if not (isinstance(st, ast.If) and not st.orelse and isinstance(st.test, ast.Compare) and len(st.test.ops) == 1
            and isinstance(st.test.ops[0], ast.In) and T.dotted(st.test.left) == key
            and T.dotted(st.test.comparators[0]) == "self._data" and len(st.body) == 1
            and isinstance(st.body[0], ast.Return) and isinstance(st.body[0].value, ast.Subscript)
            and T.dotted(st.body[0].value.value) == "self._data" and T.dotted(st.body[0].value.slice) == key):
        T.fail(ATTR, fn, "sparse __getitem__ does not start with `if key in self._data: return self._data[key]`")
    rest = body[1:]
    fresh = "false"
    if len(rest) == 2:
        st = rest[0]
        ok = (isinstance(st, ast.If) and not st.orelse and len(st.body) == 1 and isinstance(st.body[0], ast.Return))
        if ok:
            r = st.body[0].value
            ok = (isinstance(r, ast.Call) and T.dotted(r.func) == "Vec" and len(r.args) == 1
                  and isinstance(r.args[0], ast.Call) and T.dotted(r.args[0].func) == "np.full"
                  and len(r.args[0].args) >= 2 and T.dotted(r.args[0].args[0]) == "self.elemsize"
                  and T.dotted(r.args[0].args[1]) == "self.default_value")
        if not ok:
            T.fail(ATTR, st, "middle branch of sparse __getitem__ is not `if <test>: return Vec(np.full(self.elemsize, self.default_value, ..))`")
        fresh = bexp(ATTR, st.test, {"self.elemsize": "elemsize"})
        rest = rest[1:]
    if not (len(rest) == 1 and isinstance(rest[0], ast.Return) and T.dotted(rest[0].value) == "self.default_value"):
        T.fail(ATTR, fn, "sparse __getitem__ does not end with return self.default_value")
    return ("Definition sparse_get_fresh (elemsize : Z) : bool := %s.\n" % fresh, ("Attribute.__getitem__", T.sha(src, fn)))


def dense_misc(src, tree):
    out = ""
    parts = []
    # __getitem__
    fn = T.find_def(tree, "ArrayAttribute.__getitem__", ATTR)
    key = fn.args.args[1].arg
    body = T.body_nodoc(fn)
    ok = (len(body) == 2 and isinstance(body[0], ast.Expr) and isinstance(body[0].value, ast.Call)
          and T.dotted(body[0].value.func) == "self._check_out_of_bounds"
          and [T.dotted(x) for x in body[0].value.args] == [key]
          and isinstance(body[1], ast.Return) and isinstance(body[1].value, ast.IfExp))
    if ok:
        ie = body[1].value

        def sub(e, second_zero):
            if not (isinstance(e, ast.Subscript) and T.dotted(e.value) == "self._data" and isinstance(e.slice, ast.Tuple)
                    and len(e.slice.elts) == 2 and T.dotted(e.slice.elts[0]) == key):
                return False
            s = e.slice.elts[1]
            if second_zero:
                return isinstance(s, ast.Constant) and s.value == 0
            return isinstance(s, ast.Slice) and s.lower is None and s.upper is None and s.step is None
        ok = sub(ie.body, True) and sub(ie.orelse, False)
    if not ok:
        T.fail(ATTR, fn, "dense __getitem__ is not `check; return self._data[key,0] if <test> else self._data[key,:]`")
    out += "Definition dense_get_scalar (elemsize : Z) : bool := %s.\n" % bexp(ATTR, body[1].value.test, {"self.elemsize": "elemsize"})
    parts.append(("ArrayAttribute.__getitem__", T.sha(src, fn)))
    # __init__
    fn = T.find_def(tree, "ArrayAttribute.__init__", ATTR)
    body = T.body_nodoc(fn)
    ne = None
    rows = None
    for st in body:
        tgt = st.target if isinstance(st, ast.AnnAssign) else (st.targets[0] if isinstance(st, ast.Assign) else None)
        d = T.dotted(tgt) if tgt is not None else None
        if d == "self.n_elem":
            ne = zexp(ATTR, st.value, {"n_elem": "n_elem"})
        elif d == "self._data":
            rows = np_full_rows(ATTR, st.value, {"n_elem": "n_elem", "self.n_elem": "n_elem"})
    if ne is None or rows is None:
        T.fail(ATTR, fn, "ArrayAttribute.__init__ does not set self.n_elem and self._data = np.full(...)")
    out += "Definition dense_init_n_elem (n_elem : Z) : Z := %s.\n" % ne
    out += "Definition dense_init_rows (n_elem : Z) : Z := %s.\n" % rows
    parts.append(("ArrayAttribute.__init__", T.sha(src, fn)))
    # _expand
    fn = T.find_def(tree, "ArrayAttribute._expand", ATTR)
    n = fn.args.args[1].arg
    body = T.body_nodoc(fn)
    # the two statements are independent of each other (np.full uses n and elemsize only): accept either order
    asg = [st for st in body if isinstance(st, ast.Assign)]
    aug = [st for st in body if isinstance(st, ast.AugAssign)]
    ok = (len(body) == 2 and len(asg) == 1 and len(aug) == 1 and T.dotted(asg[0].targets[0]) == "self._data"
          and isinstance(asg[0].value, ast.Call) and T.dotted(asg[0].value.func) == "np.concatenate"
          and len(asg[0].value.args) == 1 and isinstance(asg[0].value.args[0], ast.Tuple)
          and len(asg[0].value.args[0].elts) == 2 and T.dotted(asg[0].value.args[0].elts[0]) == "self._data"
          and T.dotted(aug[0].target) == "self.n_elem" and isinstance(aug[0].op, (ast.Add, ast.Sub)))
    if not ok:
        T.fail(ATTR, fn, "dense _expand is not `self._data = np.concatenate((self._data, np.full(..))); self.n_elem += ..`")
    env = {n: "n"}      # the number of new rows must not depend on n_elem (it changes in between)
    out += "Definition dense_expand_rows (n_elem n : Z) : Z := %s.\n" % np_full_rows(ATTR, asg[0].value.args[0].elts[1], env)
    out += "Definition dense_expand_n_elem (n_elem n : Z) : Z := (n_elem %s %s).\n" % (
        "+" if isinstance(aug[0].op, ast.Add) else "-", zexp(ATTR, aug[0].value, env))
    parts.append(("ArrayAttribute._expand", T.sha(src, fn)))
    # sparse _expand must do nothing
    fn = T.find_def(tree, "Attribute._expand", ATTR)
    body = T.body_nodoc(fn)
    if not (len(body) == 1 and isinstance(body[0], ast.Pass)):
        T.fail(ATTR, fn, "sparse _expand is not `pass`")
    # clear
    fn = T.find_def(tree, "ArrayAttribute.clear", ATTR)
    body = T.body_nodoc(fn)
    if not (len(body) == 1 and isinstance(body[0], ast.Assign) and T.dotted(body[0].targets[0]) == "self._data"):
        T.fail(ATTR, fn, "dense clear is not a single assignment to self._data")
    out += "Definition dense_clear_rows (n_elem : Z) : Z := %s.\n" % np_full_rows(ATTR, body[0].value, {"self.n_elem": "n_elem"})
    parts.append(("ArrayAttribute.clear", T.sha(src, fn)))
    fn = T.find_def(tree, "Attribute.clear", ATTR)
    body = T.body_nodoc(fn)
    if not (len(body) == 1 and isinstance(body[0], ast.Assign) and T.dotted(body[0].targets[0]) == "self._data"
            and isinstance(body[0].value, ast.Call) and T.dotted(body[0].value.func) == "dict" and not body[0].value.args):
        T.fail(ATTR, fn, "sparse clear is not `self._data = dict()`")
    # __len__
    fn = T.find_def(tree, "ArrayAttribute.__len__", ATTR)
    body = T.body_nodoc(fn)
    if not (len(body) == 1 and isinstance(body[0], ast.Return)):
        T.fail(ATTR, fn, "dense __len__ is not a single return")
    out += "Definition dense_len (n_elem : Z) : Z := %s.\n" % zexp(ATTR, body[0].value, {"self.n_elem": "n_elem"})
    parts.append(("ArrayAttribute.__len__", T.sha(src, fn)))
    return out, parts


def string_width(src, tree):
    fn = T.find_def(tree, "_BaseAttribute.Type.dtype", ATTR)
    body = T.body_nodoc(fn)
    ok = (len(body) == 2 and isinstance(body[0], ast.If) and isinstance(body[0].test, ast.Compare)
          and isinstance(body[0].test.ops[0], ast.Eq) and T.dotted(body[0].test.left) == "self"
          and len(body[0].body) == 1 and isinstance(body[0].body[0], ast.Return)
          and isinstance(body[0].body[0].value, ast.Constant) and isinstance(body[0].body[0].value.value, str)
          and isinstance(body[1], ast.Return) and T.dotted(body[1].value) == "self.value")
    if not ok or typename(ATTR, body[0].test.comparators[0]) != "TString":
        T.fail(ATTR, fn, "Type.dtype is not `if self == Type.String: return '<U..'; return self.value`")
    import re
    m = re.fullmatch(r"<U(\d+)", body[0].body[0].value.value)
    if not m:
        T.fail(ATTR, fn, "string dtype is not a fixed-width unicode dtype")
    return "Definition string_width : Z := %s.\n" % m.group(1), ("Type.dtype", T.sha(src, fn))


def type_defaults(src, tree):
    fn = T.find_def(tree, "_BaseAttribute.Type.default_value", ATTR)
    body = T.body_nodoc(fn)
    if not (len(body) == 2 and isinstance(body[0], ast.If)):
        T.fail(ATTR, fn, "Type.default_value is not `if n==1: <table>; return Vec([..]*n)`")
    nparam = fn.args.args[1].arg
    scalar_test = bexp(ATTR, body[0].test, {nparam: "n"})
    r = body[1]
    ok = (isinstance(r, ast.Return) and isinstance(r.value, ast.Call) and T.dotted(r.value.func) == "Vec" and len(r.value.args) == 1
          and isinstance(r.value.args[0], ast.BinOp) and isinstance(r.value.args[0].op, ast.Mult)
          and isinstance(r.value.args[0].left, ast.List) and len(r.value.args[0].left.elts) == 1
          and T.dotted(r.value.args[0].right) == nparam)
    if not ok:
        T.fail(ATTR, fn, "the vector default is not Vec([self.default_value(1)]*n)")
    table = {}
    for st in body[0].body:
        if isinstance(st, ast.Raise):
            continue
        if not (isinstance(st, ast.If) and isinstance(st.test, ast.Compare) and len(st.test.ops) == 1
                and isinstance(st.test.ops[0], ast.Eq) and T.dotted(st.test.left) == "self"
                and len(st.body) == 1 and isinstance(st.body[0], ast.Return)):
            T.fail(ATTR, st, "default table line is not `if self == Attribute.Type.X: return <const>`")
        t = typename(ATTR, st.test.comparators[0])
        v = st.body[0].value

        def const(e):
            if isinstance(e, ast.Constant):
                return e.value
            if isinstance(e, ast.Call) and T.dotted(e.func) in ("int", "float", "complex", "bool", "str") and not e.keywords:
                return {"int": int, "float": float, "complex": complex, "bool": bool, "str": str}[T.dotted(e.func)](*[const(a) for a in e.args])
            T.fail(ATTR, e, "default is not a constant")
        c = const(v)
        if isinstance(c, bool):
            table[t] = "CB %s" % ("true" if c else "false")
        elif isinstance(c, int):
            table[t] = "CI %d" % c if c >= 0 else "CI (%d)" % c
        elif isinstance(c, float):
            z = c * 8
            if z != int(z):
                T.fail(ATTR, v, "float default is not a multiple of 1/8")
            table[t] = "CF %d" % int(z) if z >= 0 else "CF (%d)" % int(z)
        elif isinstance(c, complex):
            a, b = c.real * 8, c.imag * 8
            if a != int(a) or b != int(b):
                T.fail(ATTR, v, "complex default is not a multiple of 1/8")
            table[t] = "CC %s %s" % (("%d" if a >= 0 else "(%d)") % int(a), ("%d" if b >= 0 else "(%d)") % int(b))
        elif isinstance(c, str):
            if c != "":
                T.fail(ATTR, v, "string default other than the empty string")
            table[t] = "CS []"
        else:
            T.fail(ATTR, v, "default of unknown kind")
    if sorted(table) != sorted(TYN.values()):
        T.fail(ATTR, fn, "default table does not cover the five types")
    text = "Definition default_is_scalar (n : Z) : bool := %s.\n" % scalar_test
    text += "Definition type_default (t : ty) : comp :=\n  match t with\n" + "".join(
        "  | %s => %s\n" % (t, table[t]) for t in ("TBool", "TInt", "TFloat", "TComplex", "TString")) + "  end.\n"
    # _check_default_value_type
    fn2 = T.find_def(tree, "_BaseAttribute._check_default_value_type", ATTR)
    b2 = T.body_nodoc(fn2)
    ok = (len(b2) == 2 and isinstance(b2[0], ast.If) and isinstance(b2[0].test, ast.Compare)
          and isinstance(b2[0].test.ops[0], ast.Is) and T.dotted(b2[0].test.left) == "self._default_value"
          and isinstance(b2[0].body[0], ast.Return)
          and isinstance(b2[1], ast.If) and not b2[1].orelse and is_raise(b2[1].body[0], "DefaultValueTypeDoesNotMatchError")
          and isinstance(b2[1].test, ast.Compare) and len(b2[1].test.ops) == 1
          and isinstance(b2[1].test.ops[0], (ast.NotEq, ast.Eq)))
    if ok:
        l, r = b2[1].test.left, b2[1].test.comparators[0]
        sides = []
        for e in (l, r):
            if T.dotted(e) == "self.type":
                sides.append("ta")
            elif (isinstance(e, ast.Call) and T.dotted(e.func) == "Attribute.Type" and len(e.args) == 1
                  and isinstance(e.args[0], ast.Call) and T.dotted(e.args[0].func) == "type"
                  and T.dotted(e.args[0].args[0]) == "self._default_value"):
                sides.append("td")
            else:
                ok = False
        ok = ok and sorted(sides) == ["ta", "td"]
    if not ok:
        T.fail(ATTR, fn2, "_check_default_value_type is not `if d is None: return; if Type(type(d)) != self.type: raise`")
    neg = isinstance(b2[1].test.ops[0], ast.NotEq)
    text += "Definition default_type_bad (td ta : ty) : bool := %s.\n" % ("negb (ty_eqb td ta)" if neg else "ty_eqb td ta")
    return text, [("Type.default_value", T.sha(src, fn)), ("_check_default_value_type", T.sha(src, fn2))]


# ---------------------------------------------------------------------- data_container.py
def expand_loop(rel, stmts, env, fn):
    """`for attr in self._attr.values(): attr._expand(<amount>)` as the last statement of stmts -> amount term"""
    loop = stmts[-1]
    if not (isinstance(loop, ast.For) and isinstance(loop.target, ast.Name) and isinstance(loop.iter, ast.Call)
            and T.dotted(loop.iter.func) == "self._attr.values" and len(loop.body) == 1 and not loop.orelse):
        T.fail(rel, fn, "growth does not end with `for attr in self._attr.values(): attr._expand(..)`")
    call = loop.body[0]
    if not (isinstance(call, ast.Expr) and isinstance(call.value, ast.Call)
            and T.dotted(call.value.func) == loop.target.id + "._expand" and len(call.value.args) == 1 and not call.value.keywords):
        T.fail(rel, loop, "loop body is not attr._expand(<amount>)")
    return zexp(rel, call.value.args[0], env)


def container(src, tree, cls, prefix, data_fields, pair_items):
    out = ""
    parts = []
    fn = T.find_def(tree, cls + ".append", CONT)
    body = T.body_nodoc(fn)
    grown = set()
    for st in body[:-1]:
        if not (isinstance(st, ast.Expr) and isinstance(st.value, ast.Call) and T.dotted(st.value.func) in
                [f + ".append" for f in data_fields] and len(st.value.args) == 1):
            T.fail(CONT, st, "append does something else than <field>.append(x)")
        grown.add(T.dotted(st.value.func))
    if grown != {f + ".append" for f in data_fields}:
        T.fail(CONT, fn, "append does not extend every data field once")
    out += "Definition %s_append_amount : Z := %s.\n" % (prefix, expand_loop(CONT, body, {}, fn))
    parts.append((cls + ".append", T.sha(src, fn)))

    fn = T.find_def(tree, cls + ".__iadd__", CONT)
    other = fn.args.args[1].arg
    body = T.body_nodoc(fn)
    if not (len(body) == 2 and isinstance(body[0], ast.If) and isinstance(body[1], ast.Return) and T.dotted(body[1].value) == "self"):
        T.fail(CONT, fn, "__iadd__ is not `if/elif/else; return self`")
    top = body[0]

    def isinstances(test):
        names = []
        vals = test.values if isinstance(test, ast.BoolOp) and isinstance(test.op, ast.Or) else [test]
        for v in vals:
            if not (isinstance(v, ast.Call) and T.dotted(v.func) == "isinstance" and T.dotted(v.args[0]) == other):
                T.fail(CONT, test, "branch test is not isinstance(other, ..)")
            names.append(T.dotted(v.args[1]))
        return names
    if sorted(isinstances(top.test)) != ["list", "set", "tuple"]:
        T.fail(CONT, top, "first branch of __iadd__ is not list/tuple/set")
    # list branch: data grows by the items of `other`, then expand
    lb = list(top.body)
    env = {"len(%s)" % other: "len_other"}
    out += "Definition %s_iadd_list_amount (len_other : Z) : Z := %s.\n" % (prefix, expand_loop(CONT, lb, env, fn))
    pre = lb[:-1]
    atomic = True
    if pair_items:
        def pair_loop(st, it):
            return (isinstance(st, ast.For) and T.dotted(st.iter) == it and isinstance(st.target, ast.Tuple)
                    and len(st.target.elts) == 2 and len(st.body) == len(data_fields)
                    and all(isinstance(b, ast.Expr) and isinstance(b.value, ast.Call)
                            and T.dotted(b.value.func) in [f + ".append" for f in data_fields] for b in st.body))
        if len(pre) == 1 and pair_loop(pre[0], other):
            ok, atomic = True, False       # items are unpacked while the data is being extended
        elif (len(pre) == 2 and isinstance(pre[0], ast.Assign) and isinstance(pre[0].targets[0], ast.Name)
              and isinstance(pre[0].value, ast.ListComp) and len(pre[0].value.generators) == 1
              and T.dotted(pre[0].value.generators[0].iter) == other
              and isinstance(pre[0].value.generators[0].target, ast.Tuple)
              and len(pre[0].value.generators[0].target.elts) == 2 and not pre[0].value.generators[0].ifs
              and pair_loop(pre[1], pre[0].targets[0].id)):
            ok = True                      # every item unpacked before anything is extended
        else:
            ok = False
    else:
        ok = (len(pre) == 1 and isinstance(pre[0], ast.AugAssign) and isinstance(pre[0].op, ast.Add)
              and T.dotted(pre[0].target) == data_fields[0] and isinstance(pre[0].value, ast.Call)
              and T.dotted(pre[0].value.func) == "list" and T.dotted(pre[0].value.args[0]) == other)
    if not ok:
        T.fail(CONT, fn, "list branch does not extend the data by the items of other exactly once")
    out += "Definition %s_iadd_list_atomic : bool := %s.\n" % (prefix, "true" if atomic else "false")
    # container branch
    if not (len(top.orelse) == 1 and isinstance(top.orelse[0], ast.If)):
        T.fail(CONT, fn, "no elif isinstance(other, <container>) branch")
    cb_if = top.orelse[0]
    if isinstances(cb_if.test) != [cls]:
        T.fail(CONT, cb_if, "second branch is not isinstance(other, %s)" % cls)
    cb = list(cb_if.body)
    env = {}
    seen_grow = 0
    for st in cb[:-1]:
        if (isinstance(st, ast.Assign) and isinstance(st.targets[0], ast.Name) and isinstance(st.value, ast.Call)
                and T.dotted(st.value.func) == "len" and T.dotted(st.value.args[0]) == other):
            env[st.targets[0].id] = "len_before" if seen_grow == 0 else "len_after"
        elif (isinstance(st, ast.AugAssign) and isinstance(st.op, ast.Add) and T.dotted(st.target) in data_fields
              and T.dotted(st.value) == other + "." + T.dotted(st.target).split(".", 1)[1]):
            seen_grow += 1
        else:
            T.fail(CONT, st, "unexpected statement in the container branch of __iadd__")
    if seen_grow != len(data_fields):
        T.fail(CONT, cb_if, "container branch does not extend every data field once")
    env["len(%s)" % other] = "len_after"
    out += "Definition %s_iadd_cont_amount (len_before len_after : Z) : Z := %s.\n" % (prefix, expand_loop(CONT, cb, env, fn))
    if not (len(cb_if.orelse) == 1 and isinstance(cb_if.orelse[0], ast.Raise)):
        T.fail(CONT, cb_if, "__iadd__ does not refuse other operand types")
    parts.append((cls + ".__iadd__", T.sha(src, fn)))
    # clear
    fn = T.find_def(tree, cls + ".clear", CONT)
    body = T.body_nodoc(fn)
    tg = sorted(T.dotted(st.targets[0]) for st in body if isinstance(st, ast.Assign))
    if tg != sorted(data_fields + ["self._attr"]) or len(body) != len(tg):
        T.fail(CONT, fn, "clear does not reset the data fields and self._attr")
    # __len__
    fn = T.find_def(tree, cls + ".__len__", CONT)
    body = T.body_nodoc(fn)
    if not (len(body) == 1 and isinstance(body[0], ast.Return) and isinstance(body[0].value, ast.Call)
            and T.dotted(body[0].value.func) == "len" and T.dotted(body[0].value.args[0]) == data_fields[0]):
        T.fail(CONT, fn, "__len__ is not len(<data field>)")
    return out, parts


def create_attribute(src, tree, conf_tree):
    fn = T.find_def(tree, "_BaseDataContainer.create_attribute", CONT)
    body = T.body_nodoc(fn)
    flag = None
    for st in conf_tree.body:
        if isinstance(st, ast.Assign) and T.dotted(st.targets[0]) == "display_duplicate_attribute_warning" \
                and isinstance(st.value, ast.Constant) and isinstance(st.value.value, bool):
            flag = st.value.value
    if flag is None:
        raise TranslationError(CONF + ": display_duplicate_attribute_warning is not a boolean constant")
    if not (len(body) == 2 and isinstance(body[0], ast.If) and isinstance(body[1], ast.Return)):
        T.fail(CONT, fn, "create_attribute is not `if dup: warn else: create; return self._attr[name]`")
    test = body[0].test
    ok = (isinstance(test, ast.BoolOp) and isinstance(test.op, ast.And) and len(test.values) == 2
          and isinstance(test.values[0], ast.Compare) and isinstance(test.values[0].ops[0], ast.In)
          and T.dotted(test.values[0].comparators[0]) == "self._attr"
          and T.dotted(test.values[1]) == "config.display_duplicate_attribute_warning")
    if not ok:
        T.fail(CONT, test, "duplicate test is not `name in self._attr and config.display_duplicate_attribute_warning`")
    el = body[0].orelse
    if not (len(el) == 1 and isinstance(el[0], ast.If) and T.dotted(el[0].test) == "dense"):
        T.fail(CONT, fn, "creation is not `if dense: ArrayAttribute(..) else: Attribute(..)`")

    def ctor(st, clsname, params):
        if not (isinstance(st, ast.Assign) and isinstance(st.value, ast.Call) and T.dotted(st.value.func) == clsname):
            T.fail(CONT, st, "not an assignment of %s(..)" % clsname)
        bound = {}
        for p, a in zip(params, st.value.args):
            bound[p] = a
        for kw in st.value.keywords:
            bound[kw.arg] = kw.value
        return bound
    bd = ctor(el[0].body[0], "ArrayAttribute", ["elem_type", "n_elem", "elem_size", "default_value"])
    bs = ctor(el[0].orelse[0], "Attribute", ["elem_type", "elem_size", "default_value"])
    for b in (bd, bs):
        if T.dotted(b.get("elem_type")) != "data_type" or T.dotted(b.get("elem_size")) != "elem_size" \
                or T.dotted(b.get("default_value")) != "default_value":
            T.fail(CONT, fn, "constructor arguments are not forwarded (type, elem_size, default_value)")
    ne = bd.get("n_elem")
    if isinstance(ne, ast.IfExp) and isinstance(ne.test, ast.Compare) and isinstance(ne.test.ops[0], ast.Is) \
            and T.dotted(ne.test.left) == "size":
        ne = ne.body
    elif isinstance(ne, ast.IfExp) and isinstance(ne.test, ast.Compare) and isinstance(ne.test.ops[0], ast.IsNot) \
            and T.dotted(ne.test.left) == "size":
        ne = ne.orelse
    ne_sized = bd.get("n_elem")
    if isinstance(ne_sized, ast.IfExp) and isinstance(ne_sized.test, ast.Compare) and T.dotted(ne_sized.test.left) == "size":
        ne_sized = ne_sized.orelse if isinstance(ne_sized.test.ops[0], ast.Is) else ne_sized.body
    text = "Definition create_dense_n_elem (len_self : Z) : Z := %s.\n" % zexp(CONT, ne, {"len(self)": "len_self"})
    text += "Definition create_dense_n_elem_sized (len_self size : Z) : Z := %s.\n" % zexp(CONT, ne_sized, {"len(self)": "len_self", "size": "size"})
    # register_array_as_attribute
    fr = T.find_def(tree, "_BaseDataContainer.register_array_as_attribute", CONT)
    rb = T.body_nodoc(fr)
    ok = (len(rb) == 1 and isinstance(rb[0], ast.If) and isinstance(rb[0].test, ast.BoolOp) and isinstance(rb[0].test.op, ast.And)
          and len(rb[0].test.values) == 2 and isinstance(rb[0].test.values[0], ast.Compare)
          and isinstance(rb[0].test.values[0].ops[0], ast.In) and T.dotted(rb[0].test.values[0].comparators[0]) == "self._attr")
    keeps = None
    if ok:
        v = rb[0].test.values[1]
        if T.dotted(v) == "config.display_duplicate_attribute_warning":
            keeps = flag
        elif isinstance(v, ast.UnaryOp) and isinstance(v.op, ast.Not) and T.dotted(v.operand) == "config.display_duplicate_attribute_warning":
            keeps = not flag
    if keeps is None:
        T.fail(CONT, fr, "register_array_as_attribute does not start with the duplicate-name test")
    el = rb[0].orelse
    # else: reshape 1-d; try: n_elem, elem_size = shape; assert n_elem == len(self); ArrayAttribute(type(data[0,0].item()), n_elem, elem_size=.., default_value=..); ._data = data; return
    asserts = [n for n in ast.walk(ast.Module(body=el, type_ignores=[])) if isinstance(n, ast.Assert)]
    ok = (len(asserts) == 1 and isinstance(asserts[0].test, ast.Compare) and isinstance(asserts[0].test.ops[0], ast.Eq)
          and {T.dotted(asserts[0].test.left), "len(self)" if (isinstance(asserts[0].test.comparators[0], ast.Call)
               and T.dotted(asserts[0].test.comparators[0].func) == "len") else T.dotted(asserts[0].test.comparators[0])}
          == {"n_elem", "len(self)"})
    calls = [n for n in ast.walk(ast.Module(body=el, type_ignores=[])) if isinstance(n, ast.Call) and T.dotted(n.func) == "ArrayAttribute"]
    ok = ok and len(calls) == 1 and len(calls[0].args) >= 2 and T.dotted(calls[0].args[1]) == "n_elem"
    shares = [n for n in el if isinstance(n, ast.Assign) and isinstance(n.targets[0], ast.Attribute)
              and n.targets[0].attr == "_data" and T.dotted(n.value) == "data"]
    if not ok or len(shares) != 1:
        T.fail(CONT, fr, "register_array_as_attribute is not `assert n_elem == len(self); ArrayAttribute(type, n_elem, ..); ._data = data`")
    text += "Definition register_keeps_existing : bool := %s.\n" % ("true" if keeps else "false")
    text += "Definition create_keeps_existing : bool := %s.\n" % ("true" if flag else "false")
    return text, ("create_attribute", T.sha(src, fn))


KNOWN_DECORATORS = {"property", "staticmethod", "classmethod", "abstractmethod"}


def hygiene_of_callables(tree, rel):
    """every function of the anchored classes: only the decorators the model knows (no memoisation), and every
    optional parameter defaults to None or an immutable constant (no shared mutable default)"""
    facts = []
    for cls in [n for n in ast.walk(tree) if isinstance(n, ast.ClassDef)]:
        for fn in [n for n in cls.body if isinstance(n, ast.FunctionDef)]:
            for d in fn.decorator_list:
                name = T.dotted(d if not isinstance(d, ast.Call) else d.func)
                if name not in KNOWN_DECORATORS:
                    T.fail(rel, fn, "decorator %r on %s.%s is not one the model knows (memoisation changes object identity)" % (name, cls.name, fn.name))
            for dflt in list(fn.args.defaults) + [d for d in fn.args.kw_defaults if d is not None]:
                if not (isinstance(dflt, ast.Constant) and (dflt.value is None or isinstance(dflt.value, (bool, int, float, str)))):
                    T.fail(rel, fn, "parameter default of %s.%s is not None / an immutable constant" % (cls.name, fn.name))
            facts.append("%s.%s" % (cls.name, fn.name))
    return facts


def export_shapes(src, tree):
    """the shape of the array as_array returns, as a function of (rows, elemsize): np.squeeze drops every axis of
    length 1; `X[:,0] if elemsize==1 else X` drops the arity axis only"""
    def shape_of(rel, e, base):
        # e: expression returned; base(e) recognises the 2-d array
        if isinstance(e, ast.Call) and T.dotted(e.func) == "np.squeeze" and len(e.args) == 1 and not e.keywords and base(e.args[0]):
            return "squeeze [rows; elemsize]"
        if base(e):
            return "[rows; elemsize]"
        if isinstance(e, ast.IfExp) and base(e.orelse) and isinstance(e.body, ast.Subscript) and base(e.body.value) \
                and isinstance(e.body.slice, ast.Tuple) and len(e.body.slice.elts) == 2 \
                and isinstance(e.body.slice.elts[0], ast.Slice) and e.body.slice.elts[0].lower is None and e.body.slice.elts[0].upper is None \
                and isinstance(e.body.slice.elts[1], ast.Constant) and e.body.slice.elts[1].value == 0:
            return "if %s then [rows] else [rows; elemsize]" % bexp(rel, e.test, {"self.elemsize": "elemsize"})
        T.fail(rel, e, "as_array does not return np.squeeze(<array>) / <array> / <array>[:,0] if <test> else <array>")
    fn = T.find_def(tree, "ArrayAttribute.as_array", ATTR)
    body = T.body_nodoc(fn)
    if not (len(body) == 1 and isinstance(body[0], ast.Return)):
        T.fail(ATTR, fn, "dense as_array is not a single return")
    dense = shape_of(ATTR, body[0].value, lambda e: T.dotted(e) == "self._data")
    fn2 = T.find_def(tree, "Attribute.as_array", ATTR)
    b2 = T.body_nodoc(fn2)
    size = fn2.args.args[1].arg
    ok = (len(b2) == 3 and isinstance(b2[0], ast.Assign) and isinstance(b2[0].targets[0], ast.Name)
          and isinstance(b2[0].value, ast.Call) and T.dotted(b2[0].value.func) == "np.full"
          and isinstance(b2[0].value.args[0], ast.Tuple) and [T.dotted(x) for x in b2[0].value.args[0].elts] == [size, "self.elemsize"]
          and any(kw.arg == "dtype" and T.dotted(kw.value) == "self.type.dtype" for kw in b2[0].value.keywords)
          and isinstance(b2[1], ast.For) and isinstance(b2[2], ast.Return))
    if not ok:
        T.fail(ATTR, fn2, "sparse as_array is not `out = np.full((size, elemsize), default, dtype=self.type.dtype); for ..; return ..`")
    out = b2[0].targets[0].id
    sparse = shape_of(ATTR, b2[2].value, lambda e: T.dotted(e) == out)
    text = "Definition dense_export_shape (rows elemsize : Z) : list Z := %s.\n" % dense
    text += "Definition sparse_export_shape (rows elemsize : Z) : list Z := %s.\n" % sparse
    return text, [("ArrayAttribute.as_array", T.sha(src, fn)), ("Attribute.as_array", T.sha(src, fn2))]


def constructors(csrc, ctree):
    """the containers copy the data they are given and make their own attribute dict when none is passed"""
    fn = T.find_def(ctree, "_BaseDataContainer.__init__", CONT)
    body = T.body_nodoc(fn)
    ok = False
    for st in body:
        if (isinstance(st, ast.If) and isinstance(st.test, ast.Compare) and isinstance(st.test.ops[0], ast.Is)
                and T.dotted(st.test.left) == "attributes" and len(st.body) == 1 and isinstance(st.body[0], ast.Assign)
                and T.dotted(st.body[0].targets[0]) == "self._attr" and isinstance(st.body[0].value, (ast.Call, ast.Dict))
                and (T.dotted(getattr(st.body[0].value, "func", None)) == "dict" and not st.body[0].value.args
                     if isinstance(st.body[0].value, ast.Call) else not st.body[0].value.keys)):
            ok = True
    if not ok:
        T.fail(CONT, fn, "_BaseDataContainer.__init__ does not make a fresh dict when attributes is None")
    for cls, fields in (("DataContainer", {"self._data": "data"}), ("CornerDataContainer", {"self._elem": "elem", "self._adj": "adj"})):
        fn = T.find_def(ctree, cls + ".__init__", CONT)
        seen = {}
        for st in T.body_nodoc(fn):
            if isinstance(st, ast.Assign) and T.dotted(st.targets[0]) in fields:
                par = fields[T.dotted(st.targets[0])]
                v = st.value
                if not (isinstance(v, ast.IfExp) and isinstance(v.test, ast.Compare) and isinstance(v.test.ops[0], ast.Is)
                        and T.dotted(v.test.left) == par and isinstance(v.body, ast.List) and not v.body.elts
                        and isinstance(v.orelse, ast.Call) and T.dotted(v.orelse.func) == "list"
                        and [T.dotted(x) for x in v.orelse.args] == [par]):
                    T.fail(CONT, st, "%s.__init__ does not store `[] if %s is None else list(%s)`" % (cls, par, par))
                seen[par] = True
        if len(seen) != len(fields):
            T.fail(CONT, fn, "%s.__init__ does not initialise every data field" % cls)
    return "Definition container_copies_its_data : bool := true.\n"


def gen():
    src, tree = T.load(ATTR)
    csrc, ctree = T.load(CONT)
    _, conf = T.load(CONF)
    parts = []
    body = ""
    for f in (can_be_casted, oob):
        t, p = f(src, tree)
        body += t
        parts.append(p)
    t, p = setitem(src, tree, "Attribute", "sparse", False)
    body += t
    parts.append(p)
    t, p = setitem(src, tree, "ArrayAttribute", "dense", True)
    body += t
    parts.append(p)
    t, p = sparse_getitem(src, tree)
    body += t
    parts.append(p)
    t, ps = dense_misc(src, tree)
    body += t
    parts += ps
    t, ps = type_defaults(src, tree)
    body += t
    parts += ps
    t, p = string_width(src, tree)
    body += t
    parts.append(p)
    t, p = create_attribute(csrc, ctree, conf)
    body += t
    parts.append(p)
    t, ps = container(csrc, ctree, "DataContainer", "dc", ["self._data"], False)
    body += t
    parts += ps
    t, ps = container(csrc, ctree, "CornerDataContainer", "cdc", ["self._elem", "self._adj"], True)
    body += t
    parts += ps
    t, ps = export_shapes(src, tree)
    body += t
    parts += ps
    hygiene_of_callables(tree, ATTR)
    hygiene_of_callables(ctree, CONT)
    body += constructors(csrc, ctree)
    out = T.header("C05: decision expressions, tables and growth amounts of mesh_attributes.py / data_container.py", parts)
    out += "From Coq Require Import ZArith List Bool.\nImport ListNotations.\nRequire Import MV.C05.Types.\nOpen Scope Z_scope.\n\n"
    out += body
    return {"C05/Gen.v": out}
