"""transform.py / mesh.py / mesh_data.py / vector.py / rings.py / aabb.py -> coq/theories/C06/Gen.v

Extracts, fail-closed, the structural facts the C06 heap model depends on:
  * per transform: in-place `+=` vs rebinding assignment, the per-vertex expression, the default origin,
    whether translate works on a private copy of its parameter; normalize's formulas and call plumbing;
  * copy: deepcopy vs anything shallower, per branch; merge: how the vertices are taken over (alias / copy),
    the index shift expressions, the running offset update and its position; from_arrays: rows of the caller's
    array vs rows of a copy; _prepare_vertices / Vec.__new__: view vs copy; _compute_dimensionality's chain;
  * ring: the sequence of vertex appends (fresh vector vs an already stored one).
"""
import ast
import re

from . import common as T
from ..core import TranslationError

TR = "mouette/geometry/transform.py"
ME = "mouette/mesh/mesh.py"
MD = "mouette/mesh/mesh_data.py"
VE = "mouette/geometry/vector.py"
RI = "mouette/procedural/rings.py"
AB = "mouette/geometry/aabb.py"


# ------------------------------------------------------------------ every anchored callable: decorators and defaults
OK_DECORATORS = {"property", "staticmethod", "classmethod", "allowed_mesh_types", "forbidden_mesh_types", "abstractmethod"}


def FD(tree, qual, rel):
    """find a definition and fail closed on what changes the meaning of a CALL without touching the body: a decorator that
    is not known to be transparent (a cache would hand out one mutable object to every caller) and a default argument that
    is not None / an immutable constant (it would be shared by all calls)"""
    fn = T.find_def(tree, qual, rel)
    for d in getattr(fn, "decorator_list", []):
        nm = T.dotted(d.func) if isinstance(d, ast.Call) else T.dotted(d)
        if nm is None or nm.split(".")[-1] not in OK_DECORATORS:
            T.fail(rel, d, "decorator on %s is not known to be transparent" % qual)
    if isinstance(fn, ast.FunctionDef):
        for dv in list(fn.args.defaults) + [x for x in fn.args.kw_defaults if x is not None]:
            ok = isinstance(dv, ast.Constant) and (dv.value is None or isinstance(dv.value, (bool, int, float, str)))
            ok = ok or (isinstance(dv, ast.UnaryOp) and isinstance(dv.operand, ast.Constant))
            if not ok:
                T.fail(rel, dv, "default argument of %s is not None / an immutable constant" % qual)
    return fn


# ------------------------------------------------------------------ typed vector expressions
class Ex:
    def __init__(self, rel, env, point=None):
        self.rel, self.env, self.point = rel, env, point

    def cst(self, node, v):
        if isinstance(v, bool) or not isinstance(v, (int, float)) or v != int(v):
            T.fail(self.rel, node, "constant is not an integer value")
        v = int(v)
        if v == 0:
            return ("s", "(z0 O)")
        if v == 1:
            return ("s", "(o1 O)")
        return ("s", "(cst O (%d))" % v)

    def tr(self, e):
        rel = self.rel
        if isinstance(e, ast.Constant):
            return self.cst(e, e.value)
        if isinstance(e, ast.Name):
            if e.id in self.env:
                return self.env[e.id]
            T.fail(rel, e, "unknown name " + e.id)
        if isinstance(e, ast.Attribute):
            d = T.dotted(e)
            if d in self.env:
                return self.env[d]
            if e.attr in ("x", "y", "z"):
                t, c = self.tr(e.value)
                if t != "v":
                    T.fail(rel, e, "component of a non-vector")
                return ("s", "(v%s %s)" % (e.attr, c))
            T.fail(rel, e, "unknown attribute " + str(d))
        if isinstance(e, ast.Subscript):
            if self.point is not None and T.dotted(e.value) == "mesh.vertices" and isinstance(e.slice, ast.Name) \
                    and e.slice.id == self.point:
                return ("v", "p")
            if isinstance(e.slice, ast.Constant) and e.slice.value in (0, 1, 2) and not isinstance(e.slice.value, bool):
                t, c = self.tr(e.value)
                if t != "v":
                    T.fail(rel, e, "component of a non-vector")
                return ("s", "(v%s %s)" % ("xyz"[e.slice.value], c))
            T.fail(rel, e, "unsupported subscript")
        if isinstance(e, ast.UnaryOp) and isinstance(e.op, ast.USub):
            t, c = self.tr(e.operand)
            return (t, "(%s O %s)" % ("vopp" if t == "v" else "opp", c))
        if isinstance(e, ast.BinOp):
            ta, a = self.tr(e.left)
            tb, b = self.tr(e.right)
            if isinstance(e.op, (ast.Add, ast.Sub)):
                nm = "add" if isinstance(e.op, ast.Add) else "sub"
                if ta != tb:
                    T.fail(rel, e, "adding a scalar and a vector")
                return (ta, "(%s O %s %s)" % (("v" + nm) if ta == "v" else nm, a, b))
            if isinstance(e.op, ast.Mult):
                if ta == "s" and tb == "s":
                    return ("s", "(mul O %s %s)" % (a, b))
                if ta == "s" and tb == "v":
                    return ("v", "(smul O %s %s)" % (a, b))
                if ta == "v" and tb == "s":
                    return ("v", "(smul O %s %s)" % (b, a))
                T.fail(rel, e, "vector * vector")
            if isinstance(e.op, ast.Div):
                if tb != "s":
                    T.fail(rel, e, "division by a vector")
                return (ta, "(%s O %s %s)" % ("vdivs" if ta == "v" else "div", a, b))
            T.fail(rel, e, "unsupported operator")
        if isinstance(e, ast.Call):
            f = T.dotted(e.func)
            if e.keywords:
                T.fail(rel, e, "keyword arguments in an expression")
            if f == "Vec" and len(e.args) == 3:
                cs = [self.tr(a) for a in e.args]
                if any(t != "s" for t, _ in cs):
                    T.fail(rel, e, "Vec(a,b,c) with non-scalar components")
                return ("v", "(mkv %s %s %s)" % tuple(c for _, c in cs))
            if f == "Vec.zeros" and len(e.args) == 1 and isinstance(e.args[0], ast.Constant) and e.args[0].value == 3:
                return ("v", "(vzero O)")
            if f == "rot.apply" and len(e.args) == 1 and "rot" in self.env:
                t, c = self.tr(e.args[0])
                if t != "v":
                    T.fail(rel, e, "rot.apply of a scalar")
                return ("v", "(rot %s)" % c)
            if f in ("np.max", "max") and len(e.args) == 1:
                t, c = self.tr(e.args[0])
                if t != "v":
                    T.fail(rel, e, "max of a scalar")
                return ("s", "(vmax3 O %s)" % c)
            if f == "sum" and len(e.args) == 1 and T.dotted(e.args[0]) == "mesh.vertices" and "#sum" in self.env:
                return self.env["#sum"]
            if f == "len" and len(e.args) == 1 and T.dotted(e.args[0]) == "mesh.vertices" and "#len" in self.env:
                return self.env["#len"]
            T.fail(rel, e, "unsupported call " + str(f))
        T.fail(rel, e, "unsupported expression")

    def vec(self, e):
        t, c = self.tr(e)
        if t != "v":
            T.fail(self.rel, e, "expected a vector expression")
        return c

    def scal(self, e):
        t, c = self.tr(e)
        if t != "s":
            T.fail(self.rel, e, "expected a scalar expression")
        return c


# ------------------------------------------------------------------ alias / copy classification
def classify(rel, e, base, vec_views):
    """Does expression `e` (built from the object(s) named in `base`) denote the SAME buffer (Alias) or a new one (Copy)?"""
    d = T.dotted(e)
    if d is not None and d in base:
        return "Alias"
    if isinstance(e, ast.Subscript) and T.dotted(e.value) in base and not isinstance(e.slice, ast.Slice):
        return "Alias"
    if isinstance(e, ast.Call):
        f = T.dotted(e.func)
        if f in ("np.array", "np.copy", "deepcopy", "copy.deepcopy", "numpy.array") and len(e.args) >= 1:
            for kw in e.keywords:
                if kw.arg == "copy":
                    T.fail(rel, e, "np.array(..., copy=...) is not recognised")
                if kw.arg not in ("dtype",):
                    T.fail(rel, e, "unrecognised keyword " + str(kw.arg))
            classify(rel, e.args[0], base, vec_views)  # must itself be recognisable
            return "Copy"
        if isinstance(e.func, ast.Attribute) and e.func.attr == "copy" and not e.args and not e.keywords:
            classify(rel, e.func.value, base, vec_views)
            return "Copy"
        if f in ("Vec", "np.asarray") and len(e.args) == 1 and not e.keywords:
            inner = classify(rel, e.args[0], base, vec_views)
            if f == "Vec" and not vec_views:
                return "Copy"
            return inner
        if f == "Vec" and len(e.args) > 1:
            return "Copy"
    T.fail(rel, e, "cannot tell whether this shares or copies the vector")


def elementwise(rel, e, base, vec_views):
    """mode of a container expression: `X` / `list(X)` share the elements; `[g(v) for v in X]` by g."""
    d = T.dotted(e)
    if d is not None and d in base:
        return "Alias"
    if isinstance(e, ast.Call) and T.dotted(e.func) == "list" and len(e.args) == 1 and not e.keywords:
        return elementwise(rel, e.args[0], base, vec_views)
    if isinstance(e, ast.Call) and T.dotted(e.func) in ("np.array", "np.copy") and len(e.args) >= 1:
        return classify(rel, e, base, vec_views)
    if isinstance(e, ast.Call) and isinstance(e.func, ast.Attribute) and e.func.attr == "copy" and not e.args:
        return classify(rel, e, base, vec_views)
    if isinstance(e, ast.ListComp) and len(e.generators) == 1 and not e.generators[0].ifs \
            and isinstance(e.generators[0].target, ast.Name) and T.dotted(e.generators[0].iter) in base:
        return classify(rel, e.elt, {e.generators[0].target.id}, vec_views)
    T.fail(rel, e, "cannot tell whether the vertices are shared or copied")


# ------------------------------------------------------------------ transform.py
def loop_of(rel, fn, stmts):
    """`for i in mesh.id_vertices: <body>` followed by `return mesh`"""
    if len(stmts) != 2 or not isinstance(stmts[0], ast.For) or not isinstance(stmts[1], ast.Return) \
            or T.dotted(stmts[1].value) != "mesh":
        T.fail(rel, fn, "body is not `for i in mesh.id_vertices: ...; return mesh`")
    lp = stmts[0]
    if T.dotted(lp.iter) != "mesh.id_vertices" or not isinstance(lp.target, ast.Name) or lp.orelse:
        T.fail(rel, lp, "loop is not over mesh.id_vertices")
    return lp.target.id, lp.body


def slot_target(rel, node, var):
    if not (isinstance(node, ast.Subscript) and T.dotted(node.value) == "mesh.vertices"
            and isinstance(node.slice, ast.Name) and node.slice.id == var):
        T.fail(rel, node, "assignment target is not mesh.vertices[%s]" % var)


def default_orig(rel, fn, st, allowed):
    """`if orig is None: orig = <expr>` -> expr"""
    if not (isinstance(st, ast.If) and isinstance(st.test, ast.Compare) and T.dotted(st.test.left) == "orig"
            and len(st.test.ops) == 1 and isinstance(st.test.ops[0], ast.Is)
            and isinstance(st.test.comparators[0], ast.Constant) and st.test.comparators[0].value is None
            and not st.orelse and len(st.body) == 1 and isinstance(st.body[0], ast.Assign)
            and T.dotted(st.body[0].targets[0]) == "orig"):
        T.fail(rel, st, "expected `if orig is None: orig = ...`")
    return st.body[0].value


def params(fn):
    return [a.arg for a in fn.args.args]


def gen_transform(parts, vec_views):
    src, tree = T.load(TR)
    out = []

    def harmless(st):
        """a bare call (or an `if` around bare calls) none of whose arguments mentions the mesh: warnings, logging, checks"""
        if isinstance(st, ast.Expr) and isinstance(st.value, ast.Call):
            return not any(isinstance(n, ast.Name) and n.id in ("mesh", "self") for n in ast.walk(st.value))
        if isinstance(st, ast.If) and not st.orelse:
            return all(harmless(x) for x in st.body) and \
                not any(isinstance(n, ast.Name) and n.id in ("mesh", "self") for n in ast.walk(st.test))
        return isinstance(st, (ast.Import, ast.ImportFrom))

    def fdef(name):
        fn = FD(tree, name, TR)
        parts.append(("transform." + name, T.sha(src, fn)))
        return fn, [st for st in T.body_nodoc(fn) if not harmless(st)]

    # ---- translate
    fn, b = fdef("translate")
    if params(fn) != ["mesh", "tr"]:
        T.fail(TR, fn, "translate does not take (mesh, tr)")
    byval = False
    if len(b) == 3 and isinstance(b[0], ast.Assign) and T.dotted(b[0].targets[0]) == "tr":
        byval = classify(TR, b[0].value, {"tr"}, vec_views) == "Copy"
        b = b[1:]
    var, body = loop_of(TR, fn, b)
    if len(body) != 1:
        T.fail(TR, fn, "translate's loop body is not a single statement")
    st = body[0]
    env = {"tr": ("v", "tr")}
    if isinstance(st, ast.AugAssign):
        slot_target(TR, st.target, var)
        if not isinstance(st.op, (ast.Add, ast.Sub)):
            T.fail(TR, st, "unsupported in-place operator")
        e = Ex(TR, env, var).vec(st.value)
        kind = "InPlace"
        expr = "(%s O p %s)" % ("vadd" if isinstance(st.op, ast.Add) else "vsub", e)
    elif isinstance(st, ast.Assign):
        slot_target(TR, st.targets[0], var)
        kind = "Rebind"
        expr = Ex(TR, env, var).vec(st.value)
    else:
        T.fail(TR, st, "unsupported statement in translate's loop")
    out.append("Definition translate_param_by_value : bool := %s." % ("true" if byval or kind == "Rebind" else "false"))
    out.append("Definition translate_kind : tkind := %s." % kind)
    out.append("Definition translate_pt (tr p : vec T) : vec T := %s." % expr)

    # ---- rotate / scale / scale_xyz
    def rebinding(name, pnames, env, skip_preamble=False):
        fn, b = fdef(name)
        if params(fn) != pnames:
            T.fail(TR, fn, "%s does not take %s" % (name, pnames))
        if skip_preamble:
            while b and not (isinstance(b[0], ast.If) and isinstance(b[0].test, ast.Compare)
                             and T.dotted(b[0].test.left) == "orig"):
                st = b[0]
                ok = isinstance(st, ast.If)
                if ok:
                    for n in ast.walk(st):
                        if isinstance(n, ast.Assign) and T.dotted(n.targets[0]) != "rot":
                            ok = False
                        if isinstance(n, (ast.AugAssign, ast.For, ast.While, ast.Return)):
                            ok = False
                if not ok:
                    T.fail(TR, st, "unexpected statement before the origin default of " + name)
                b = b[1:]
        if not b:
            T.fail(TR, fn, "no origin default in " + name)
        dflt = default_orig(TR, fn, b[0], None)
        var, body = loop_of(TR, fn, b[1:])
        env = dict(env)
        env["orig"] = ("v", "orig")
        if len(body) == 2 and isinstance(body[0], ast.Assign) and isinstance(body[0].targets[0], ast.Name):
            # Pi = mesh.vertices[i]
            slot_target(TR, body[0].value, var)
            env[body[0].targets[0].id] = ("v", "p")
            body = body[1:]
        if len(body) != 1:
            T.fail(TR, fn, "%s's loop body is not recognised" % name)
        st = body[0]
        if isinstance(st, ast.Assign):
            slot_target(TR, st.targets[0], var)
            kind = "Rebind"
            expr = Ex(TR, env, var).vec(st.value)
        else:
            T.fail(TR, st, "%s does not rebind mesh.vertices[i]" % name)
        # default origin
        if isinstance(dflt, ast.Subscript) and T.dotted(dflt.value) == "mesh.vertices" \
                and isinstance(dflt.slice, ast.Constant) and dflt.slice.value == 0:
            d = "DVertex0"
        else:
            dv = Ex(TR, {}, None).vec(dflt)
            if dv != "(vzero O)":
                T.fail(TR, dflt, "default origin is neither the zero vector nor mesh.vertices[0]")
            d = "DZero"
        return kind, expr, d

    # the convention of the Euler-angle form: the one string of the one Rotation.from_euler call of rotate
    rfn = FD(tree, "rotate", TR)
    calls = [n for n in ast.walk(rfn) if isinstance(n, ast.Call) and (T.dotted(n.func) or "").endswith("from_euler")]
    if len(calls) != 1 or len(calls[0].args) != 2 or calls[0].keywords or not isinstance(calls[0].args[0], ast.Constant) \
            or T.dotted(calls[0].args[1]) != "rot":
        T.fail(TR, rfn, "rotate does not build its Euler rotation by one call Rotation.from_euler(<string>, rot)")
    seq = {"xyz": "Fixed_xyz", "XYZ": "Moving_xyz"}.get(calls[0].args[0].value)
    if seq is None:
        T.fail(TR, calls[0], "Euler convention %r of rotate is not one the model knows" % (calls[0].args[0].value,))
    out.append("Definition euler_seq : eulerseq := %s." % seq)
    k, e, d = rebinding("rotate", ["mesh", "rot", "orig"], {"rot": ("f", "rot")}, skip_preamble=True)
    out.append("Definition rotate_kind : tkind := %s." % k)
    out.append("Definition rotate_default : dorig := %s." % d)
    out.append("Definition rotate_pt (rot : vec T -> vec T) (orig p : vec T) : vec T := %s." % e)
    k, e, d = rebinding("scale", ["mesh", "factor", "orig"], {"factor": ("s", "factor")})
    out.append("Definition scale_kind : tkind := %s." % k)
    out.append("Definition scale_default : dorig := %s." % d)
    out.append("Definition scale_pt (factor : T) (orig p : vec T) : vec T := %s." % e)
    k, e, d = rebinding("scale_xyz", ["mesh", "fx", "fy", "fz", "orig"],
                        {"fx": ("s", "fx"), "fy": ("s", "fy"), "fz": ("s", "fz")})
    out.append("Definition scale_xyz_kind : tkind := %s." % k)
    out.append("Definition scale_xyz_default : dorig := %s." % d)
    out.append("Definition scale_xyz_pt (fx fy fz : T) (orig p : vec T) : vec T := %s." % e)

    # ---- normalize
    fn, b = fdef("normalize")
    if params(fn) != ["mesh", "center_at_zero"]:
        T.fail(TR, fn, "normalize does not take (mesh, center_at_zero)")
    if not (len(b) == 3 and isinstance(b[0], ast.Assign) and T.dotted(b[0].targets[0]) == "bounding"
            and isinstance(b[0].value, ast.Call) and T.dotted(b[0].value.func) == "AABB.of_mesh"
            and len(b[0].value.args) == 1 and T.dotted(b[0].value.args[0]) == "mesh" and not b[0].value.keywords
            and isinstance(b[1], ast.Assign) and T.dotted(b[1].targets[0]) == "sc"
            and isinstance(b[2], ast.If) and T.dotted(b[2].test) == "center_at_zero"
            and len(b[2].body) == 1 and len(b[2].orelse) == 1):
        T.fail(TR, fn, "normalize is not `bounding = AABB.of_mesh(mesh); sc = ...; if center_at_zero: return ... else: return ...`")
    benv = {"bounding.span": ("v", "span"), "bounding.center": ("v", "center"), "bounding.mini": ("v", "mini"),
            "bounding.maxi": ("v", "maxi")}
    sc = Ex(TR, benv).scal(b[1].value)
    out.append("Definition normalize_sc (mini maxi center span : vec T) : T := %s." % sc)
    benv["sc"] = ("s", "sc")

    def branch(st, nm):
        if not (isinstance(st, ast.Return) and isinstance(st.value, ast.Call) and T.dotted(st.value.func) == "scale"
                and len(st.value.args) == 2 and not st.value.keywords):
            T.fail(TR, st, "normalize branch is not `return scale(translate(mesh, t), f)`")
        inner, fac = st.value.args
        if not (isinstance(inner, ast.Call) and T.dotted(inner.func) == "translate" and len(inner.args) == 2
                and not inner.keywords and T.dotted(inner.args[0]) == "mesh"):
            T.fail(TR, st, "normalize branch is not `return scale(translate(mesh, t), f)`")
        out.append("Definition normalize_%s_tr (mini maxi center span : vec T) (sc : T) : vec T := %s."
                   % (nm, Ex(TR, benv).vec(inner.args[1])))
        out.append("Definition normalize_%s_factor (mini maxi center span : vec T) (sc : T) : T := %s."
                   % (nm, Ex(TR, benv).scal(fac)))
    branch(b[2].body[0], "centre")
    branch(b[2].orelse[0], "corner")

    # ---- fit_into_unit_cube: return normalize(mesh, center_at_zero=False)
    fn, b = fdef("fit_into_unit_cube")
    ok = len(b) == 1 and isinstance(b[0], ast.Return) and isinstance(b[0].value, ast.Call) \
        and T.dotted(b[0].value.func) == "normalize"
    flag = None
    if ok:
        c = b[0].value
        args = {}
        for nm, a in zip(["mesh", "center_at_zero"], c.args):
            args[nm] = a
        for kw in c.keywords:
            args[kw.arg] = kw.value
        if T.dotted(args.get("mesh")) == "mesh" and isinstance(args.get("center_at_zero"), ast.Constant) \
                and isinstance(args["center_at_zero"].value, bool) and set(args) == {"mesh", "center_at_zero"}:
            flag = args["center_at_zero"].value
    if flag is None:
        T.fail(TR, fn, "fit_into_unit_cube is not `return normalize(mesh, center_at_zero=<bool>)`")
    out.append("Definition fit_centre_flag : bool := %s." % ("true" if flag else "false"))

    # ---- translate_to_origin: return translate(mesh, <expr in sum(mesh.vertices), len(mesh.vertices)>)
    fn, b = fdef("translate_to_origin")
    if not (len(b) == 1 and isinstance(b[0], ast.Return) and isinstance(b[0].value, ast.Call)
            and T.dotted(b[0].value.func) == "translate" and len(b[0].value.args) == 2 and not b[0].value.keywords
            and T.dotted(b[0].value.args[0]) == "mesh"):
        T.fail(TR, fn, "translate_to_origin is not `return translate(mesh, t)`")
    e = Ex(TR, {"#sum": ("v", "vs"), "#len": ("s", "n")}).vec(b[0].value.args[1])
    out.append("Definition to_origin_tr (vs : vec T) (n : T) : vec T := %s." % e)

    # ---- flatten (explicit dim): mesh.vertices[i][dim] = <const>   (in place)
    fn, b = fdef("flatten")
    if params(fn) != ["mesh", "dim"] or len(b) != 3:
        T.fail(TR, fn, "flatten is not recognised")
    var, body = loop_of(TR, fn, b[1:])
    st = body[0] if len(body) == 1 else None
    if not (isinstance(st, ast.Assign) and isinstance(st.targets[0], ast.Subscript)
            and isinstance(st.targets[0].slice, ast.Name) and st.targets[0].slice.id == "dim"):
        T.fail(TR, fn, "flatten's loop is not `mesh.vertices[i][dim] = c`")
    slot_target(TR, st.targets[0].value, var)
    out.append("Definition flatten_value : T := %s." % Ex(TR, {}).scal(st.value))
    return out


# ------------------------------------------------------------------ aabb.py (center / span)
def gen_aabb(parts):
    src, tree = T.load(AB)
    out = []
    for nm in ("span", "center"):
        fn = FD(tree, "AABB." + nm, AB)
        parts.append(("AABB." + nm, T.sha(src, fn)))
        b = T.body_nodoc(fn)
        if len(b) != 1 or not isinstance(b[0], ast.Return):
            T.fail(AB, fn, "AABB.%s is not a single return" % nm)
        e = Ex(AB, {"self._p1": ("v", "p1"), "self._p2": ("v", "p2")}).vec(b[0].value)
        out.append("Definition aabb_%s (p1 p2 : vec T) : vec T := %s." % (nm, e))
    for nm, fld in (("mini", "self._p1"), ("maxi", "self._p2")):
        fn = FD(tree, "AABB." + nm, AB)
        b = T.body_nodoc(fn)
        if not (len(b) == 1 and isinstance(b[0], ast.Return) and T.dotted(b[0].value) == fld):
            T.fail(AB, fn, "AABB.%s is not `return %s`" % (nm, fld))
    return out


# ------------------------------------------------------------------ vector.py / mesh_data.py
def vec_is_view():
    src, tree = T.load(VE)
    fn = FD(tree, "Vec.__new__", VE)
    b = T.body_nodoc(fn)
    if not (len(b) == 2 and isinstance(b[0], ast.If) and isinstance(b[1], ast.Return)):
        T.fail(VE, fn, "Vec.__new__ is not `if len(a)==1: ... else: ...; return obj`")
    st = b[0].body[0] if len(b[0].body) == 1 else None
    if not (isinstance(st, ast.Assign) and isinstance(st.value, ast.Call) and isinstance(st.value.func, ast.Attribute)
            and st.value.func.attr == "view" and isinstance(st.value.func.value, ast.Call)
            and len(st.value.func.value.args) == 1 and isinstance(st.value.func.value.args[0], ast.Subscript)
            and T.dotted(st.value.func.value.args[0].value) == "a"):
        T.fail(VE, fn, "Vec(x) is not `np.as[any]array(a[0]).view(cls)` / `np.array(a[0]).view(cls)`")
    f = T.dotted(st.value.func.value.func)
    if f in ("np.asarray", "np.asanyarray"):
        return True, (("Vec.__new__", T.sha(src, fn)))
    if f == "np.array" and not st.value.func.value.keywords:
        return False, (("Vec.__new__", T.sha(src, fn)))
    T.fail(VE, fn, "Vec(x) builds its array with an unrecognised call " + str(f))


def gen_mesh_data(parts, vec_views):
    src, tree = T.load(MD)
    out = []
    fn = FD(tree, "RawMeshData._prepare_vertices", MD)
    parts.append(("RawMeshData._prepare_vertices", T.sha(src, fn)))
    b = T.body_nodoc(fn)
    ok = len(b) == 1 and isinstance(b[0], ast.For) and T.dotted(b[0].iter) == "self.id_vertices" \
        and isinstance(b[0].target, ast.Name)
    if not ok:
        T.fail(MD, fn, "_prepare_vertices is not `for iv in self.id_vertices: self.vertices[iv] = ...`")
    # straight-line body over local names: each local is a fresh array (Copy) or the stored vector itself (Alias)
    loc = {}
    floats = False
    var = b[0].target.id
    body = list(b[0].body)

    def mode_of(e):
        nonlocal floats
        if isinstance(e, ast.Name) and e.id in loc:
            return loc[e.id]
        if isinstance(e, ast.Call) and T.dotted(e.func) == "np.append" and len(e.args) == 2 and not e.keywords:
            mode_of(e.args[0])
            return "Copy"                      # np.append always builds a new array
        if isinstance(e, ast.Call) and T.dotted(e.func) in ("Vec", "np.asarray") and len(e.args) == 1 \
                and isinstance(e.args[0], ast.Name) and e.args[0].id in loc:
            return "Copy" if not vec_views else loc[e.args[0].id]
        m = classify(MD, e, {"self.vertices"}, vec_views)
        if isinstance(e, ast.Call) and T.dotted(e.func) == "np.array":
            for kw in e.keywords:
                if kw.arg == "dtype" and T.dotted(kw.value) == "float":
                    floats = True
        return m
    mode = None
    for st in body:
        if isinstance(st, ast.Assign) and isinstance(st.targets[0], ast.Name):
            loc[st.targets[0].id] = mode_of(st.value)
        elif isinstance(st, ast.If) and not st.orelse and len(st.body) == 1 and isinstance(st.body[0], ast.Assign) \
                and isinstance(st.body[0].targets[0], ast.Name) and st.body[0].targets[0].id in loc:
            # conditional re-binding of a local (2-D points padded with z = 0): both branches must agree on the mode
            nm = st.body[0].targets[0].id
            m2 = mode_of(st.body[0].value)
            if m2 != loc[nm]:
                T.fail(MD, st, "the padded and the unpadded vector are not taken over in the same way")
        elif isinstance(st, ast.Assign) and isinstance(st.targets[0], ast.Subscript) \
                and T.dotted(st.targets[0].value) == "self.vertices" and T.dotted(st.targets[0].slice) == var and mode is None:
            mode = mode_of(st.value)
        else:
            T.fail(MD, st, "unexpected statement in _prepare_vertices")
    if mode is None:
        T.fail(MD, fn, "_prepare_vertices does not assign self.vertices[iv]")
    out.append("Definition prepare_vertex_mode : cmode := %s." % mode)
    out.append("Definition prepare_stores_floats : bool := %s." % ("true" if floats else "false"))
    # dimensionality chain
    fn = FD(tree, "RawMeshData._compute_dimensionality", MD)
    parts.append(("RawMeshData._compute_dimensionality", T.sha(src, fn)))
    b = T.body_nodoc(fn)
    node = b[0] if len(b) == 1 else None
    chain = []
    while isinstance(node, ast.If):
        t = node.test
        if not (isinstance(t, ast.UnaryOp) and isinstance(t.op, ast.Not) and isinstance(t.operand, ast.Call)
                and isinstance(t.operand.func, ast.Attribute) and t.operand.func.attr == "empty"
                and T.dotted(t.operand.func.value) in ("self.cells", "self.faces", "self.edges")):
            T.fail(MD, node, "dimensionality test is not `not self.<container>.empty()`")
        chain.append((T.dotted(t.operand.func.value).split(".")[1], dim_const(node.body)))
        if len(node.orelse) != 1:
            T.fail(MD, node, "dimensionality chain without else")
        nxt = node.orelse[0]
        if isinstance(nxt, ast.If):
            node = nxt
        else:
            chain.append((None, dim_const(node.orelse)))
            node = None
    if len(chain) < 2 or chain[-1][0] is not None:
        T.fail(MD, fn, "_compute_dimensionality is not an if/elif/else chain")
    term = str(chain[-1][1])
    for c, v in reversed(chain[:-1]):
        term = "(if has_%s then %d else %s)" % (c, v, term)
    out.append("Definition data_dim (has_edges has_faces has_cells : bool) : Z := %s." % term)
    return out


def dim_const(body):
    if not (len(body) == 1 and isinstance(body[0], ast.Assign) and T.dotted(body[0].targets[0]) == "self._dimensionality"
            and isinstance(body[0].value, ast.Constant) and isinstance(body[0].value.value, int)):
        T.fail(MD, body[0], "branch is not `self._dimensionality = <int>`")
    return body[0].value.value


# ------------------------------------------------------------------ mesh.py
def zexpr(rel, e, env):
    if isinstance(e, ast.Constant) and isinstance(e.value, int) and not isinstance(e.value, bool):
        return "(%d)" % e.value
    if isinstance(e, ast.Name) and e.id in env:
        return env[e.id]
    if isinstance(e, ast.Call) and T.dotted(e.func) == "len" and len(e.args) == 1 and T.dotted(e.args[0]) in env:
        return env[T.dotted(e.args[0])]
    if isinstance(e, ast.BinOp) and type(e.op) in (ast.Add, ast.Sub, ast.Mult):
        op = {ast.Add: "+", ast.Sub: "-", ast.Mult: "*"}[type(e.op)]
        return "(%s %s %s)" % (zexpr(rel, e.left, env), op, zexpr(rel, e.right, env))
    if isinstance(e, ast.UnaryOp) and isinstance(e.op, ast.USub):
        return "(- %s)" % zexpr(rel, e.operand, env)
    T.fail(rel, e, "unsupported index expression")


def gen_mesh(parts, vec_views):
    src, tree = T.load(ME)
    out = []
    # ---- copy
    fn = FD(tree, "copy", ME)
    parts.append(("mesh.copy", T.sha(src, fn)))
    if params(fn) != ["mesh", "copy_attributes", "copy_connectivity"]:
        T.fail(ME, fn, "copy does not take (mesh, copy_attributes, copy_connectivity)")
    b = T.body_nodoc(fn)
    iff = [s for s in b if isinstance(s, ast.If) and T.dotted(s.test) == "copy_attributes"]
    if len(iff) != 1:
        T.fail(ME, fn, "copy has no `if copy_attributes:` split")
    first = [s for s in b if isinstance(s, ast.Assign) and T.dotted(s.targets[0]) == "copy_mesh"]
    if not (len(first) == 1 and isinstance(first[0].value, ast.Call) and not first[0].value.args
            and isinstance(first[0].value.func, ast.Call) and T.dotted(first[0].value.func.func) == "type"
            and T.dotted(first[0].value.func.args[0]) == "mesh"):
        T.fail(ME, fn, "copy does not start from `type(mesh)()`")

    ELEMS = {"edges": 0, "faces": 1, "cells": 2}
    CORN = {"face_corners": 0, "cell_corners": 2, "cell_faces": 4}

    def branch(stmts, data_only):
        """every `copy_mesh.X... = deepcopy(mesh.Y...)`: which container of the source fills which container of the copy.
        Returns (mode of the vertices line, {elem index: source elem index}, {corner table index: source table index})."""
        vmode = None
        elem, corn = {}, {}

        def visit(ss):
            nonlocal vmode
            for s in ss:
                if isinstance(s, ast.If):
                    t = s.test
                    if not (isinstance(t, ast.Call) and T.dotted(t.func) == "hasattr" and T.dotted(t.args[0]) == "mesh") or s.orelse:
                        T.fail(ME, s, "unexpected condition inside copy")
                    visit(s.body)
                    continue
                if not isinstance(s, ast.Assign):
                    T.fail(ME, s, "unexpected statement inside copy")
                tg = T.dotted(s.targets[0])
                if tg is None or not tg.startswith("copy_mesh."):
                    T.fail(ME, s, "copy assigns something that is not a field of copy_mesh")
                if not (isinstance(s.value, ast.Call) and len(s.value.args) == 1):
                    T.fail(ME, s, "copy_mesh field is not built by a one-argument call")
                sp = T.dotted(s.value.args[0])
                if sp is None or not sp.startswith("mesh."):
                    T.fail(ME, s, "copy_mesh field is not built from a field of mesh")
                tpath, spath = tg[len("copy_mesh."):].split("."), sp[len("mesh."):].split(".")
                f = T.dotted(s.value.func)
                if f in ("deepcopy", "copy.deepcopy"):
                    mode = "Copy"
                elif f in ("copy", "copy.copy", "list"):
                    mode = "Alias"      # a shallow copy keeps the very same vectors
                else:
                    T.fail(ME, s, "unrecognised copier " + str(f))
                tc, sc = tpath[0], spath[0]
                if tc == "vertices":
                    if spath != tpath or tpath[1:] != (["_data"] if data_only else []):
                        T.fail(ME, s, "the vertices of the copy are not built from the vertices of the source")
                    vmode = mode
                    continue
                if mode != "Copy":
                    T.fail(ME, s, "copy_mesh.%s is only shallow-copied" % ".".join(tpath))
                if tc in ELEMS:
                    if sc not in ELEMS or tpath[1:] != spath[1:] or tpath[1:] != (["_data"] if data_only else []):
                        T.fail(ME, s, "element container %s filled from %s" % (".".join(tpath), ".".join(spath)))
                    elem[ELEMS[tc]] = ELEMS[sc]
                elif tc in CORN:
                    if sc not in CORN:
                        T.fail(ME, s, "corner container %s filled from %s" % (".".join(tpath), ".".join(spath)))
                    if data_only:
                        sub = {"_elem": 0, "_adj": 1}
                        if len(tpath) != 2 or len(spath) != 2 or tpath[1] not in sub or spath[1] not in sub:
                            T.fail(ME, s, "corner table %s filled from %s" % (".".join(tpath), ".".join(spath)))
                        corn[CORN[tc] + sub[tpath[1]]] = CORN[sc] + sub[spath[1]]
                    else:
                        if len(tpath) != 1 or len(spath) != 1:
                            T.fail(ME, s, "corner container %s filled from %s" % (".".join(tpath), ".".join(spath)))
                        corn[CORN[tc]] = CORN[sc]
                        corn[CORN[tc] + 1] = CORN[sc] + 1
                else:
                    T.fail(ME, s, "unknown container " + tc)
        visit(stmts)
        if vmode is None:
            T.fail(ME, fn, "copy does not copy the vertices in one branch")
        if set(elem) != {0, 1, 2} or set(corn) != {0, 1, 2, 3, 4, 5}:
            T.fail(ME, fn, "copy leaves out a container (elements %s, corner tables %s)" % (sorted(elem), sorted(corn)))
        return vmode, elem, corn
    m1, e1, c1 = branch(iff[0].body, False)
    m2, e2, c2 = branch(iff[0].orelse, True)
    out.append("Definition copy_mode_with_attributes : cmode := %s." % m1)
    out.append("Definition copy_mode_data_only : cmode := %s." % m2)
    out.append("(* the attributes live in the containers: deep-copying a whole container (first branch) takes them along as\n"
               "   values of the copy, copying only `_data` / `_elem` / `_adj` (second branch) leaves the copy without any *)")
    out.append("Definition copy_keeps_attributes (attr : bool) : bool := if attr then true else false.")

    def table(d, n):
        return "match k with " + " | ".join("%d%%nat => %d%%nat" % (k, d[k]) for k in range(n - 1)) + " | _ => %d%%nat end" % d[n - 1]
    out.append("(* which container of the source fills container k of the copy: 0 edges, 1 faces, 2 cells *)")
    out.append("Definition copy_elem_src (attr : bool) (k : nat) : nat := if attr then %s else %s." % (table(e1, 3), table(e2, 3)))
    out.append("(* corner tables: 0/1 face_corners elem/adj, 2/3 cell_corners elem/adj, 4/5 cell_faces elem/adj *)")
    out.append("Definition copy_corn_src (attr : bool) (k : nat) : nat := if attr then %s else %s." % (table(c1, 6), table(c2, 6)))
    # connectivity
    cc = [s for s in b if isinstance(s, ast.If) and isinstance(s.test, ast.BoolOp)
          and any(T.dotted(v) == "copy_connectivity" for v in s.test.values)]
    if len(cc) != 1 or len(cc[0].body) != 1 or not isinstance(cc[0].body[0], ast.Assign) \
            or T.dotted(cc[0].body[0].targets[0]) != "copy_mesh.connectivity":
        T.fail(ME, fn, "copy's connectivity branch is not recognised")
    v = cc[0].body[0].value
    if T.dotted(v) == "mesh.connectivity":
        cm, br = "Alias", "BackToSource"
    elif isinstance(v, ast.Call) and T.dotted(v.func) in ("deepcopy", "copy.deepcopy") and T.dotted(v.args[0]) == "mesh.connectivity" \
            and not v.keywords and len(v.args) <= 2:
        cm = "Copy"
        if len(v.args) == 1:
            br = "BackToClone"       # without a memo deepcopy clones the source mesh behind the connectivity object
        else:
            memo = v.args[1]
            if not (isinstance(memo, ast.Dict) and len(memo.keys) == 1 and isinstance(memo.keys[0], ast.Call)
                    and T.dotted(memo.keys[0].func) == "id" and len(memo.keys[0].args) == 1
                    and T.dotted(memo.keys[0].args[0]) == "mesh"):
                T.fail(ME, memo, "deepcopy memo of the connectivity is not {id(mesh): <mesh>}")
            tgt = T.dotted(memo.values[0])
            if tgt == "copy_mesh":
                br = "BackToCopy"
            elif tgt == "mesh":
                br = "BackToSource"
            else:
                T.fail(ME, memo, "deepcopy memo maps the source mesh to something unrecognised")
    else:
        T.fail(ME, v, "connectivity of the copy is built in an unrecognised way")
    out.append("Definition copy_connectivity_backref : backref := %s." % br)
    out.append("Definition copy_connectivity_mode : cmode := %s." % cm)

    # ---- merge
    fn = FD(tree, "merge", ME)
    parts.append(("mesh.merge", T.sha(src, fn)))
    b = T.body_nodoc(fn)
    if not (len(b) == 5 and isinstance(b[0], ast.If) and isinstance(b[1], ast.Assign) and T.dotted(b[1].targets[0]) == "merged"
            and T.dotted(b[1].value.func) == "RawMeshData" and not b[1].value.args
            and isinstance(b[2], ast.Assign) and isinstance(b[2].targets[0], ast.Name)
            and isinstance(b[3], ast.For) and T.dotted(b[3].iter) == "mesh_list" and isinstance(b[3].target, ast.Name)
            and isinstance(b[4], ast.Return) and isinstance(b[4].value, ast.Call)
            and T.dotted(b[4].value.func) == "_instanciate_raw_mesh_data" and len(b[4].value.args) == 1
            and T.dotted(b[4].value.args[0]) == "merged" and not b[4].value.keywords):
        T.fail(ME, fn, "merge's skeleton is not recognised")
    off = b[2].targets[0].id
    out.append("Definition merge_offset0 : Z := %s." % zexpr(ME, b[2].value, {}))
    tm = b[3].target.id
    pos_update = None
    vmode = None
    shifts = {}
    for k, s in enumerate(b[3].body):
        if isinstance(s, ast.AugAssign) and T.dotted(s.target) == "merged.vertices" and isinstance(s.op, ast.Add):
            vmode = elementwise(ME, s.value, {tm + ".vertices"}, vec_views)
            if pos_update is not None:
                T.fail(ME, s, "vertices appended after the offset update")
        elif isinstance(s, ast.AugAssign) and T.dotted(s.target) == off and isinstance(s.op, ast.Add):
            pos_update = k
            out.append("Definition merge_next_offset (off n : Z) : Z := (off + %s)%%Z."
                       % zexpr(ME, s.value, {tm + ".vertices": "n", off: "off"}))
        elif isinstance(s, ast.If):
            t = s.test
            if not (isinstance(t, ast.Call) and T.dotted(t.func) == "hasattr" and T.dotted(t.args[0]) == tm
                    and isinstance(t.args[1], ast.Constant) and len(s.body) == 1 and not s.orelse):
                T.fail(ME, s, "unexpected condition in merge's loop")
            cont = t.args[1].value
            a = s.body[0]
            if not (isinstance(a, ast.AugAssign) and T.dotted(a.target) == "merged." + cont and isinstance(a.op, ast.Add)
                    and isinstance(a.value, ast.ListComp) and len(a.value.generators) == 1
                    and T.dotted(a.value.generators[0].iter) == tm + "." + cont
                    and isinstance(a.value.generators[0].target, ast.Name) and not a.value.generators[0].ifs):
                T.fail(ME, s, "merge does not extend merged.%s from %s.%s with a comprehension" % (cont, tm, cont))
            ev = a.value.generators[0].target.id
            elt = a.value.elt
            if not (isinstance(elt, ast.Call) and T.dotted(elt.func) in ("tuple", "list") and len(elt.args) == 1
                    and isinstance(elt.args[0], (ast.GeneratorExp, ast.ListComp)) and len(elt.args[0].generators) == 1
                    and T.dotted(elt.args[0].generators[0].iter) == ev and not elt.args[0].generators[0].ifs
                    and isinstance(elt.args[0].generators[0].target, ast.Name)):
                T.fail(ME, elt, "merged element is not tuple(<expr> for u in e)")
            u = elt.args[0].generators[0].target.id
            shifts[cont] = (zexpr(ME, elt.args[0].elt, {off: "off", u: "u"}), pos_update is not None)
        else:
            T.fail(ME, s, "unexpected statement in merge's loop")
    if vmode is None or pos_update is None or set(shifts) != {"edges", "faces", "cells"}:
        T.fail(ME, fn, "merge's loop lacks the vertices / edges / faces / cells / offset statements")
    out.append("Definition merge_vertex_mode : cmode := %s." % vmode)
    for c in ("edges", "faces", "cells"):
        e, after = shifts[c]
        out.append("Definition merge_shift_%s (off n u : Z) : Z := %s."
                   % (c, e if not after else "(let off := merge_next_offset off n in %s)" % e))

    # ---- from_arrays
    fn = FD(tree, "from_arrays", ME)
    parts.append(("mesh.from_arrays", T.sha(src, fn)))
    hits = [s for s in ast.walk(fn) if isinstance(s, ast.AugAssign) and T.dotted(s.target) == "m.vertices"]
    if len(hits) != 1 or not isinstance(hits[0].op, ast.Add):
        T.fail(ME, fn, "from_arrays does not extend m.vertices exactly once")
    out.append("Definition from_arrays_mode : cmode := %s." % elementwise(ME, hits[0].value, {"V"}, vec_views))

    # ---- _instanciate_raw_mesh_data: class by max(dim, dimensionality)
    fn = FD(tree, "_instanciate_raw_mesh_data", ME)
    parts.append(("mesh._instanciate_raw_mesh_data", T.sha(src, fn)))
    b = T.body_nodoc(fn)
    table = {}
    for s in b:
        if isinstance(s, ast.If) and isinstance(s.test, ast.Compare) and T.dotted(s.test.left) == "dim" \
                and isinstance(s.test.ops[0], ast.Eq) and isinstance(s.test.comparators[0], ast.Constant) \
                and len(s.body) == 1 and isinstance(s.body[0], ast.Return) and isinstance(s.body[0].value, ast.Call):
            table[s.test.comparators[0].value] = T.dotted(s.body[0].value.func)
    want = {0: "PointCloud", 1: "PolyLine", 2: "SurfaceMesh", 3: "VolumeMesh"}
    mx = [s for s in b if isinstance(s, ast.Assign) and T.dotted(s.targets[0]) == "dim" and isinstance(s.value, ast.Call)
          and T.dotted(s.value.func) == "max" and len(s.value.args) == 2
          and {T.dotted(a) for a in s.value.args} == {"dim", "mesh_data.dimensionality"}]
    if len(mx) != 1:
        T.fail(ME, fn, "_instanciate_raw_mesh_data does not take max(dim, mesh_data.dimensionality)")
    codes = {"PointCloud": 0, "PolyLine": 1, "SurfaceMesh": 2, "VolumeMesh": 3}
    if set(table) != {0, 1, 2, 3} or any(v not in codes for v in table.values()):
        T.fail(ME, fn, "class table of _instanciate_raw_mesh_data is not recognised")
    out.append("Definition class_of_dim (d : Z) : Z := "
               + "".join("if (d =? %d)%%Z then %d else " % (k, codes[table[k]]) for k in sorted(table)) + "(-2).")
    return out


# ------------------------------------------------------------------ rings.py
def gen_ring(parts, vec_views):
    src, tree = T.load(RI)
    fn = FD(tree, "ring", RI)
    parts.append(("rings.ring", T.sha(src, fn)))
    if params(fn) != ["N", "defect", "open", "n_cover"]:
        T.fail(RI, fn, "ring does not take (N, defect, open, n_cover)")
    env = {"N": "N", "n_cover": "ncover"}

    def app(s):
        """ring.vertices.append(e) -> slot source term, else None"""
        if isinstance(s, ast.Expr) and isinstance(s.value, ast.Call) and T.dotted(s.value.func) == "ring.vertices.append" \
                and len(s.value.args) == 1:
            e = s.value.args[0]
            # which stored vector, if any
            def stored(x):
                if isinstance(x, ast.Subscript) and T.dotted(x.value) == "ring.vertices" and isinstance(x.slice, ast.Constant) \
                        and isinstance(x.slice.value, int) and x.slice.value >= 0:
                    return x.slice.value
                return None
            k = stored(e)
            if k is not None:
                return "[SSame %d]" % k
            if isinstance(e, ast.Call) and T.dotted(e.func) == "Vec" and len(e.args) == 3:
                return "[SFresh]"
            # Vec(ring.vertices[k]) / ring.vertices[k].copy() / np.array(ring.vertices[k])
            inner = e
            while isinstance(inner, ast.Call):
                if isinstance(inner.func, ast.Attribute) and inner.func.attr == "copy" and not inner.args:
                    inner = inner.func.value
                elif len(inner.args) >= 1:
                    inner = inner.args[0]
                else:
                    break
            k = stored(inner)
            if k is None:
                T.fail(RI, e, "appended vertex is neither Vec(a,b,c) nor built from a stored vertex")
            m = classify(RI, e, {"ring.vertices"}, vec_views)
            return "[SSame %d]" % k if m == "Alias" else "[SFresh]"
        return None

    terms = []
    apex = None
    for s in T.body_nodoc(fn):
        t = app(s)
        if t is not None:
            terms.append(t)
            continue
        if isinstance(s, ast.For):
            it = s.iter
            if not (isinstance(it, ast.Call) and T.dotted(it.func) == "range" and len(it.args) == 2):
                T.fail(RI, s, "ring's loop is not range(a, b)")
            inner = [app(x) for x in s.body]
            inner = [x for x in inner if x is not None]
            for x in ast.walk(s):
                if isinstance(x, (ast.Assign, ast.AugAssign)) and any("ring.vertices" in (T.dotted(t2) or "") or
                        (isinstance(t2, ast.Subscript) and T.dotted(t2.value) == "ring.vertices")
                        for t2 in (x.targets if isinstance(x, ast.Assign) else [x.target])):
                    T.fail(RI, x, "ring's loop writes vertices other than by append")
            terms.append("flat_map (fun _ : Z => %s) (zrange2 %s %s)" % (" ++ ".join(inner) if inner else "[]",
                         zexpr(RI, it.args[0], env), zexpr(RI, it.args[1], env)))
            continue
        if isinstance(s, ast.If) and T.dotted(s.test) == "open":
            a = [app(x) for x in s.body]
            c = [app(x) for x in s.orelse]
            terms.append("(if open then %s else %s)" % (" ++ ".join([x for x in a if x] or ["[]"]),
                                                      " ++ ".join([x for x in c if x] or ["[]"])))
            continue
        if isinstance(s, ast.Assign) and isinstance(s.targets[0], ast.Subscript) and T.dotted(s.targets[0].value) == "ring.vertices":
            tg = s.targets[0]
            if not (isinstance(tg.slice, ast.Constant) and tg.slice.value == 0 and isinstance(s.value, ast.BinOp)):
                T.fail(RI, s, "ring rewrites a vertex in an unrecognised way")
            apex = 0
            continue
        for x in ast.walk(s):
            if isinstance(x, ast.Call) and (T.dotted(x.func) or "").startswith("ring.vertices."):
                T.fail(RI, x, "ring touches its vertex container in an unrecognised statement")
            if isinstance(x, ast.AugAssign) and (T.dotted(x.target) or "").startswith("ring.vertices"):
                T.fail(RI, x, "ring extends its vertex container in an unrecognised statement")
    out = ["Definition ring_pattern (N ncover : Z) (open : bool) : list slotsrc :=\n  " + "\n  ++ ".join(terms) + "."]
    out.append("Definition ring_apex_rebound : bool := %s." % ("true" if apex == 0 else "false"))
    return out


BORD = "mouette/processing/border.py"
PATHS = "mouette/processing/paths.py"
TREES = {2: ("mouette/processing/trees/edge_sp.py", "EdgeSpanningTree.build_tree_as_polyline"),
         3: ("mouette/processing/trees/face_sp.py", "FaceSpanningTree.build_tree_as_polyline"),
         4: ("mouette/processing/trees/cell_sp.py", "CellSpanningTree.build_tree_as_polyline")}


def gen_appenders(parts, vec_views):
    """exporters that fill a PolyLine() directly (no prepare()): how each appended vertex relates to the vector it comes from"""
    modes = {}

    def appends(rel, qual, cont, bases):
        src, tree = T.load(rel)
        fn = FD(tree, qual, rel)
        parts.append((qual, T.sha(src, fn)))
        loopvars = set()
        for n in ast.walk(fn):      # `for v in self.mesh.vertices:` makes v one of the mesh's vectors
            if isinstance(n, ast.For) and isinstance(n.target, ast.Name) and T.dotted(n.iter) in bases:
                loopvars.add(n.target.id)
        found = []
        for n in ast.walk(fn):
            if isinstance(n, ast.Call) and T.dotted(n.func) == cont + ".vertices.append" and len(n.args) == 1:
                found.append(classify(rel, n.args[0], bases | loopvars, vec_views))
            if isinstance(n, ast.AugAssign) and T.dotted(n.target) == cont + ".vertices":
                T.fail(rel, n, "vertices extended by += in an exporter that is modelled append by append")
        if not found:
            T.fail(rel, fn, "no vertex append found in " + qual)
        if len(set(found)) != 1:
            T.fail(rel, fn, "the vertex appends of %s do not agree" % qual)
        return found[0]
    modes[0] = appends(BORD, "extract_boundary_of_surface", "bound", {"mesh.vertices"})
    modes[1] = appends(PATHS, "build_path", "path_mesh", {"mesh.vertices"})
    modes[2] = appends(TREES[2][0], TREES[2][1], "output", {"self.mesh.vertices"})
    modes[3] = appends(TREES[3][0], TREES[3][1], "output", {"bary"})
    modes[4] = appends(TREES[4][0], TREES[4][1], "output", {"bary"})
    body = ["(* exporters that append to a PolyLine() directly: 0 extract_boundary_of_surface, 1 build_path (shortest_path\n"
            "   export), 2 / 3 / 4 Edge / Face / CellSpanningTree.build_tree_as_polyline *)",
            "Definition append_mode (p : Z) : cmode := "
            + "".join("if (p =? %d)%%Z then %s else " % (k, modes[k]) for k in sorted(modes)) + "Alias."]
    return body


def gen():
    parts = []
    views, p = vec_is_view()
    parts.append(p)
    body = []
    body.append("(* ---- vector.py *)")
    body.append("Definition vec_ctor_is_view : bool := %s." % ("true" if views else "false"))
    body.append("(* ---- mesh_data.py *)")
    body += gen_mesh_data(parts, views)
    body.append("(* ---- mesh.py *)")
    body += gen_mesh(parts, views)
    body.append("(* ---- border.py / paths.py / trees *)")
    body += gen_appenders(parts, views)
    body.append("(* ---- rings.py *)")
    body += gen_ring(parts, views)
    tf = gen_transform(parts, views)
    ab = gen_aabb(parts)
    text = T.header("C06: aliasing structure and per-vertex maps of copy / merge / from_arrays / ring / transforms", parts)
    text += "From Coq Require Import ZArith List Bool.\nImport ListNotations.\nRequire Import MV.Lib.Base MV.C06.Base.\nLocal Open Scope Z_scope.\n\n"
    text += "\n".join(body) + "\n\n"
    def bind(lines):
        res = []
        for l in lines:
            m = re.match(r"Definition (\w+) (.*)$", l)
            if " T" in l or "O " in l or "O)" in l:
                l = "Definition %s {T : Type} (O : ops T) %s" % (m.group(1), m.group(2))
            res.append(l)
        return res
    text += "(* ---- transform.py *)\n" + "\n".join(bind(tf)) + "\n(* ---- aabb.py *)\n" + "\n".join(bind(ab)) + "\n"
    return {"C06/Gen.v": text}
