"""Helpers shared by the fail-closed Python-ast -> Gallina translators."""
import ast
import hashlib
import os

from ..core import REPO, TranslationError


def load(relpath):
    path = os.path.join(REPO, relpath)
    try:
        src = open(path).read()
    except OSError as ex:
        raise TranslationError("%s: cannot read (%s)" % (relpath, ex))
    try:
        tree = ast.parse(src)
    except SyntaxError as ex:
        raise TranslationError("%s: syntax error %s" % (relpath, ex))
    return src, tree


def find_def(tree, qualname, relpath="?"):
    """Locate a (possibly nested) class/function by dotted path."""
    node = tree
    for part in qualname.split("."):
        found = None
        for ch in getattr(node, "body", []):
            if isinstance(ch, (ast.FunctionDef, ast.ClassDef)) and ch.name == part:
                found = ch
        if found is None:
            raise TranslationError("%s: definition %s not found" % (relpath, qualname))
        node = found
    return node


def body_nodoc(fn):
    b = list(fn.body)
    if b and isinstance(b[0], ast.Expr) and isinstance(getattr(b[0], "value", None), ast.Constant) \
            and isinstance(b[0].value.value, str):
        b = b[1:]
    return b


def seg(src, node):
    return ast.get_source_segment(src, node) or ""


def sha(src, node):
    return hashlib.sha256(seg(src, node).encode()).hexdigest()[:16]


def fail(relpath, node, msg):
    raise TranslationError("%s:%s: %s  [%s]" % (relpath, getattr(node, "lineno", "?"), msg,
                                                ast.dump(node)[:160] if isinstance(node, ast.AST) else node))


def dotted(node):
    """a.b.c -> 'a.b.c' (or None)"""
    if isinstance(node, ast.Name):
        return node.id
    if isinstance(node, ast.Attribute):
        d = dotted(node.value)
        return None if d is None else d + "." + node.attr
    return None


CMP = {ast.Lt: "Z.ltb", ast.LtE: "Z.leb", ast.Gt: "Z.gtb", ast.GtE: "Z.geb", ast.Eq: "Z.eqb"}


def header(title, parts):
    lines = ["(* GENERATED on every run by vf/translate from /repo - do not edit, not committed.",
             "   %s" % title]
    for name, h in parts:
        lines.append("   source %s sha256/16=%s" % (name, h))
    lines.append("*)")
    return "\n".join(lines) + "\n"
