"""tutte.py, base.py, laplacian_op.py, attributes/glob.py  ->  coq/theories/C17/Gen.v

What is regenerated from the source on every run (fail closed on any unrecognised shape):
  * glob.euler_characteristic            -> euler_char v e f
  * TutteEmbedding.__init__              -> ctor_mode_custom present given_none (which test selects CUSTOM)
  * TutteEmbedding.run, the gate         -> gate_reject chi
  * TutteEmbedding.run, plumbing         -> which index list is the border (cycle / boundary_vertices), the row and
                                            column selectors of LI and LB, the sign of the right-hand side
                                            (`-LB.dot(Ubnd)`), which border coordinate feeds which solve, the
                                            scatter of (U,V) / (Ubnd,Vbnd) to per-corner and per-vertex storage
  * TutteEmbedding._initialize_boundary  -> circle: radius, angle/pi as a rational function of (n,i), real/imag
                                            -> U/V ; square: the corner indices, the four index ranges and their
                                            coordinates, as the piecewise functions sq_U n v, sq_V n v : Q (numpy's
                                            sequential element assignments read back: the LAST write to an index wins,
                                            unwritten entries keep np.zeros's 0) ; custom: the two columns
  * operators.laplacian (connection=None) -> the 12 triplets a face contributes, cot/2, the uniform 1/2
  * BaseParametrization.flat_mesh         -> corner index 3*T+i, vertex index v, z = 0
"""
import ast
from fractions import Fraction

from . import common as T

TUTTE = "mouette/processing/parametrization/tutte.py"
BASE = "mouette/processing/parametrization/base.py"
LAP = "mouette/operators/laplacian_op.py"
GLOB = "mouette/attributes/glob.py"

ZOP = {ast.Add: "+", ast.Sub: "-", ast.Mult: "*", ast.FloorDiv: "/"}
QOP = {ast.Add: "+", ast.Sub: "-", ast.Mult: "*", ast.Div: "/"}
CMPZ = {ast.Eq: "(%s =? %s)%%Z", ast.NotEq: "negb (%s =? %s)%%Z", ast.Lt: "(%s <? %s)%%Z", ast.LtE: "(%s <=? %s)%%Z",
        ast.Gt: "(%s >? %s)%%Z", ast.GtE: "(%s >=? %s)%%Z"}


class Ex:
    """expression translator: zenv name -> Gallina Z text, lists name -> inlined list of Z texts,
    qenv name -> Gallina Q text"""

    def __init__(self, rel, zenv, lists=None, qenv=None):
        self.rel, self.zenv, self.lists, self.qenv = rel, dict(zenv), dict(lists or {}), dict(qenv or {})

    def is_int(self, e):
        if isinstance(e, ast.Constant):
            return isinstance(e.value, int) and not isinstance(e.value, bool)
        if isinstance(e, ast.Name):
            return e.id in self.zenv
        if isinstance(e, ast.BinOp):
            return type(e.op) in ZOP and self.is_int(e.left) and self.is_int(e.right)
        if isinstance(e, ast.UnaryOp) and isinstance(e.op, ast.USub):
            return self.is_int(e.operand)
        if isinstance(e, ast.Subscript):
            return isinstance(e.value, ast.Name) and e.value.id in self.lists
        return False

    def z(self, e):
        if isinstance(e, ast.Constant) and isinstance(e.value, int) and not isinstance(e.value, bool):
            return str(e.value) if e.value >= 0 else "(%d)" % e.value
        if isinstance(e, ast.Name) and e.id in self.zenv:
            return self.zenv[e.id]
        if isinstance(e, ast.BinOp) and type(e.op) in ZOP:
            return "(%s %s %s)" % (self.z(e.left), ZOP[type(e.op)], self.z(e.right))
        if isinstance(e, ast.UnaryOp) and isinstance(e.op, ast.USub):
            return "(- %s)" % self.z(e.operand)
        if isinstance(e, ast.Subscript) and isinstance(e.value, ast.Name) and e.value.id in self.lists:
            k = e.slice
            if isinstance(k, ast.Constant) and isinstance(k.value, int) and 0 <= k.value < len(self.lists[e.value.id]):
                return self.lists[e.value.id][k.value]
        T.fail(self.rel, e, "integer expression outside the subset")

    def q(self, e):
        if self.is_int(e):
            return "(inject_Z (%s)%%Z)" % self.z(e)
        if isinstance(e, ast.Constant) and isinstance(e.value, float):
            fr = Fraction(repr(e.value))
            return "(%d # %d)" % (fr.numerator, fr.denominator) if fr.numerator >= 0 else "((%d) # %d)" % (fr.numerator, fr.denominator)
        if isinstance(e, ast.BinOp) and type(e.op) in QOP:
            return "(%s %s %s)" % (self.q(e.left), QOP[type(e.op)], self.q(e.right))
        if isinstance(e, ast.UnaryOp) and isinstance(e.op, ast.USub):
            return "(- %s)" % self.q(e.operand)
        if isinstance(e, ast.Name) and e.id in self.qenv:
            return self.qenv[e.id]
        T.fail(self.rel, e, "rational expression outside the subset")


def is_mode(e, name):
    return T.dotted(e) == "TutteEmbedding.BoundaryMode." + name


def assign1(st, rel):
    if not (isinstance(st, ast.Assign) and len(st.targets) == 1):
        T.fail(rel, st, "expected a single assignment")
    return st.targets[0], st.value


def names(node):
    if isinstance(node, ast.Tuple):
        return [T.dotted(x) for x in node.elts]
    return [T.dotted(node)]


def check_callable(rel, fn, decorators=(), defaults=None):
    """fail closed on decorators the model does not know (memoisation!) and on optional parameters whose default is
    not None / an immutable constant (a mutable default is shared between calls)"""
    deco = []
    for d in fn.decorator_list:
        deco.append(T.dotted(d.func) if isinstance(d, ast.Call) else T.dotted(d))
    if deco != list(decorators):
        T.fail(rel, fn, "decorators of %s are %s, expected %s" % (fn.name, deco, list(decorators)))
    got = []
    for d in list(fn.args.defaults) + [d for d in fn.args.kw_defaults if d is not None]:
        if not (isinstance(d, ast.Constant) and (d.value is None or isinstance(d.value, (bool, int, float, str)))):
            T.fail(rel, d, "a default argument of %s is not None / an immutable constant" % fn.name)
        got.append(d.value)
    if defaults is not None and got != list(defaults):
        T.fail(rel, fn, "defaults of %s are %r, expected %r" % (fn.name, got, list(defaults)))


# ====================================================================== glob.euler_characteristic
def gen_euler(out, parts):
    src, tree = T.load(GLOB)
    fn = T.find_def(tree, "euler_characteristic", GLOB)
    check_callable(GLOB, fn, ("allowed_mesh_types",), ())
    parts.append(("glob.euler_characteristic", T.sha(src, fn)))
    body = T.body_nodoc(fn)
    env = {}
    want = {"vertices": "v", "edges": "e", "faces": "f"}
    if len(fn.args.args) != 1 or not body:
        T.fail(GLOB, fn, "euler_characteristic does not take exactly (mesh)")
    marg = fn.args.args[0].arg
    for st in body[:-1]:
        tgt, val = assign1(st, GLOB)
        ok = (isinstance(tgt, ast.Name) and isinstance(val, ast.Call) and T.dotted(val.func) == "len"
              and len(val.args) == 1 and (T.dotted(val.args[0]) or "").startswith(marg + "."))
        if not ok:
            T.fail(GLOB, st, "not `<name> = len(mesh.<container>)`")
        cont = T.dotted(val.args[0]).split(".", 1)[1]
        if cont not in want:
            T.fail(GLOB, st, "unknown container " + cont)
        env[tgt.id] = want[cont]
    if not isinstance(body[-1], ast.Return):
        T.fail(GLOB, body[-1], "last statement is not a return")
    out.append("Definition euler_char (v e f : Z) : Z := (%s)%%Z." % Ex(GLOB, env).z(body[-1].value))


# ====================================================================== TutteEmbedding.run
def gen_run(out, parts, src, tree):
    """Local names are learned from the statements (renaming a local is harmless); the eight set-up statements
    between the gate and the scatter are recognised by shape, in any order that respects their dependencies."""
    fn = T.find_def(tree, "TutteEmbedding.run", TUTTE)
    check_callable(TUTTE, fn, (), ())
    parts.append(("TutteEmbedding.run", T.sha(src, fn)))
    def is_log(st):      # logging is not part of the model
        return (isinstance(st, ast.Expr) and isinstance(st.value, ast.Call)
                and (T.dotted(st.value.func) in ("self.log", "print", "self.warn", "warnings.warn")
                     or (T.dotted(st.value.func) or "").startswith("logging.")))
    b = [st for st in T.body_nodoc(fn) if not is_log(st)]
    # ---- gate (must come first); the characteristic may be held in a local first
    chi_name = None
    if (b and isinstance(b[0], ast.Assign) and len(b[0].targets) == 1 and isinstance(b[0].targets[0], ast.Name)
            and isinstance(b[0].value, ast.Call) and T.dotted(b[0].value.func) == "euler_characteristic"):
        chi_name, chi_call = b[0].targets[0].id, b[0].value
        b = b[1:]
    if len(b) != 10:
        T.fail(TUTTE, fn, "run() has %d statements, 10 expected (gate, boundary, laplacian, free, border, LI, LB, U, V, scatter)" % len(b))
    g = b[0]
    gbody = [st for st in g.body if not is_log(st)] if isinstance(g, ast.If) else []
    left = g.test.left if isinstance(g, ast.If) and isinstance(g.test, ast.Compare) else None
    if chi_name is not None and isinstance(left, ast.Name) and left.id == chi_name:
        left = chi_call
    ok = (isinstance(g, ast.If) and not g.orelse and len(gbody) == 1 and isinstance(gbody[0], ast.Raise)
          and isinstance(g.test, ast.Compare) and len(g.test.ops) == 1 and type(g.test.ops[0]) in CMPZ
          and isinstance(left, ast.Call) and T.dotted(left.func) == "euler_characteristic"
          and len(left.args) == 1 and T.dotted(left.args[0]) == "self.mesh" and not left.keywords)
    if not ok:
        T.fail(TUTTE, g, "first statement is not `if euler_characteristic(self.mesh) <cmp> <int>: raise ...`")
    out.append("Definition gate_reject (chi : Z) : bool := %s."
               % (CMPZ[type(g.test.ops[0])] % ("chi", Ex(TUTTE, {}).z(g.test.comparators[0]))))
    N = {}          # role -> local name
    mats = {}       # local name -> (row selector name, col selector name)
    solves = []     # (target, matrix, neg, dotmatrix, vector)

    def full(x):
        return isinstance(x, ast.Slice) and x.lower is None and x.upper is None and x.step is None

    for st in b[1:9]:
        if isinstance(st, ast.If):
            # bndInds by mode
            if not (len(st.body) == 1 and len(st.orelse) == 1 and isinstance(st.test, ast.Compare)
                    and T.dotted(st.test.left) == "self._bnd_mode" and len(st.test.ops) == 1
                    and isinstance(st.test.ops[0], ast.Eq) and is_mode(st.test.comparators[0], "CUSTOM")):
                T.fail(TUTTE, st, "not `if self._bnd_mode == TutteEmbedding.BoundaryMode.CUSTOM: .. else: ..`")
            tgt, val = assign1(st.body[0], TUTTE)
            if not (isinstance(tgt, ast.Name) and T.dotted(val) == "self.mesh.boundary_vertices"):
                T.fail(TUTTE, st.body[0], "custom branch is not `<bnd> = self.mesh.boundary_vertices`")
            tgt2, val2 = assign1(st.orelse[0], TUTTE)
            if not (isinstance(tgt2, ast.Tuple) and len(tgt2.elts) == 2 and T.dotted(tgt2.elts[0]) == tgt.id
                    and isinstance(tgt2.elts[1], ast.Name) and isinstance(val2, ast.Call)
                    and T.dotted(val2.func) == "extract_border_cycle"
                    and [T.dotted(a) for a in val2.args] == ["self.mesh"] and not val2.keywords):
                T.fail(TUTTE, st.orelse[0], "else branch is not `<bnd>, _ = extract_border_cycle(self.mesh)`")
            if "bnd" in N:
                T.fail(TUTTE, st, "border index list selected twice")
            N["bnd"] = tgt.id
            continue
        tgt, val = assign1(st, TUTTE)
        if isinstance(val, ast.Call) and T.dotted(val.func) == "self._initialize_boundary":
            if not (isinstance(tgt, ast.Tuple) and len(tgt.elts) == 2 and all(isinstance(x, ast.Name) for x in tgt.elts)
                    and [T.dotted(a) for a in val.args] == ["self._bnd_mode"] and not val.keywords and "ub" not in N):
                T.fail(TUTTE, st, "not `Ubnd,Vbnd = self._initialize_boundary(self._bnd_mode)`")
            N["ub"], N["vb"] = names(tgt)
        elif isinstance(val, ast.Call) and T.dotted(val.func) == "operators.laplacian":
            if not (isinstance(tgt, ast.Name) and [T.dotted(a) for a in val.args] == ["self.mesh"] and len(val.keywords) == 1
                    and val.keywords[0].arg == "cotan" and T.dotted(val.keywords[0].value) == "self._use_cotan"
                    and "lap" not in N):
                T.fail(TUTTE, st, "not `lap = operators.laplacian(self.mesh, cotan=self._use_cotan)`")
            N["lap"] = tgt.id
        elif T.dotted(val) == "self.mesh.interior_vertices":
            if not (isinstance(tgt, ast.Name) and "free" not in N):
                T.fail(TUTTE, st, "not `freeInds = self.mesh.interior_vertices`")
            N["free"] = tgt.id
        elif isinstance(val, ast.Subscript):
            ok = (isinstance(tgt, ast.Name) and isinstance(val.value, ast.Subscript) and "lap" in N
                  and T.dotted(val.value.value) == N["lap"] and isinstance(val.slice, ast.Tuple)
                  and isinstance(val.value.slice, ast.Tuple) and len(val.slice.elts) == 2 and len(val.value.slice.elts) == 2)
            if not ok:
                T.fail(TUTTE, st, "not `<M> = lap[<rows>, :][:, <cols>]`")
            r, c1 = val.value.slice.elts
            c0, c = val.slice.elts
            if not (full(c1) and full(c0) and isinstance(r, ast.Name) and isinstance(c, ast.Name)):
                T.fail(TUTTE, st, "not `lap[<rows>, :][:, <cols>]`")
            mats[tgt.id] = (r.id, c.id)
        elif isinstance(val, ast.Call) and T.dotted(val.func) == "linalg.spsolve":
            if not (isinstance(tgt, ast.Name) and len(val.args) == 2 and not val.keywords and isinstance(val.args[0], ast.Name)):
                T.fail(TUTTE, st, "not `<X> = linalg.spsolve(<M>, <rhs>)`")
            rhs = val.args[1]
            neg = False
            if isinstance(rhs, ast.UnaryOp) and isinstance(rhs.op, ast.USub):
                neg, rhs = True, rhs.operand
            if not (isinstance(rhs, ast.Call) and isinstance(rhs.func, ast.Attribute) and rhs.func.attr == "dot"
                    and isinstance(rhs.func.value, ast.Name) and len(rhs.args) == 1 and not rhs.keywords
                    and isinstance(rhs.args[0], ast.Name)):
                T.fail(TUTTE, st, "right-hand side is not `[-]<M>.dot(<vector>)`")
            solves.append((tgt.id, val.args[0].id, neg, rhs.func.value.id, rhs.args[0].id))
        else:
            T.fail(TUTTE, st, "unrecognised statement in run()")
    for role in ("ub", "vb", "lap", "free", "bnd"):
        if role not in N:
            T.fail(TUTTE, fn, "run() never defines the %s" % role)
    if len(mats) != 2 or len(solves) != 2:
        T.fail(TUTTE, fn, "run() does not build two sub-matrices and solve two systems")
    if solves[0][1] != solves[1][1] or solves[0][3] != solves[1][3] or solves[0][1] == solves[0][3]:
        T.fail(TUTTE, fn, "the two solves do not use the same (system matrix, border matrix) pair")
    LIn, LBn = solves[0][1], solves[0][3]
    if LIn not in mats or LBn not in mats:
        T.fail(TUTTE, fn, "spsolve uses a matrix that is not one of the two sub-matrices")
    selmap = {N["free"]: "SFree", N["bnd"]: "SBnd"}
    for m in (LIn, LBn):
        if mats[m][0] not in selmap or mats[m][1] not in selmap:
            T.fail(TUTTE, fn, "row/column selector of %s is not the interior / border index list" % m)
    vecmap = {N["ub"]: "CUb", N["vb"]: "CVb"}
    for sv in solves:
        if sv[4] not in vecmap:
            T.fail(TUTTE, fn, "the right-hand side does not use the border coordinates")
    # roles of the two solutions: the one fed by the first border coordinate is U, unless both use the same data
    if vecmap[solves[0][4]] == "CVb" and vecmap[solves[1][4]] == "CUb":
        solves = [solves[1], solves[0]]
    N["u"], N["v"] = solves[0][0], solves[1][0]
    out.append("Definition lap_cotan_flag (use_cotan : bool) : bool := use_cotan.")
    out.append("(* true: the border index list is the border CYCLE; false: mesh.boundary_vertices as it comes *)")
    out.append("Definition bnd_is_cycle (custom : bool) : bool := negb custom.")
    out.append("Inductive sel := SFree | SBnd.")
    out.append("(* LI = the system matrix handed to spsolve, LB = the matrix applied to the border coordinates *)")
    out.append("Definition LI_rows := %s. Definition LI_cols := %s." % (selmap[mats[LIn][0]], selmap[mats[LIn][1]]))
    out.append("Definition LB_rows := %s. Definition LB_cols := %s." % (selmap[mats[LBn][0]], selmap[mats[LBn][1]]))
    out.append("Inductive comp := CU | CV | CUb | CVb.   (* U, V (solutions), Ubnd, Vbnd (border data) *)")
    out.append("(* right-hand sides of the two solves: spsolve(LI, rhs_U (LB . <U_border_data>)) etc. *)")
    out.append("Definition rhs_U (x : Q) : Q := %s. Definition U_border_data := %s." % ("- x" if solves[0][2] else "x", vecmap[solves[0][4]]))
    out.append("Definition rhs_V (x : Q) : Q := %s. Definition V_border_data := %s." % ("- x" if solves[1][2] else "x", vecmap[solves[1][4]]))

    # ---- scatter (last)
    s = b[9]
    if not (isinstance(s, ast.If) and T.dotted(s.test) == "self.save_on_corners" and len(s.body) == 3 and len(s.orelse) == 3):
        T.fail(TUTTE, s, "scatter is not `if self.save_on_corners: <create; loop; loop> else: <create; loop; loop>`")
    compmap = {N["u"]: "CU", N["v"]: "CV", N["ub"]: "CUb", N["vb"]: "CVb"}

    def create(st, container):
        tgt, val = assign1(st, TUTTE)
        ok = (T.dotted(tgt) == "self.uvs" and isinstance(val, ast.Call)
              and T.dotted(val.func) == "self.mesh.%s.create_attribute" % container
              and len(val.args) == 3 and isinstance(val.args[0], ast.Constant) and val.args[0].value == "uv_coords"
              and T.dotted(val.args[1]) == "float" and isinstance(val.args[2], ast.Constant) and val.args[2].value == 2)
        if not ok:
            T.fail(TUTTE, st, "not `self.uvs = self.mesh.%s.create_attribute(\"uv_coords\", float, 2, ...)`" % container)

    def loop(st, corners):
        """for i,v in enumerate(<inds>): [for c in vertex_to_corners(v):] self.uvs[key] = Vec(A[i], B[i])"""
        ok = (isinstance(st, ast.For) and not st.orelse and isinstance(st.iter, ast.Call) and T.dotted(st.iter.func) == "enumerate"
              and len(st.iter.args) == 1 and isinstance(st.target, ast.Tuple) and len(st.target.elts) == 2 and len(st.body) == 1)
        if not ok:
            T.fail(TUTTE, st, "scatter loop is not `for i,v in enumerate(<inds>)`")
        iv, vv = names(st.target)
        inds = selmap.get(T.dotted(st.iter.args[0]))
        if inds is None:
            T.fail(TUTTE, st, "scatter loop does not enumerate the interior / border index list")
        inner = st.body[0]
        key = vv
        if corners:
            ok = (isinstance(inner, ast.For) and not inner.orelse and isinstance(inner.target, ast.Name)
                  and isinstance(inner.iter, ast.Call) and T.dotted(inner.iter.func) == "self.mesh.connectivity.vertex_to_corners"
                  and [T.dotted(a) for a in inner.iter.args] == [vv] and len(inner.body) == 1)
            if not ok:
                T.fail(TUTTE, inner, "per-corner scatter does not loop `for c in self.mesh.connectivity.vertex_to_corners(v)`")
            key = inner.target.id
            inner = inner.body[0]
        tgt, val = assign1(inner, TUTTE)
        ok = (isinstance(tgt, ast.Subscript) and T.dotted(tgt.value) == "self.uvs" and T.dotted(tgt.slice) == key
              and isinstance(val, ast.Call) and T.dotted(val.func) == "Vec" and len(val.args) == 2 and not val.keywords)
        if not ok:
            T.fail(TUTTE, inner, "scatter statement is not `self.uvs[%s] = Vec(<A>[i], <B>[i])`" % key)
        comps = []
        for a in val.args:
            if not (isinstance(a, ast.Subscript) and T.dotted(a.slice) == iv and T.dotted(a.value) in compmap):
                T.fail(TUTTE, a, "scatter value is not <U|V|Ubnd|Vbnd>[i]")
            comps.append(compmap[T.dotted(a.value)])
        return "(%s, %s, %s)" % (inds, comps[0], comps[1])
    create(s.body[0], "face_corners")
    create(s.orelse[0], "vertices")
    out.append("(* scatter: in this order, for i,v in enumerate(<sel>): [for every corner c of v:] uvs[c or v] = (<comp>[i], <comp>[i]) *)")
    out.append("Definition scatter_corner : list (sel * comp * comp) := [%s; %s]." % (loop(s.body[1], True), loop(s.body[2], True)))
    out.append("Definition scatter_vertex : list (sel * comp * comp) := [%s; %s]." % (loop(s.orelse[1], False), loop(s.orelse[2], False)))


# ====================================================================== TutteEmbedding.__init__ (mode selection)
def gen_ctor(out, parts, src, tree):
    """Which expression decides that the boundary mode is CUSTOM, as a function of how the caller wrote the optional
    keyword custom_boundary: `present` (the keyword is in kwargs) and `given_none` (its value is None)."""
    fn = T.find_def(tree, "TutteEmbedding.__init__", TUTTE)
    check_callable(TUTTE, fn, (), ("circle", False, False))
    parts.append(("TutteEmbedding.__init__", T.sha(src, fn)))
    params = [a.arg for a in fn.args.args]
    if params != ["self", "mesh", "boundary_mode", "use_cotan", "verbose"] or fn.args.kwarg is None or fn.args.vararg is not None \
            or fn.args.kwonlyargs:
        T.fail(TUTTE, fn, "__init__ is not (self, mesh, boundary_mode, use_cotan, verbose, **kwargs)")
    defaults = [d.value if isinstance(d, ast.Constant) else "?" for d in fn.args.defaults]
    if defaults != ["circle", False, False]:
        T.fail(TUTTE, fn, "defaults of (boundary_mode, use_cotan, verbose) are %r, expected ('circle', False, False)" % (defaults,))
    kwname = fn.args.kwarg.arg
    attr = None
    sel = None
    cot_ok = False
    for st in T.body_nodoc(fn):
        if isinstance(st, ast.AnnAssign) or isinstance(st, ast.Assign):
            tgt = st.target if isinstance(st, ast.AnnAssign) else (st.targets[0] if len(st.targets) == 1 else None)
            val = st.value
            d = T.dotted(tgt) if tgt is not None else None
            if (isinstance(val, ast.Call) and T.dotted(val.func) == kwname + ".get" and len(val.args) >= 1
                    and isinstance(val.args[0], ast.Constant) and val.args[0].value == "custom_boundary"):
                if not (len(val.args) == 2 and isinstance(val.args[1], ast.Constant) and val.args[1].value is None
                        and d and d.startswith("self.")):
                    T.fail(TUTTE, st, "custom boundary is not read as `self.<a> = kwargs.get(\"custom_boundary\", None)`")
                attr = d
            if d == "self._use_cotan":
                if T.dotted(val) != "use_cotan":
                    T.fail(TUTTE, st, "self._use_cotan is not the use_cotan argument")
                cot_ok = True
        elif isinstance(st, ast.If):
            if sel is not None:
                T.fail(TUTTE, st, "more than one `if` in __init__")
            sel = st
    if attr is None or sel is None or not cot_ok:
        T.fail(TUTTE, fn, "__init__ does not read custom_boundary / store use_cotan / select the mode")
    if attr != "self._custom_bnd":
        T.fail(TUTTE, fn, "the custom boundary is stored in %s but _initialize_boundary reads self._custom_bnd" % attr)

    def branch(stmts):
        if len(stmts) != 1:
            T.fail(TUTTE, sel, "mode selection branch has %d statements" % len(stmts))
        tgt, val = assign1(stmts[0], TUTTE)
        if T.dotted(tgt) != "self._bnd_mode":
            T.fail(TUTTE, stmts[0], "branch does not assign self._bnd_mode")
        if is_mode(val, "CUSTOM"):
            return "custom"
        if (isinstance(val, ast.Call) and T.dotted(val.func) == "TutteEmbedding.BoundaryMode.from_string"
                and [T.dotted(a) for a in val.args] == ["boundary_mode"] and not val.keywords):
            return "string"
        T.fail(TUTTE, stmts[0], "branch is neither CUSTOM nor BoundaryMode.from_string(boundary_mode)")
    kinds = (branch(sel.body), branch(sel.orelse))
    if sorted(kinds) != ["custom", "string"]:
        T.fail(TUTTE, sel, "mode selection branches are %s" % (kinds,))

    def test(e):
        # value of self.<attr> is None  <=>  keyword absent or given as None
        if isinstance(e, ast.Compare) and len(e.ops) == 1:
            l, r = e.left, e.comparators[0]
            if T.dotted(l) == attr and isinstance(r, ast.Constant) and r.value is None:
                if isinstance(e.ops[0], ast.Is):
                    return "(negb present || given_none)"
                if isinstance(e.ops[0], ast.IsNot):
                    return "negb (negb present || given_none)"
            if isinstance(l, ast.Constant) and l.value == "custom_boundary" and T.dotted(r) == kwname:
                if isinstance(e.ops[0], ast.In):
                    return "present"
                if isinstance(e.ops[0], ast.NotIn):
                    return "negb present"
        if isinstance(e, ast.UnaryOp) and isinstance(e.op, ast.Not):
            return "negb (%s)" % test(e.operand)
        if isinstance(e, ast.BoolOp):
            op = " && " if isinstance(e.op, ast.And) else " || "
            return "(" + op.join(test(x) for x in e.values) + ")"
        T.fail(TUTTE, e, "mode selection test outside the subset")
    t = test(sel.test)
    out.append("(* constructor: is the boundary mode CUSTOM?  present = the keyword custom_boundary was written by the caller,")
    out.append("   given_none = it was written with the value None (its documented default) *)")
    out.append("Definition ctor_mode_custom (present given_none : bool) : bool := %s." % (t if kinds[0] == "custom" else "negb (%s)" % t))
    # run(): validation of boundary_mode
    calls = [n for n in ast.walk(fn) if isinstance(n, ast.Call) and T.dotted(n.func) == "check_argument"]
    ok = (len(calls) == 1 and len(calls[0].args) == 4 and isinstance(calls[0].args[3], ast.List)
          and sorted(x.value for x in calls[0].args[3].elts if isinstance(x, ast.Constant)) == ["circle", "square"]
          and T.dotted(calls[0].args[1]) == "boundary_mode")
    if not ok:
        T.fail(TUTTE, fn, "boundary_mode is not validated by check_argument(.., boundary_mode, str, [\"square\", \"circle\"])")


# ====================================================================== TutteEmbedding._initialize_boundary
def pi_coefficient(ex, e, pi_names):
    """e is a product/quotient chain containing the symbol pi exactly once, multiplicatively in the numerator:
    returns the Gallina Q text of e/pi."""
    def has_pi(x):
        return any(isinstance(n, ast.Name) and n.id in pi_names for n in ast.walk(x))

    def go(x):
        if isinstance(x, ast.Name) and x.id in pi_names:
            return "1"
        if isinstance(x, ast.BinOp) and isinstance(x.op, ast.Mult):
            l, r = has_pi(x.left), has_pi(x.right)
            if l and not r:
                return "(%s * %s)" % (go(x.left), ex.q(x.right))
            if r and not l:
                return "(%s * %s)" % (ex.q(x.left), go(x.right))
        if isinstance(x, ast.BinOp) and isinstance(x.op, ast.Div) and has_pi(x.left) and not has_pi(x.right):
            return "(%s / %s)" % (go(x.left), ex.q(x.right))
        T.fail(TUTTE, x, "angle is not a product/quotient chain with pi once in the numerator")
    return go(e)


def gen_boundary(out, parts, src, tree):
    fn = T.find_def(tree, "TutteEmbedding._initialize_boundary", TUTTE)
    check_callable(TUTTE, fn, (), ())
    parts.append(("TutteEmbedding._initialize_boundary", T.sha(src, fn)))
    # how pi is imported
    pi_names = set()
    for n in tree.body:
        if isinstance(n, ast.ImportFrom) and n.module == "math":
            for a in n.names:
                if a.name == "pi":
                    pi_names.add(a.asname or "pi")
    if not pi_names:
        T.fail(TUTTE, tree, "`from math import pi` not found")
    if len(fn.args.args) != 2:
        T.fail(TUTTE, fn, "_initialize_boundary does not take (self, boundary_mode)")
    mvar = fn.args.args[1].arg
    b = T.body_nodoc(fn)
    if len(b) != 4:
        T.fail(TUTTE, fn, "_initialize_boundary has %d statements, 4 expected" % len(b))
    # n = len(self.mesh.boundary_vertices)
    tgt, val = assign1(b[0], TUTTE)
    if not (isinstance(tgt, ast.Name) and isinstance(val, ast.Call) and T.dotted(val.func) == "len"
            and [T.dotted(a) for a in val.args] == ["self.mesh.boundary_vertices"]):
        T.fail(TUTTE, b[0], "not `n = len(self.mesh.boundary_vertices)`")
    nvar = tgt.id
    # U, V = np.zeros(n), np.zeros(n)
    tgt, val = assign1(b[1], TUTTE)
    ok = (isinstance(tgt, ast.Tuple) and len(tgt.elts) == 2 and isinstance(val, ast.Tuple) and len(val.elts) == 2
          and all(isinstance(x, ast.Call) and T.dotted(x.func) == "np.zeros" and [T.dotted(a) for a in x.args] == [nvar]
                  and not x.keywords for x in val.elts))
    if not ok:
        T.fail(TUTTE, b[1], "not `U, V = np.zeros(n), np.zeros(n)`")
    uvar, vvar = names(tgt)
    # return U, V
    if not (isinstance(b[3], ast.Return) and names(b[3].value) == [uvar, vvar]):
        T.fail(TUTTE, b[3], "last statement is not `return U, V`")
    # if CUSTOM ... elif CIRCLE ... elif SQUARE
    branches = {}
    s = b[2]
    while True:
        if not isinstance(s, ast.If):
            T.fail(TUTTE, s, "mode dispatch is not an if/elif chain")
        t = s.test
        if not (isinstance(t, ast.Compare) and T.dotted(t.left) == mvar and len(t.ops) == 1 and isinstance(t.ops[0], ast.Eq)
                and (T.dotted(t.comparators[0]) or "").startswith("TutteEmbedding.BoundaryMode.")):
            T.fail(TUTTE, t, "branch test is not `boundary_mode == TutteEmbedding.BoundaryMode.<X>`")
        nm = T.dotted(t.comparators[0]).rsplit(".", 1)[1]
        if nm in branches:
            T.fail(TUTTE, t, "mode %s tested twice" % nm)
        branches[nm] = s.body
        if not s.orelse:
            break
        if len(s.orelse) != 1:
            T.fail(TUTTE, s, "unexpected else branch in the mode dispatch")
        s = s.orelse[0]
    if set(branches) != {"CUSTOM", "CIRCLE", "SQUARE"}:
        T.fail(TUTTE, b[2], "mode dispatch covers %s" % sorted(branches))
    # ---- custom: return self._custom_bnd[:,0], self._custom_bnd[:,1]
    cb = branches["CUSTOM"]
    ok = len(cb) == 1 and isinstance(cb[0], ast.Return) and isinstance(cb[0].value, ast.Tuple) and len(cb[0].value.elts) == 2
    cols = []
    if ok:
        for x in cb[0].value.elts:
            if not (isinstance(x, ast.Subscript) and T.dotted(x.value) == "self._custom_bnd" and isinstance(x.slice, ast.Tuple)
                    and len(x.slice.elts) == 2 and isinstance(x.slice.elts[0], ast.Slice) and x.slice.elts[0].lower is None
                    and x.slice.elts[0].upper is None and isinstance(x.slice.elts[1], ast.Constant)
                    and x.slice.elts[1].value in (0, 1)):
                ok = False
                break
            cols.append(x.slice.elts[1].value)
    if not ok:
        T.fail(TUTTE, cb[0], "custom branch is not `return self._custom_bnd[:,<0|1>], self._custom_bnd[:,<0|1>]`")
    out.append("Definition custom_U_col : Z := %d. Definition custom_V_col : Z := %d." % tuple(cols))
    # ---- circle
    cc = branches["CIRCLE"]
    ok = (len(cc) == 1 and isinstance(cc[0], ast.For) and isinstance(cc[0].target, ast.Name) and isinstance(cc[0].iter, ast.Call)
          and T.dotted(cc[0].iter.func) == "range" and [T.dotted(a) for a in cc[0].iter.args] == [nvar] and len(cc[0].body) == 3)
    if not ok:
        T.fail(TUTTE, cc[0], "circle branch is not `for i in range(n): rt = cmath.rect(..); U[i] = ..; V[i] = ..`")
    ivar = cc[0].target.id
    tgt, val = assign1(cc[0].body[0], TUTTE)
    if not (isinstance(tgt, ast.Name) and isinstance(val, ast.Call) and T.dotted(val.func) == "cmath.rect" and len(val.args) == 2):
        T.fail(TUTTE, cc[0].body[0], "not `rt = cmath.rect(<radius>, <angle>)`")
    rt = tgt.id
    ex = Ex(TUTTE, {nvar: "n", ivar: "i"})
    radius = ex.q(val.args[0])
    coef = pi_coefficient(ex, val.args[1], pi_names)
    part = {}
    for st, arr in zip(cc[0].body[1:], (uvar, vvar)):
        tgt, val = assign1(st, TUTTE)
        if not (isinstance(tgt, ast.Subscript) and T.dotted(tgt.value) in (uvar, vvar) and T.dotted(tgt.slice) == ivar
                and T.dotted(val) in (rt + ".real", rt + ".imag")):
            T.fail(TUTTE, st, "not `<U|V>[i] = rt.<real|imag>`")
        part[T.dotted(tgt.value)] = "PReal" if T.dotted(val).endswith("real") else "PImag"
    if set(part) != {uvar, vvar}:
        T.fail(TUTTE, cc[0], "circle branch does not write both U and V")
    out.append("Inductive cpart := PReal | PImag.   (* cmath.rect(r, t) = r cos t + i r sin t *)")
    out.append("Definition circle_radius : Q := %s." % radius)
    out.append("(* the angle handed to cmath.rect, divided by pi *)")
    out.append("Definition circle_angle_over_pi (n i : Z) : Q := %s." % coef)
    out.append("Definition circle_U_part := %s. Definition circle_V_part := %s." % (part[uvar], part[vvar]))
    # ---- square
    sb = branches["SQUARE"]
    if not sb:
        T.fail(TUTTE, b[2], "empty square branch")
    tgt, val = assign1(sb[0], TUTTE)
    if not (isinstance(tgt, ast.Name) and isinstance(val, ast.List) and len(val.elts) == 4):
        T.fail(TUTTE, sb[0], "square branch does not start with `corners = [c0, c1, c2, c3]`")
    cname = tgt.id
    ex0 = Ex(TUTTE, {nvar: "n"})
    corners = [ex0.z(e) for e in val.elts]
    out.append("Definition sq_corners (n : Z) : list Z := [%s]." % "; ".join("(%s)%%Z" % c for c in corners))
    writes = []  # (array, guard_text, let_text, value_text) in program order; v is the index being read

    for st in sb[1:]:
        if isinstance(st, ast.Assign):
            tgt, val = assign1(st, TUTTE)
            if not (isinstance(tgt, ast.Tuple) and isinstance(val, ast.Tuple) and len(tgt.elts) == len(val.elts)):
                T.fail(TUTTE, st, "corner statement is not `U[k], V[k] = a, b`")
            exc = Ex(TUTTE, {nvar: "n"}, {cname: corners})
            for t1, v1 in zip(tgt.elts, val.elts):
                if not (isinstance(t1, ast.Subscript) and T.dotted(t1.value) in (uvar, vvar)):
                    T.fail(TUTTE, t1, "assignment target is not U[..] / V[..]")
                writes.append((T.dotted(t1.value), "(v =? %s)%%Z" % exc.z(t1.slice), "", exc.q(v1)))
        elif isinstance(st, ast.For) and not st.orelse:
            it = st.iter
            if isinstance(it, ast.Call) and T.dotted(it.func) == "range" and len(it.args) == 2 and isinstance(st.target, ast.Name):
                lo, hi = ex0.z(it.args[0]), ex0.z(it.args[1])
                elt, cnt = st.target.id, None
            elif (isinstance(it, ast.Call) and T.dotted(it.func) == "enumerate" and len(it.args) == 1 and not it.keywords
                  and isinstance(it.args[0], ast.Call) and T.dotted(it.args[0].func) == "range" and len(it.args[0].args) == 2
                  and isinstance(st.target, ast.Tuple) and len(st.target.elts) == 2):
                lo, hi = ex0.z(it.args[0].args[0]), ex0.z(it.args[0].args[1])
                cnt, elt = names(st.target)
            else:
                T.fail(TUTTE, st, "loop is neither `for i in range(a,b)` nor `for i,v in enumerate(range(a,b))`")
            zenv = {nvar: "n", elt: "v"}
            let = ""
            if cnt is not None:
                zenv[cnt] = "i"
                let = "let i := (v - %s)%%Z in " % lo
            exl = Ex(TUTTE, zenv)
            for s2 in st.body:
                tgt, val = assign1(s2, TUTTE)
                if not (isinstance(tgt, ast.Subscript) and T.dotted(tgt.value) in (uvar, vvar) and T.dotted(tgt.slice) == elt):
                    T.fail(TUTTE, s2, "loop body statement is not `U[%s] = ..` / `V[%s] = ..`" % (elt, elt))
                writes.append((T.dotted(tgt.value), "((%s <=? v)%%Z && (v <? %s)%%Z)" % (lo, hi), let, exl.q(val)))
        else:
            T.fail(TUTTE, st, "unexpected statement in the square branch")
    for arr, nm in ((uvar, "sq_U"), (vvar, "sq_V")):
        lines = ["Definition %s (n v : Z) : Q :=" % nm]
        for (a, guard, let, value) in reversed(writes):   # the last write to an index wins
            if a == arr:
                lines.append("  if %s then %s%s else" % (guard, let, value))
        lines.append("  0.")
        out.append("\n".join(lines))


# ====================================================================== operators.laplacian, around the face loop
def gen_laplacian_header(out, fn):
    """Pins where the cotangents come from (guard positions!) and how the coefficients are summed:
         if cotan: (cot = cached attribute if present else cotangent(mesh)) else: cot = None
         ... face loop ...
         mat = sp.csc_matrix((coeffs,(rows,cols)), ...) ; return mat        (duplicates are SUMMED by csc_matrix)"""
    b = T.body_nodoc(fn)
    ifs = [x for x in b if isinstance(x, ast.If)]
    if len(ifs) != 1:
        T.fail(LAP, fn, "laplacian has %d top-level `if`, 1 expected (weight source)" % len(ifs))
    w = ifs[0]
    ok = (T.dotted(w.test) == "cotan" and len(w.body) == 1 and isinstance(w.body[0], ast.If) and len(w.orelse) == 1)
    if not ok:
        T.fail(LAP, w, "weight source is not `if cotan: <if cached: .. else: ..> else: cot = None`")
    tgt, val = assign1(w.orelse[0], LAP)
    if not (T.dotted(tgt) == "cot" and isinstance(val, ast.Constant) and val.value is None):
        T.fail(LAP, w.orelse[0], "without cotan the weight table is not `cot = None`")
    c = w.body[0]
    t = c.test
    ok = (isinstance(t, ast.Call) and T.dotted(t.func) == "mesh.face_corners.has_attribute" and len(t.args) == 1
          and isinstance(t.args[0], ast.Constant) and t.args[0].value == "cotan" and len(c.body) == 1 and len(c.orelse) == 1)
    if not ok:
        T.fail(LAP, c, "cache test is not `if mesh.face_corners.has_attribute(\"cotan\")`")
    tgt, val = assign1(c.body[0], LAP)
    if not (T.dotted(tgt) == "cot" and isinstance(val, ast.Call) and T.dotted(val.func) == "mesh.face_corners.get_attribute"
            and len(val.args) == 1 and isinstance(val.args[0], ast.Constant) and val.args[0].value == "cotan"):
        T.fail(LAP, c.body[0], "cached branch is not `cot = mesh.face_corners.get_attribute(\"cotan\")`")
    tgt, val = assign1(c.orelse[0], LAP)
    if not (T.dotted(tgt) == "cot" and isinstance(val, ast.Call) and T.dotted(val.func) == "cotangent"
            and [T.dotted(a) for a in val.args] == ["mesh"] and not val.keywords):
        T.fail(LAP, c.orelse[0], "fresh branch is not `cot = cotangent(mesh)`")
    out.append("(* where the per-corner cotangents come from: Some true = the persistent attribute \"cotan\" already on the mesh")
    out.append("   (NOT recomputed), Some false = cotangent(mesh) computed now (and stored), None = no table (uniform weights) *)")
    out.append("Definition lap_cot_source (cotan has_attr : bool) : option bool :=")
    out.append("  if cotan then (if has_attr then Some true else Some false) else None.")
    # the matrix: csc_matrix((coeffs,(rows,cols)), ...) returned as is
    if not (len(b) >= 2 and isinstance(b[-1], ast.Return) and isinstance(b[-2], ast.Assign)):
        T.fail(LAP, fn, "laplacian does not end with `mat = sp.csc_matrix(..); return mat`")
    tgt, val = assign1(b[-2], LAP)
    ok = (isinstance(tgt, ast.Name) and T.dotted(b[-1].value) == tgt.id and isinstance(val, ast.Call)
          and T.dotted(val.func) == "sp.csc_matrix" and len(val.args) == 1 and isinstance(val.args[0], ast.Tuple)
          and len(val.args[0].elts) == 2 and T.dotted(val.args[0].elts[0]) == "coeffs"
          and isinstance(val.args[0].elts[1], ast.Tuple) and names(val.args[0].elts[1]) == ["rows", "cols"])
    if not ok:
        T.fail(LAP, b[-2], "matrix is not `sp.csc_matrix((coeffs,(rows,cols)), ..)`")
    # n_coeffs = 12*len(mesh.faces) and the counter starts at 0
    have = {}
    for st in b:
        if isinstance(st, ast.Assign) and len(st.targets) == 1 and isinstance(st.targets[0], ast.Name):
            have[st.targets[0].id] = st.value
    nc = have.get("n_coeffs")
    ok = (isinstance(nc, ast.BinOp) and isinstance(nc.op, ast.Mult) and isinstance(nc.left, ast.Constant) and nc.left.value == 12
          and isinstance(nc.right, ast.Call) and T.dotted(nc.right.func) == "len" and [T.dotted(a) for a in nc.right.args] == ["mesh.faces"])
    c0 = have.get("_c")
    if not ok or not (isinstance(c0, ast.Constant) and c0.value == 0):
        T.fail(LAP, fn, "not `n_coeffs = 12*len(mesh.faces)` / `_c = 0`")
    for arr in ("rows", "cols", "coeffs"):
        v = have.get(arr)
        if not (isinstance(v, ast.Call) and T.dotted(v.func) == "np.zeros" and v.args and T.dotted(v.args[0]) == "n_coeffs"):
            T.fail(LAP, fn, "%s is not np.zeros(n_coeffs, ..)" % arr)


# ====================================================================== operators.laplacian
def gen_laplacian(out, parts):
    src, tree = T.load(LAP)
    fn = T.find_def(tree, "laplacian", LAP)
    check_callable(LAP, fn, ("allowed_mesh_types",), (True, None, 4))
    parts.append(("operators.laplacian", T.sha(src, fn)))
    gen_laplacian_header(out, fn)
    loops = [n for n in T.body_nodoc(fn) if isinstance(n, ast.For)]
    if len(loops) != 1:
        T.fail(LAP, fn, "laplacian has %d top-level loops, 1 expected" % len(loops))
    lp = loops[0]
    ok = (isinstance(lp.iter, ast.Call) and T.dotted(lp.iter.func) == "enumerate" and [T.dotted(a) for a in lp.iter.args] == ["mesh.faces"]
          and isinstance(lp.target, ast.Tuple) and len(lp.target.elts) == 2 and isinstance(lp.target.elts[1], ast.Tuple)
          and len(lp.target.elts[1].elts) == 3 and len(lp.body) == 2)
    if not ok:
        T.fail(LAP, lp, "face loop is not `for iT, (p,q,r) in enumerate(mesh.faces): <if cotan..else..>; <for ..>`")
    itv = T.dotted(lp.target.elts[0])
    p, q, r = names(lp.target.elts[1])
    sel = lp.body[0]
    if not (isinstance(sel, ast.If) and T.dotted(sel.test) == "cotan" and len(sel.body) == 1 and len(sel.orelse) == 1):
        T.fail(LAP, sel, "weight selection is not `if cotan: .. else: ..`")
    # a,b,c = (cot[mesh.connectivity.vertex_to_corner_in_face(_v,iT)]/2 for _v in (p,q,r))
    tgt, val = assign1(sel.body[0], LAP)
    abc = names(tgt)
    ok = (len(abc) == 3 and isinstance(val, ast.GeneratorExp) and len(val.generators) == 1
          and names(val.generators[0].iter) == [p, q, r] and isinstance(val.generators[0].target, ast.Name)
          and not val.generators[0].ifs)
    if not ok:
        T.fail(LAP, sel.body[0], "not `a,b,c = (<expr of cot[corner of _v in iT]> for _v in (p,q,r))`")
    gv = val.generators[0].target.id
    holder = []

    class Sub(ast.NodeTransformer):
        def visit_Subscript(self, node):
            c = node.slice
            if (T.dotted(node.value) == "cot" and isinstance(c, ast.Call)
                    and T.dotted(c.func) == "mesh.connectivity.vertex_to_corner_in_face"
                    and [T.dotted(a) for a in c.args] == [gv, itv]):
                holder.append(1)
                return ast.copy_location(ast.Name(id="__cot__", ctx=ast.Load()), node)
            return self.generic_visit(node)
    elt = Sub().visit(val.elt)
    if len(holder) != 1:
        T.fail(LAP, sel.body[0], "generator element does not read cot[vertex_to_corner_in_face(_v,iT)] exactly once")
    out.append("(* weight a corner contributes, from its cotangent x (cotan=True) *)")
    out.append("Definition lap_cot_weight (x : Q) : Q := %s." % Ex(LAP, {}, qenv={"__cot__": "x"}).q(elt))
    # a,b,c = 0.5, 0.5, 0.5
    tgt, val = assign1(sel.orelse[0], LAP)
    if not (names(tgt) == abc and isinstance(val, ast.Tuple) and len(val.elts) == 3):
        T.fail(LAP, sel.orelse[0], "uniform branch is not `a,b,c = x, y, z`")
    exq = Ex(LAP, {})
    out.append("Definition lap_uniform_abc : Q * Q * Q := (%s, %s, %s)." % tuple(exq.q(e) for e in val.elts))
    # for (i, j, v) in [(p, q, c), (q, r, a), (r, p, b)]:
    inner = lp.body[1]
    ok = (isinstance(inner, ast.For) and isinstance(inner.target, ast.Tuple) and len(inner.target.elts) == 3
          and isinstance(inner.iter, ast.List) and len(inner.iter.elts) == 3)
    if not ok:
        T.fail(LAP, inner, "edge loop is not `for (i, j, v) in [(..),(..),(..)]`")
    iv, jv, wv = names(inner.target)
    zmap = {p: "p", q: "q", r: "r"}
    qmap = dict(zip(abc, ("a", "b", "c")))
    edges = []
    for e in inner.iter.elts:
        ns = names(e)
        if len(ns) != 3 or ns[0] not in zmap or ns[1] not in zmap or ns[2] not in qmap:
            T.fail(LAP, e, "edge tuple is not (vertex, vertex, weight)")
        edges.append((zmap[ns[0]], zmap[ns[1]], qmap[ns[2]]))
    # body: two unconditional writes, then `if connection is not None: .. else: <two writes>`
    if not (len(inner.body) == 3 and isinstance(inner.body[2], ast.If)):
        T.fail(LAP, inner, "edge loop body is not <write; write; if connection is not None ..>")
    t = inner.body[2].test
    if not (isinstance(t, ast.Compare) and T.dotted(t.left) == "connection" and len(t.ops) == 1 and isinstance(t.ops[0], ast.IsNot)
            and isinstance(t.comparators[0], ast.Constant) and t.comparators[0].value is None):
        T.fail(LAP, t, "test is not `connection is not None`")
    stmts = inner.body[:2] + inner.body[2].orelse
    if len(stmts) != 4:
        T.fail(LAP, inner, "the scalar Laplacian does not write 4 coefficients per edge")
    ent = []
    for st in stmts:
        tgt, val = assign1(st, LAP)
        ok = (isinstance(tgt, ast.Tuple) and len(tgt.elts) == 4 and isinstance(val, ast.Tuple) and len(val.elts) == 4
              and [T.dotted(x.value) if isinstance(x, ast.Subscript) else T.dotted(x) for x in tgt.elts] == ["rows", "cols", "coeffs", "_c"]
              and all(T.dotted(x.slice) == "_c" for x in tgt.elts[:3]))
        if not ok:
            T.fail(LAP, st, "not `rows[_c], cols[_c], coeffs[_c], _c = <i|j>, <i|j>, <+-v>, _c+1`")
        nx = val.elts[3]
        if not (isinstance(nx, ast.BinOp) and isinstance(nx.op, ast.Add) and T.dotted(nx.left) == "_c"
                and isinstance(nx.right, ast.Constant) and nx.right.value == 1):
            T.fail(LAP, st, "counter is not advanced by `_c+1`")
        rr, cc = T.dotted(val.elts[0]), T.dotted(val.elts[1])
        if rr not in (iv, jv) or cc not in (iv, jv):
            T.fail(LAP, st, "row/column is not i or j")
        ent.append(({iv: "i", jv: "j"}[rr], {iv: "i", jv: "j"}[cc], Ex(LAP, {}, qenv={wv: "w"}).q(val.elts[2])))
    out.append("(* the coefficients one directed face edge (i, j) of weight w contributes: (row, col, value) *)")
    out.append("Definition lap_edge_entries (i j : Z) (w : Q) : list (Z * Z * Q) := [%s]."
               % "; ".join("(%s, %s, %s)" % e for e in ent))
    out.append("(* a face (p,q,r) whose corners at p,q,r carry the weights a,b,c *)")
    out.append("Definition lap_face_entries (p q r : Z) (a b c : Q) : list (Z * Z * Q) :=\n  %s."
               % " ++ ".join("lap_edge_entries %s %s %s" % e for e in edges))


# ====================================================================== BaseParametrization.flat_mesh
def gen_flat(out, parts):
    src, tree = T.load(BASE)
    fn = T.find_def(tree, "BaseParametrization.flat_mesh", BASE)
    check_callable(BASE, fn, ("property",), ())
    parts.append(("BaseParametrization.flat_mesh", T.sha(src, fn)))
    # guard positions: `if self.uvs is None: return None` FIRST, then `if self._flat_mesh is None: <copy; loops>`, then return
    fb = T.body_nodoc(fn)

    def is_none_test(t, what):
        return (isinstance(t, ast.Compare) and T.dotted(t.left) == what and len(t.ops) == 1 and isinstance(t.ops[0], ast.Is)
                and isinstance(t.comparators[0], ast.Constant) and t.comparators[0].value is None)
    ok = (len(fb) == 3 and isinstance(fb[0], ast.If) and is_none_test(fb[0].test, "self.uvs") and not fb[0].orelse
          and len(fb[0].body) == 1 and isinstance(fb[0].body[0], ast.Return)
          and isinstance(fb[0].body[0].value, ast.Constant) and fb[0].body[0].value.value is None
          and isinstance(fb[1], ast.If) and is_none_test(fb[1].test, "self._flat_mesh") and not fb[1].orelse
          and len(fb[1].body) == 2 and isinstance(fb[1].body[0], ast.Assign)
          and T.dotted(fb[1].body[0].targets[0]) == "self._flat_mesh" and isinstance(fb[1].body[0].value, ast.Call)
          and T.dotted(fb[1].body[0].value.func) == "copy" and [T.dotted(a) for a in fb[1].body[0].value.args] == ["self.mesh"]
          and isinstance(fb[1].body[1], ast.For)
          and isinstance(fb[2], ast.Return) and T.dotted(fb[2].value) == "self._flat_mesh")
    if not ok:
        T.fail(BASE, fn, "flat_mesh is not `if self.uvs is None: return None; if self._flat_mesh is None: "
                         "self._flat_mesh = copy(self.mesh); <loops>; return self._flat_mesh`")
    fors = [n for n in ast.walk(fn) if isinstance(n, ast.For)]
    if len(fors) != 2:
        T.fail(BASE, fn, "flat_mesh does not consist of two nested loops")
    outer, inner = fors[0], fors[1]
    ok = (isinstance(outer.target, ast.Name) and T.dotted(outer.iter) == "self.mesh.id_faces" and outer.body == [inner]
          and isinstance(inner.iter, ast.Call) and T.dotted(inner.iter.func) == "enumerate" and len(inner.iter.args) == 1
          and isinstance(inner.iter.args[0], ast.Subscript) and T.dotted(inner.iter.args[0].value) == "self.mesh.faces"
          and T.dotted(inner.iter.args[0].slice) == outer.target.id and len(names(inner.target)) == 2 and len(inner.body) == 1)
    if not ok:
        T.fail(BASE, fn, "not `for T in self.mesh.id_faces: for i,v in enumerate(self.mesh.faces[T]): ...`")
    tv = outer.target.id
    iv, vv = names(inner.target)
    sw = inner.body[0]
    if not (isinstance(sw, ast.If) and T.dotted(sw.test) == "self.save_on_corners" and len(sw.body) == 1 and len(sw.orelse) == 1):
        T.fail(BASE, sw, "not `if self.save_on_corners: .. else: ..`")
    res = []
    for st in (sw.body[0], sw.orelse[0]):
        tgt, val = assign1(st, BASE)
        ok = (isinstance(tgt, ast.Subscript) and T.dotted(tgt.value) == "self._flat_mesh.vertices" and T.dotted(tgt.slice) == vv
              and isinstance(val, ast.Call) and T.dotted(val.func) == "Vec" and len(val.args) == 3)
        if not ok:
            T.fail(BASE, st, "not `self._flat_mesh.vertices[v] = Vec(.., .., ..)`")
        idx = []
        for k, a in enumerate(val.args[:2]):
            if not (isinstance(a, ast.Subscript) and isinstance(a.slice, ast.Constant) and a.slice.value == k
                    and isinstance(a.value, ast.Subscript) and T.dotted(a.value.value) == "self.uvs"):
                T.fail(BASE, a, "coordinate %d is not self.uvs[<index>][%d]" % (k, k))
            idx.append(Ex(BASE, {tv: "T", iv: "i", vv: "v"}).z(a.value.slice))
        if idx[0] != idx[1]:
            T.fail(BASE, st, "the two coordinates read different uv entries")
        z = val.args[2]
        if not (isinstance(z, ast.Constant) and z.value == 0):
            T.fail(BASE, z, "third coordinate is not 0")
        res.append(idx[0])
    out.append("(* which uv entry flat_mesh copies to vertex v = faces[T][i] *)")
    out.append("Definition flat_index_corner (T i v : Z) : Z := (%s)%%Z." % res[0])
    out.append("Definition flat_index_vertex (T i v : Z) : Z := (%s)%%Z." % res[1])


BORDER = "mouette/processing/border.py"


def gen_border(parts):
    """extract_border_cycle is modelled by observation (C15 owns its walk); only its decorators and defaults are pinned"""
    src, tree = T.load(BORDER)
    fn = T.find_def(tree, "extract_border_cycle", BORDER)
    check_callable(BORDER, fn, ("allowed_mesh_types",), (None,))
    parts.append(("border.extract_border_cycle (signature only)", "-"))


def gen():
    out, parts = [], []
    gen_border(parts)
    gen_euler(out, parts)
    src, tree = T.load(TUTTE)
    gen_ctor(out, parts, src, tree)
    gen_run(out, parts, src, tree)
    gen_boundary(out, parts, src, tree)
    gen_laplacian(out, parts)
    gen_flat(out, parts)
    text = T.header("C17: Tutte embedding - gate, plumbing, border parameters, Laplacian pattern, flat mesh indices", parts)
    text += "From Coq Require Import ZArith QArith List Bool.\nImport ListNotations.\nOpen Scope Z_scope.\nOpen Scope Q_scope.\n\n"
    text += "\n".join(out) + "\n"
    return {"C17/Gen.v": text}
