"""kdtree.py + aabb.py (+ geometry.norm/distance shapes) -> coq/theories/C11/Gen.v

Extracted (every one is used by Model.v and mentioned by the theorems):
  __init__        leaf test `leaf.size <= max_leaf_size`, root axis, axis cycling `(leaf.split_axis + 1)%self.dim`,
                  the two child boxes (which bound of the parent box is overwritten by the split value)
  _split_points   split predicate `pts_ax <= pivot`, the degenerate-split test, `half`, position of the rank pivot
  query           eviction test `n_found>k`, the 'k candidates held' guard, the prune predicate, result order
  query_radius    prune predicate, keep predicate
  AABB.distance   per-coordinate excess `maximum(maximum(mini - pt, pt - maxi), 0.)`
Everything around them (loop nests, call plumbing) is checked to have exactly the recognised shape; anything else
raises TranslationError (the tie to the source is then broken).
"""
import ast

from . import common as T
from ..core import TranslationError

KD = "mouette/spatial/kdtree.py"
AB = "mouette/geometry/aabb.py"
GE = "mouette/geometry/geometry.py"


def u(node):
    return ast.unparse(node)


class Expr:
    """Tiny typed expression compiler.  env maps the unparsed text of a Python sub-expression to (coq term, type)
    with type in {'nat', 'Z', 'ext', 'bool'}."""

    def __init__(self, rel, env):
        self.rel = rel
        self.env = env

    def term(self, e):
        key = u(e)
        if key in self.env:
            return self.env[key]
        if isinstance(e, ast.Constant) and isinstance(e.value, (int, float)) and not isinstance(e.value, bool):
            if float(e.value) != int(e.value) or e.value < 0:
                T.fail(self.rel, e, "unsupported numeric literal")
            return (str(int(e.value)), "lit")
        if isinstance(e, ast.BinOp):
            a, ta = self.term(e.left)
            b, tb = self.term(e.right)
            ty = self.unify(e, ta, tb)
            if ty == "mixed":
                if isinstance(e.op, ast.Sub) and ta == "ext" and tb == "Z":
                    return ("(esub_ez %s %s)" % (a, b), "ext")
                if isinstance(e.op, ast.Sub) and ta == "Z" and tb == "ext":
                    return ("(esub_ze %s %s)" % (a, b), "ext")
                T.fail(self.rel, e, "unsupported mixed arithmetic")
            a, b = self.lit(a, ta, ty), self.lit(b, tb, ty)
            if ty == "nat":
                op = {ast.Add: "(%s + %s)%%nat", ast.Sub: "(%s - %s)%%nat", ast.Mult: "(%s * %s)%%nat",
                      ast.FloorDiv: "(Nat.div %s %s)", ast.Mod: "(Nat.modulo %s %s)"}.get(type(e.op))
            elif ty == "Z":
                op = {ast.Add: "(%s + %s)%%Z", ast.Sub: "(%s - %s)%%Z", ast.Mult: "(%s * %s)%%Z",
                      ast.FloorDiv: "(Z.div %s %s)", ast.Mod: "(Z.modulo %s %s)"}.get(type(e.op))
            else:
                op = None
            if op is None:
                T.fail(self.rel, e, "unsupported arithmetic operator for type %s" % ty)
            return (op % (a, b), ty)
        if isinstance(e, ast.Call) and T.dotted(e.func) in ("np.maximum", "numpy.maximum") and len(e.args) == 2 and not e.keywords:
            a, ta = self.term(e.args[0])
            b, tb = self.term(e.args[1])
            if "ext" not in (ta, tb):
                T.fail(self.rel, e, "np.maximum on non-extended operands")
            return ("(emax %s %s)" % (self.lit(a, ta, "ext"), self.lit(b, tb, "ext")), "ext")
        T.fail(self.rel, e, "expression outside the recognised subset")

    def unify(self, e, ta, tb):
        if ta == "lit" and tb == "lit":
            T.fail(self.rel, e, "constant expression")
        if ta == "lit":
            return tb
        if tb == "lit":
            return ta
        if ta == tb:
            return ta
        if {ta, tb} == {"ext", "Z"}:
            return "mixed"
        T.fail(self.rel, e, "operands of different types %s/%s" % (ta, tb))

    def lit(self, s, ty, want):
        if ty != "lit":
            return s
        return {"nat": "%s%%nat" % s, "Z": "%s%%Z" % s, "ext": "(Fin %s)" % s}[want]

    def boolean(self, e):
        if isinstance(e, ast.BoolOp):
            parts = [self.boolean(v) for v in e.values]
            op = " && " if isinstance(e.op, ast.And) else " || "
            return "(" + op.join(parts) + ")"
        if isinstance(e, ast.UnaryOp) and isinstance(e.op, ast.Not):
            return "(negb %s)" % self.boolean(e.operand)
        if isinstance(e, ast.Compare):
            if len(e.ops) != 1:
                T.fail(self.rel, e, "chained comparison")
            a, ta = self.term(e.left)
            b, tb = self.term(e.comparators[0])
            ty = self.unify(e, ta, tb)
            if ty == "mixed":
                # Z against ext: inject the finite side
                a = "(Fin %s)" % a if ta == "Z" else a
                b = "(Fin %s)" % b if tb == "Z" else b
                ty = "ext"
            a, b = self.lit(a, ta, ty), self.lit(b, tb, ty)
            pre = {"nat": ("Nat.leb", "Nat.ltb", "Nat.eqb"), "Z": ("Z.leb", "Z.ltb", "Z.eqb"),
                   "ext": ("eleb", "eltb", "eeqb")}.get(ty)
            if pre is None:
                T.fail(self.rel, e, "comparison on type %s" % ty)
            le, lt, eq = pre
            o = type(e.ops[0])
            if o is ast.LtE:
                return "(%s %s %s)" % (le, a, b)
            if o is ast.Lt:
                return "(%s %s %s)" % (lt, a, b)
            if o is ast.GtE:
                return "(%s %s %s)" % (le, b, a)
            if o is ast.Gt:
                return "(%s %s %s)" % (lt, b, a)
            if o is ast.Eq:
                return "(%s %s %s)" % (eq, a, b)
            if o is ast.NotEq:
                return "(negb (%s %s %s))" % (eq, a, b)
            T.fail(self.rel, e, "unsupported comparison operator")
        key = u(e)
        if key in self.env and self.env[key][1] == "bool":
            return self.env[key][0]
        T.fail(self.rel, e, "boolean expression outside the recognised subset")


def expect(cond, rel, node, msg):
    if not cond:
        T.fail(rel, node, msg)


def is_call(e, name, nargs=None):
    return isinstance(e, ast.Call) and T.dotted(e.func) == name and (nargs is None or len(e.args) == nargs)


def assign_to(st, name):
    return isinstance(st, ast.Assign) and len(st.targets) == 1 and u(st.targets[0]) == name


# ---------------------------------------------------------------------- tolerance for harmless rewrites
PURE_ROOTS = {"np", "numpy", "math", "KDTree", "AABB", "Vec", "float", "int", "len", "range", "sorted", "min", "max",
              "isinstance", "deque", "PriorityQueue", "distance", "norm", "check_argument", "Exception"}


MUTATORS = {"append", "appendleft", "pop", "popleft", "push", "get", "extend", "add", "remove", "clear", "insert", "sort",
            "update", "discard", "seed", "shuffle"}


def bound_names(fn):
    """Local names of a function in order of first binding (parameters excluded)."""
    params = {a.arg for a in fn.args.args}
    seen = []

    class V(ast.NodeVisitor):
        def visit_Name(self, n):
            if isinstance(n.ctx, ast.Store) and n.id not in params and n.id not in seen:
                seen.append(n.id)

        def visit_FunctionDef(self, n):
            if n is fn:
                self.generic_visit(n)

    V().visit(fn)
    return seen


def canon_fn(fn, original):
    """A copy of `fn` in which renamed locals carry their original names again: the locals that are new (not in
    `original`) are matched, in order of first binding, with the original names that disappeared."""
    import copy
    actual = bound_names(fn)
    new = [x for x in actual if x not in original]
    gone = [x for x in original if x not in actual]
    if not new or len(new) != len(gone):
        return fn
    used = set(actual) | {a.arg for a in fn.args.args}
    if any(g in used for g in gone):
        return fn
    m = dict(zip(new, gone))
    fn2 = copy.deepcopy(fn)
    for n in ast.walk(fn2):
        if isinstance(n, ast.Name) and n.id in m:
            n.id = m[n.id]
    return fn2


def skey(st):
    def tk(t):
        if isinstance(t, ast.Tuple):
            return ",".join(tk(e) for e in t.elts)
        if isinstance(t, ast.Subscript):
            return u(t.value) + "[]"
        return u(t)
    if isinstance(st, ast.Assign):
        return "=" + ";".join(tk(t) for t in st.targets)
    if isinstance(st, ast.AugAssign):
        return "aug " + tk(st.target)
    if isinstance(st, ast.Expr) and isinstance(st.value, ast.Call):
        return "call " + str(T.dotted(st.value.func))
    return type(st).__name__.lower()


def root_of(e):
    while isinstance(e, (ast.Attribute, ast.Subscript)):
        e = e.value
    return e.id if isinstance(e, ast.Name) else None


def rw(st):
    reads, writes = set(), set()
    for n in ast.walk(st):
        if isinstance(n, ast.Name):
            (writes if isinstance(n.ctx, ast.Store) else reads).add(n.id)
        elif isinstance(n, (ast.Attribute, ast.Subscript)) and isinstance(n.ctx, ast.Store):
            r = root_of(n)
            if r:
                writes.add(r)
        elif isinstance(n, ast.Call) and isinstance(n.func, ast.Attribute):
            r = root_of(n.func)
            m = n.func.attr
            if r and r not in PURE_ROOTS and (m in MUTATORS or (r == "self" and m.startswith("_"))):
                writes.add(r)  # the call may mutate its receiver (containers; private methods of self: ids, RNG)
        if isinstance(n, (ast.Return, ast.Continue, ast.Break, ast.Raise)):
            writes.add("<control>")
            reads.add("<control>")
    if isinstance(st, (ast.If, ast.While, ast.For)):
        reads.add("<control>")
    return reads, writes


def conflict(a, b):
    ra, wa = rw(a)
    rb, wb = rw(b)
    return bool(wa & (rb | wb)) or bool(wb & ra)


def blk(rel, node, stmts, keys):
    """The statements of a block, brought into the expected order `keys` (statement shape keys) if that only moves
    statements over statements they do not depend on; otherwise the translation fails."""
    rest = list(stmts)
    if len(rest) != len(keys):
        T.fail(rel, node, "block has %d statements, expected %d (%s)" % (len(rest), len(keys), ", ".join(keys)))
    out = []
    for k in keys:
        pos = None
        for i, st in enumerate(rest):
            if skey(st) == k and not any(conflict(t, st) for t in rest[:i]):
                pos = i
                break
        if pos is None:
            T.fail(rel, node, "statement `%s` not found where expected (block: %s)" % (k, " | ".join(skey(x) for x in stmts)))
        out.append(rest.pop(pos))
    return out


LOCALS = {
    "__init__": ["root", "queue", "leaf", "split_value", "pts_less", "pts_more", "node", "leaf_less", "leaf_more",
                 "bbmax_less", "bbmin_more"],
    "_new_leaf": ["leaf"],
    "_split_points": ["pts_ax", "pivot", "pivot_filter", "idx_less", "idx_more", "order", "half"],
    "query": ["found", "n_found", "queue", "node_id", "leaf", "idx", "node", "furthest_so_far", "dist_left", "dist_right",
              "dist", "child", "_"],
    "query_radius": ["queue", "found_pt", "node_id", "leaf", "idx", "node"],
    "distance": ["vec"],
}


def gen():
    parts = []
    out = []
    src, tree = T.load(KD)
    kd = T.find_def(tree, "KDTree", KD)

    # ================================================================== __init__
    fn = T.find_def(tree, "KDTree.__init__", KD)
    parts.append(("KDTree.__init__", T.sha(src, fn)))
    fn = canon_fn(fn, LOCALS["__init__"])
    params = [a.arg for a in fn.args.args]
    expect(params == ["self", "points", "max_leaf_size", "strategy"], KD, fn, "__init__ signature changed")
    body = T.body_nodoc(fn)
    # root = self._new_leaf(<axis>, None, np.arange(self.n_pts)); root.bb = AABB.infinite(self.dim)
    roots = [s for s in body if assign_to(s, "root")]
    expect(len(roots) == 1 and is_call(roots[0].value, "self._new_leaf", 3), KD, fn, "root leaf creation not recognised")
    ra = roots[0].value.args
    expect(isinstance(ra[0], ast.Constant) and isinstance(ra[0].value, int) and ra[0].value >= 0
           and u(ra[2]) == "np.arange(self.n_pts)", KD, roots[0], "root is not _new_leaf(<int>, None, np.arange(self.n_pts))")
    root_axis = ra[0].value
    expect(any(assign_to(s, "root.bb") and u(s.value) == "AABB.infinite(self.dim)" for s in body), KD, fn,
           "root.bb = AABB.infinite(self.dim) not found")
    expect(any(u(s) == "self.n_pts, self.dim = points.shape" for s in body), KD, fn, "self.n_pts, self.dim = points.shape not found")
    # does the constructor keep a private copy of the caller's array?  points = np.array(points) ; self.points = points
    conv = [s for s in body if assign_to(s, "points")]
    expect(len(conv) == 1 and isinstance(conv[0].value, ast.Call) and len(conv[0].value.args) == 1 and u(conv[0].value.args[0]) == "points",
           KD, fn, "conversion of the input `points = np.<array|asarray>(points)` not recognised")
    cf = T.dotted(conv[0].value.func)
    kws = {k.arg: u(k.value) for k in conv[0].value.keywords}
    if cf in ("np.array", "numpy.array") and kws.get("copy", "True") == "True" and set(kws) <= {"copy", "dtype"}:
        ctor_copies = "true"
    elif cf in ("np.asarray", "np.asanyarray", "np.ascontiguousarray", "numpy.asarray") or (cf in ("np.array", "numpy.array") and kws.get("copy") in ("False", "None")):
        ctor_copies = "false"
    else:
        T.fail(KD, conv[0], "cannot tell whether the constructor copies its input")
    # ... and converts it to float64: with the caller's dtype (uint8, int8, bool ...) coordinate differences wrap around
    expect(kws.get("dtype") in ("float", "np.float64", "numpy.float64", "'float64'", "'float'"), KD, conv[0],
           "the constructor keeps the caller's dtype (points = np.array(points, dtype=float) expected): integer arithmetic may wrap")
    stores = [s for s in body if assign_to(s, "self.points")]
    expect(len(stores) == 1 and u(stores[0].value) == "points" and body.index(conv[0]) < body.index(stores[0]), KD, fn,
           "self.points = points (after the conversion) not found")
    for fq in ("KDTree._split_points", "KDTree.query", "KDTree.query_radius"):
        for nn in ast.walk(T.find_def(tree, fq, KD)):
            if isinstance(nn, (ast.Assign, ast.AugAssign)):
                for tgt in (nn.targets if isinstance(nn, ast.Assign) else [nn.target]):
                    expect(not u(tgt).startswith("self.points"), KD, nn, "%s writes to self.points" % fq)
    expect(any(u(s) == "queue = deque()" for s in body) and any(u(s) == "queue.append(root)" for s in body), KD, fn,
           "queue initialisation not recognised")
    loops = [s for s in body if isinstance(s, ast.While)]
    expect(len(loops) == 1 and u(loops[0].test) == "len(queue) > 0" and not loops[0].orelse, KD, fn, "build loop not `while len(queue)>0`")
    lb = blk(KD, loops[0], loops[0].body, ["=leaf", "if"])
    expect(len(lb) == 2 and u(lb[0]) == "leaf = queue.popleft()" and isinstance(lb[1], ast.If), KD, loops[0],
           "build loop body is not `leaf = queue.popleft(); if ...: ... else: ...`")
    iff = lb[1]
    ex = Expr(KD, {"leaf.size": ("size", "nat"), "max_leaf_size": ("max_leaf_size", "nat")})
    leaf_ok = ex.boolean(iff.test)
    expect(len(iff.body) == 1 and u(iff.body[0]) == "self.nodes.append(leaf)", KD, iff, "leaf branch is not `self.nodes.append(leaf)`")
    eb = blk(KD, iff, iff.orelse, ["=split_value,pts_less,pts_more", "=node", "=leaf_less", "=leaf_more", "=node.left,node.right",
                                   "=bbmax_less", "=bbmax_less[]", "=bbmin_more", "=bbmin_more[]", "=leaf_less.bb", "=leaf_more.bb",
                                   "call self.nodes.append", "call queue.append", "call queue.append"])
    expect(u(eb[0]) == "(split_value, pts_less, pts_more) = self._split_points(leaf.points, leaf.split_axis)"
           or u(eb[0]) == "split_value, pts_less, pts_more = self._split_points(leaf.points, leaf.split_axis)", KD, eb[0],
           "call of _split_points not recognised")
    expect(u(eb[1]) == "node = KDTree.Node(leaf.id, leaf.split_axis, parent=leaf.parent, bb=leaf.bb, split_value=split_value)",
           KD, eb[1], "Node(...) construction not recognised")
    axes = []
    for st, nm, pts in ((eb[2], "leaf_less", "pts_less"), (eb[3], "leaf_more", "pts_more")):
        expect(assign_to(st, nm) and is_call(st.value, "self._new_leaf", 3) and u(st.value.args[1]) == "leaf.id"
               and u(st.value.args[2]) == pts, KD, st, "%s = self._new_leaf(<axis>, leaf.id, %s) not recognised" % (nm, pts))
        axes.append(st.value.args[0])
    expect(u(axes[0]) == u(axes[1]), KD, eb[3], "the two children get different axes")
    ex = Expr(KD, {"leaf.split_axis": ("axis", "nat"), "self.dim": ("dim", "nat")})
    next_axis, ty = ex.term(axes[0])
    expect(ty == "nat", KD, axes[0], "axis expression is not an integer expression")
    expect(u(eb[4]) in ("(node.left, node.right) = (leaf_less.id, leaf_more.id)", "node.left, node.right = (leaf_less.id, leaf_more.id)",
                        "node.left, node.right = leaf_less.id, leaf_more.id"), KD, eb[4], "node.left, node.right assignment not recognised")
    # boxes: copies of one bound of the parent with [leaf.split_axis] = split_value
    copies = {}
    for a, b in ((eb[5], eb[6]), (eb[7], eb[8])):
        expect(isinstance(a, ast.Assign) and isinstance(a.targets[0], ast.Name) and is_call(a.value, "np.copy", 1)
               and u(a.value.args[0]) in ("leaf.bb.mini", "leaf.bb.maxi"), KD, a, "box bound copy not recognised")
        nm = a.targets[0].id
        expect(u(b) == "%s[leaf.split_axis] = split_value" % nm, KD, b, "box bound update not `%s[leaf.split_axis] = split_value`" % nm)
        which = "lo" if u(a.value.args[0]) == "leaf.bb.mini" else "hi"
        copies[nm] = "(upd (%s b) axis (Fin sv))" % which
    boxes = {}
    for st, nm in ((eb[9], "leaf_less"), (eb[10], "leaf_more")):
        expect(assign_to(st, nm + ".bb") and is_call(st.value, "AABB", 2) and not st.value.keywords, KD, st, "%s.bb = AABB(.., ..) not recognised" % nm)
        sides = []
        for arg in st.value.args:
            k = u(arg)
            if k == "leaf.bb.mini":
                sides.append("(lo b)")
            elif k == "leaf.bb.maxi":
                sides.append("(hi b)")
            elif k in copies:
                sides.append(copies[k])
            else:
                T.fail(KD, arg, "box argument not recognised")
        boxes[nm] = "mkbox %s %s" % tuple(sides)
    expect([u(s) for s in eb[11:14]] == ["self.nodes.append(node)", "queue.append(leaf_less)", "queue.append(leaf_more)"], KD, eb[11],
           "end of the split branch not `self.nodes.append(node); queue.append(leaf_less); queue.append(leaf_more)`")
    # _new_leaf
    nl = T.find_def(tree, "KDTree._new_leaf", KD)
    parts.append(("KDTree._new_leaf", T.sha(src, nl)))
    nl = canon_fn(nl, LOCALS["_new_leaf"])
    expect([u(s) for s in blk(KD, nl, T.body_nodoc(nl), ["=leaf", "aug self._nid", "return"])] == ["leaf = KDTree.Leaf(self._nid, axis, parent, points)", "self._nid += 1", "return leaf"],
           KD, nl, "_new_leaf body changed")
    expect(any(u(s) == "self._nid = 0" for s in body) and any(u(s) == "self.nodes = []" for s in body), KD, fn, "self._nid = 0 / self.nodes = [] not found")
    out.append("(* kdtree.py KDTree.__init__ *)")
    out.append("Definition ctor_copies_input : bool := %s." % ctor_copies)
    out.append("Definition root_axis : nat := %d%%nat." % root_axis)
    out.append("Definition leaf_ok (size max_leaf_size : nat) : bool := %s." % leaf_ok)
    out.append("Definition next_axis (axis dim : nat) : nat := %s." % next_axis)
    out.append("Definition less_box (b : box) (axis : nat) (sv : Z) : box := %s." % boxes["leaf_less"])
    out.append("Definition more_box (b : box) (axis : nat) (sv : Z) : box := %s." % boxes["leaf_more"])

    # ================================================================== _split_points
    fn = T.find_def(tree, "KDTree._split_points", KD)
    parts.append(("KDTree._split_points", T.sha(src, fn)))
    fn = canon_fn(fn, LOCALS["_split_points"])
    expect([a.arg for a in fn.args.args] == ["self", "pt_idx", "axis"], KD, fn, "_split_points signature changed")
    sb = blk(KD, fn, T.body_nodoc(fn), ["=pts_ax", "=pivot", "=pivot_filter", "=idx_less", "=idx_more", "if", "return"])
    expect(u(sb[0]) == "pts_ax = self.points[pt_idx, axis]", KD, sb[0], "pts_ax = self.points[pt_idx,axis] not recognised")
    expect(u(sb[1]) == "pivot = self._find_pivot(pts_ax)", KD, sb[1], "pivot = self._find_pivot(pts_ax) not recognised")
    expect(assign_to(sb[2], "pivot_filter"), KD, sb[2], "pivot_filter assignment not recognised")
    goes_left = Expr(KD, {"pts_ax": ("c", "Z"), "pivot": ("pivot", "Z")}).boolean(sb[2].value)
    expect(u(sb[3]) == "idx_less = np.extract(pivot_filter, pt_idx)" and u(sb[4]) == "idx_more = np.extract(~pivot_filter, pt_idx)",
           KD, sb[3], "np.extract of the two sides not recognised")
    expect(isinstance(sb[5], ast.If) and not sb[5].orelse, KD, sb[5], "degenerate-split guard not recognised")
    degenerate = Expr(KD, {"idx_less.size": ("n_less", "nat"), "idx_more.size": ("n_more", "nat")}).boolean(sb[5].test)
    db = blk(KD, sb[5], sb[5].body, ["=order", "=half", "=pivot", "=idx_less", "=idx_more"])
    expect(u(db[0]) == "order = np.argsort(pts_ax, kind='stable')", KD, db[0], "order = np.argsort(pts_ax, kind=\"stable\") not recognised")
    expect(assign_to(db[1], "half"), KD, db[1], "half = ... not recognised")
    rank_half, ty = Expr(KD, {"pt_idx.size": ("size", "nat"), "pts_ax.size": ("size", "nat")}).term(db[1].value)
    expect(ty == "nat", KD, db[1], "half is not an integer expression")
    st = db[2]
    expect(assign_to(st, "pivot") and isinstance(st.value, ast.Subscript) and u(st.value.value) == "pts_ax"
           and isinstance(st.value.slice, ast.Subscript) and u(st.value.slice.value) == "order", KD, st,
           "pivot = pts_ax[order[<pos>]] not recognised")
    rank_pos, ty = Expr(KD, {"half": ("half", "nat")}).term(st.value.slice.slice)
    expect(ty == "nat", KD, st, "rank pivot position is not an integer expression")
    expect(u(db[3]) == "idx_less = pt_idx[order[:half]]" and u(db[4]) == "idx_more = pt_idx[order[half:]]", KD, db[3],
           "rank halves not `pt_idx[order[:half]]` / `pt_idx[order[half:]]`")
    expect(u(sb[6]) in ("return (pivot, idx_less, idx_more)", "return pivot, idx_less, idx_more"), KD, sb[6], "return of _split_points changed")
    out.append("(* kdtree.py KDTree._split_points *)")
    out.append("Definition goes_left (c pivot : Z) : bool := %s." % goes_left)
    out.append("Definition degenerate (n_less n_more : nat) : bool := %s." % degenerate)
    out.append("Definition rank_half (size : nat) : nat := %s." % rank_half)
    out.append("Definition rank_pivot_pos (half : nat) : nat := %s." % rank_pos)

    # ================================================================== _find_pivot / BuildStrategy: what each strategy computes
    fs = T.find_def(tree, "KDTree.BuildStrategy.from_string", KD)
    parts.append(("KDTree.BuildStrategy.from_string", T.sha(src, fs)))
    name_of = {}           # accepted (lower-case) string -> enum member
    for st in T.body_nodoc(fs):
        expect(isinstance(st, ast.If) and not st.orelse and len(st.body) == 1 and isinstance(st.body[0], ast.Return)
               and isinstance(st.test, ast.Compare) and u(st.test.left) == "txt.lower()" and isinstance(st.test.ops[0], ast.Eq)
               and isinstance(st.test.comparators[0], ast.Constant) and u(st.body[0].value).startswith("cls."), KD, st,
               "from_string is not a list of `if txt.lower() == <name>: return cls.<MEMBER>`")
        name_of[st.test.comparators[0].value] = u(st.body[0].value)[4:]
    expect(name_of == {"balanced": "BALANCED", "fast": "FAST", "random": "RANDOM"}, KD, fs, "strategy names / enum members changed: %s" % name_of)
    expect(any(u(s) == "self.build_strategy = KDTree.BuildStrategy.from_string(strategy)" for s in body), KD, fn,
           "self.build_strategy = KDTree.BuildStrategy.from_string(strategy) not found")
    fp = T.find_def(tree, "KDTree._find_pivot", KD)
    parts.append(("KDTree._find_pivot", T.sha(src, fp)))
    fp = canon_fn(fp, ["samples"])
    expect([a.arg for a in fp.args.args] == ["self", "pts_ax"], KD, fp, "_find_pivot signature changed")
    rules = {}
    node = T.body_nodoc(fp)
    expect(len(node) == 1 and isinstance(node[0], ast.If), KD, fp, "_find_pivot is not an if / elif chain over self.build_strategy")
    cur = node[0]
    while True:
        t_ = u(cur.test)
        expect(t_.startswith("self.build_strategy == KDTree.BuildStrategy."), KD, cur, "_find_pivot branch test not recognised")
        member = t_.rsplit(".", 1)[1]
        bb_ = [u(x) for x in cur.body]
        if bb_ == ["return np.median(pts_ax)"]:
            rules[member] = "PMedian"
        elif bb_ == ["return np.random.choice(pts_ax, 1)[0]"]:
            rules[member] = "PElement"
        elif len(bb_) == 2 and bb_[1] == "return np.median(samples)" and isinstance(cur.body[0], ast.Assign) \
                and is_call(cur.body[0].value, "np.random.choice", 2) and u(cur.body[0].value.args[0]) == "pts_ax" \
                and {k.arg: u(k.value) for k in cur.body[0].value.keywords} == {"replace": "False"}:
            sz = cur.body[0].value.args[1]
            expect(is_call(sz, "min", 2) and isinstance(sz.args[0], ast.Constant) and isinstance(sz.args[0].value, int)
                   and u(sz.args[1]) == "pts_ax.size", KD, sz, "sample size is not min(<int>, pts_ax.size)")
            rules[member] = "(PMedianOfSample %d%%nat)" % sz.args[0].value
        else:
            T.fail(KD, cur, "pivot computation of strategy %s not recognised" % member)
        if len(cur.orelse) == 1 and isinstance(cur.orelse[0], ast.If):
            cur = cur.orelse[0]
            continue
        expect(all(isinstance(x, ast.Raise) for x in cur.orelse), KD, cur, "_find_pivot: the final else does not raise")
        break
    expect(set(rules) == {"BALANCED", "FAST", "RANDOM"}, KD, fp, "_find_pivot does not treat exactly the three strategies")
    out.append("(* kdtree.py KDTree._find_pivot / BuildStrategy.from_string *)")
    out.append("Definition pivot_rule (s : strategy) : prule := match s with Balanced => %s | Fast => %s | Random => %s end."
               % (rules["BALANCED"], rules["FAST"], rules["RANDOM"]))

    # ================================================================== query
    fn = T.find_def(tree, "KDTree.query", KD)
    parts.append(("KDTree.query", T.sha(src, fn)))
    fn = canon_fn(fn, LOCALS["query"])
    expect([a.arg for a in fn.args.args] == ["self", "pt", "k"], KD, fn, "query signature changed")
    qb = blk(KD, fn, T.body_nodoc(fn), ["=found", "=n_found", "=queue", "call queue.append", "while", "return"])
    expect([u(s) for s in qb[:4]] == ["found = PriorityQueue()", "n_found = 0", "queue = deque()", "queue.append(0)"], KD, fn,
           "query prologue changed")
    expect(len(qb) == 6 and isinstance(qb[4], ast.While) and u(qb[4].test) == "len(queue) > 0", KD, fn, "query loop not recognised")
    wb = blk(KD, qb[4], qb[4].body, ["=node_id", "if"])
    expect(len(wb) == 2 and u(wb[0]) == "node_id = queue.pop()" and isinstance(wb[1], ast.If)
           and u(wb[1].test) == "self.is_leaf(node_id)", KD, qb[4], "query loop body not `node_id = queue.pop(); if self.is_leaf(node_id)`")
    lfb = blk(KD, wb[1], wb[1].body, ["=leaf", "for"])
    expect(len(lfb) == 2 and u(lfb[0]) == "leaf = self.nodes[node_id]" and isinstance(lfb[1], ast.For)
           and u(lfb[1].target) == "idx" and u(lfb[1].iter) == "leaf.points", KD, wb[1], "leaf branch of query not recognised")
    fb = blk(KD, lfb[1], lfb[1].body, ["call found.push", "aug n_found", "while"])
    expect(len(fb) == 3 and u(fb[0]) == "found.push(idx, -distance(self.points[idx], pt))" and u(fb[1]) == "n_found += 1"
           and isinstance(fb[2], ast.While), KD, lfb[1], "candidate push not recognised")
    knn_evict = Expr(KD, {"n_found": ("n_found", "nat"), "k": ("k", "nat")}).boolean(fb[2].test)
    expect([u(s) for s in blk(KD, fb[2], fb[2].body, ["call found.pop", "aug n_found"])] == ["found.pop()", "n_found -= 1"], KD, fb[2],
           "eviction loop body changed")
    nb = blk(KD, wb[1], wb[1].orelse, ["=node", "=furthest_so_far", "=dist_left", "=dist_right", "for"])
    expect(len(nb) == 5 and u(nb[0]) == "node = self.nodes[node_id]", KD, wb[1], "node branch of query not recognised")
    st = nb[1]
    expect(assign_to(st, "furthest_so_far") and isinstance(st.value, ast.IfExp) and u(st.value.body) == "-found.front.priority"
           and u(st.value.orelse) == "float('inf')", KD, st, "furthest_so_far = -found.front.priority if .. else float('inf') not recognised")
    knn_full = Expr(KD, {"n_found": ("n_found", "nat"), "k": ("k", "nat"), "found.empty()": ("found_empty", "bool")}).boolean(st.value.test)
    expect(u(nb[2]) == "dist_left = self.nodes[node.left].bb.distance(pt)" and u(nb[3]) == "dist_right = self.nodes[node.right].bb.distance(pt)",
           KD, nb[2], "child box distances not recognised")
    fo = nb[4]
    expect(isinstance(fo, ast.For) and u(fo.target) == "(dist, child)"
           and u(fo.iter) == "sorted([(dist_left, node.left), (dist_right, node.right)])", KD, fo, "ordered visit of the children not recognised")
    expect(len(fo.body) == 1 and isinstance(fo.body[0], ast.If) and not fo.body[0].orelse
           and [u(s) for s in fo.body[0].body] == ["queue.append(child)"], KD, fo, "child push not recognised")
    knn_visit = Expr(KD, {"furthest_so_far": ("furthest", "ext"), "dist": ("dist", "ext")}).boolean(fo.body[0].test)
    ret = u(qb[5])
    if ret == "return [found.pop().x for _ in range(n_found)][::-1]":
        rev = "true"
    elif ret == "return [found.pop().x for _ in range(n_found)]":
        rev = "false"
    else:
        T.fail(KD, qb[5], "return of query not recognised")
    sz = T.find_def(tree, "KDTree.Leaf.size", KD)
    expect([u(s) for s in T.body_nodoc(sz)] == ["return self.points.size"] and [u(d) for d in sz.decorator_list] == ["property"], KD, sz,
           "Leaf.size is not the property `return self.points.size`")
    il = T.find_def(tree, "KDTree.is_leaf", KD)
    expect([u(s) for s in T.body_nodoc(il)] == ["return isinstance(self.nodes[node_id], KDTree.Leaf)"], KD, il, "is_leaf changed")
    out.append("(* kdtree.py KDTree.query *)")
    out.append("Definition knn_evict (n_found k : nat) : bool := %s." % knn_evict)
    out.append("Definition knn_full (n_found k : nat) (found_empty : bool) : bool := %s." % knn_full)
    out.append("Definition knn_visit (furthest dist : ext) : bool := %s." % knn_visit)
    out.append("Definition knn_result_reversed : bool := %s." % rev)

    # ================================================================== query_radius
    fn = T.find_def(tree, "KDTree.query_radius", KD)
    parts.append(("KDTree.query_radius", T.sha(src, fn)))
    fn = canon_fn(fn, LOCALS["query_radius"])
    expect([a.arg for a in fn.args.args] == ["self", "pt", "r"], KD, fn, "query_radius signature changed")
    rb = blk(KD, fn, T.body_nodoc(fn), ["=queue", "=found_pt", "call queue.append", "while", "return"])
    expect(len(rb) == 5 and [u(s) for s in rb[:3]] == ["queue = deque()", "found_pt = []", "queue.append(0)"]
           and isinstance(rb[3], ast.While) and u(rb[3].test) == "len(queue) > 0" and u(rb[4]) == "return found_pt", KD, fn,
           "query_radius skeleton changed")
    wb = blk(KD, rb[3], rb[3].body, ["=node_id", "if", "if"])
    expect(len(wb) == 3 and u(wb[0]) == "node_id = queue.popleft()" and isinstance(wb[1], ast.If) and not wb[1].orelse
           and [u(s) for s in wb[1].body] == ["continue"], KD, rb[3], "radius loop prologue not recognised")
    rad_prune = Expr(KD, {"self.nodes[node_id].bb.distance(pt)": ("d", "ext"), "r": ("r", "ext")}).boolean(wb[1].test)
    i2 = wb[2]
    expect(isinstance(i2, ast.If) and u(i2.test) == "self.is_leaf(node_id)" and len(i2.body) == 2
           and u(i2.body[0]) == "leaf = self.nodes[node_id]", KD, i2, "radius leaf branch not recognised")
    st = i2.body[1]
    expect(isinstance(st, ast.AugAssign) and isinstance(st.op, ast.Add) and u(st.target) == "found_pt"
           and isinstance(st.value, ast.ListComp) and u(st.value.elt) == "idx" and len(st.value.generators) == 1
           and u(st.value.generators[0].target) == "idx" and u(st.value.generators[0].iter) == "leaf.points"
           and len(st.value.generators[0].ifs) == 1, KD, st, "radius leaf scan not recognised")
    rad_keep = Expr(KD, {"distance(self.points[idx], pt)": ("d", "Z"), "r": ("r", "Z")}).boolean(st.value.generators[0].ifs[0])
    expect([u(s) for s in blk(KD, i2, i2.orelse, ["=node", "call queue.append", "call queue.append"])]
           == ["node = self.nodes[node_id]", "queue.append(node.left)", "queue.append(node.right)"], KD, i2,
           "radius node branch not recognised")
    out.append("(* kdtree.py KDTree.query_radius *)")
    out.append("Definition rad_prune (d r : ext) : bool := %s." % rad_prune)
    out.append("Definition rad_keep (d r : Z) : bool := %s." % rad_keep)

    # ================================================================== AABB.distance, geometry.norm / distance
    asrc, atree = T.load(AB)
    fn = T.find_def(atree, "AABB.distance", AB)
    parts.append(("AABB.distance", T.sha(asrc, fn)))
    fn = canon_fn(fn, LOCALS["distance"])
    expect([a.arg for a in fn.args.args] == ["self", "pt", "which"] and [u(d) for d in fn.args.defaults] == ["'l2'"], AB, fn,
           "AABB.distance signature changed")
    ab = T.body_nodoc(fn)
    vec = [s for s in ab if assign_to(s, "vec")]
    expect(len(vec) == 1 and u(ab[-1]) == "return norm(vec, which)" and ab[-2] is vec[0], AB, fn, "AABB.distance does not end with vec = ...; return norm(vec,which)")
    for s in ab[:-2]:
        expect(u(s) == "pt = Vec(pt)" or (isinstance(s, ast.If) and all(isinstance(x, ast.Raise) for x in s.body) and not s.orelse)
               or u(s).startswith("check_argument("), AB, s, "unexpected statement in AABB.distance")
    box_excess, ty = Expr(AB, {"self.mini": ("mini", "ext"), "self.maxi": ("maxi", "ext"), "pt": ("pt", "Z")}).term(vec[0].value)
    expect(ty == "ext", AB, vec[0], "vec is not a box excess")
    for prop, fld in (("mini", "_p1"), ("maxi", "_p2")):
        pf = T.find_def(atree, "AABB." + prop, AB)
        expect([u(s) for s in T.body_nodoc(pf)] == ["return self.%s" % fld], AB, pf, "AABB.%s changed" % prop)
    ini = T.find_def(atree, "AABB.__init__", AB)
    ib = [u(s) for s in T.body_nodoc(ini)]
    ok1 = ib[0] in ("self._p1 = Vec(p_min)", "self._p1 = Vec(np.array(p_min, dtype=float))")
    ok2 = ib[1] in ("self._p2 = Vec(p_max)", "self._p2 = Vec(np.array(p_max, dtype=float))")
    expect(ok1 and ok2 and [a.arg for a in ini.args.args] == ["self", "p_min", "p_max"], AB, ini,
           "AABB.__init__ does not store (p_min, p_max) as (_p1, _p2)")
    inf = T.find_def(atree, "AABB.infinite", AB)
    expect([u(s) for s in T.body_nodoc(inf)] == ["return AABB(np.full(dim, -np.inf), np.full(dim, np.inf))"], AB, inf, "AABB.infinite changed")
    gsrc, gtree = T.load(GE)
    nf = T.find_def(gtree, "norm", GE)
    parts.append(("geometry.norm", T.sha(gsrc, nf)))
    nbody = T.body_nodoc(nf)
    ok = False
    for s in nbody:
        if isinstance(s, ast.If) and u(s.test) == "which == 'l2'" and [u(x) for x in s.body] == ["return np.sqrt(np.dot(x.flatten(), x.flatten()))"]:
            ok = True
    expect(ok and [a.arg for a in nf.args.args] == ["x", "which"] and [u(d) for d in nf.args.defaults] == ["'l2'"], GE, nf,
           "norm: the l2 branch is not sqrt(dot(x,x))")
    df = T.find_def(gtree, "distance", GE)
    parts.append(("geometry.distance", T.sha(gsrc, df)))
    expect([u(s) for s in T.body_nodoc(df)] == ["return norm(B - A, which)"] and [a.arg for a in df.args.args] == ["A", "B", "which"]
           and [u(d) for d in df.args.defaults] == ["'l2'"], GE, df, "distance is not norm(B-A, which)")
    out.append("(* aabb.py AABB.distance *)")
    out.append("Definition box_excess (mini maxi : ext) (pt : Z) : ext := %s." % box_excess)

    # the candidate heap of query() is mouette.utils.PriorityQueue: its comparator/plumbing must still have the shape
    # property C20 is proved about (the model here abstracts it as 'pop removes a farthest candidate')
    from . import c20 as _c20
    pq = _c20.gen()
    import hashlib
    body = "".join(l for v in pq.values() for l in v.splitlines(True) if l.startswith("Definition"))
    parts.append(("priority_queue.py (definitions emitted by the C20 translator)", hashlib.sha256(body.encode()).hexdigest()[:16]))
    need = ["item", "item_dummy", "item_lt", "pq_init", "pq_push", "pq_get", "pq_pop", "pq_empty", "pq_front"]
    lines = [l for l in body.splitlines() if l.split()[1] in need]      # the C20 translator may emit more (union-find plumbing)
    got = [l.split()[1] for l in lines]
    if got != need:
        raise TranslationError("priority_queue.py: the C20 translator emitted %s, expected %s" % (got, need))
    body = "\n".join(lines) + "\n"
    out.append("(* priority_queue.py PriorityItem / PriorityQueue (as emitted by the C20 translator; heappush/heappop are MV.C11.Heap's) *)")
    out.append(body.rstrip("\n"))

    # no decorator (memoisation ...) on an anchored callable other than the expected ones; every default is an immutable constant
    allowed = {"KDTree.Leaf.size": ["property"], "AABB.infinite": ["classmethod"], "AABB.mini": ["property"], "AABB.maxi": ["property"]}
    for tr_, rel_, names in ((tree, KD, ["KDTree.__init__", "KDTree._new_leaf", "KDTree._split_points", "KDTree._find_pivot", "KDTree.is_leaf",
                                         "KDTree.query", "KDTree.query_radius", "KDTree.Leaf.size"]),
                             (atree, AB, ["AABB.__init__", "AABB.distance", "AABB.infinite", "AABB.mini", "AABB.maxi"]),
                             (gtree, GE, ["norm", "distance"])):
        for qn in names:
            f_ = T.find_def(tr_, qn, rel_)
            expect([u(d_) for d_ in f_.decorator_list] == allowed.get(qn, []), rel_, f_, "unexpected decorator on %s" % qn)
            for d_ in list(f_.args.defaults) + [x for x in f_.args.kw_defaults if x is not None]:
                expect(isinstance(d_, ast.Constant), rel_, f_, "%s has a default that is not an immutable constant" % qn)
    for cn in ("KDTree", "KDTree.Node", "KDTree.Leaf"):
        c_ = T.find_def(tree, cn, KD)
        expect([u(d_) for d_ in c_.decorator_list] == ([] if cn == "KDTree" else ["dataclass"]), KD, c_, "unexpected decorator on class %s" % cn)

    text = T.header("C11: decision expressions and plumbing of KDTree / AABB.distance", parts)
    text += "From Coq Require Import ZArith List Bool.\nImport ListNotations.\nRequire Import MV.C11.Ext MV.C11.Heap.\nOpen Scope Z_scope.\n\n"
    text += "\n".join(out) + "\n"
    return {"C11/Gen.v": text}
