def gen():
    raise NotImplementedError
