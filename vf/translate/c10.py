"""mouette/processing/trees/{base,edge_sp,face_sp,cell_sp}.py -> coq/theories/C10/Gen.v

What is extracted (everything else is shape-checked and any deviation raises TranslationError):
  * EdgeSpanningTree._avoid_edge                       -> avoid_edge
  * the `for` body of put_neighbours_in_queue (x3)      -> l_slot   (admissibility + seen test, as one decision)
  * the BFS while loop (x3): pop side, `if seen[..]: continue`, the distance comparison, the stored distance,
    dist[root]                                          -> l_popleft, l_skip, l_better, l_newdist, l_root_dist
  * the children/edges derivation loop (x3)             -> l_child
  * SpanningTree.traverse: order test and pop side      -> trav_is_bfs, trav_popleft
  * EdgeMinimalSpanningTree.compute: weight selector, candidate-edge filter, sort direction, accept test,
    pop side and child filter of the orientation pass   -> kr_*
  * the three forests: new-root test, arguments forwarded to the tree constructor, traversal order -> forest_*
Local variable names are read off the AST (renaming a local does not change the output).
"""
import ast

from . import common as T
from ..core import TranslationError

BASE = "mouette/processing/trees/base.py"
EDGE = "mouette/processing/trees/edge_sp.py"
FACE = "mouette/processing/trees/face_sp.py"
CELL = "mouette/processing/trees/cell_sp.py"


def U(node):
    return ast.unparse(node)


# ---------------------------------------------------------------------- boolean expressions over named atoms
def bexp(rel, node, atom):
    """atom(text) -> Coq term or None"""
    if isinstance(node, ast.BoolOp):
        op = " && " if isinstance(node.op, ast.And) else " || "
        return "(" + op.join(bexp(rel, v, atom) for v in node.values) + ")"
    if isinstance(node, ast.UnaryOp) and isinstance(node.op, ast.Not):
        return "(negb %s)" % bexp(rel, node.operand, atom)
    if isinstance(node, ast.Constant) and isinstance(node.value, bool):
        return "true" if node.value else "false"
    txt = U(node)
    a = atom(txt)
    if a is not None:
        return a
    if isinstance(node, ast.Compare) and len(node.ops) == 1:
        l, r, op = node.left, node.comparators[0], node.ops[0]
        flip = {ast.IsNot: ast.Is, ast.NotIn: ast.In, ast.NotEq: ast.Eq}
        if type(op) in flip:
            pos = ast.Compare(left=l, ops=[flip[type(op)]()], comparators=[r])
            a = atom(U(pos))
            if a is not None:
                return "(negb %s)" % a
        unflip = {ast.Is: ast.IsNot, ast.In: ast.NotIn, ast.Eq: ast.NotEq}
        if type(op) in unflip:
            neg = ast.Compare(left=l, ops=[unflip[type(op)]()], comparators=[r])
            a = atom(U(neg))
            if a is not None:
                return "(negb %s)" % a
    T.fail(rel, node, "unrecognised condition `%s`" % txt)


def table_atom(table):
    return lambda txt: table.get(txt)


def decision(rel, stmts, atom, leaf, fall):
    """A statement list as a boolean decision.
    leaf(stmt, rest) -> Coq term | None (None: the statement is neutral, go on with `rest`)
    fall : value when the list ends."""
    if not stmts:
        if fall is None:
            raise TranslationError("%s: control reaches the end of a block that must decide" % rel)
        return fall
    s, rest = stmts[0], stmts[1:]
    if isinstance(s, ast.If):
        c = bexp(rel, s.test, atom)
        return "(if %s then %s else %s)" % (c, decision(rel, list(s.body) + rest, atom, leaf, fall),
                                            decision(rel, list(s.orelse) + rest, atom, leaf, fall))
    r = leaf(s, rest)
    if r is None:
        return decision(rel, rest, atom, leaf, fall)
    return r


def expect(rel, node, cond, msg):
    if not cond:
        T.fail(rel, node, msg)


def is_call_to(node, dotted_name):
    return isinstance(node, ast.Call) and U(node.func) == dotted_name


# ---------------------------------------------------------------------- constructor plumbing
def init_binding(rel, tree, cls, attr):
    """which __init__ parameter is stored in self.<attr>, and how: ('param', name) or ('param_or_set', name)"""
    fn = T.find_def(tree, cls + ".__init__", rel)
    found = None

    def scan(stmts, guard):
        nonlocal found
        for s in stmts:
            tgt = val = None
            if isinstance(s, ast.AnnAssign):
                tgt, val = s.target, s.value
            elif isinstance(s, ast.Assign) and len(s.targets) == 1:
                tgt, val = s.targets[0], s.value
            if tgt is not None and T.dotted(tgt) == "self." + attr:
                found = (found or []) + [(guard, val)]
            if isinstance(s, ast.If):
                scan(s.body, U(s.test))
                scan(s.orelse, "not(" + U(s.test) + ")")
    scan(T.body_nodoc(fn), None)
    if not found:
        T.fail(rel, fn, "self.%s is not set in %s.__init__" % (attr, cls))
    return fn, found


def params_of(fn):
    a = fn.args
    names = [x.arg for x in a.args]
    defaults = [None] * (len(names) - len(a.defaults)) + list(a.defaults)
    return names, dict(zip(names, defaults))


def bind_call(rel, call, fn):
    """actual arguments of `call` bound to the parameters of fn (a method: self skipped) -> {param: ast|None}"""
    names, defaults = params_of(fn)
    names = names[1:]
    if len(call.args) > len(names):
        T.fail(rel, call, "too many positional arguments")
    out = {}
    for n, a in zip(names, call.args):
        out[n] = a
    for kw in call.keywords:
        if kw.arg not in names or kw.arg in out:
            T.fail(rel, call, "bad keyword argument %s" % kw.arg)
        out[kw.arg] = kw.value
    for n in names:
        if n not in out:
            out[n] = defaults[n]
    return out



def strip_resets(rel, fn, body, wanted):
    """leading `self.<attr> = <fresh empty table>` statements of a compute(): all of `wanted` (-> True), or none (-> False).
    wanted: {attr: set of accepted right-hand sides}"""
    got = {}
    i = 0
    while i < len(body) and isinstance(body[i], ast.Assign) and len(body[i].targets) == 1 \
            and isinstance(body[i].targets[0], ast.Attribute) and U(body[i].targets[0].value) == "self":
        attr = body[i].targets[0].attr
        if attr not in wanted or attr in got or U(body[i].value) not in wanted[attr]:
            T.fail(rel, body[i], "unexpected assignment to self.%s at the head of compute()" % attr)
        got[attr] = True
        i += 1
    if got and set(got) != set(wanted):
        T.fail(rel, fn, "compute() resets only some of its tables: %s" % sorted(got))
    return bool(got), body[i:]


def tree_reset_forms(elems, ids):
    return {"parent": {"[None] * len(self.mesh.%s)" % elems},
            "children": {"[[] for _ in self.mesh.%s]" % ids, "[[] for v in self.mesh.%s]" % ids},
            "edges": {"[]"}}


def root_check(rel, tree, cls, elems):
    """`if not (0 <= self.root < len(self.mesh.<elems>)): raise ...` in __init__ -> Gallina test on (r, n); absent -> no test"""
    fn = T.find_def(tree, cls + ".__init__", rel)
    found = []
    for s in T.body_nodoc(fn):
        if isinstance(s, ast.If) and len(s.body) == 1 and isinstance(s.body[0], ast.Raise) and not s.orelse and "self.root" in U(s.test):
            found.append(s)
    if not found:
        return "true"
    expect(rel, fn, len(found) == 1, "several range checks on self.root")
    t = found[0].test
    neg = False
    if isinstance(t, ast.UnaryOp) and isinstance(t.op, ast.Not):
        neg, t = True, t.operand
    expect(rel, t, isinstance(t, ast.Compare), "unrecognised range check on self.root")

    def zexp(n):
        txt = U(n)
        if txt == "self.root":
            return "r"
        if txt == "len(self.mesh.%s)" % elems:
            return "n"
        if isinstance(n, ast.Constant) and isinstance(n.value, int) and not isinstance(n.value, bool):
            return "%d%%Z" % n.value if n.value >= 0 else "(%d)%%Z" % n.value
        if isinstance(n, ast.BinOp) and isinstance(n.op, (ast.Add, ast.Sub)):
            return "(%s %s %s)%%Z" % (zexp(n.left), "+" if isinstance(n.op, ast.Add) else "-", zexp(n.right))
        T.fail(rel, n, "unsupported term in the range check on self.root")
    ops = {ast.Lt: "Z.ltb", ast.LtE: "Z.leb", ast.Gt: "Z.gtb", ast.GtE: "Z.geb", ast.Eq: "Z.eqb"}
    terms = [t.left] + list(t.comparators)
    parts = []
    for a, op, b in zip(terms, t.ops, terms[1:]):
        expect(rel, t, type(op) in ops, "unsupported comparison in the range check on self.root")
        parts.append("%s %s %s" % (ops[type(op)], zexp(a), zexp(b)))
    c = "(" + " && ".join("(%s)" % x for x in parts) + ")"
    # the test guards a raise: the root is accepted when the guard is false
    return c if neg else "(negb %s)" % c


# ---------------------------------------------------------------------- the BFS of one tree class
def bfs_class(rel, src, tree, cls, kind):
    parts = []
    comp = T.find_def(tree, cls + ".compute", rel)
    parts.append((cls + ".compute", T.sha(src, comp)))
    elems, ids = {"edge": ("vertices", "id_vertices"), "face": ("faces", "id_faces"), "cell": ("cells", "id_cells")}[kind]
    resets, body = strip_resets(rel, comp, T.body_nodoc(comp), tree_reset_forms(elems, ids))
    i = 0
    names = {}
    # --- initial assignments: dist, seen, queue (any order)
    while i < len(body) and isinstance(body[i], ast.Assign):
        s = body[i]
        expect(rel, s, len(s.targets) == 1 and isinstance(s.targets[0], ast.Name), "unexpected assignment")
        v = s.value
        if isinstance(v, ast.ListComp) and U(v.elt) in ("float('inf')", "float(\"inf\")"):
            names["dist"] = s.targets[0].id
        elif isinstance(v, ast.ListComp) and isinstance(v.elt, ast.Constant) and v.elt.value is False:
            names["seen"] = s.targets[0].id
        elif is_call_to(v, "deque") and not v.args:
            names["queue"] = s.targets[0].id
        else:
            T.fail(rel, s, "unexpected initialisation")
        i += 1
    expect(rel, comp, set(names) == {"dist", "seen", "queue"}, "dist / seen / queue initialisations not found")
    dist, seen, queue = names["dist"], names["seen"], names["queue"]
    # --- put_neighbours_in_queue
    put = body[i]
    expect(rel, put, isinstance(put, ast.FunctionDef) and len(put.args.args) == 1, "nested push function expected")
    P = put.args.args[0].arg
    pb = T.body_nodoc(put)
    expect(rel, put, len(pb) == 1 and isinstance(pb[0], ast.For) and isinstance(pb[0].target, ast.Name) and not pb[0].orelse,
           "push function is not a single for loop")
    loop = pb[0]
    X = loop.target.id
    want_iter = {"edge": "self.mesh.connectivity.vertex_to_vertices(%s)", "face": "self.mesh.connectivity.face_to_edges(%s)",
                 "cell": "self.mesh.connectivity.cell_to_face(%s)"}[kind] % P
    expect(rel, loop.iter, U(loop.iter) == want_iter, "push loop does not iterate over %s" % want_iter)
    state = {"tgt": X if kind == "edge" else None, "ab": None}

    def slot_atom(txt):
        tgt = state["tgt"]
        if kind == "edge":
            if txt == "%s[%s]" % (seen, X):
                return "seen"
            if txt == "self._avoid_edge(%s, %s)" % (P, X):
                return "avoid"
            return None
        if txt == "%s in self.%s" % (X, "forbidden_edges" if kind == "face" else "forbidden_faces"):
            return "forb"
        if tgt is not None and txt == "%s is None" % tgt:
            return "tgt_none"
        if tgt is not None and txt == "%s[%s]" % (seen, tgt):
            return "seen"
        return None

    def slot_leaf(s, rest):
        if isinstance(s, ast.Continue):
            return "false"
        if isinstance(s, ast.Assign) and len(s.targets) == 1:
            t, v = s.targets[0], s.value
            if kind == "face" and isinstance(t, ast.Tuple) and len(t.elts) == 2 and U(v) == "self.mesh.edges[%s]" % X:
                state["ab"] = (U(t.elts[0]), U(t.elts[1]))
                return None
            if kind == "face" and isinstance(t, ast.Name) and state["ab"] and \
                    U(v) == "self.mesh.connectivity.opposite_face(%s, %s, %s)" % (state["ab"][0], state["ab"][1], P):
                state["tgt"] = t.id
                return None
            if kind == "cell" and isinstance(t, ast.Name) and U(v) == "self.mesh.connectivity.other_face_side(%s, %s)" % (P, X):
                state["tgt"] = t.id
                return None
            T.fail(rel, s, "unexpected assignment in the push loop")
        if isinstance(s, ast.Expr) and is_call_to(s.value, queue + ".append"):
            a = s.value.args
            expect(rel, s, len(a) == 1 and isinstance(a[0], ast.Tuple) and len(a[0].elts) == 2
                   and U(a[0].elts[0]) == P and state["tgt"] is not None and U(a[0].elts[1]) == state["tgt"],
                   "queue.append does not push (element, neighbour)")
            expect(rel, s, not rest, "statements after queue.append in the push loop")
            return "true"
        T.fail(rel, s, "unexpected statement in the push loop")
    l_slot = decision(rel, list(loop.body), slot_atom, slot_leaf, "false")
    i += 1
    # --- root initialisation: three statements in any order
    got = set()
    for s in body[i:i + 3]:
        t = U(s)
        if t == "put_neighbours_in_queue(self.root)" or (isinstance(s, ast.Expr) and is_call_to(s.value, put.name) and U(s.value.args[0]) == "self.root"):
            got.add("push")
        elif isinstance(s, ast.Assign) and U(s.targets[0]) == "%s[self.root]" % dist and isinstance(s.value, ast.Constant) \
                and isinstance(s.value.value, int) and s.value.value >= 0:
            got.add("dist")
            root_dist = s.value.value
        elif isinstance(s, ast.Assign) and U(s.targets[0]) == "%s[self.root]" % seen and U(s.value) == "True":
            got.add("seen")
        else:
            T.fail(rel, s, "unexpected statement in the root initialisation")
    expect(rel, comp, got == {"push", "dist", "seen"}, "root initialisation incomplete")
    i += 3
    # --- the while loop
    w = body[i]
    expect(rel, w, isinstance(w, ast.While) and U(w.test) in ("len(%s) > 0" % queue, "len(%s)" % queue, queue) and not w.orelse,
           "while loop over the queue expected")
    wb = list(w.body)
    s0 = wb[0]
    expect(rel, s0, isinstance(s0, ast.Assign) and isinstance(s0.targets[0], ast.Tuple) and len(s0.targets[0].elts) == 2
           and U(s0.value) in (queue + ".popleft()", queue + ".pop()"), "pair = queue.popleft() expected")
    A, B = U(s0.targets[0].elts[0]), U(s0.targets[0].elts[1])
    l_popleft = "true" if U(s0.value).endswith("popleft()") else "false"
    s1 = wb[1]
    expect(rel, s1, isinstance(s1, ast.If) and len(s1.body) == 1 and isinstance(s1.body[0], ast.Continue) and not s1.orelse,
           "`if seen[..]: continue` expected")
    l_skip = "(if %s then true else false)" % bexp(rel, s1.test, table_atom({"%s[%s]" % (seen, B): "seen"}))
    s2 = wb[2]
    expect(rel, s2, isinstance(s2, ast.Assign) and U(s2.targets[0]) == "%s[%s]" % (seen, B) and U(s2.value) == "True",
           "seen[child] = True expected")
    s3 = wb[3]
    expect(rel, s3, isinstance(s3, ast.If) and not s3.orelse and isinstance(s3.test, ast.Compare) and len(s3.test.ops) == 1,
           "distance comparison expected")

    def aexp(n):
        txt = U(n)
        if txt == "%s[%s]" % (dist, A):
            return "dv"
        if txt == "%s[%s]" % (dist, B):
            return "dnv"
        if isinstance(n, ast.BinOp) and isinstance(n.op, ast.Add):
            for x, k in ((n.left, n.right), (n.right, n.left)):
                if isinstance(k, ast.Constant) and isinstance(k.value, int) and k.value >= 0:
                    return "(onat_add %s %d)" % (aexp(x), k.value)
        T.fail(rel, n, "unsupported distance expression")
    cmpop = {ast.Lt: "onat_lt", ast.LtE: "onat_le", ast.Gt: "onat_gt", ast.GtE: "onat_ge"}.get(type(s3.test.ops[0]))
    expect(rel, s3, cmpop is not None, "unsupported comparison of distances")
    l_better = "%s %s %s" % (cmpop, aexp(s3.test.left), aexp(s3.test.comparators[0]))
    l_newdist = None
    gotp = False
    expect(rel, s3, len(s3.body) == 2, "two assignments expected under the distance comparison")
    for s in s3.body:
        expect(rel, s, isinstance(s, ast.Assign) and len(s.targets) == 1, "assignment expected")
        if U(s.targets[0]) == "self.parent[%s]" % B and U(s.value) == A:
            gotp = True
        elif U(s.targets[0]) == "%s[%s]" % (dist, B):
            l_newdist = aexp(s.value)
            expect(rel, s, "dnv" not in l_newdist, "stored distance depends on the old one")
        else:
            T.fail(rel, s, "unexpected assignment under the distance comparison")
    expect(rel, s3, gotp and l_newdist, "parent / distance update incomplete")
    s4 = wb[4]
    expect(rel, s4, len(wb) == 5 and isinstance(s4, ast.Expr) and is_call_to(s4.value, put.name) and U(s4.value.args[0]) == B,
           "push of the new element's neighbours expected at the end of the loop")
    i += 1
    # --- children / edges derivation
    f = body[i]
    idname = {"edge": "self.mesh.id_vertices", "face": "self.mesh.id_faces", "cell": "self.mesh.id_cells"}[kind]
    expect(rel, f, isinstance(f, ast.For) and isinstance(f.target, ast.Name) and U(f.iter) == idname and not f.orelse,
           "children derivation loop over %s expected" % idname)
    v = f.target.id
    cstate = {"p": None}

    def child_atom(txt):
        if txt == "isinf(%s[%s])" % (dist, v):
            return "dist_inf"
        if cstate["p"] and txt == "%s is None" % cstate["p"]:
            return "p_none"
        return None

    def child_leaf(s, rest):
        if isinstance(s, ast.Continue):
            return "false"
        if isinstance(s, ast.Assign) and isinstance(s.targets[0], ast.Name) and U(s.value) == "self.parent[%s]" % v:
            cstate["p"] = s.targets[0].id
            return None
        p = cstate["p"]
        if p and isinstance(s, ast.Expr):
            t = U(s)
            both = {"self.children[%s].append(%s)" % (p, v)}
            keys = {"self.edges.append(keyify(%s, %s))" % (p, v), "self.edges.append(keyify(%s, %s))" % (v, p)}
            if t in both and len(rest) == 1 and U(rest[0]) in keys:
                return "true"
            if t in keys and len(rest) == 1 and U(rest[0]) in both:
                return "true"
        T.fail(rel, s, "unexpected statement in the children derivation")
    l_child = decision(rel, list(f.body), child_atom, child_leaf, "false")
    i += 1
    rest = body[i:]
    expect(rel, comp, len(rest) == 1 and U(rest[0]) in ("self._computed = True", "super().compute()"),
           "compute() does not end by setting the computed flag")
    rec = ("Definition %s_loop : loop_ops := {|\n"
           "  l_slot := fun forb tgt_none seen avoid => %s;\n"
           "  l_popleft := %s;\n"
           "  l_skip := fun seen => %s;\n"
           "  l_better := fun dv dnv => %s;\n"
           "  l_newdist := fun dv => %s;\n"
           "  l_root_dist := %d;\n"
           "  l_child := fun dist_inf p_none => %s\n|}.\n") % (kind, l_slot, l_popleft, l_skip, l_better, l_newdist, root_dist, l_child)
    rec += "Definition %s_resets : bool := %s.\n" % (kind, "true" if resets else "false")
    rec += "Definition %s_root_ok (r n : Z) : bool := %s.\n" % (kind, root_check(rel, tree, cls, elems))
    return rec, parts


# ---------------------------------------------------------------------- generation
def gen():
    parts = []
    out = []
    # ================= edge_sp
    src, tree = T.load(EDGE)
    av = T.find_def(tree, "EdgeSpanningTree._avoid_edge", EDGE)
    parts.append(("EdgeSpanningTree._avoid_edge", T.sha(src, av)))
    pa = [a.arg for a in av.args.args]
    expect(EDGE, av, len(pa) == 3 and pa[0] == "self", "_avoid_edge(self, a, b) expected")
    a, b = pa[1], pa[2]
    atoms = {"self._avoidedges is not None": "has_avoid",
             "self.mesh.connectivity.edge_id(%s, %s) in self._avoidedges" % (a, b): "in_avoid",
             "self._avoidbound": "avoidbound", "isinstance(self.mesh, PolyLine)": "is_polyline",
             "self.mesh.is_edge_on_border(%s, %s)" % (a, b): "on_border"}

    def ret_leaf(s, rest):
        if isinstance(s, ast.Return) and s.value is not None:
            return bexp(EDGE, s.value, table_atom(atoms))
        T.fail(EDGE, s, "unexpected statement in _avoid_edge")
    out.append("Definition avoid_edge (has_avoid in_avoid avoidbound is_polyline on_border : bool) : bool :=\n  %s.\n"
               % decision(EDGE, T.body_nodoc(av), table_atom(atoms), ret_leaf, None))
    # attribute plumbing of EdgeSpanningTree.__init__
    for attr, param in (("_avoidbound", "avoid_boundary"), ("_avoidedges", "avoid_edges")):
        fn, found = init_binding(EDGE, tree, "EdgeSpanningTree", attr)
        expect(EDGE, fn, len(found) == 1 and found[0][0] is None and U(found[0][1]) == param,
               "self.%s is not the constructor argument %s" % (attr, param))
    fn, found = init_binding(EDGE, tree, "EdgeSpanningTree", "root")
    expect(EDGE, fn, any(g == "starting_vertex is not None" and U(v) == "starting_vertex" for g, v in found),
           "self.root is not starting_vertex")
    rec, p = bfs_class(EDGE, src, tree, "EdgeSpanningTree", "edge")
    out.append(rec)
    parts += p
    edge_src, edge_tree = src, tree

    # ================= face_sp / cell_sp
    for rel, cls, kind, attr, rootp in ((FACE, "FaceSpanningTree", "face", "forbidden_edges", "starting_face"),
                                        (CELL, "CellSpanningTree", "cell", "forbidden_faces", "starting_cell")):
        s2, t2 = T.load(rel)
        fn, found = init_binding(rel, t2, cls, attr)
        ok = sorted((g, U(v)) for g, v in found) == sorted([("%s is None" % attr, "set()"), ("not(%s is None)" % attr, attr)])
        expect(rel, fn, ok, "self.%s is not `set() if %s is None else %s`" % (attr, attr, attr))
        fn, found = init_binding(rel, t2, cls, "root")
        expect(rel, fn, any(g == rootp + " is not None" and U(v) == rootp for g, v in found), "self.root is not " + rootp)
        rec, p = bfs_class(rel, s2, t2, cls, kind)
        out.append(rec)
        parts += p

    # ================= base.traverse
    src, tree = T.load(BASE)
    tr = T.find_def(tree, "SpanningTree.traverse", BASE)
    parts.append(("SpanningTree.traverse", T.sha(src, tr)))
    tn, tdef = params_of(tr)
    expect(BASE, tr, tn == ["self", "order"] and isinstance(tdef["order"], ast.Constant), "traverse(self, order=<const>) expected")
    default_order = tdef["order"].value
    tb = T.body_nodoc(tr)
    k = 0
    while k < len(tb) and isinstance(tb[k], ast.If) and all(isinstance(x, ast.Raise) for x in tb[k].body):
        k += 1
    s = tb[k]
    expect(BASE, s, isinstance(s, ast.Assign) and isinstance(s.targets[0], ast.Name), "isBFS = (order == ...) expected")
    isbfs = s.targets[0].id
    trav_is_bfs = bexp(BASE, s.value, table_atom({"order == 'BFS'": "order_is_BFS"}))
    s = tb[k + 1]
    expect(BASE, s, isinstance(s, ast.Assign) and is_call_to(s.value, "deque") and isinstance(s.targets[0], ast.Name), "queue = deque() expected")
    q = s.targets[0].id
    popf = tb[k + 2]
    expect(BASE, popf, isinstance(popf, ast.FunctionDef) and not popf.args.args, "nested pop() expected")

    def pop_leaf(s, rest):
        if isinstance(s, ast.Return) and U(s.value) == q + ".popleft()":
            return "true"
        if isinstance(s, ast.Return) and U(s.value) == q + ".pop()":
            return "false"
        T.fail(BASE, s, "unexpected statement in pop()")
    trav_popleft = decision(BASE, T.body_nodoc(popf), table_atom({isbfs: "isBFS"}), pop_leaf, None)
    s = tb[k + 3]
    expect(BASE, s, U(s) == "%s.append((self.root, None))" % q, "queue.append((self.root, None)) expected")
    w = tb[k + 4]
    expect(BASE, w, isinstance(w, ast.While) and U(w.test) in ("len(%s) > 0" % q, "len(%s)" % q, q) and len(tb) == k + 5, "while loop expected")
    wb = w.body
    expect(BASE, w, len(wb) == 3 and isinstance(wb[0], ast.Assign) and isinstance(wb[0].targets[0], ast.Tuple)
           and U(wb[0].value) == popf.name + "()", "node, parent = pop() expected")
    node, par = U(wb[0].targets[0].elts[0]), U(wb[0].targets[0].elts[1])
    expect(BASE, wb[1], U(wb[1]) in ("yield (%s, %s)" % (node, par),), "yield node, parent expected")
    f = wb[2]
    expect(BASE, f, isinstance(f, ast.For) and U(f.iter) == "self.children[%s]" % node and len(f.body) == 1
           and U(f.body[0]) == "%s.append((%s, %s))" % (q, U(f.target), node), "children push expected")
    out.append("Definition trav_is_bfs (order_is_BFS : bool) : bool := %s.\n"
               "Definition trav_popleft (isBFS : bool) : bool := %s.\n" % (trav_is_bfs, trav_popleft))
    # forest base: edges = concatenation, traverse = concatenation
    fe = T.find_def(tree, "SpanningForest.edges", BASE)
    ft = T.find_def(tree, "SpanningForest.traverse", BASE)
    parts.append(("SpanningForest.edges", T.sha(src, fe)))
    parts.append(("SpanningForest.traverse", T.sha(src, ft)))
    feb = T.body_nodoc(fe)
    expect(BASE, fe, len(feb) == 3 and U(feb[0]) == "_edges = []" and isinstance(feb[1], ast.For)
           and U(feb[1].iter) == "self.trees" and U(feb[1].body[0]) == "_edges += %s.edges" % U(feb[1].target)
           and U(feb[2]) == "return _edges", "SpanningForest.edges is not the concatenation of the trees' edges")
    ftb = T.body_nodoc(ft)
    expect(BASE, ft, len(ftb) == 1 and isinstance(ftb[0], ast.For) and U(ftb[0].iter) == "self.trees"
           and isinstance(ftb[0].body[0], ast.For) and U(ftb[0].body[0].iter) == "%s.traverse(order=order)" % U(ftb[0].target)
           and U(ftb[0].body[0].body[0]) == "yield %s" % U(ftb[0].body[0].target),
           "SpanningForest.traverse is not the concatenation of the trees' traversals")

    # ================= Kruskal
    src, tree = edge_src, edge_tree
    kc = T.find_def(tree, "EdgeMinimalSpanningTree.compute", EDGE)
    ki = T.find_def(tree, "EdgeMinimalSpanningTree.__init__", EDGE)
    parts.append(("EdgeMinimalSpanningTree.compute", T.sha(src, kc)))
    # super().__init__(mesh, starting_vertex, avoid_boundary=avoid_boundary): no avoid_edges
    sup = [s for s in T.body_nodoc(ki) if isinstance(s, ast.Expr) and is_call_to(s.value, "super().__init__")]
    expect(EDGE, ki, len(sup) == 1, "super().__init__ call expected")
    bound = bind_call(EDGE, sup[0].value, T.find_def(tree, "EdgeSpanningTree.__init__", EDGE))
    expect(EDGE, ki, U(bound["mesh"]) == "mesh" and U(bound["starting_vertex"]) == "starting_vertex"
           and U(bound["avoid_boundary"]) == "avoid_boundary" and U(bound["avoid_edges"]) == "None",
           "EdgeMinimalSpanningTree does not forward (mesh, starting_vertex, avoid_boundary) and no avoid_edges")
    wa = [s for s in T.body_nodoc(ki) if U(s) == "self.weights = weights"]
    expect(EDGE, ki, len(wa) == 1, "self.weights = weights expected")
    kr_resets, kb = strip_resets(EDGE, kc, T.body_nodoc(kc), tree_reset_forms("vertices", "id_vertices"))
    # -- weight selector
    sel = kb[0]
    expect(EDGE, sel, isinstance(sel, ast.If), "weight selector expected")

    def sel_leaf_factory():
        st = {"len": None}

        def leaf(s, rest):
            if isinstance(s, ast.Assign) and isinstance(s.targets[0], ast.Name) and is_call_to(s.value, "attr_edge_length") \
                    and U(s.value.args[0]) == "self.mesh":
                st["len"] = s.targets[0].id
                return None
            if isinstance(s, ast.Assign) and isinstance(s.targets[0], ast.Name) and s.targets[0].id == "edge_length" \
                    and isinstance(s.value, ast.Lambda) and len(s.value.args.args) == 1:
                x = s.value.args.args[0].arg
                bdy = s.value.body
                if isinstance(bdy, ast.Constant) and isinstance(bdy.value, (int, float)) and float(bdy.value) == int(bdy.value):
                    return "%d%%Z" % int(bdy.value) if int(bdy.value) >= 0 else "(%d)%%Z" % int(bdy.value)
                if st["len"] and U(bdy) == "%s[%s]" % (st["len"], x):
                    return "len"
                if U(bdy) == "self.weights[%s]" % x:
                    return "custom"
            T.fail(EDGE, s, "unexpected statement in the weight selector")
        return leaf
    kr_weight = decision(EDGE, [sel], table_atom({"self.weights == 'one'": "mode_one", "self.weights == 'length'": "mode_length"}),
                         sel_leaf_factory(), None)
    # -- candidate edges
    ce = kb[1]
    expect(EDGE, ce, isinstance(ce, ast.If) and len(ce.body) == 1 and len(ce.orelse) == 1, "candidate edge selection expected")
    keep = ["true"]

    def branch(s):
        expect(EDGE, s, isinstance(s, ast.Assign) and U(s.targets[0]) == "edges" and isinstance(s.value, ast.ListComp)
               and len(s.value.generators) == 1, "edges = [...] expected")
        g = s.value.generators[0]
        if U(g.iter) == "self.mesh.id_edges" and U(s.value.elt) == U(g.target) and not g.ifs:
            return "true"
        if U(g.iter) == "enumerate(self.mesh.edges)" and isinstance(g.target, ast.Tuple) and len(g.target.elts) == 2 \
                and isinstance(g.target.elts[1], ast.Tuple) and U(s.value.elt) == U(g.target.elts[0]) and len(g.ifs) <= 1:
            if not g.ifs:
                return "true"
            A_, B_ = (U(x) for x in g.target.elts[1].elts)
            keep[0] = bexp(EDGE, g.ifs[0], table_atom({"self.mesh.is_edge_on_border(%s, %s)" % (A_, B_): "on_border"}))
            return "false"
        T.fail(EDGE, s, "unrecognised candidate edge list")
    b1, b2 = branch(ce.body[0]), branch(ce.orelse[0])
    kr_all = "(if %s then %s else %s)" % (bexp(EDGE, ce.test, table_atom({"self._avoidbound": "avoidbound",
                                                                        "isinstance(self.mesh, PolyLine)": "is_polyline"})), b1, b2)
    # -- sort
    so = kb[2]
    expect(EDGE, so, isinstance(so, ast.Expr) and is_call_to(so.value, "edges.sort") and not so.value.args, "edges.sort(key=...) expected")
    kws = {kw.arg: kw.value for kw in so.value.keywords}
    expect(EDGE, so, set(kws) <= {"key", "reverse"} and "key" in kws and isinstance(kws["key"], ast.Lambda)
           and U(kws["key"].body) == "edge_length(%s)" % kws["key"].args.args[0].arg, "sort key is not edge_length(e)")
    rev = "false"
    if "reverse" in kws:
        expect(EDGE, so, isinstance(kws["reverse"], ast.Constant) and isinstance(kws["reverse"].value, bool), "reverse must be a constant")
        rev = "true" if kws["reverse"].value else "false"
    expect(EDGE, kb[3], U(kb[3]) == "neighbours = [set() for _ in self.mesh.id_vertices]", "neighbours initialisation expected")
    expect(EDGE, kb[4], U(kb[4]) == "uf = UnionFind(self.mesh.id_vertices)", "uf = UnionFind(self.mesh.id_vertices) expected")
    lp = kb[5]
    expect(EDGE, lp, isinstance(lp, ast.For) and U(lp.iter) == "edges" and isinstance(lp.target, ast.Name), "for e in edges expected")
    e = lp.target.id
    ab = {}

    def take_leaf(s, rest):
        if isinstance(s, ast.Assign) and isinstance(s.targets[0], ast.Tuple) and U(s.value) == "self.mesh.edges[%s]" % e:
            ab["a"], ab["b"] = (U(x) for x in s.targets[0].elts)
            return None
        if isinstance(s, ast.Expr) and ab:
            a_, b_ = ab["a"], ab["b"]
            want = ["uf.union(%s, %s)" % (a_, b_), "self.edges.append(keyify(%s, %s))" % (a_, b_),
                    "neighbours[%s].add(%s)" % (a_, b_), "neighbours[%s].add(%s)" % (b_, a_)]
            got = [U(x) for x in [s] + rest]
            if sorted(got) == sorted(want):
                return "true"
        T.fail(EDGE, s, "unexpected statement in the Kruskal loop")

    def take_atom(txt):
        if ab and txt in ("uf.connected(%s, %s)" % (ab["a"], ab["b"]), "uf.connected(%s, %s)" % (ab["b"], ab["a"])):
            return "connected"
        return None
    kr_take = decision(EDGE, list(lp.body), take_atom, take_leaf, "false")
    # -- orientation pass
    o = kb[6:]
    expect(EDGE, kc, len(o) == 6, "orientation pass: unexpected number of statements")
    expect(EDGE, o[0], U(o[0]) == "queue = deque()", "queue = deque() expected")
    expect(EDGE, o[1], U(o[1]) == "self.parent[self.root] = None", "parent[root] = None expected")
    expect(EDGE, o[2], U(o[2]) == "self.children[self.root] = list(neighbours[self.root])", "children[root] expected")
    expect(EDGE, o[3], isinstance(o[3], ast.For) and U(o[3].iter) == "neighbours[self.root]"
           and U(o[3].body[0]) == "queue.append((%s, self.root))" % U(o[3].target), "initial pushes expected")
    w = o[4]
    expect(EDGE, w, isinstance(w, ast.While) and U(w.test) in ("len(queue) > 0", "len(queue)", "queue") and len(w.body) == 4,
           "orientation while loop expected")
    s0 = w.body[0]
    expect(EDGE, s0, isinstance(s0, ast.Assign) and isinstance(s0.targets[0], ast.Tuple)
           and U(s0.value) in ("queue.popleft()", "queue.pop()"), "v, prev = queue.popleft() expected")
    v_, prev = (U(x) for x in s0.targets[0].elts)
    kr_popleft = "true" if U(s0.value) == "queue.popleft()" else "false"
    expect(EDGE, w.body[1], U(w.body[1]) == "self.parent[%s] = %s" % (v_, prev), "parent[v] = prev expected")
    s2 = w.body[2]
    expect(EDGE, s2, isinstance(s2, ast.Assign) and U(s2.targets[0]) == "self.children[%s]" % v_ and isinstance(s2.value, ast.ListComp)
           and len(s2.value.generators) == 1 and U(s2.value.generators[0].iter) == "neighbours[%s]" % v_
           and U(s2.value.elt) == U(s2.value.generators[0].target) and len(s2.value.generators[0].ifs) == 1,
           "children[v] = [x for x in neighbours[v] if ...] expected")
    x_ = U(s2.value.elt)
    kr_child_keep = bexp(EDGE, s2.value.generators[0].ifs[0],
                         table_atom({"%s == %s" % (x_, prev): "x_eq_prev", "%s == %s" % (prev, x_): "x_eq_prev"}))
    s3 = w.body[3]
    expect(EDGE, s3, isinstance(s3, ast.For) and U(s3.iter) == "self.children[%s]" % v_
           and U(s3.body[0]) == "queue.append((%s, %s))" % (U(s3.target), v_), "pushes of the children expected")
    expect(EDGE, o[5], U(o[5]) == "self._computed = True", "computed flag expected")
    out.append("Definition kr_weight (mode_one mode_length : bool) (len custom : Z) : Z :=\n  %s.\n"
               "Definition kr_all_edges (avoidbound is_polyline : bool) : bool := %s.\n"
               "Definition kr_keep (on_border : bool) : bool := %s.\n"
               "Definition kr_sort_reverse : bool := %s.\n"
               "Definition kr_take (connected : bool) : bool := %s.\n"
               "Definition kr_popleft : bool := %s.\n"
               "Definition kr_child_keep (x_eq_prev : bool) : bool := %s.\n"
               "Definition kr_resets : bool := %s.\n"
               % (kr_weight, kr_all, keep[0], rev, kr_take, kr_popleft, kr_child_keep, "true" if kr_resets else "false"))

    # ================= forests
    new_root = {}
    cfgs = {}
    fwd = {}
    for rel, fcls, tcls, kind, idn in ((EDGE, "EdgeSpanningForest", "EdgeSpanningTree", "edge", "self.mesh.id_vertices"),
                                       (FACE, "FaceSpanningForest", "FaceSpanningTree", "face", "self.mesh.id_faces"),
                                       (CELL, "CellSpanningForest", "CellSpanningTree", "cell", "self.mesh.id_cells")):
        s2, t2 = T.load(rel)
        fc = T.find_def(t2, fcls + ".compute", rel)
        parts.append((fcls + ".compute", T.sha(s2, fc)))
        f_resets, fb = strip_resets(rel, fc, T.body_nodoc(fc), {"trees": {"[]"}, "roots": {"[]"}})
        new_root[kind + "_resets"] = "true" if f_resets else "false"
        expect(rel, fc, len(fb) == 3 and isinstance(fb[0], ast.Assign) and isinstance(fb[0].targets[0], ast.Name)
               and isinstance(fb[0].value, ast.BinOp) and U(fb[0].value.left) == "[False]" and U(fb[2]) == "super().compute()",
               "forest compute(): visited = [False]*n; for ...; super().compute() expected")
        vis = fb[0].targets[0].id
        lp = fb[1]
        expect(rel, lp, isinstance(lp, ast.For) and U(lp.iter) == idn and isinstance(lp.target, ast.Name), "loop over the elements expected")
        v = lp.target.id
        info = {}

        def f_leaf(s, rest, v=v, vis=vis, tcls=tcls, rel=rel, t2=t2, info=info):
            if U(s) == "self.roots.append(%s)" % v:
                return None
            if isinstance(s, ast.Assign) and isinstance(s.targets[0], ast.Name) and isinstance(s.value, ast.Call) \
                    and is_call_to(s.value.func, tcls) and not s.value.args and not s.value.keywords:
                info["tree"] = s.targets[0].id
                info["bound"] = bind_call(rel, s.value.func, T.find_def(t2, tcls + ".__init__", rel))
                return None
            if info.get("tree") and U(s) == "self.trees.append(%s)" % info["tree"]:
                return None
            if info.get("tree") and isinstance(s, ast.For) and isinstance(s.iter, ast.Call) \
                    and T.dotted(s.iter.func) == info["tree"] + ".traverse" and isinstance(s.target, ast.Tuple):
                node = U(s.target.elts[0])
                expect(rel, s, len(s.body) == 1 and U(s.body[0]) == "%s[%s] = True" % (vis, node) and not rest,
                       "visited[node] = True expected")
                order = default_order
                if s.iter.args or s.iter.keywords:
                    a = s.iter.args[0] if s.iter.args else s.iter.keywords[0].value
                    expect(rel, s, isinstance(a, ast.Constant), "traverse order must be a constant")
                    order = a.value
                info["order"] = order
                return "true"
            T.fail(rel, s, "unexpected statement in the forest loop")
        new_root[kind] = decision(rel, list(lp.body), table_atom({"%s[%s]" % (vis, v): "visited"}), f_leaf, "false")
        bnd = info["bound"]
        names = list(bnd)
        expect(rel, fc, U(bnd[names[0]]) == "self.mesh" and U(bnd[names[1]]) == v, "tree is not built on (self.mesh, element)")
        if kind == "edge":
            ab_, ae_ = bnd["avoid_boundary"], bnd["avoid_edges"]
            expect(rel, fc, isinstance(ab_, ast.Constant) and isinstance(ab_.value, bool) and U(ae_) == "None",
                   "edge forest passes unexpected exclusion arguments")
            cfgs[kind] = "mkCfg KEdge false %s polyline" % ("true" if ab_.value else "false")
            fwd[kind] = "false"
        else:
            attr = "forbidden_edges" if kind == "face" else "forbidden_faces"
            x = U(bnd[attr])
            expect(rel, fc, x in ("None", "self." + attr), "forest passes an unexpected exclusion argument")
            fwd[kind] = "true" if x != "None" else "false"
            cfgs[kind] = "mkCfg %s false false polyline" % ("KFace" if kind == "face" else "KCell")
            if x != "None":
                fn, found = init_binding(rel, t2, fcls, attr)
                expect(rel, fn, len(found) == 1 and U(found[0][1]) == attr, "forest does not store its exclusion argument")
        expect(rel, fc, info.get("order") in ("BFS", "DFS"), "forest marks visited elements with an unknown traversal order")
        info_order = info["order"]
        new_root[kind + "_order"] = info_order
    expect(EDGE, None, new_root["edge"] == new_root["face"] == new_root["cell"], "the three forests differ in their new-root test")
    orders = {new_root[k + "_order"] for k in ("edge", "face", "cell")}
    expect(EDGE, None, len(orders) == 1, "the three forests differ in their traversal order")
    out.append("Definition forest_new_root (visited : bool) : bool := %s.\n"
               "Definition forest_cfg (k : kind) (polyline : bool) : cfg :=\n"
               "  match k with\n  | KEdge => %s\n  | KFace => %s\n  | KCell => %s\n  end.\n"
               "Definition forest_forwards_exclusions (k : kind) : bool :=\n"
               "  match k with KEdge => %s | KFace => %s | KCell => %s end.\n"
               "Definition forest_order_is_BFS : bool := %s.\n"
               "Definition forest_resets (k : kind) : bool :=\n"
               "  match k with KEdge => %s | KFace => %s | KCell => %s end.\n"
               % (new_root["edge"], cfgs["edge"], cfgs["face"], cfgs["cell"], fwd["edge"], fwd["face"], fwd["cell"],
                  "true" if orders.pop() == "BFS" else "false",
                  new_root["edge_resets"], new_root["face_resets"], new_root["cell_resets"]))

    # ================= decorators: only the known, behaviour-neutral ones anywhere in the package (a caching / wrapping
    # decorator on a constructor, compute, traverse or a property would change what the code below it means)
    ALLOWED_DECOS = {"abstractmethod", "property", "forbidden_mesh_types(PointCloud)", "allowed_mesh_types(SurfaceMesh)",
                     "allowed_mesh_types(VolumeMesh)"}
    for rel in (BASE, EDGE, FACE, CELL):
        s4, t4 = T.load(rel)
        for node in ast.walk(t4):
            if isinstance(node, (ast.FunctionDef, ast.AsyncFunctionDef, ast.ClassDef)):
                for d in node.decorator_list:
                    if isinstance(node, ast.ClassDef) or U(d) not in ALLOWED_DECOS:
                        T.fail(rel, node, "unknown decorator @%s on %s" % (U(d), node.name))
            if isinstance(node, ast.AsyncFunctionDef):
                T.fail(rel, node, "async definition")
    # default of traverse(order=...) of both base classes: a constant
    for cls in ("SpanningTree", "SpanningForest"):
        fn = T.find_def(T.load(BASE)[1], cls + ".traverse", BASE)
        nms, dfl = params_of(fn)
        expect(BASE, fn, nms == ["self", "order"] and isinstance(dfl["order"], ast.Constant) and dfl["order"].value == "BFS",
               "%s.traverse(order='BFS') expected" % cls)

    # ================= __call__ of the two base classes: runs compute() (unconditionally) and returns the object
    src_b, tree_b = T.load(BASE)
    runs = []
    for cls in ("SpanningTree", "SpanningForest"):
        fn = T.find_def(tree_b, cls + ".__call__", BASE)
        parts.append((cls + ".__call__", T.sha(src_b, fn)))
        cb = T.body_nodoc(fn)
        expect(BASE, fn, len(cb) == 2 and U(cb[1]) == "return self", "__call__ does not end with `return self`")
        if U(cb[0]) == "self.compute()":
            runs.append(True)
        elif isinstance(cb[0], ast.If) and len(cb[0].body) == 1 and U(cb[0].body[0]) == "self.compute()" and not cb[0].orelse:
            runs.append(False)      # compute() only under a condition: a second call may do nothing
        else:
            T.fail(BASE, fn, "__call__ is not `self.compute(); return self`")
    for cls in ("EdgeSpanningTree", "EdgeMinimalSpanningTree", "FaceSpanningTree", "CellSpanningTree",
                "EdgeSpanningForest", "FaceSpanningForest", "CellSpanningForest"):
        rel = EDGE if cls.startswith("Edge") else (FACE if cls.startswith("Face") else CELL)
        s3, t3 = T.load(rel)
        cdef = T.find_def(t3, cls, rel)
        expect(rel, cdef, not any(isinstance(n, ast.FunctionDef) and n.name == "__call__" for n in cdef.body),
               "%s overrides __call__" % cls)
    out.append("Definition call_runs_compute : bool := %s.\n" % ("true" if all(runs) else "false"))

    # ================= default values of the constructors' optional parameters: None / immutable constants only
    # (a mutable literal such as set() or [] would be one object shared by every call that omits the argument)
    def immutable(d):
        if isinstance(d, ast.Constant):
            return True
        if isinstance(d, ast.UnaryOp) and isinstance(d.operand, ast.Constant):
            return True
        if isinstance(d, ast.Tuple):
            return all(immutable(x) for x in d.elts)
        return False
    dflt = []
    for rel, classes in ((EDGE, ("EdgeSpanningTree", "EdgeMinimalSpanningTree", "EdgeSpanningForest")),
                         (FACE, ("FaceSpanningTree", "FaceSpanningForest")),
                         (CELL, ("CellSpanningTree", "CellSpanningForest")),
                         (BASE, ("SpanningTree", "SpanningForest"))):
        s2, t2 = T.load(rel)
        for cls in classes:
            fn = T.find_def(t2, cls + ".__init__", rel)
            parts.append((cls + ".__init__ signature", T.sha(s2, fn.args)))
            a = fn.args
            expect(rel, fn, not a.vararg and not a.kwarg and not a.kwonlyargs and not a.posonlyargs, "unexpected parameter kinds in %s.__init__" % cls)
            names, defaults = params_of(fn)
            for nme in names[1:]:
                d = defaults[nme]
                if d is not None:
                    dflt.append((cls, nme, U(d), immutable(d)))
    for cls, nme, txt, ok in dflt:
        out.append("(* %s(%s=%s): %s *)\n" % (cls, nme, txt.replace("*)", "* )"), "immutable" if ok else "MUTABLE DEFAULT, shared between calls"))
    out.append("Definition ctor_defaults_immutable : bool := %s.\n" % ("true" if all(ok for *_, ok in dflt) else "false"))
    fdef = {(c, n): t for c, n, t, _ in dflt}
    out.append("Definition exclusion_defaults_are_none : bool := %s.\n"
               % ("true" if fdef.get(("EdgeSpanningTree", "avoid_edges")) == "None" and fdef.get(("FaceSpanningTree", "forbidden_edges")) == "None"
                  and fdef.get(("CellSpanningTree", "forbidden_faces")) == "None" and fdef.get(("FaceSpanningForest", "forbidden_edges")) == "None"
                  and fdef.get(("EdgeSpanningTree", "avoid_boundary")) == "False" and fdef.get(("EdgeMinimalSpanningTree", "avoid_boundary")) == "False"
                  else "false"))

    text = T.header("C10: decisions, pop disciplines, weight selector and call plumbing of processing/trees", parts)
    text += ("From Coq Require Import List Arith Bool ZArith.\nImport ListNotations.\nRequire Import MV.C10.Prelude.\n\n"
             + "\n".join(out))
    return {"C10/Gen.v": text}
