"""priority_queue.py -> coq/theories/C20/Gen.v  (comparator and the wrapper's plumbing).

Recognised shapes only; anything else raises TranslationError (the tie to the source is then broken).
"""
import ast

from . import common as T
from ..core import TranslationError

REL = "mouette/utils/priority_queue.py"


def gen():
    src, tree = T.load(REL)
    parts = []
    # ---- heapq alias
    alias = None
    for n in tree.body:
        if isinstance(n, ast.Import):
            for a in n.names:
                if a.name == "heapq":
                    alias = a.asname or "heapq"
    if alias is None:
        raise TranslationError(REL + ": `import heapq` not found")
    check_class_surface(REL, tree, "PriorityQueue", [], {"front": ["property"]})
    check_class_surface(REL, tree, "PriorityItem", ["dataclass"], {})
    # ---- PriorityItem: field order and comparator
    item = T.find_def(tree, "PriorityItem", REL)
    fields = []
    for n in item.body:
        if isinstance(n, ast.AnnAssign) and isinstance(n.target, ast.Name):
            fields.append(n.target.id)
    if sorted(fields) != ["priority", "x"]:
        T.fail(REL, item, "PriorityItem fields are not {x, priority}: %s" % fields)
    deco = [T.dotted(d) if not isinstance(d, ast.Call) else T.dotted(d.func) for d in item.decorator_list]
    if deco != ["dataclass"]:
        T.fail(REL, item, "PriorityItem is not a plain @dataclass")
    lt = T.find_def(tree, "PriorityItem.__lt__", REL)
    parts.append(("PriorityItem", T.sha(src, item)))
    a0, a1 = [a.arg for a in lt.args.args]
    b = T.body_nodoc(lt)
    if len(b) != 1 or not isinstance(b[0], ast.Return) or not isinstance(b[0].value, ast.Compare):
        T.fail(REL, lt, "__lt__ is not `return <a> <cmp> <b>`")
    c = b[0].value
    if len(c.ops) != 1 or type(c.ops[0]) not in T.CMP:
        T.fail(REL, c, "unsupported comparison in __lt__")

    def side(e):
        d = T.dotted(e)
        if d == a0 + ".priority":
            return "fst a"
        if d == a1 + ".priority":
            return "fst b"
        T.fail(REL, e, "operand of __lt__ is not <self|other>.priority")
    item_lt = "%s (%s) (%s)" % (T.CMP[type(c.ops[0])], side(c.left), side(c.comparators[0]))
    for other in ("__gt__", "__le__", "__ge__", "__eq__"):
        for n in item.body:
            if isinstance(n, ast.FunctionDef) and n.name == other:
                T.fail(REL, n, "unexpected extra comparison method " + other)
    # ---- PriorityQueue methods
    pq = T.find_def(tree, "PriorityQueue", REL)
    parts.append(("PriorityQueue", T.sha(src, pq)))

    def only_stmt(name):
        fn = T.find_def(tree, "PriorityQueue." + name, REL)
        bb = T.body_nodoc(fn)
        return fn, bb

    # __init__: self.data = []
    fn, bb = only_stmt("__init__")
    if not (len(bb) == 1 and isinstance(bb[0], ast.Assign) and T.dotted(bb[0].targets[0]) == "self.data"
            and isinstance(bb[0].value, ast.List) and not bb[0].value.elts):
        T.fail(REL, fn, "__init__ is not `self.data = []`")
    # empty: return len(self.data) == 0
    fn, bb = only_stmt("empty")
    ok = (len(bb) == 1 and isinstance(bb[0], ast.Return) and isinstance(bb[0].value, ast.Compare)
          and len(bb[0].value.ops) == 1)
    if not ok:
        T.fail(REL, fn, "empty is not `return len(self.data) <cmp> <int>`")
    cmpn = bb[0].value
    l, r = cmpn.left, cmpn.comparators[0]
    if not (isinstance(l, ast.Call) and T.dotted(l.func) == "len" and T.dotted(l.args[0]) == "self.data"
            and isinstance(r, ast.Constant) and isinstance(r.value, int)):
        T.fail(REL, fn, "empty is not `return len(self.data) <cmp> <int>`")
    cmpop = {ast.Eq: "Z.eqb", ast.LtE: "Z.leb", ast.Lt: "Z.ltb", ast.GtE: "Z.geb", ast.Gt: "Z.gtb"}.get(type(cmpn.ops[0]))
    neg = False
    if isinstance(cmpn.ops[0], ast.NotEq):
        cmpop, neg = "Z.eqb", True
    if cmpop is None:
        T.fail(REL, fn, "unsupported comparison in empty")
    pq_empty = "%s (Z.of_nat (length d)) %d" % (cmpop, r.value)
    if neg:
        pq_empty = "negb (%s)" % pq_empty
    # front: return self.data[k]
    fn, bb = only_stmt("front")
    if not (len(bb) == 1 and isinstance(bb[0], ast.Return) and isinstance(bb[0].value, ast.Subscript)
            and T.dotted(bb[0].value.value) == "self.data" and isinstance(bb[0].value.slice, ast.Constant)
            and isinstance(bb[0].value.slice.value, int) and bb[0].value.slice.value >= 0):
        T.fail(REL, fn, "front is not `return self.data[<nat>]`")
    front_idx = bb[0].value.slice.value
    # get: return hq.heappop(self.data)
    fn, bb = only_stmt("get")
    if not (len(bb) == 1 and isinstance(bb[0], ast.Return) and isinstance(bb[0].value, ast.Call)
            and T.dotted(bb[0].value.func) == alias + ".heappop" and len(bb[0].value.args) == 1
            and T.dotted(bb[0].value.args[0]) == "self.data"):
        T.fail(REL, fn, "get is not `return hq.heappop(self.data)`")
    # pop: return self.get()
    fn, bb = only_stmt("pop")
    if not (len(bb) == 1 and isinstance(bb[0], ast.Return) and isinstance(bb[0].value, ast.Call)
            and T.dotted(bb[0].value.func) == "self.get" and not bb[0].value.args):
        T.fail(REL, fn, "pop is not `return self.get()`")
    # push(self, x, w): item = PriorityItem(<x>, <w>); hq.heappush(self.data, item)
    fn, bb = only_stmt("push")
    params = [a.arg for a in fn.args.args]
    if params[:1] != ["self"] or len(params) != 3:
        T.fail(REL, fn, "push does not take (self, x, w)")
    px, pw = params[1], params[2]
    if not (len(bb) == 2 and isinstance(bb[0], ast.Assign) and isinstance(bb[0].targets[0], ast.Name)
            and isinstance(bb[0].value, ast.Call) and T.dotted(bb[0].value.func) == "PriorityItem"):
        T.fail(REL, fn, "push does not build a PriorityItem first")
    var = bb[0].targets[0].id
    call = bb[0].value
    bound = {}
    for f, a in zip(fields, call.args):
        bound[f] = T.dotted(a)
    for kw in call.keywords:
        bound[kw.arg] = T.dotted(kw.value)
    if set(bound) != {"x", "priority"} or not set(bound.values()) <= {px, pw}:
        T.fail(REL, call, "PriorityItem(...) arguments are not push's own parameters")
    cz = {px: "x", pw: "w"}
    mk = "(%s, %s)" % (cz[bound["priority"]], cz[bound["x"]])
    c2 = bb[1]
    if not (isinstance(c2, ast.Expr) and isinstance(c2.value, ast.Call)
            and T.dotted(c2.value.func) == alias + ".heappush" and len(c2.value.args) == 2
            and T.dotted(c2.value.args[0]) == "self.data" and T.dotted(c2.value.args[1]) == var):
        T.fail(REL, fn, "push does not end with hq.heappush(self.data, item)")

    uf_text = gen_uf(parts)
    out = T.header("C20: PriorityItem comparator, PriorityQueue plumbing, UnionFind constructor", parts)
    out += """From Coq Require Import ZArith List Bool.
Import ListNotations.
Require Import MV.C20.Model.

(* an item is (priority, payload) *)
Definition item := (Z * Z)%%type.
Definition item_dummy : item := (0%%Z, 0%%Z).
Definition item_lt (a b : item) : bool := %s.
Definition pq_init : list item := [].
Definition pq_push (d : list item) (x w : Z) : list item := heappush item item_lt item_dummy d %s.
Definition pq_get (d : list item) : option (item * list item) := heappop item item_lt item_dummy d.
Definition pq_pop := pq_get.
Definition pq_empty (d : list item) : bool := %s.
Definition pq_front (d : list item) : option item := nth_error d %d.
""" % (item_lt, mk, pq_empty, front_idx)
    out += uf_text
    return {"C20/Gen.v": out}


UF_REL = "mouette/utils/unionfind.py"
UF_FIELDS = {"_elts": "list", "_par": "list", "_siz": "list", "_indx": "dict", "n_comps": "int", "n_elts": "int",
             "_next": "int"}


def check_class_surface(rel, tree, cls, class_decos, method_decos):
    """Fail closed on decorators we do not know (memoisation ...) and on mutable default arguments of any method."""
    node = T.find_def(tree, cls, rel)
    decos = [T.dotted(d) if not isinstance(d, ast.Call) else T.dotted(d.func) for d in node.decorator_list]
    if decos != class_decos:
        T.fail(rel, node, "class %s has decorators %s (expected %s)" % (cls, decos, class_decos))
    for n in node.body:
        if isinstance(n, (ast.FunctionDef, ast.AsyncFunctionDef)):
            d = [T.dotted(x) if not isinstance(x, ast.Call) else T.dotted(x.func) for x in n.decorator_list]
            if d != method_decos.get(n.name, []):
                T.fail(rel, n, "method %s.%s has decorators %s (expected %s)" % (cls, n.name, d, method_decos.get(n.name, [])))
            for dv in list(n.args.defaults) + [x for x in n.args.kw_defaults if x is not None]:
                if not (isinstance(dv, ast.Constant) and (dv.value is None or isinstance(dv.value, (int, float, str, bool)))):
                    T.fail(rel, n, "method %s.%s has a default argument that is not None / an immutable constant" % (cls, n.name))
        elif isinstance(n, (ast.Assign, ast.AnnAssign)) and cls != "PriorityItem":
            # class-level attributes would be shared by every instance
            T.fail(rel, n, "class-level attribute in %s" % cls)


def gen_uf(parts):
    """UnionFind.__init__: the seven fields are initialised to constants, `None` stands for the empty container,
    and every element of the container goes through `self.add`. Anything else fails closed."""
    src, tree = T.load(UF_REL)
    check_class_surface(UF_REL, tree, "UnionFind", [], {})
    fn = T.find_def(tree, "UnionFind.__init__", UF_REL)
    parts.append(("UnionFind.__init__", T.sha(src, fn)))
    params = [a.arg for a in fn.args.args]
    if len(params) != 2 or params[0] != "self" or fn.args.vararg or fn.args.kwarg or fn.args.kwonlyargs:
        T.fail(UF_REL, fn, "__init__ does not take (self, elements)")
    arg = params[1]
    dflt = fn.args.defaults
    if not (len(dflt) == 1 and isinstance(dflt[0], ast.Constant) and dflt[0].value is None):
        T.fail(UF_REL, fn, "the default of `%s` is not None" % arg)
    init = {}
    none_case = None
    loop = None
    for st in T.body_nodoc(fn):
        if isinstance(st, ast.Assign) and len(st.targets) == 1 and (T.dotted(st.targets[0]) or "").startswith("self."):
            if none_case is not None or loop is not None:
                T.fail(UF_REL, st, "field assignment after the element loop / None test")
            f = T.dotted(st.targets[0])[5:]
            if f not in UF_FIELDS or f in init:
                T.fail(UF_REL, st, "unexpected or repeated field %s" % f)
            v = st.value
            kind = UF_FIELDS[f]
            if kind == "int" and isinstance(v, ast.Constant) and type(v.value) is int and v.value >= 0:
                init[f] = "%d" % v.value
            elif kind == "list" and isinstance(v, ast.List) and not v.elts:
                init[f] = "[]"
            elif kind == "dict" and isinstance(v, ast.Dict) and not v.keys:
                init[f] = "[]"
            else:
                T.fail(UF_REL, st, "field %s is not initialised to an empty %s / a natural number" % (f, kind))
        elif isinstance(st, ast.If):
            ok = (none_case is None and loop is None and not st.orelse and isinstance(st.test, ast.Compare)
                  and T.dotted(st.test.left) == arg and len(st.test.ops) == 1 and isinstance(st.test.ops[0], ast.Is)
                  and isinstance(st.test.comparators[0], ast.Constant) and st.test.comparators[0].value is None
                  and len(st.body) == 1 and isinstance(st.body[0], ast.Assign) and T.dotted(st.body[0].targets[0]) == arg
                  and isinstance(st.body[0].value, (ast.List, ast.Tuple)) and not st.body[0].value.elts)
            if not ok:
                T.fail(UF_REL, st, "not `if %s is None: %s = []`" % (arg, arg))
            none_case = "[]"
        elif isinstance(st, ast.For):
            ok = (loop is None and not st.orelse and isinstance(st.target, ast.Name) and T.dotted(st.iter) == arg
                  and len(st.body) == 1 and isinstance(st.body[0], ast.Expr) and isinstance(st.body[0].value, ast.Call)
                  and T.dotted(st.body[0].value.func) == "self.add" and len(st.body[0].value.args) == 1
                  and not st.body[0].value.keywords and T.dotted(st.body[0].value.args[0]) == st.target.id)
            if not ok:
                T.fail(UF_REL, st, "not `for elt in %s: self.add(elt)`" % arg)
            loop = True
        else:
            T.fail(UF_REL, st, "unexpected statement in __init__")
    if set(init) != set(UF_FIELDS):
        T.fail(UF_REL, fn, "fields not all initialised: missing %s" % sorted(set(UF_FIELDS) - set(init)))
    if none_case is None or not loop:
        T.fail(UF_REL, fn, "__init__ lacks the None test or the `self.add` loop")
    add_text = gen_add(src, tree, parts)
    return add_text + """
(* UnionFind.__init__(elements=None) *)
Definition uf_new : uf := mkuf %s %s %s %s %s %s %s.
Definition uf_init_none : list Z := %s.
Definition uf_init (elements : list Z) : uf := fold_left (fun s elt => uf_add s elt) elements uf_new.
""" % (init["_elts"], init["_par"], init["_siz"], init["n_comps"], init["n_elts"], init["_next"], init["_indx"], none_case)



def gen_add(src, tree, parts):
    """UnionFind.add by symbolic execution of its straight-line body: `if x in self: return`, then appends to the three
    lists, one dict store under the key x, increments of the three counters - in any order the code chooses; the result is
    each field's final value in terms of the state before the call. Anything else fails closed."""
    fn = T.find_def(tree, "UnionFind.add", UF_REL)
    parts.append(("UnionFind.add", T.sha(src, fn)))
    params = [a.arg for a in fn.args.args]
    if len(params) != 2 or params[0] != "self":
        T.fail(UF_REL, fn, "add does not take (self, x)")
    x = params[1]
    body = T.body_nodoc(fn)
    g = body[0] if body else None
    ok = (isinstance(g, ast.If) and not g.orelse and isinstance(g.test, ast.Compare) and T.dotted(g.test.left) == x
          and len(g.test.ops) == 1 and isinstance(g.test.ops[0], ast.In)
          and T.dotted(g.test.comparators[0]) in ("self", "self._indx")
          and len(g.body) == 1 and isinstance(g.body[0], ast.Return)
          and (g.body[0].value is None or (isinstance(g.body[0].value, ast.Constant) and g.body[0].value.value is None)))
    if not ok:
        T.fail(UF_REL, fn, "add does not start with `if %s in self: return`" % x)
    lists = {"_elts": [], "_par": [], "_siz": []}
    puts = []
    incr = {"_next": 0, "n_elts": 0, "n_comps": 0}
    coqname = {"_next": "next s", "n_elts": "n_elts s", "n_comps": "ncomps s"}

    def natexpr(e):
        """value of a natural-number expression NOW (counters read their current symbolic value)"""
        if isinstance(e, ast.Constant) and type(e.value) is int and e.value >= 0:
            return "%d" % e.value
        d = T.dotted(e)
        if d and d.startswith("self.") and d[5:] in incr:
            k = incr[d[5:]]
            return coqname[d[5:]] if k == 0 else "%s + %d" % (coqname[d[5:]], k)
        T.fail(UF_REL, e, "unsupported index expression in add")

    for st in body[1:]:
        if isinstance(st, ast.Expr) and isinstance(st.value, ast.Call) and isinstance(st.value.func, ast.Attribute) \
                and st.value.func.attr == "append" and len(st.value.args) == 1 and not st.value.keywords:
            tgt = T.dotted(st.value.func.value) or ""
            f = tgt[5:] if tgt.startswith("self.") else None
            if f not in lists:
                T.fail(UF_REL, st, "append to something that is not _elts/_par/_siz")
            a = st.value.args[0]
            if f == "_elts":
                if T.dotted(a) != x:
                    T.fail(UF_REL, st, "_elts.append of something that is not the element")
                lists[f].append("x")
            else:
                lists[f].append(natexpr(a))
        elif isinstance(st, ast.Assign) and len(st.targets) == 1 and isinstance(st.targets[0], ast.Subscript) \
                and T.dotted(st.targets[0].value) == "self._indx" and T.dotted(st.targets[0].slice) == x:
            puts.append("(x, %s)" % natexpr(st.value))
        elif isinstance(st, ast.AugAssign) and isinstance(st.op, ast.Add) and isinstance(st.value, ast.Constant) \
                and type(st.value.value) is int and st.value.value >= 0 and (T.dotted(st.target) or "")[5:] in incr \
                and (T.dotted(st.target) or "").startswith("self."):
            incr[T.dotted(st.target)[5:]] += st.value.value
        else:
            T.fail(UF_REL, st, "unsupported statement in add")

    def lst(base, items):
        return base if not items else "%s ++ [%s]" % (base, "; ".join(items))

    def cnt(f):
        return coqname[f] if incr[f] == 0 else "%s + %d" % (coqname[f], incr[f])
    return """
(* UnionFind.add: the fields after adding an element that was not there, by symbolic execution of the body *)
Definition uf_add_new (s : uf) (x : Z) : uf :=
  mkuf (%s) (%s) (%s) (%s) (%s) (%s) (%s).
Definition uf_add (s : uf) (x : Z) : uf := if mem s x then s else uf_add_new s x.
""" % (lst("elts s", lists["_elts"]), lst("par s", lists["_par"]), lst("siz s", lists["_siz"]), cnt("n_comps"),
       cnt("n_elts"), cnt("_next"), lst("indx s", puts))
