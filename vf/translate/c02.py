"""mesh_data.py / mesh.py / datatypes/base.py / data_container.py / utils.keyify  ->  coq/theories/C02/Gen.v

Fail-closed: every recognised shape is matched structurally; anything else raises TranslationError.
What is extracted (the model and the theorems use these definitions):
  keyify (sort ascending), the edge validity predicate, the attribute keep-condition and default carry-over of the
  invalid-edge branch, the face-side index formula, the hard-edge guard/flag, both tetra/hexa face tables (face completion
  and cell_faces generation) with their arity tests, every regeneration guard of the corner containers, the argument order
  of corner records, the dimensionality chain, class selection, from_arrays' padding / shape / index tests, which containers
  a mesh of dimension d exposes, and the order of the steps of prepare().
"""
import ast

from . import common as T
from ..core import TranslationError

MD = "mouette/mesh/mesh_data.py"
MM = "mouette/mesh/mesh.py"
MB = "mouette/mesh/datatypes/base.py"
DC = "mouette/mesh/data_container.py"
UT = "mouette/utils/utilities.py"

CMPZ = {ast.Lt: "(%s <? %s)", ast.LtE: "(%s <=? %s)", ast.Gt: "(%s >? %s)", ast.GtE: "(%s >=? %s)",
        ast.Eq: "(%s =? %s)", ast.NotEq: "negb (%s =? %s)"}
BINZ = {ast.Add: "(%s + %s)", ast.Sub: "(%s - %s)", ast.Mult: "(%s * %s)", ast.Mod: "(%s mod %s)", ast.FloorDiv: "(%s / %s)"}


# locals of each parsed function in order of first binding: a pure renaming of locals in the source is mapped back to
# these names before the shapes are matched (a harmless rewrite must not break the tie)
ORIG_LOCALS = {
    "keyify": ['args', 'key', 'x'],
    "CornerDataContainer.append": ['val_elem', 'val_adj', 'attr'],
    "RawMeshData.prepare": [],
    "RawMeshData._prepare_vertices": ['iv', 'v'],
    "_plain_row": ['row', 'x'],
    "RawMeshData._prepare_faces": ['iF'],
    "RawMeshData._prepare_cells": ['iC'],
    "RawMeshData._prepare_edges": ['N', 'is_valid', 'a', 'b', 'seen', 'keep', 'key', 'edges_invalid', 'new_edges', 'new_attrs', 'old_attrs',
                                   'attr_name', 'n', 'ie', 'name'],
    "RawMeshData._generate_face_corners": ['nc', 'nf', 'f', 'iF', 'F', 'v'],
    "RawMeshData._generate_cell_corners": ['nce', 'nca', 'iC', 'C', 'v'],
    "RawMeshData._generate_cell_faces": ['nce', 'nca', 'face_id', 'iF', 'F', 'key', 'new_elem', 'new_adj', 'iC', 'C', 'v0', 'v1', 'v2', 'v3',
                                         'faces_C', 'v4', 'v5', 'v6', 'v7', 'v8', 'face'],
    "RawMeshData._complete_edges_from_faces": ['hard_edges', 'e', 'edge_set', 'f', 'nf', 'i', 'edge'],
    "RawMeshData._complete_faces_from_cells": ['face_set', 'f', 'C', 'faces_C', 'v1', 'v2', 'v3', 'v4', 'v5', 'v6', 'v7',
                                               'v8', 'v0', 'face', 'face_key'],
    "RawMeshData._compute_dimensionality": [],
    "_instanciate_raw_mesh_data": ['mesh_data', 'dim'],
    "from_arrays": ['V', 'E', 'F', 'C', 'raw', 'm', 'n_vert'],
    "Mesh.__init__": ['dim', 'data'],
}


def bound_names(fn):
    out = []

    def add(n):
        if n != "self" and n not in out:
            out.append(n)

    class V(ast.NodeVisitor):
        def visit_arg(self, node):
            add(node.arg)

        def visit_Name(self, node):
            if isinstance(node.ctx, ast.Store):
                add(node.id)

        def visit_FunctionDef(self, node):
            if node is not fn:
                add(node.name)
            self.generic_visit(node)
    V().visit(fn)
    return out


ALLOWED_DECORATORS = {"RawMeshData.dimensionality": ["property"]}


def check_defaults(fn, qual, rel):
    """every default of an anchored callable is None or an immutable constant (a mutable default is shared by all calls)"""
    for d in list(fn.args.defaults) + [k for k in fn.args.kw_defaults if k is not None]:
        if not (isinstance(d, ast.Constant) and (d.value is None or isinstance(d.value, (bool, int, float, str)))):
            T.fail(rel, d, "%s has the default argument `%s`: only None / immutable constants are modelled" % (qual, ast.unparse(d)))


NOISE_CALLS = ("warnings.warn", "print", "logging.", "logger.", "log.")


def strip_noise(fn):
    """a copy of the function without statements that only talk (warnings.warn(..), print(..), logging calls, the import
    of `warnings`): warnings, log lines and stderr output never matter to the property"""
    import copy
    fn = copy.deepcopy(fn)

    def noisy(st):
        if isinstance(st, ast.Expr) and isinstance(st.value, ast.Call):
            d = T.dotted(st.value.func) or ""
            return any(d == n or (n.endswith(".") and d.startswith(n)) for n in NOISE_CALLS)
        if isinstance(st, ast.Import):
            return all(a.name in ("warnings", "logging") for a in st.names)
        return False

    for node in ast.walk(fn):
        for fld in ("body", "orelse", "finalbody"):
            b = getattr(node, fld, None)
            if isinstance(b, list) and b and all(isinstance(x, ast.stmt) for x in b):
                kept = [x for x in b if not noisy(x)]
                if len(kept) != len(b):
                    setattr(node, fld, kept or ([ast.Pass()] if fld == "body" else []))
    return fn


def fdef(tree, qual, rel):
    """find_def + mapping renamed locals back to the names the shape matchers are written with"""
    import copy
    fn = T.find_def(tree, qual, rel)
    if fn.decorator_list and [ast.unparse(d) for d in fn.decorator_list] != ALLOWED_DECORATORS.get(qual, []):
        T.fail(rel, fn, "%s carries decorator(s) %s (memoisation / wrapping of an anchored function is not modelled)"
               % (qual, [ast.unparse(d) for d in fn.decorator_list]))
    check_defaults(fn, qual, rel)
    fn = strip_noise(fn)
    orig = ORIG_LOCALS.get(qual)
    cur = bound_names(fn)
    if orig is None or cur == orig:
        return fn
    new = [n for n in cur if n not in orig]        # names the source uses now ...
    missing = [n for n in orig if n not in cur]    # ... in place of these, matched in order of first binding
    if not new or len(new) != len(missing):
        return fn
    ren = dict(zip(new, missing))
    fn2 = copy.deepcopy(fn)
    for node in ast.walk(fn2):
        if isinstance(node, ast.Name) and node.id in ren:
            node.id = ren[node.id]
        elif isinstance(node, ast.arg) and node.arg in ren:
            node.arg = ren[node.arg]
        elif isinstance(node, ast.FunctionDef) and node is not fn2 and node.name in ren:
            node.name = ren[node.name]
    return fn2


class Tr:
    """integer / boolean expression translator over an explicit environment of python-expression -> Coq variable"""

    def __init__(self, rel, env):
        self.rel = rel
        self.env = env  # dict: ast.dump-less textual form (via ast.unparse) -> coq name

    def z(self, e):
        u = ast.unparse(e)
        if u in self.env:
            return self.env[u]
        if isinstance(e, ast.Constant) and isinstance(e.value, int) and not isinstance(e.value, bool):
            return "(%d)" % e.value if e.value < 0 else "%d" % e.value
        if isinstance(e, ast.UnaryOp) and isinstance(e.op, ast.USub):
            return "(- %s)" % self.z(e.operand)
        if isinstance(e, ast.BinOp) and type(e.op) in BINZ:
            return BINZ[type(e.op)] % (self.z(e.left), self.z(e.right))
        T.fail(self.rel, e, "unsupported integer expression `%s`" % u)

    def b(self, e):
        u = ast.unparse(e)
        if u in self.env:
            return self.env[u]
        if isinstance(e, ast.BoolOp):
            op = " && " if isinstance(e.op, ast.And) else " || "
            return "(" + op.join(self.b(v) for v in e.values) + ")"
        if isinstance(e, ast.UnaryOp) and isinstance(e.op, ast.Not):
            return "negb %s" % self.b(e.operand)
        if isinstance(e, ast.Compare):
            parts = []
            left = e.left
            for op, right in zip(e.ops, e.comparators):
                if type(op) not in CMPZ:
                    T.fail(self.rel, e, "unsupported comparison")
                parts.append(CMPZ[type(op)] % (self.z(left), self.z(right)))
                left = right
            return "(" + " && ".join(parts) + ")"
        T.fail(self.rel, e, "unsupported boolean expression `%s`" % u)


def _is_call(node, dotted_name, nargs=None):
    return (isinstance(node, ast.Call) and T.dotted(node.func) == dotted_name and not node.keywords
            and (nargs is None or len(node.args) == nargs))


def _expr_call(stmt, dotted_name, nargs=None):
    return isinstance(stmt, ast.Expr) and _is_call(stmt.value, dotted_name, nargs)


def _assign(stmt, target=None):
    if isinstance(stmt, ast.Assign) and len(stmt.targets) == 1:
        if target is None or ast.unparse(stmt.targets[0]) == target:
            return stmt.value
    return None


def _rows_added(stmt, target, arr):
    """`<target> += list(<arr>)` or `+= list(np.array(<arr>, ...))` / `[... for row in <arr>]`-free copies of the rows"""
    if not (isinstance(stmt, ast.AugAssign) and isinstance(stmt.op, ast.Add) and ast.unparse(stmt.target) == target):
        return False
    v = stmt.value
    if not (isinstance(v, ast.Call) and T.dotted(v.func) == "list" and len(v.args) == 1 and not v.keywords):
        return False
    x = v.args[0]
    if ast.unparse(x) == arr:
        return True
    return (isinstance(x, ast.Call) and T.dotted(x.func) in ("np.array", "np.asarray", "np.copy") and x.args
            and ast.unparse(x.args[0]) == arr and len(x.args) == 1
            and all(k.arg in ("dtype", "copy") for k in x.keywords))


def _table(rel, unpack, assign, cvar):
    """`v0,v1,.. = C` ; `faces_C = [ (..), .. ]`  ->  (names, [[names]])"""
    v = _assign(unpack)
    if v is None or ast.unparse(v) != cvar or not isinstance(unpack.targets[0], ast.Tuple):
        T.fail(rel, unpack, "expected `v.. = %s`" % cvar)
    names = []
    for n in unpack.targets[0].elts:
        if not isinstance(n, ast.Name):
            T.fail(rel, unpack, "tuple target is not a name")
        names.append(n.id)
    if len(set(names)) != len(names):
        T.fail(rel, unpack, "repeated name in unpacking")
    tv = _assign(assign, "faces_C")
    if tv is None or not isinstance(tv, ast.List):
        T.fail(rel, assign, "expected `faces_C = [...]`")
    rows = []
    for t in tv.elts:
        if not isinstance(t, ast.Tuple):
            T.fail(rel, t, "table row is not a tuple")
        r = []
        for x in t.elts:
            if not isinstance(x, ast.Name) or x.id not in names:
                T.fail(rel, x, "table entry is not one of the unpacked vertices")
            r.append(x.id)
        rows.append(r)
    return names, rows


def _cell_table_chain(rel, ifnode, cvar, tr, default):
    """if len(C)==k: unpack; table  elif ...  ->  Coq term of type `default`'s type (option or list)"""
    wrap = (lambda s: "Some " + s) if default == "None" else (lambda s: s)
    dflt_nomatch = "None" if default == "None" else "[]"
    out = ""
    node = ifnode
    closes = 0
    while True:
        if not isinstance(node, ast.If):
            T.fail(rel, node, "expected if/elif chain on the cell arity")
        body = [s for s in node.body if not (isinstance(s, ast.Expr) and isinstance(s.value, ast.Constant))]
        if len(body) != 2:
            T.fail(rel, node, "cell branch is not `unpack; faces_C = [...]`")
        names, rows = _table(rel, body[0], body[1], cvar)
        tbl = "[" + "; ".join("[" + "; ".join(r) + "]" for r in rows) + "]"
        out += "if %s then (match %s with [%s] => %s | _ => %s end) else " % (
            tr.b(node.test), cvar, "; ".join(names), wrap(tbl), dflt_nomatch)
        if not node.orelse:
            out += default
            break
        if len(node.orelse) == 1 and isinstance(node.orelse[0], ast.If):
            node = node.orelse[0]
            continue
        T.fail(rel, node, "unexpected else branch in the cell arity chain")
    return out


def gen():
    parts = []
    defs = []

    # ------------------------------------------------------------------ utils.keyify
    src, tree = T.load(UT)
    kf = fdef(tree, "keyify", UT)
    parts.append(("utilities.keyify", T.sha(src, kf)))
    b = T.body_nodoc(kf)
    if not (kf.args.vararg is not None and not kf.args.args and len(b) == 3 and isinstance(b[0], ast.If)):
        T.fail(UT, kf, "keyify is not `def keyify(*args): if ..: key=.. else: key=..; key.sort(); return tuple(key)`")
    va = kf.args.vararg.arg
    t0 = b[0]
    ok = (ast.unparse(t0.test) == "len(%s) == 1" % va and len(t0.body) == 1 and len(t0.orelse) == 1)
    if ok:
        k1, k2 = _assign(t0.body[0]), _assign(t0.orelse[0])
        ok = (k1 is not None and k2 is not None and ast.unparse(t0.body[0].targets[0]) == ast.unparse(t0.orelse[0].targets[0]))
    if not ok:
        T.fail(UT, t0, "keyify: unexpected argument normalisation")
    kv = ast.unparse(t0.body[0].targets[0])

    def is_copy(e, of):
        return (isinstance(e, ast.ListComp) and len(e.generators) == 1 and not e.generators[0].ifs
                and isinstance(e.elt, ast.Name) and isinstance(e.generators[0].target, ast.Name)
                and e.elt.id == e.generators[0].target.id and ast.unparse(e.generators[0].iter) == of) or \
               (_is_call(e, "list", 1) and ast.unparse(e.args[0]) == of)
    if not (is_copy(k1, va + "[0]") and is_copy(k2, va)):
        T.fail(UT, t0, "keyify: key is not a plain copy of the arguments")
    if not (_expr_call(b[1], kv + ".sort", 0)):
        T.fail(UT, b[1], "keyify: expected `%s.sort()` (ascending, no key)" % kv)
    if not (isinstance(b[2], ast.Return) and _is_call(b[2].value, "tuple", 1) and ast.unparse(b[2].value.args[0]) == kv):
        T.fail(UT, b[2], "keyify: expected `return tuple(%s)`" % kv)
    defs.append("(* utils.keyify: copy, sort ascending, freeze *)\nDefinition keyify (l : list Z) : list Z := sort_asc l.")

    # ------------------------------------------------------------------ data_container: CornerDataContainer.append
    src, tree = T.load(DC)
    ap = fdef(tree, "CornerDataContainer.append", DC)
    parts.append(("CornerDataContainer.append", T.sha(src, ap)))
    ps = [a.arg for a in ap.args.args]
    if len(ps) != 3:
        T.fail(DC, ap, "CornerDataContainer.append does not take (self, elem, adj)")
    tgt = {}
    for s in T.body_nodoc(ap):
        if isinstance(s, ast.Expr) and isinstance(s.value, ast.Call) and T.dotted(s.value.func) in (
                "self._elem.append", "self._adj.append") and len(s.value.args) == 1 and isinstance(s.value.args[0], ast.Name):
            tgt[T.dotted(s.value.func).split(".")[1]] = s.value.args[0].id
        elif isinstance(s, ast.For) and ast.unparse(s.iter) == "self._attr.values()":
            continue
        else:
            T.fail(DC, s, "unexpected statement in CornerDataContainer.append")
    if set(tgt) != {"_elem", "_adj"} or not set(tgt.values()) <= set(ps[1:]):
        T.fail(DC, ap, "CornerDataContainer.append does not fill _elem and _adj from its parameters")
    cz = {ps[1]: "x", ps[2]: "y"}
    defs.append("(* CornerDataContainer.append(x, y) records (element, owner) *)\n"
                "Definition corner_append (x y : Z) : Z * Z := (%s, %s)." % (cz[tgt["_elem"]], cz[tgt["_adj"]]))
    ln = fdef(tree, "CornerDataContainer.__len__", DC)
    bl = T.body_nodoc(ln)
    if not (len(bl) == 1 and isinstance(bl[0], ast.Return) and ast.unparse(bl[0].value) == "len(self._elem)"):
        T.fail(DC, ln, "len(corner container) is not len(self._elem)")
    # clear(): which fields are reset (to the empty list / an empty dict); a field that is not reset is kept
    def resets(qual, fields):
        fn = fdef(tree, qual, DC)
        parts.append((qual, T.sha(src, fn)))
        got = set()
        for st in T.body_nodoc(fn):
            v = _assign(st)
            tg = ast.unparse(st.targets[0]) if v is not None else None
            if v is None or not tg.startswith("self.") or tg[5:] not in fields:
                T.fail(DC, st, "%s: unexpected statement" % qual)
            empty_list = (isinstance(v, ast.List) and not v.elts) or (_is_call(v, "list", 0))
            empty_dict = (isinstance(v, ast.Dict) and not v.keys) or (_is_call(v, "dict", 0))
            if not ((tg[5:] == "_attr" and empty_dict) or (tg[5:] != "_attr" and empty_list)):
                T.fail(DC, st, "%s: %s is not reset to an empty container" % (qual, tg))
            got.add(tg[5:])
        return got
    # constructors: fresh containers for every object (the lists are copies of what is given)
    def body_is(qual, lines, what):
        fn = fdef(tree, qual, DC)
        parts.append((qual, T.sha(src, fn)))
        if [ast.unparse(x) for x in T.body_nodoc(fn)] != lines:
            T.fail(DC, fn, "%s: %s" % (qual, what))
    body_is("_BaseDataContainer.__init__",
            ["self.id = id", "if attributes is None:\n    self._attr = dict()\nelse:\n    assert isinstance(attributes, dict)\n    self._attr = attributes"],
            "does not create a fresh attribute dict when none is given")
    body_is("DataContainer.__init__", ["super().__init__(attributes, id)", "self._data = [] if data is None else list(data)"],
            "does not hold a fresh list / a copy of the list it is given")
    body_is("CornerDataContainer.__init__",
            ["super().__init__(attributes, id)", "self._elem = [] if elem is None else list(elem)", "self._adj = [] if adj is None else list(adj)"],
            "does not hold fresh lists / copies of the lists it is given")
    for q in ("_BaseDataContainer.create_attribute", "DataContainer.append", "DataContainer.__iadd__", "DataContainer.__setitem__"):
        fdef(tree, q, DC)   # decorators / defaults only
    rc = resets("CornerDataContainer.clear", ("_elem", "_adj", "_attr"))
    defs.append("(* CornerDataContainer.clear(): the (_elem, _adj) lists afterwards; are the attributes dropped *)\n"
                "Definition corner_clear (elem adj : list Z) : list Z * list Z := (%s, %s).\n"
                "Definition corner_clear_attrs : bool := %s."
                % ("[]" if "_elem" in rc else "elem", "[]" if "_adj" in rc else "adj", "true" if "_attr" in rc else "false"))
    rd = resets("DataContainer.clear", ("_data", "_attr"))
    defs.append("(* DataContainer.clear(): the element list afterwards; are the attributes dropped *)\n"
                "Definition data_clear {A : Type} (d : list A) : list A := %s.\n"
                "Definition data_clear_attrs : bool := %s." % ("[]" if "_data" in rd else "d", "true" if "_attr" in rd else "false"))
    em = fdef(tree, "DataContainer.empty", DC)
    bl = T.body_nodoc(em)
    if not (len(bl) == 1 and isinstance(bl[0], ast.Return) and ast.unparse(bl[0].value) == "not self._data"):
        T.fail(DC, em, "DataContainer.empty is not `return not self._data`")

    # ------------------------------------------------------------------ mesh_data.py
    src, tree = T.load(MD)
    
    # --- constructor: seven containers, fresh unless taken from the mesh being re-wrapped; no cached dimensionality, not prepared
    ini = fdef(tree, "RawMeshData.__init__", MD)
    parts.append(("RawMeshData.__init__", T.sha(src, ini)))
    want = ["self.vertices = DataContainer(id='vertices') if mesh is None else mesh.vertices"]
    for nm, cl in (("edges", "DataContainer"), ("faces", "DataContainer"), ("face_corners", "CornerDataContainer"),
                   ("cells", "DataContainer"), ("cell_corners", "CornerDataContainer"), ("cell_faces", "CornerDataContainer")):
        want.append("self.%s = %s(id='%s') if mesh is None or not hasattr(mesh, '%s') else mesh.%s" % (nm, cl, nm, nm, nm))
    want += ["self._dimensionality: int = None", "self._prepared: bool = False"]
    if [ast.unparse(x) for x in T.body_nodoc(ini)] != want:
        T.fail(MD, ini, "RawMeshData.__init__ has an unexpected shape")
    dp = fdef(tree, "RawMeshData.dimensionality", MD)
    parts.append(("RawMeshData.dimensionality", T.sha(src, dp)))
    if [ast.unparse(x) for x in T.body_nodoc(dp)] != ["if self._dimensionality is None:\n    self._compute_dimensionality()",
                                                      "return self._dimensionality"]:
        T.fail(MD, dp, "RawMeshData.dimensionality is not the lazily computed value")

    # --- prepare(): order of the steps
    pr = fdef(tree, "RawMeshData.prepare", MD)
    parts.append(("RawMeshData.prepare", T.sha(src, pr)))
    b = T.body_nodoc(pr)
    if not (b and isinstance(b[0], ast.If) and ast.unparse(b[0].test) == "self._prepared" and len(b[0].body) == 1
            and isinstance(b[0].body[0], ast.Return) and b[0].body[0].value is None and not b[0].orelse):
        T.fail(MD, pr, "prepare does not start with `if self._prepared: return`")
    if not (_assign(b[-1], "self._prepared") is not None and ast.unparse(b[-1].value) == "True"):
        T.fail(MD, b[-1], "prepare does not end with `self._prepared = True`")
    STEP = {"_complete_faces_from_cells": "SCompleteFaces", "_complete_edges_from_faces": "SCompleteEdges",
            "_prepare_vertices": "SVertices", "_prepare_edges": "SEdges", "_prepare_faces": "SFaces",
            "_generate_face_corners": "SFaceCorners", "_prepare_cells": "SCells",
            "_generate_cell_corners": "SCellCorners", "_generate_cell_faces": "SCellFaces",
            "_compute_dimensionality": "SDim"}
    GATE = {"config.complete_faces_from_cells": "GFaces", "config.complete_edges_from_faces": "GEdges"}
    steps = []

    def step_of(s):
        if isinstance(s, ast.Expr) and isinstance(s.value, ast.Call) and not s.value.args and not s.value.keywords:
            d = T.dotted(s.value.func)
            if d and d.startswith("self.") and d[5:] in STEP:
                return STEP[d[5:]]
        T.fail(MD, s, "unexpected statement in prepare()")
    for s in b[1:-1]:
        if isinstance(s, ast.If):
            g = GATE.get(ast.unparse(s.test))
            if g is None or s.orelse or len(s.body) != 1:
                T.fail(MD, s, "unexpected conditional in prepare()")
            steps.append("(%s, %s)" % (g, step_of(s.body[0])))
        else:
            steps.append("(GAlways, %s)" % step_of(s))
    defs.append("(* RawMeshData.prepare: the steps in source order, with the config switch gating each *)\n"
                "Definition prepare_steps : list (gate * step) :=\n  [" + ";\n   ".join(steps) + "].")
    # index rows are stored as tuples of Python ints (values unchanged: nothing to model, but the shape is pinned)
    pr_ = fdef(tree, "_plain_row", MD)
    parts.append(("_plain_row", T.sha(src, pr_)))
    bb = T.body_nodoc(pr_)
    if not (len(pr_.args.args) == 1 and len(bb) == 1 and isinstance(bb[0], ast.Return)
            and ast.unparse(bb[0].value) == "tuple((int(x) for x in %s))" % pr_.args.args[0].arg):
        T.fail(MD, pr_, "_plain_row is not `return tuple(int(x) for x in row)`")
    for nm, cont, idr in (("_prepare_faces", "faces", "id_faces"), ("_prepare_cells", "cells", "id_cells")):
        f = fdef(tree, "RawMeshData." + nm, MD)
        bb = T.body_nodoc(f)
        if not (len(bb) == 1 and isinstance(bb[0], ast.For) and ast.unparse(bb[0].iter) == "self." + idr
                and len(bb[0].body) == 1 and ast.unparse(bb[0].body[0]) ==
                "self.%s[%s] = _plain_row(self.%s[%s])" % (cont, bb[0].target.id, cont, bb[0].target.id)):
            T.fail(MD, f, nm + " is not the cast of every row to a tuple of ints")
    # vertices: float array, 2-D points padded, Vec
    f = fdef(tree, "RawMeshData._prepare_vertices", MD)
    parts.append(("RawMeshData._prepare_vertices", T.sha(src, f)))
    bb = T.body_nodoc(f)
    if not (len(bb) == 1 and isinstance(bb[0], ast.For) and ast.unparse(bb[0].iter) == "self.id_vertices"
            and len(bb[0].body) == 3):
        T.fail(MD, f, "_prepare_vertices: unexpected structure")
    iv = bb[0].target.id
    s0, s1, s2 = bb[0].body
    if ast.unparse(s0) != "v = np.array(self.vertices[%s], dtype=float)" % iv:
        T.fail(MD, s0, "_prepare_vertices: the point is not read as a float array")
    if ast.unparse(s2) != "self.vertices[%s] = Vec(v)" % iv:
        T.fail(MD, s2, "_prepare_vertices: the point is not stored as Vec(v)")
    ok = (isinstance(s1, ast.If) and not s1.orelse and len(s1.body) == 1 and isinstance(s1.test, ast.Compare)
          and ast.unparse(s1.test.left) == "v.shape" and len(s1.test.ops) == 1 and isinstance(s1.test.comparators[0], ast.Tuple)
          and len(s1.test.comparators[0].elts) == 1)
    if not ok:
        T.fail(MD, s1, "_prepare_vertices: padding test is not `v.shape <cmp> (k,)`")
    cmpz = ast.Compare(left=ast.Name(id="w", ctx=ast.Load()), ops=s1.test.ops, comparators=[s1.test.comparators[0].elts[0]])
    padv = _assign(s1.body[0], "v")
    if not (padv is not None and _is_call(padv, "np.append", 2) and ast.unparse(padv.args[0]) == "v"):
        T.fail(MD, s1, "_prepare_vertices: padding is not `v = np.append(v, <values>)`")
    vals = padv.args[1].elts if isinstance(padv.args[1], (ast.List, ast.Tuple)) else [padv.args[1]]
    zs = []
    for x in vals:
        if not (isinstance(x, ast.Constant) and isinstance(x.value, (int, float)) and float(x.value) == int(x.value)):
            T.fail(MD, x, "_prepare_vertices: padding value is not an integral constant")
        zs.append(str(int(x.value)) if x.value >= 0 else "(%d)" % int(x.value))
    defs.append("(* _prepare_vertices: a point of width w is padded when ..., with these coordinates *)\n"
                "Definition pv_pad_needed (w : Z) : bool := %s.\nDefinition pv_pad_values : list Z := [%s]."
                % (Tr(MD, {"w": "w"}).b(cmpz), "; ".join(zs)))

    # --- _prepare_edges
    pe = fdef(tree, "RawMeshData._prepare_edges", MD)
    parts.append(("RawMeshData._prepare_edges", T.sha(src, pe)))
    b = T.body_nodoc(pe)
    # two accepted forms: an edge is dropped when it is invalid; or when it is invalid or was already declared (the first
    # declaration is kept)
    dedupe = False
    if len(b) == 7 and [ast.unparse(x) for x in b[2:4]] == ["seen = set()", "keep = []"]:
        lp = b[4]
        if not (isinstance(lp, ast.For) and ast.unparse(lp.iter) == "self.edges" and ast.unparse(lp.target) == "(a, b)"
                and [ast.unparse(x) for x in lp.body] == ["key = utils.keyify(int(a), int(b))",
                                                          "keep.append(is_valid(a, b) and key not in seen)",
                                                          "if keep[-1]:\n    seen.add(key)"]
                and ast.unparse(b[5]) == "edges_invalid = not all(keep)"):
            T.fail(MD, pe, "_prepare_edges: the keep-flag loop has an unexpected shape")
        dedupe = True
        b = [b[0], b[1], None, b[6]]
    if not (len(b) == 4 and ast.unparse(b[0]) == "N = len(self.vertices)" and isinstance(b[1], ast.FunctionDef)
            and b[1].name == "is_valid" and isinstance(b[3], ast.If)):
        T.fail(MD, pe, "_prepare_edges: unexpected structure")
    defs.append("(* is an edge whose (keyified) pair was already declared dropped *)\n"
                "Definition edges_dedupe : bool := %s." % ("true" if dedupe else "false"))
    iv = b[1]
    a0, a1 = [a.arg for a in iv.args.args]
    ib = T.body_nodoc(iv)
    if not (len(ib) == 1 and isinstance(ib[0], ast.Return)):
        T.fail(MD, iv, "is_valid is not a single return")
    tr = Tr(MD, {a0: "a", a1: "b", "N": "N"})
    defs.append("(* _prepare_edges.is_valid *)\nDefinition edge_valid (a b N : Z) : bool := %s." % tr.b(ib[0].value))
    if b[2] is not None and ast.unparse(b[2]) != "edges_invalid = any((not is_valid(a, b) for a, b in self.edges))":
        T.fail(MD, b[2], "edges_invalid is not `any(not is_valid(a,b) for a,b in self.edges)`")
    br = b[3]
    if ast.unparse(br.test) != "edges_invalid":
        T.fail(MD, br, "_prepare_edges: branch is not on edges_invalid")
    # else branch: keyify in place
    eb = br.orelse
    if not (len(eb) == 1 and isinstance(eb[0], ast.For) and ast.unparse(eb[0].iter) == "self.id_edges"
            and [ast.unparse(x) for x in eb[0].body] ==
            ["a, b = self.edges[%s]" % eb[0].target.id, "self.edges[%s] = utils.keyify(int(a), int(b))" % eb[0].target.id]):
        T.fail(MD, br, "_prepare_edges: else branch is not the in-place keyify of every edge")
    # then branch: rebuild
    tb = br.body
    txt = [ast.unparse(s) for s in tb]
    if not (len(tb) == 7 and sorted(txt[:3]) == sorted(["new_edges = DataContainer(id='edges')", "new_attrs = dict()",
                                                       "old_attrs = dict()"])
            and isinstance(tb[3], ast.For) and txt[4] == "n = 0"
            and isinstance(tb[5], ast.For) and txt[6] == "self.edges = new_edges"):
        T.fail(MD, br, "_prepare_edges: rebuild branch has an unexpected shape")
    fa = tb[3]
    fat = [ast.unparse(s) for s in fa.body]
    if not (ast.unparse(fa.iter) == "self.edges.attributes" and fa.target.id == "attr_name" and len(fat) in (2, 3)
            and fat[0] == "old_attrs[attr_name] = self.edges.get_attribute(attr_name)"
            and fat[1] == "new_attrs[attr_name] = new_edges.create_attribute(attr_name, old_attrs[attr_name].type, old_attrs[attr_name].elemsize)"):
        T.fail(MD, fa, "_prepare_edges: attribute re-creation loop has an unexpected shape")
    keeps_default = False
    if len(fat) == 3:
        if fat[2] != "new_attrs[attr_name]._default_value = old_attrs[attr_name]._default_value":
            T.fail(MD, fa.body[2], "_prepare_edges: unexpected statement in the attribute re-creation loop")
        keeps_default = True
    defs.append("(* does the rebuilt attribute inherit the default value of the old one *)\n"
                "Definition reindex_keeps_default : bool := %s." % ("true" if keeps_default else "false"))
    fe = tb[5]
    if not (ast.unparse(fe.iter) == "self.id_edges" and fe.target.id == "ie" and len(fe.body) == 2
            and ast.unparse(fe.body[0]) == "a, b = self.edges[ie]" and isinstance(fe.body[1], ast.If)
            and ast.unparse(fe.body[1].test) == ("keep[ie]" if dedupe else "is_valid(a, b)") and not fe.body[1].orelse):
        T.fail(MD, fe, "_prepare_edges: edge loop has an unexpected shape")
    ib2 = fe.body[1].body
    if not (len(ib2) == 3 and ast.unparse(ib2[0]) == "new_edges.append(utils.keyify(int(a), int(b)))"
            and isinstance(ib2[1], ast.For) and ast.unparse(ib2[2]) == "n += 1"):
        T.fail(MD, fe.body[1], "_prepare_edges: valid-edge block has an unexpected shape")
    fn = ib2[1]
    if not (ast.unparse(fn.iter) == "new_attrs" and fn.target.id == "name" and len(fn.body) == 1
            and isinstance(fn.body[0], ast.If) and not fn.body[0].orelse and len(fn.body[0].body) == 1
            and ast.unparse(fn.body[0].body[0]) == "new_attrs[name][n] = old_attrs[name][ie]"):
        T.fail(MD, fn, "_prepare_edges: attribute copy has an unexpected shape")
    trk = Tr(MD, {"isinstance(old_attrs[name], ArrayAttribute)": "dense", "ie in old_attrs[name]._data": "has",
                  "ie in old_attrs[name]": "has_legacy"})
    keep = trk.b(fn.body[0].test)
    if "has_legacy" in keep:
        raise TranslationError(MD + ":%d: the keep-test `ie in <attribute>` iterates the attribute (keys of a sparse one, "
                               "*values* of a dense one): not expressible in the model" % fn.body[0].lineno)
    defs.append("(* which entries of an old attribute are copied to the rebuilt one (dense: isinstance ArrayAttribute; has: the index is a stored key) *)\n"
                "Definition attr_keep (dense has : bool) : bool := %s." % keep)

    # --- _generate_face_corners
    f = fdef(tree, "RawMeshData._generate_face_corners", MD)
    parts.append(("RawMeshData._generate_face_corners", T.sha(src, f)))
    b = T.body_nodoc(f)
    if len(b) == 2 and ast.unparse(b[0]) == "nc = len(self.face_corners)" and isinstance(b[1], ast.If):
        b = [b[0], None, b[1]]    # a guard that does not look at the number of face-vertex incidences (nf unused)
    if not (len(b) == 3 and ast.unparse(b[0]) == "nc = len(self.face_corners)"
            and (b[1] is None or ast.unparse(b[1]) == "nf = sum([len(f) for f in self.faces])")
            and isinstance(b[2], ast.If) and not b[2].orelse):
        T.fail(MD, f, "_generate_face_corners: unexpected structure")
    defs.append("Definition fc_regen (nc nf : Z) : bool := %s."
                % Tr(MD, {"nc": "nc", "nf": "nf"} if b[1] is not None else {"nc": "nc"}).b(b[2].test))
    ib = b[2].body
    if not (len(ib) == 3 and sorted(ast.unparse(x) for x in ib[:2]) == ["self.face_corners._adj = []", "self.face_corners._elem = []"]
            and isinstance(ib[2], ast.For) and ast.unparse(ib[2].iter) == "enumerate(self.faces)"):
        T.fail(MD, b[2], "_generate_face_corners: regeneration block has an unexpected shape")
    lo = ib[2]
    iF, F = [n.id for n in lo.target.elts]
    if not (len(lo.body) == 1 and isinstance(lo.body[0], ast.For) and ast.unparse(lo.body[0].iter) == F
            and len(lo.body[0].body) == 1 and _expr_call(lo.body[0].body[0], "self.face_corners.append", 2)):
        T.fail(MD, lo, "_generate_face_corners: loops have an unexpected shape")
    v = lo.body[0].target.id
    args = [ast.unparse(a) for a in lo.body[0].body[0].value.args]
    m = {v: "v", iF: "owner"}
    if not set(args) <= set(m):
        T.fail(MD, lo, "_generate_face_corners: append arguments are not (vertex, face index)")
    defs.append("Definition fc_record (v owner : Z) : Z * Z := corner_append %s %s." % (m[args[0]], m[args[1]]))

    # --- _generate_cell_corners
    f = fdef(tree, "RawMeshData._generate_cell_corners", MD)
    parts.append(("RawMeshData._generate_cell_corners", T.sha(src, f)))
    b = T.body_nodoc(f)
    if not (len(b) == 3 and ast.unparse(b[0]) == "nce = len(self.cell_corners._elem)"
            and ast.unparse(b[1]) == "nca = len(self.cell_corners._adj)" and isinstance(b[2], ast.If) and not b[2].orelse
            and len(b[2].body) == 1 and isinstance(b[2].body[0], ast.If)):
        T.fail(MD, f, "_generate_cell_corners: unexpected structure")
    trn = Tr(MD, {"nce": "nce", "nca": "nca"})
    defs.append("Definition cc_regen (nce nca : Z) : bool := %s." % trn.b(b[2].test))
    inner = b[2].body[0]
    defs.append("Definition cc_adj_only (nce nca : Z) : bool := %s." % trn.b(inner.test))
    ao = inner.body
    if not (len(ao) == 2 and ast.unparse(ao[0]) == "self.cell_corners._adj = []" and isinstance(ao[1], ast.For)
            and ast.unparse(ao[1].iter) == "enumerate(self.cells)" and len(ao[1].body) == 1
            and isinstance(ao[1].body[0], ast.AugAssign) and isinstance(ao[1].body[0].op, ast.Add)):
        T.fail(MD, inner, "_generate_cell_corners: adjacency-only branch has an unexpected shape")
    iC, C = [n.id for n in ao[1].target.elts]
    aug = ao[1].body[0]
    if ast.unparse(aug.value) != "[%s] * len(%s)" % (iC, C):
        T.fail(MD, aug, "_generate_cell_corners: adjacency-only branch does not append [iC]*len(C)")
    tg = ast.unparse(aug.target)
    if tg == "self.cell_corners._elem":
        defs.append("(* the adjacency-only branch appends the owners to _elem (as the source does) *)\n"
                    "Definition cc_adj_only_result (elem owners : list Z) : list Z * list Z := (elem ++ owners, []).")
    elif tg == "self.cell_corners._adj":
        defs.append("Definition cc_adj_only_result (elem owners : list Z) : list Z * list Z := (elem, owners).")
    else:
        T.fail(MD, aug, "_generate_cell_corners: unexpected target")
    bo = inner.orelse
    if not (len(bo) == 3 and sorted(ast.unparse(x) for x in bo[:2]) == ["self.cell_corners._adj = []", "self.cell_corners._elem = []"]
            and isinstance(bo[2], ast.For) and ast.unparse(bo[2].iter) == "enumerate(self.cells)"):
        T.fail(MD, inner, "_generate_cell_corners: full regeneration has an unexpected shape")
    lo = bo[2]
    iC, C = [n.id for n in lo.target.elts]
    if not (len(lo.body) == 1 and isinstance(lo.body[0], ast.For) and ast.unparse(lo.body[0].iter) == C
            and len(lo.body[0].body) == 1 and _expr_call(lo.body[0].body[0], "self.cell_corners.append", 2)):
        T.fail(MD, lo, "_generate_cell_corners: loops have an unexpected shape")
    v = lo.body[0].target.id
    args = [ast.unparse(a) for a in lo.body[0].body[0].value.args]
    m = {v: "v", iC: "owner"}
    if not set(args) <= set(m):
        T.fail(MD, lo, "_generate_cell_corners: append arguments are not (vertex, cell index)")
    defs.append("Definition cc_record (v owner : Z) : Z * Z := corner_append %s %s." % (m[args[0]], m[args[1]]))

    # --- _generate_cell_faces
    f = fdef(tree, "RawMeshData._generate_cell_faces", MD)
    parts.append(("RawMeshData._generate_cell_faces", T.sha(src, f)))
    b = T.body_nodoc(f)
    if not (len(b) == 3 and ast.unparse(b[0]) == "nce = len(self.cell_faces._elem)"
            and ast.unparse(b[1]) == "nca = len(self.cell_faces._adj)" and isinstance(b[2], ast.If) and not b[2].orelse):
        T.fail(MD, f, "_generate_cell_faces: unexpected structure")
    defs.append("Definition cf_regen (nce nca : Z) : bool := %s." % trn.b(b[2].test))
    ib = b[2].body
    # two accepted forms: ids/owners appended to the container as they are found, or collected in local lists that are
    # committed after the loop (then a missing face - KeyError - leaves the container untouched)
    atomic = False
    if (len(ib) == 6 and ast.unparse(ib[2]) == "new_elem, new_adj = ([], [])"
            and ast.unparse(ib[4]) == "self.cell_faces._elem += new_elem" and ast.unparse(ib[5]) == "self.cell_faces._adj += new_adj"):
        atomic = True
        ib = [ib[0], ib[1], ib[3]]
    if not (len(ib) == 3 and ast.unparse(ib[0]) == "face_id = dict()" and isinstance(ib[1], ast.For) and isinstance(ib[2], ast.For)):
        T.fail(MD, b[2], "_generate_cell_faces: unexpected block structure")
    defs.append("(* are the new ids / owners committed only after every face was found *)\n"
                "Definition cf_atomic : bool := %s." % ("true" if atomic else "false"))
    tgt_e, tgt_a = ("new_elem", "new_adj") if atomic else ("self.cell_faces._elem", "self.cell_faces._adj")
    l1 = ib[1]
    if not (ast.unparse(l1.iter) == "enumerate(self.faces)" and [ast.unparse(s) for s in l1.body] ==
            ["key = utils.keyify(%s)" % l1.target.elts[1].id, "face_id[key] = %s" % l1.target.elts[0].id]):
        T.fail(MD, l1, "_generate_cell_faces: face_id inversion has an unexpected shape (last face with a key wins)")
    l2 = ib[2]
    if not (ast.unparse(l2.iter) == "enumerate(self.cells)" and len(l2.body) == 2 and isinstance(l2.body[1], ast.For)
            and ast.unparse(l2.body[1].iter) == "faces_C"):
        T.fail(MD, l2, "_generate_cell_faces: cell loop has an unexpected shape")
    iC, C = [n.id for n in l2.target.elts]
    trc = Tr(MD, {"len(%s)" % C: "lenC"})
    defs.append("(* _generate_cell_faces: faces of one cell; None when no arity branch applies (the source then reuses a stale / unbound faces_C) *)\n"
                "Definition gcf_cell_faces (%s : list Z) : option (list (list Z)) :=\n  let lenC := Z.of_nat (length %s) in\n  %s."
                % (C, C, _cell_table_chain(MD, l2.body[0], C, trc, "None")))
    face = l2.body[1].target.id
    put = {"elem": None, "adj": None}
    for s in l2.body[1].body:
        cond = "true"
        st = s
        if isinstance(s, ast.If):
            if s.orelse or len(s.body) != 1:
                T.fail(MD, s, "_generate_cell_faces: unexpected conditional")
            cond = trn.b(s.test)
            st = s.body[0]
        u = ast.unparse(st)
        if u == "%s.append(face_id[utils.keyify(%s)])" % (tgt_e, face):
            k = "elem"
        elif u == "%s.append(%s)" % (tgt_a, iC):
            k = "adj"
        else:
            T.fail(MD, st, "_generate_cell_faces: unexpected statement in the face loop")
        if put[k] is not None:
            T.fail(MD, st, "_generate_cell_faces: %s appended twice" % k)
        put[k] = cond
    defs.append("Definition cf_put_elem (nce nca : Z) : bool := %s." % (put["elem"] or "false"))
    defs.append("Definition cf_put_adj (nce nca : Z) : bool := %s." % (put["adj"] or "false"))

    # --- _complete_edges_from_faces
    f = fdef(tree, "RawMeshData._complete_edges_from_faces", MD)
    parts.append(("RawMeshData._complete_edges_from_faces", T.sha(src, f)))
    b = T.body_nodoc(f)
    if not (len(b) >= 4 and ast.unparse(b[0]) == "if self.faces.empty():\n    return"):
        T.fail(MD, f, "_complete_edges_from_faces does not start with `if self.faces.empty(): return`")
    mid = b[1:-2]
    guarded = False
    if len(mid) == 1 and isinstance(mid[0], ast.If):
        if ast.unparse(mid[0].test) != "not self.edges.has_attribute('hard_edges')" or mid[0].orelse:
            T.fail(MD, mid[0], "_complete_edges_from_faces: unexpected guard of the hard-edge flags")
        guarded = True
        mid = mid[0].body
    if not (len(mid) == 2 and ast.unparse(mid[0]) == "hard_edges = self.edges.create_attribute('hard_edges', bool)"
            and isinstance(mid[1], ast.For) and ast.unparse(mid[1].iter) == "self.id_edges" and len(mid[1].body) == 1):
        T.fail(MD, f, "_complete_edges_from_faces: hard-edge creation has an unexpected shape")
    fl = mid[1].body[0]
    if not (isinstance(fl, ast.Assign) and ast.unparse(fl.targets[0]) == "hard_edges[%s]" % mid[1].target.id
            and isinstance(fl.value, ast.Constant) and isinstance(fl.value.value, bool)):
        T.fail(MD, fl, "_complete_edges_from_faces: flag assignment has an unexpected shape")
    defs.append("(* hard edges: flags are (re)written only when the attribute is absent? ; value written for every declared edge *)\n"
                "Definition hard_guarded : bool := %s.\nDefinition hard_value : Z := %d."
                % ("true" if guarded else "false", 1 if fl.value.value else 0))
    if ast.unparse(b[-2]) != "edge_set = set([utils.keyify(e) for e in self.edges])":
        T.fail(MD, b[-2], "_complete_edges_from_faces: edge_set has an unexpected shape")
    lo = b[-1]
    if not (isinstance(lo, ast.For) and ast.unparse(lo.iter) == "self.faces" and len(lo.body) == 2
            and ast.unparse(lo.body[0]) == "nf = len(%s)" % lo.target.id and isinstance(lo.body[1], ast.For)
            and ast.unparse(lo.body[1].iter) == "range(nf)" and len(lo.body[1].body) == 2):
        T.fail(MD, lo, "_complete_edges_from_faces: face loop has an unexpected shape")
    fv, iv_ = lo.target.id, lo.body[1].target.id
    ea = lo.body[1].body[0]
    call = _assign(ea, "edge")
    if not (call is not None and _is_call(call, "utils.keyify", 2) and all(
            isinstance(a, ast.Subscript) and ast.unparse(a.value) == fv for a in call.args)):
        T.fail(MD, ea, "_complete_edges_from_faces: edge is not keyify(f[..], f[..])")
    tri = Tr(MD, {iv_: "i", "nf": "nf"})
    defs.append("(* the two positions of side i of a face with nf vertices *)\n"
                "Definition side_a (i nf : Z) : Z := %s.\nDefinition side_b (i nf : Z) : Z := %s."
                % (tri.z(call.args[0].slice), tri.z(call.args[1].slice)))
    ins = lo.body[1].body[1]
    if not (isinstance(ins, ast.If) and not ins.orelse and ast.unparse(ins.test) == "edge not in edge_set"
            and sorted(ast.unparse(x) for x in ins.body) == ["edge_set.add(edge)", "self.edges.append(edge)"]):
        T.fail(MD, lo.body[1].body[1], "_complete_edges_from_faces: insertion test has an unexpected shape")

    # --- _complete_faces_from_cells
    f = fdef(tree, "RawMeshData._complete_faces_from_cells", MD)
    parts.append(("RawMeshData._complete_faces_from_cells", T.sha(src, f)))
    b = T.body_nodoc(f)
    if not (len(b) == 3 and ast.unparse(b[0]) == "if self.cells.empty():\n    return"
            and ast.unparse(b[1]) == "face_set = set([utils.keyify(f) for f in self.faces])"
            and isinstance(b[2], ast.For) and ast.unparse(b[2].iter) == "self.cells" and len(b[2].body) == 3):
        T.fail(MD, f, "_complete_faces_from_cells: unexpected structure")
    C = b[2].target.id
    if ast.unparse(b[2].body[0]) != "faces_C = []":
        T.fail(MD, b[2].body[0], "_complete_faces_from_cells: faces_C is not reset for every cell")
    trc = Tr(MD, {"len(%s)" % C: "lenC"})
    defs.append("(* _complete_faces_from_cells: faces of one cell ([] for any other arity) *)\n"
                "Definition cfc_cell_faces (%s : list Z) : list (list Z) :=\n  let lenC := Z.of_nat (length %s) in\n  %s."
                % (C, C, _cell_table_chain(MD, b[2].body[1], C, trc, "[]")))
    lf = b[2].body[2]
    if not (isinstance(lf, ast.For) and ast.unparse(lf.iter) == "faces_C" and ast.unparse(lf.target) == "face" and len(lf.body) == 2
            and ast.unparse(lf.body[0]) == "face_key = utils.keyify(face)" and isinstance(lf.body[1], ast.If)
            and not lf.body[1].orelse and ast.unparse(lf.body[1].test) == "face_key not in face_set"
            and sorted(ast.unparse(x) for x in lf.body[1].body) == ["face_set.add(face_key)", "self.faces.append(face)"]):
        T.fail(MD, b[2].body[2], "_complete_faces_from_cells: insertion loop has an unexpected shape")

    # --- _compute_dimensionality
    f = fdef(tree, "RawMeshData._compute_dimensionality", MD)
    parts.append(("RawMeshData._compute_dimensionality", T.sha(src, f)))
    b = T.body_nodoc(f)
    if len(b) != 1 or not isinstance(b[0], ast.If):
        T.fail(MD, f, "_compute_dimensionality is not one if-chain")
    trd = Tr(MD, {"self.cells.empty()": "cells_empty", "self.faces.empty()": "faces_empty", "self.edges.empty()": "edges_empty"})

    def dimchain(node):
        def val(stmts):
            if len(stmts) == 1 and _assign(stmts[0], "self._dimensionality") is not None and isinstance(stmts[0].value, ast.Constant) \
                    and isinstance(stmts[0].value.value, int):
                return "%d" % stmts[0].value.value
            return None
        v = val(node.body)
        if v is None:
            T.fail(MD, node, "_compute_dimensionality: branch does not set a constant")
        if len(node.orelse) == 1 and isinstance(node.orelse[0], ast.If):
            rest = dimchain(node.orelse[0])
        else:
            rest = val(node.orelse)
            if rest is None:
                T.fail(MD, node, "_compute_dimensionality: else branch does not set a constant")
        return "if %s then %s else %s" % (trd.b(node.test), v, rest)
    defs.append("Definition dimensionality (cells_empty faces_empty edges_empty : bool) : Z :=\n  %s." % dimchain(b[0]))

    # ------------------------------------------------------------------ mesh.py
    src, tree = T.load(MM)
    f = fdef(tree, "_instanciate_raw_mesh_data", MM)
    parts.append(("_instanciate_raw_mesh_data", T.sha(src, f)))
    b = T.body_nodoc(f)
    p0, p1 = [a.arg for a in f.args.args]
    if not (len(b) >= 4 and ast.unparse(b[0]) == "%s.prepare()" % p0 and isinstance(b[1], ast.If)
            and ast.unparse(b[1].test) == "%s is None" % p1 and len(b[1].body) == 1 and not b[1].orelse):
        T.fail(MM, f, "_instanciate_raw_mesh_data: unexpected head")
    dv = _assign(b[1].body[0], p1)
    tz = Tr(MM, {p1: "dim", "%s.dimensionality" % p0: "d"})
    if dv is None:
        T.fail(MM, b[1], "_instanciate_raw_mesh_data: default of dim")
    defs.append("Definition inst_default : Z := %s." % tz.z(dv))
    mx = _assign(b[2], p1)
    if not (mx is not None and _is_call(mx, "max", 2)):
        T.fail(MM, b[2], "_instanciate_raw_mesh_data: dim is not max(dim, dimensionality)")
    defs.append("Definition inst_dim (dim d : Z) : Z := Z.max %s %s." % (tz.z(mx.args[0]), tz.z(mx.args[1])))
    CLS = {"PointCloud": 0, "PolyLine": 1, "SurfaceMesh": 2, "VolumeMesh": 3}
    chain = ""
    for s in b[3:]:
        if not (isinstance(s, ast.If) and not s.orelse and len(s.body) == 1 and isinstance(s.body[0], ast.Return)
                and isinstance(s.body[0].value, ast.Call) and T.dotted(s.body[0].value.func) in CLS
                and [ast.unparse(a) for a in s.body[0].value.args] == [p0] and not s.body[0].value.keywords):
            T.fail(MM, s, "_instanciate_raw_mesh_data: unexpected class selection statement")
        chain += "if %s then Some %d else " % (tz.b(s.test), CLS[T.dotted(s.body[0].value.func)])
    defs.append("(* class codes: 0 PointCloud, 1 PolyLine, 2 SurfaceMesh, 3 VolumeMesh; None = the function falls through *)\n"
                "Definition class_of (dim : Z) : option Z := %sNone." % chain)

    f = fdef(tree, "from_arrays", MM)
    parts.append(("from_arrays", T.sha(src, f)))
    b = T.body_nodoc(f)
    txt = [ast.unparse(s) for s in b]
    if not (len(b) == 9 and txt[0] == "m = RawMeshData()" and isinstance(b[1], ast.If) and txt[2] == "n_vert = V.shape[0]"
            and _rows_added(b[3], "m.vertices", "V") and txt[7] == "if raw:\n    return m"
            and txt[8] == "return _instanciate_raw_mesh_data(m)"):
        T.fail(MM, f, "from_arrays: unexpected structure")
    tw = Tr(MM, {"V.shape[1]": "w"})
    s1 = b[1]
    pad = _assign(s1.body[0], "V") if len(s1.body) == 1 else None
    if not (pad is not None and _is_call(pad, "np.pad", 2) and ast.unparse(pad.args[0]) == "V"
            and isinstance(pad.args[1], ast.Tuple) and len(pad.args[1].elts) == 2
            and ast.unparse(pad.args[1].elts[0]) == "(0, 0)" and isinstance(pad.args[1].elts[1], ast.Tuple)
            and len(pad.args[1].elts[1].elts) == 2 and ast.unparse(pad.args[1].elts[1].elts[0]) == "0"):
        T.fail(MM, s1, "from_arrays: padding has an unexpected shape")
    if not (len(s1.orelse) == 1 and isinstance(s1.orelse[0], ast.If) and not s1.orelse[0].orelse
            and len(s1.orelse[0].body) == 1 and isinstance(s1.orelse[0].body[0], ast.Raise)):
        T.fail(MM, s1, "from_arrays: width check has an unexpected shape")
    defs.append("Definition fa_pad_needed (w : Z) : bool := %s.\nDefinition fa_pad_amount (w : Z) : Z := %s.\n"
                "Definition fa_width_bad (w : Z) : bool := %s."
                % (tw.b(s1.test), tw.z(pad.args[1].elts[1].elts[1]), tw.b(s1.orelse[0].test)))
    bad = []
    for s, arr, cont in ((b[4], "E", "edges"), (b[5], "F", "faces"), (b[6], "C", "cells")):
        if not (isinstance(s, ast.If) and ast.unparse(s.test) == "%s is not None" % arr and not s.orelse and len(s.body) >= 2
                and _rows_added(s.body[-1], "m.%s" % cont, arr)):
            T.fail(MM, s, "from_arrays: block for %s has an unexpected shape" % arr)
        chk = s.body[0]
        if not (isinstance(chk, ast.If) and isinstance(chk.body[0], ast.Raise) and _is_call(chk.test, "np.any", 1)
                and isinstance(chk.test.args[0], ast.Compare) and ast.unparse(chk.test.args[0].left) == "np.asarray(%s)" % arr):
            T.fail(MM, chk, "from_arrays: index check for %s has an unexpected shape" % arr)
        cmp_ = chk.test.args[0]
        bad.append(Tr(MM, {"np.asarray(%s)" % arr: "x", "n_vert": "n"}).b(cmp_))
        for extra in s.body[1:-1]:
            if not (isinstance(extra, ast.If) and isinstance(extra.body[0], ast.Raise) and "shape[1]" in ast.unparse(extra.test)):
                T.fail(MM, extra, "from_arrays: unexpected statement")
    defs.append("(* an index x of the edge / face / cell array is rejected when ... (n = number of vertices) *)\n"
                "Definition fa_edge_index_bad (x n : Z) : bool := %s.\nDefinition fa_face_index_bad (x n : Z) : bool := %s.\n"
                "Definition fa_cell_index_bad (x n : Z) : bool := %s." % tuple(bad))

    # ------------------------------------------------------------------ datatypes/base.py
    src, tree = T.load(MB)
    f = fdef(tree, "Mesh.__init__", MB)
    parts.append(("Mesh.__init__", T.sha(src, f)))
    b = T.body_nodoc(f)
    if not (len(b) == 5 and isinstance(b[0], ast.If) and ast.unparse(b[0].test) == "data is None"
            and ast.unparse(b[0].orelse[0]) == "data.prepare()" and ast.unparse(b[1]) == "self.vertices = data.vertices"):
        T.fail(MB, f, "Mesh.__init__: unexpected structure")
    tdm = Tr(MB, {"dim": "dim"})
    want = [("edges", ["edges"]), ("faces", ["faces", "face_corners"]), ("cells", ["cells", "cell_corners", "cell_faces"])]
    for s, (nm, conts) in zip(b[2:], want):
        if not (isinstance(s, ast.If) and not s.orelse and [ast.unparse(x) for x in s.body] ==
                ["self.%s = data.%s" % (c, c) for c in conts]):
            T.fail(MB, s, "Mesh.__init__: exposure of %s has an unexpected shape" % nm)
        defs.append("Definition mesh_has_%s (dim : Z) : bool := %s." % (nm, tdm.b(s.test)))

    out = T.header("C02: normalisation of raw mesh data (decision expressions, tables, guards, step order)", parts)
    out += ("From Coq Require Import ZArith List Bool.\nImport ListNotations.\nRequire Import MV.C02.Defs.\n"
            "Open Scope Z_scope.\n\n" + "\n\n".join(defs) + "\n")
    return {"C02/Gen.v": out}
